import ScriggoV.Basic.Bytes
import ScriggoV.Gen.GrowthGuards
/-! C05 — one register stack of the virtual machine as (length, frame pointer) under the
events that move the frame pointer or read a window of the stack
(`internal/runtime/run.go`: OpCallFunc, OpCallIndirect, OpCallMacro, OpTailCall, OpDefer,
OpReturn, OpRecover, the panic path of `runFunc`; `vm.go`: `nextCall`, `swapStack`,
`growStack`, `more*Stack`, `startGoroutine`, `callNative`; `registers.go`: `regs[fp + r]`).

The four stacks (int, float, string, general) run the same code on their own
`(len, fp, NumReg)`; the model is one stack, with the stack number only selecting the guard
comparisons regenerated in `Gen/GrowthGuards.lean`. Registers are 1-based: register `r` of the
running function is `regs[fp + r]`, `1 ≤ r ≤ NumReg ≤ 127`, so an access faults exactly when
`fp + r ≥ len`.

Hand-written from the Go code. Deviations, all stated: `tailed` frames are not pushed (the
compiler never emits OpTailCall: `Gen.GrowthGuards.tailCallEmitters = 0`); a deferred native
call is an access to the registers of its arguments and does not itself panic (a panic inside
it is exercised by the harness on the real code only); `Addr` arithmetic is on `Nat`, a
subtraction that would wrap in `uint32` is the fault `.other`. Core Lean only. -/
namespace ScriggoV.RegStack
open ScriggoV.Gen.GrowthGuards (Cmp Site GoUpper)

/-- what the model takes from the code, for one stack -/
structure Config where
  cmp : Site → Option Cmp   -- comparison of the growth guard at a site (`none`: no guard)
  factor : Nat              -- more*Stack: new length = factor * old length
  deferGrows : Bool         -- OpDefer calls growStack after swapStack
  nextCallGrows : Bool      -- nextCall calls growStack for the function it activates
  goUpper : GoUpper         -- startGoroutine's upper slice bound
  initLen : Nat             -- stackSize

/-- the configuration the code has now, for stack `k` -/
def codeConfig (k : Nat) : Config where
  cmp := fun s => Gen.GrowthGuards.cmpAt s k
  factor := Gen.GrowthGuards.growFactor k
  deferGrows := Gen.GrowthGuards.deferGrows
  nextCallGrows := Gen.GrowthGuards.nextCallGrows
  goUpper := Gen.GrowthGuards.goUpper k
  initLen := Gen.GrowthGuards.stackSize

def cmpHolds : Cmp → Nat → Nat → Bool
  | .gt, a, b => decide (a > b)
  | .ge, a, b => decide (a ≥ b)
  | .lt, a, b => decide (a < b)
  | .le, a, b => decide (a ≤ b)
  | .eq, a, b => decide (a = b)
  | .ne, a, b => decide (a ≠ b)

/-- `if lhs OP vm.st[k] { vm.more<K>Stack() }`: the new length -/
def grow (c : Config) (site : Site) (lhs len : Nat) : Nat :=
  match c.cmp site with
  | some cmp => if cmpHolds cmp lhs len then len * c.factor else len
  | none => len

inductive Status where
  | started | returned | deferred | panicked | recovered
  deriving DecidableEq, Repr

/-- a call frame, as far as this stack is concerned -/
structure Frame where
  status : Status
  fp : Nat
  /-- NumReg of the function the frame resumes; for a `deferred` frame, of the deferred callee -/
  n : Nat
  /-- `deferred` only: the callee is a native function (called in place by `nextCall`) -/
  native : Bool := false
  /-- `deferred` native only: it reads/writes the registers `fp+1 … fp+args` -/
  args : Nat := 0
  deriving DecidableEq, Repr

/-- the running function's window and the call stack (top first) -/
structure St where
  len : Nat
  fp : Nat
  n : Nat
  calls : List Frame
  halted : Bool := false
  deriving DecidableEq, Repr

def init (c : Config) (n0 : Nat) : St := { len := c.initLen, fp := 0, n := n0, calls := [] }

/-- `swapStack(a, b, bs)` on this stack: the new length, or the fault of its slice expressions
`s := regs[a+1:]`, `s[:tot]`, `s[tot:tot+bs]`. The pointers become `a + bs` and `a`. -/
def swapStack (c : Config) (len a b bs : Nat) : Except Fault Nat :=
  if b < a then .error .other
  else
    let as := b - a
    if as > 0 ∧ bs > 0 then
      let tot := as + bs
      let len := grow c .swapStack (a + tot + bs) len
      if a + 1 + tot + bs ≤ len then .ok len else .error .slice
    else .ok len

/-- `growStack` as called by `nextCall` for the function it activates at `fp` -/
def activate (c : Config) (len fp n : Nat) : Nat :=
  if c.nextCallGrows then grow c .growStack (fp + n) len else len

/-- a deferred native function called in place with its arguments at `fp+1 … fp+args` -/
def nativeArgsOk (len fp args : Nat) : Bool := args == 0 || decide (fp + args < len)

/-- how `nextCall` ends: `true` with a function to run, or `false` (the run is over) -/
inductive Next where
  | resume (st : St)
  | finished (st : St)
  deriving Repr

/-- the three numbers `nextCall` carries along -/
structure Cur where
  len : Nat
  fp : Nat
  n : Nat

/-- `nextCall`, `case panicked`: walk down to the nearest deferred frame; `above` is the
frame directly above the position looked at -/
def fromPanicked (c : Config) (m : Cur) (above : Frame) : List Frame → Except Fault Next
  | [] => .ok (.finished { len := m.len, fp := m.fp, n := m.n, calls := [], halted := true })
  | g :: rest =>
    if g.status = .deferred then
      let F := { above with status := .panicked }
      if g.native then
        if nativeArgsOk m.len g.fp g.args then fromPanicked c { m with fp := g.fp } F rest
        else .error .index
      else
        .ok (.resume { len := activate c m.len g.fp g.n, fp := g.fp, n := g.n, calls := F :: rest })
    else fromPanicked c m g rest

/-- `nextCall`, `case returned, recovered` for the frame `R` with `rest` below it -/
def fromReturned (c : Config) (m : Cur) (R : Frame) : List Frame → Except Fault Next
  | [] =>
    -- finalize R's result registers, then nothing is left
    if R.fp + R.n < m.len then
      .ok (.finished { len := m.len, fp := R.fp, n := m.n, calls := [], halted := true })
    else .error .index
  | g :: rest =>
    if g.status = .deferred then
      -- vm.swapStack(&prev.fp, &call.fp, call.cl.fn.NumReg); the deferred call runs next
      match swapStack c m.len g.fp R.fp R.n with
      | .error f => .error f
      | .ok len =>
        let R' := { R with fp := g.fp }
        let dfp := g.fp + R.n
        if g.native then
          if nativeArgsOk len dfp g.args then fromReturned c { len := len, fp := dfp, n := m.n } R' rest
          else .error .index
        else
          .ok (.resume { len := activate c len dfp g.n, fp := dfp, n := g.n, calls := R' :: rest })
    else if R.fp + R.n < m.len then
      -- finalize R, then the frame below
      let m := { m with fp := R.fp }
      match g.status with
      | .started => .ok (.resume { len := activate c m.len g.fp g.n, fp := g.fp, n := g.n, calls := rest })
      | .returned | .recovered => fromReturned c m g rest
      | .panicked => fromPanicked c m g rest
      | .deferred => .error .other
    else .error .index

/-- `nextCall` -/
def nextCall (c : Config) (m : Cur) : List Frame → Except Fault Next
  | [] => .ok (.finished { len := m.len, fp := m.fp, n := m.n, calls := [], halted := true })
  | f :: rest =>
    match f.status with
    | .started => .ok (.resume { len := activate c m.len f.fp f.n, fp := f.fp, n := f.n, calls := rest })
    | .deferred =>
      -- current := {fn: vm.fn, fp: vm.fp, returned}; vm.swapStack(&call.fp, &current.fp, NumReg)
      match swapStack c m.len f.fp m.fp m.n with
      | .error e => .error e
      | .ok len =>
        let R : Frame := { status := .returned, fp := f.fp, n := m.n }
        let dfp := f.fp + m.n
        if f.native then
          if nativeArgsOk len dfp f.args then fromReturned c { len := len, fp := dfp, n := m.n } R rest
          else .error .index
        else
          .ok (.resume { len := activate c len dfp f.n, fp := dfp, n := f.n, calls := R :: rest })
    | .returned | .recovered => fromReturned c m f rest
    | .panicked => fromPanicked c m f rest

def Next.st : Next → St
  | .resume st => st
  | .finished st => st

inductive CallKind where
  | func | indirect | macro
  deriving DecidableEq, Repr

def CallKind.site : CallKind → Site
  | .func => .callFunc
  | .indirect => .callIndirect
  | .macro => .callMacro

/-- what happens to the stack, in the order in which the program makes it happen -/
inductive Event where
  /-- OpCallFunc / OpCallIndirect (Scriggo callee) / OpCallMacro: stack shift `off`, callee NumReg `m` -/
  | call (kind : CallKind) (off m : Nat)
  /-- OpTailCall to a function with NumReg `m` -/
  | tailCall (m : Nat)
  /-- OpDefer: stack shift `off`, `bs` argument registers, callee NumReg `m`; native callees touch `args ≤ bs` registers -/
  | defer (off bs m : Nat) (native : Bool) (args : Nat)
  /-- OpReturn -/
  | ret
  /-- a panic recovered by `runRecoverable`: `runFunc` pushes a `panicked` frame and calls `nextCall` -/
  | panic
  /-- OpRecover; `down`: the "down the stack" form (`defer recover()`) -/
  | recover (down : Bool)
  /-- any access to register `r` of the running function -/
  | access (r : Nat)
  /-- `callNative` with stack shift `shift`, reading/writing `k` registers above it -/
  | callNative (shift k : Nat)
  /-- OpGo with a Scriggo callee: `startGoroutine` copies the window `[fp+off, fp+127)` -/
  | go (off : Nat)
  deriving DecidableEq, Repr

/-- what the compiler guarantees about an instruction's operands (NumReg counts every register
the function uses, so a stack shift never exceeds it; operands are `int8`) -/
def Event.wellFormed (st : St) : Event → Bool
  | .call _ off m => decide (off ≤ st.n) && decide (m ≤ 127)
  | .tailCall m => decide (m ≤ 127)
  | .defer off bs m _ args => decide (off ≤ st.n) && decide (bs ≤ 127) && decide (m ≤ 127) && decide (args ≤ bs)
  | .ret => true
  | .panic => true
  | .recover down => !down || !st.calls.isEmpty
  | .access r => decide (r ≤ st.n)
  | .callNative shift k => decide (shift + k ≤ st.n)
  | .go off => decide (off ≤ st.n)

/-- OpRecover's loop: skip deferred frames, the first other frame becomes `recovered` if it is `panicked` -/
def markRecovered : List Frame → List Frame
  | [] => []
  | f :: rest =>
    if f.status = .deferred then f :: markRecovered rest
    else if f.status = .panicked then { f with status := .recovered } :: rest
    else f :: rest

def ofNext (r : Except Fault Next) : Except Fault St := r.map Next.st

/-- one event; events that are not well formed, and events after the end of the run, are ignored -/
def step (c : Config) (st : St) (ev : Event) : Except Fault St :=
  if st.halted || !ev.wellFormed st then .ok st else
  match ev with
  | .call kind off m =>
    let fp := st.fp + off
    .ok { st with len := grow c kind.site (fp + m) st.len, fp := fp, n := m,
                  calls := { status := .started, fp := st.fp, n := st.n } :: st.calls }
  | .tailCall m => .ok { st with len := grow c .tailCall (st.fp + m) st.len, n := m }
  | .defer off bs m native args =>
    -- vm.swapStack(&vm.fp, &fp, args) with fp = vm.fp + off
    match swapStack c st.len st.fp (st.fp + off) bs with
    | .error f => .error f
    | .ok len =>
      let fp := st.fp + bs
      let len := if c.deferGrows then grow c .growStack (fp + st.n) len else len
      .ok { st with len := len, fp := fp,
                    calls := { status := .deferred, fp := st.fp, n := m, native := native, args := args } :: st.calls }
  | .ret =>
    match st.calls with
    | [] => .ok { st with halted := true }
    | f :: rest =>
      if f.status = .started then .ok { st with fp := f.fp, n := f.n, calls := rest }
      else ofNext (nextCall c { len := st.len, fp := st.fp, n := st.n } st.calls)
  | .panic =>
    match st.calls with
    | [] => .ok { st with halted := true }
    | _ => ofNext (nextCall c { len := st.len, fp := st.fp, n := st.n }
             ({ status := .panicked, fp := st.fp, n := st.n } :: st.calls))
  | .recover down =>
    match down, st.calls with
    | false, cs => .ok { st with calls := markRecovered cs }
    | true, [] => .error .index   -- vm.calls[-1]
    | true, f :: rest =>
      if f.status = .panicked then .ok st else .ok { st with calls := f :: markRecovered rest }
  | .access r => if st.fp + r < st.len then .ok st else .error .index
  | .callNative shift k => if st.fp + (shift + k) < st.len then .ok st else .error .index
  | .go off =>
    let lo := st.fp + off
    let hi := match c.goUpper with
      | .fpPlus k => st.fp + k
      | .minFpPlusLen k => min (st.fp + k) st.len
    if lo ≤ hi ∧ hi ≤ st.len then .ok st else .error .slice

def runFrom (c : Config) (st : St) : List Event → Except Fault St
  | [] => .ok st
  | ev :: evs =>
    match step c st ev with
    | .ok st' => runFrom c st' evs
    | .error f => .error f

/-- a whole run of a program whose main function has NumReg `n0` -/
def run (c : Config) (n0 : Nat) (evs : List Event) : Except Fault St := runFrom c (init c n0) evs

/-! ### the contents: what `swapStack` does to the registers -/

/-- Go `copy(dst[at:], src)` on a slice whose length is its capacity (memmove semantics) -/
def copyInto {α} (dst : List α) (pos : Nat) (src : List α) : List α :=
  dst.take pos ++ src.take (dst.length - pos) ++ dst.drop (pos + min src.length (dst.length - pos))

/-- the two copies of swapStack on `s = regs[a+1:]`:
`copy(s[bs:], s[:tot]); copy(s, s[tot:tot+bs])`, with their slice bounds checked -/
def rotate {α} (s : List α) (as bs : Nat) : Except Fault (List α) :=
  let tot := as + bs
  if bs ≤ s.length ∧ tot ≤ s.length then
    let s1 := copyInto s bs (s.take tot)
    if tot + bs ≤ s1.length then .ok (copyInto s1 0 ((s1.drop tot).take bs))
    else .error .slice
  else .error .slice

/-- swapStack on the registers `regs`, after the growth step (`regs` already has its final
length): pointers and registers after it -/
def swapRegs {α} (regs : List α) (a b bs : Nat) : Except Fault (Nat × Nat × List α) :=
  if b < a then .error .other
  else
    let as := b - a
    if as > 0 ∧ bs > 0 then
      if a + 1 ≤ regs.length then
        match rotate (regs.drop (a + 1)) as bs with
        | .ok s => .ok (a + bs, a, regs.take (a + 1) ++ s)
        | .error f => .error f
      else .error .slice
    else .ok (a + bs, a, regs)

end ScriggoV.RegStack
