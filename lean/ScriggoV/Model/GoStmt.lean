/-! # Goroutines and channels (C14)

Two systems over the same statements:

* **source level** (`SSys`): a thread is a `View` — private locals, the already evaluated
  arguments of the `go` statement being prepared, and the rest of its code; `go f(args)` creates a
  thread whose locals are the argument values. Shared between threads: heap cells (variables
  captured by reference, package variables), Go channels, the output.
* **VM level** (`VSys`): a thread is a pointer into a register stack (`stk`, `fp`); its locals are
  the window `[fp, fp+N)` of that stack, the arguments being prepared are the window
  `[fp+N, fp+N+npend)` above it (the emitter evaluates call arguments into the registers above
  the current frame), and `go` *copies* that window to the bottom of a **new** stack
  (`startGoroutine`: `copy(nvm.regs.int, vm.regs.int[vm.fp[0]+off:…])`, `nvm` created by
  `create`). `share := true` is the broken variant in which the new thread aliases the parent's
  stack instead.

What one statement does to a thread's view and to the shared state (`tstep`) is common to both
levels — channel operations are Go's own at both levels (the VM calls reflect). Unbuffered
channels are a two-phase rendezvous (`sendWait`). `select` is not modelled. Core Lean only. -/
namespace ScriggoV.GoStmt

abbrev Val := Int

inductive Expr
  | lit (n : Int)
  | var (i : Nat)
  | add (a b : Expr)
  | mul (a b : Expr)
deriving Repr

def Expr.eval (rd : Nat → Val) : Expr → Val
  | .lit n => n
  | .var i => rd i
  | .add a b => a.eval rd + b.eval rd
  | .mul a b => a.eval rd * b.eval rd

inductive Stmt
  | assign (x : Nat) (e : Expr)
  | load (x : Nat) (cell : Nat)          -- x = cell          (shared variable)
  | store (cell : Nat) (e : Expr)        -- cell = e
  | send (ch : Nat) (e : Expr)           -- ch <- e
  | sendWait (ch : Nat)                  -- (internal) an unbuffered send waiting for its receiver
  | recv (x : Nat) (ch : Nat)            -- x = <-ch          (0 when closed and empty)
  | close (ch : Nat)
  | print (e : Expr)                     -- println(e)
  | arg (e : Expr)                       -- evaluate the next argument of the coming go statement
  | go (f : Nat)                         -- go f(args…)
  | yield                                -- runtime.Gosched()
  | repeat (n : Nat) (body : List Stmt)  -- for i := 0; i < n; i++ { body }
  | rangeCh (x : Nat) (ch : Nat) (body : List Stmt)   -- for x = range ch { body }
deriving Repr

structure Chan where
  cap : Nat
  buf : List Val := []
  closed : Bool := false
  taken : Bool := false     -- unbuffered: the offered value has been received
deriving Repr, DecidableEq

/-- what all threads share at the Go level -/
structure Shared where
  heap : List Val
  chans : List Chan
  trace : List Val
deriving Repr, DecidableEq

/-- a thread as the source sees it -/
structure View where
  locals : List Val
  pend : List Val          -- evaluated arguments of the go statement being prepared
  code : List Stmt
deriving Repr

/-- result of one statement: the thread's new view, the shared state, a thread to start -/
structure TRes where
  view : View
  sh : Shared
  spawn : Option (Nat × List Val) := none

def rd (v : View) (i : Nat) : Val := v.locals.getD i 0
def wr (v : View) (i : Nat) (x : Val) (rest : List Stmt) : View :=
  { v with locals := v.locals.set i x, code := rest }
def setChan (sh : Shared) (ch : Nat) (c : Chan) : Shared := { sh with chans := sh.chans.set ch c }

/-- receive from a channel: `none` = blocked; `some (value, new channel state, ok)` -/
def recvFrom (c : Chan) : Option (Val × Chan × Bool) :=
  match c.buf with
  | x :: rest => some (x, { c with buf := rest, taken := c.cap == 0 }, true)
  | [] => if c.closed then some (0, c, false) else none

/-- one statement of one thread (`M` = how many arguments a go statement may have).
A blocked thread is returned unchanged. -/
def tstep (M : Nat) (v : View) (sh : Shared) : TRes :=
  match v.code with
  | [] => ⟨v, sh, none⟩
  | .assign x e :: rest => ⟨wr v x (e.eval (rd v)) rest, sh, none⟩
  | .load x cell :: rest => ⟨wr v x (sh.heap.getD cell 0) rest, sh, none⟩
  | .store cell e :: rest =>
    ⟨{ v with code := rest }, { sh with heap := sh.heap.set cell (e.eval (rd v)) }, none⟩
  | .send ch e :: rest =>
    match sh.chans[ch]? with
    | none => ⟨v, sh, none⟩                       -- nil channel: blocks for ever
    | some c =>
      if c.closed then ⟨v, sh, none⟩              -- would panic; excluded by the property
      else if c.cap == 0 then
        if c.buf.isEmpty && !c.taken then
          ⟨{ v with code := .sendWait ch :: rest }, setChan sh ch { c with buf := [e.eval (rd v)] }, none⟩
        else ⟨v, sh, none⟩
      else if c.buf.length < c.cap then
        ⟨{ v with code := rest }, setChan sh ch { c with buf := c.buf ++ [e.eval (rd v)] }, none⟩
      else ⟨v, sh, none⟩
  | .sendWait ch :: rest =>
    match sh.chans[ch]? with
    | none => ⟨v, sh, none⟩
    | some c =>
      if c.taken then ⟨{ v with code := rest }, setChan sh ch { c with taken := false }, none⟩
      else ⟨v, sh, none⟩
  | .recv x ch :: rest =>
    match sh.chans[ch]? with
    | none => ⟨v, sh, none⟩
    | some c =>
      match recvFrom c with
      | none => ⟨v, sh, none⟩
      | some (val, c', _) => ⟨wr v x val rest, setChan sh ch c', none⟩
  | .close ch :: rest =>
    match sh.chans[ch]? with
    | none => ⟨v, sh, none⟩
    | some c => ⟨{ v with code := rest }, setChan sh ch { c with closed := true }, none⟩
  | .print e :: rest => ⟨{ v with code := rest }, { sh with trace := sh.trace ++ [e.eval (rd v)] }, none⟩
  | .arg e :: rest =>
    if v.pend.length < M then ⟨{ v with pend := v.pend ++ [e.eval (rd v)], code := rest }, sh, none⟩
    else ⟨{ v with code := rest }, sh, none⟩
  | .go f :: rest => ⟨{ v with pend := [], code := rest }, sh, some (f, v.pend)⟩
  | .yield :: rest => ⟨{ v with code := rest }, sh, none⟩
  | .repeat 0 _ :: rest => ⟨{ v with code := rest }, sh, none⟩
  | .repeat (n + 1) body :: rest => ⟨{ v with code := body ++ .repeat n body :: rest }, sh, none⟩
  | .rangeCh x ch body :: rest =>
    match sh.chans[ch]? with
    | none => ⟨v, sh, none⟩
    | some c =>
      match recvFrom c with
      | none => ⟨v, sh, none⟩
      | some (_, _, false) => ⟨{ v with code := rest }, sh, none⟩
      | some (val, c', true) => ⟨wr v x val (body ++ .rangeCh x ch body :: rest), setChan sh ch c', none⟩

/-- static parameters of a program: `N` locals per function, at most `M` go arguments -/
structure Prog where
  N : Nat
  M : Nat
  funcs : List (List Stmt)
deriving Repr

/-- the locals of a new goroutine: its arguments, then zeros -/
def childLocals (P : Prog) (args : List Val) : List Val := (args ++ List.replicate P.N 0).take P.N

/-! ## Source level -/

structure SSys where
  threads : List View
  sh : Shared
deriving Repr

def sstep (P : Prog) (i : Nat) (s : SSys) : SSys :=
  match s.threads[i]? with
  | none => s
  | some v =>
    let r := tstep P.M v s.sh
    let spawned : List View := match r.spawn with
      | none => []
      | some (f, args) => [⟨childLocals P args, [], P.funcs.getD f []⟩]
    ⟨s.threads.set i r.view ++ spawned, r.sh⟩

def srun (P : Prog) (sched : List Nat) (s : SSys) : SSys := sched.foldl (fun s i => sstep P i s) s

/-! ## VM level -/

structure VThread where
  stk : Nat        -- which register stack (one per VM: `create` allocates it)
  fp : Nat         -- frame pointer
  npend : Nat      -- how many argument registers above the frame are filled
  code : List Stmt
deriving Repr

structure VSys where
  threads : List VThread
  stacks : List (List Val)
  sh : Shared
deriving Repr

/-- `len` registers of a stack from `off` -/
def window (stk : List Val) (off len : Nat) : List Val := (stk.drop off).take len

/-- overwrite the registers from `off` with `xs` -/
def overwrite (stk : List Val) (off : Nat) (xs : List Val) : List Val :=
  stk.take off ++ xs ++ stk.drop (off + xs.length)

/-- the view a VM thread has of its registers -/
def viewOf (P : Prog) (stacks : List (List Val)) (t : VThread) : View :=
  ⟨window (stacks.getD t.stk []) t.fp P.N, window (stacks.getD t.stk []) (t.fp + P.N) t.npend, t.code⟩

/-- write a view back into the thread's registers -/
def writeBack (P : Prog) (stacks : List (List Val)) (t : VThread) (v : View) : List (List Val) :=
  stacks.set t.stk (overwrite (overwrite (stacks.getD t.stk []) t.fp v.locals) (t.fp + P.N) v.pend)

/-- the thread after a statement that left it with view `v` -/
def VThread.after (t : VThread) (v : View) : VThread := { t with npend := v.pend.length, code := v.code }

/-- `go`: the registers of the new VM. `share = false` (the code): a new stack whose bottom is a
copy of the parent's argument window. -/
def vstep (P : Prog) (share : Bool) (i : Nat) (s : VSys) : VSys :=
  match s.threads[i]? with
  | none => s
  | some t =>
    let r := tstep P.M (viewOf P s.stacks t) s.sh
    let stacks1 := writeBack P s.stacks t r.view
    let t' : VThread := t.after r.view
    match r.spawn with
    | none => ⟨s.threads.set i t', stacks1, r.sh⟩
    | some (f, _) =>
      if share then
        -- broken variant: the child runs on the parent's stack, its frame at the argument window
        ⟨s.threads.set i t' ++ [⟨t.stk, t.fp + P.N, 0, P.funcs.getD f []⟩], stacks1, r.sh⟩
      else
        -- startGoroutine: nvm := create(env); copy(nvm.regs, vm.regs[fp+off : …])
        let args := window (stacks1.getD t.stk []) (t.fp + P.N) t.npend
        ⟨s.threads.set i t' ++ [⟨stacks1.length, 0, 0, P.funcs.getD f []⟩],
         stacks1 ++ [(args ++ List.replicate P.N 0).take P.N ++ List.replicate P.M 0], r.sh⟩

def vrun (P : Prog) (share : Bool) (sched : List Nat) (s : VSys) : VSys :=
  sched.foldl (fun s i => vstep P share i s) s

/-- the source-level system a VM-level system represents -/
def abs (P : Prog) (s : VSys) : SSys := ⟨s.threads.map (viewOf P s.stacks), s.sh⟩

/-- initial systems: one thread running function 0, `fp0` registers already in use below it -/
def vinit (P : Prog) (fp0 : Nat) (sh : Shared) : VSys :=
  ⟨[⟨0, fp0, 0, P.funcs.getD 0 []⟩], [List.replicate (fp0 + P.N + P.M) 0], sh⟩

def sinit (P : Prog) (sh : Shared) : SSys :=
  ⟨[⟨List.replicate P.N 0, [], P.funcs.getD 0 []⟩], sh⟩

/-! ## Running a whole program under a pseudo-random schedule (for the driver) -/

def allDone (s : SSys) : Bool := s.threads.all (fun v => v.code.isEmpty)

/-- run with a linear-congruential choice of the next thread, at most `fuel` steps -/
def srunRandom (P : Prog) : Nat → Nat → SSys → SSys
  | 0, _, s => s
  | fuel + 1, seed, s =>
    if allDone s then s
    else
      let seed' := (seed * 6364136223846793005 + 1442695040888963407) % 18446744073709551616
      srunRandom P fuel seed' (sstep P ((seed' / 65536) % s.threads.length) s)

def vrunRandom (P : Prog) (share : Bool) : Nat → Nat → VSys → VSys
  | 0, _, s => s
  | fuel + 1, seed, s =>
    if allDone (abs P s) then s
    else
      let seed' := (seed * 6364136223846793005 + 1442695040888963407) % 18446744073709551616
      vrunRandom P share fuel seed' (vstep P share ((seed' / 65536) % s.threads.length) s)

end ScriggoV.GoStmt
