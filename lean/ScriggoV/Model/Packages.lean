/-! Model of `native/packages.go`: `Package.Lookup/LookupFunc`, `CombinedPackage.Lookup/LookupFunc`,
`Packages.Import`, `CombinedImporter.Import` — hand-written, core Lean only.

* A Go map is an association list **in the order the `range` statement happens to visit it**;
  every theorem quantifies over all such lists (`Nodup` keys), hence over every iteration order.
* A `LookupFunc` closure is a function with its captured state made explicit
  (`Callback α σ = σ → name → decl → σ × error`), so that the closure `w` that
  `CombinedPackage.LookupFunc` builds around `f` (captured `err`, `names`) is an ordinary value
  and nesting of combined packages is nesting of state types.
* `none : Decl` is Go's nil `Declaration`, `none : Error` is the nil `error`. -/
namespace ScriggoV.Packages

/-- a declaration value; `none` is the nil interface -/
abbrev Decl := Option Nat

/-- non-nil `error` values: `native.StopLookup` or any other error (identified by a number) -/
inductive Err where
  | stop
  | other (n : Nat)
  deriving DecidableEq, Repr

/-- Go `error`: `none` is nil -/
abbrev Error := Option Err

/-- `native.LookupFunc` with the state it closes over -/
abbrev Callback (α σ : Type) := σ → α → Decl → σ × Error

/-- `native.ImportablePackage` values built from `Package` and `CombinedPackage` -/
inductive Pkg (α : Type) where
  /-- `native.Package`; the list is `Declarations` in iteration order -/
  | pkg (decls : List (α × Decl))
  /-- `native.CombinedPackage` -/
  | combined (ps : List (Pkg α))

variable {α : Type} [DecidableEq α]

/-- Go `m[name]` on `Declarations`: the zero value nil when the key is absent -/
def mapGet : List (α × Decl) → α → Decl
  | [], _ => none
  | (k, d) :: r, n => if k = n then d else mapGet r n

mutual
/-- `Package.Lookup` / `CombinedPackage.Lookup` -/
def Pkg.lookup : Pkg α → α → Decl
  | .pkg decls, n => mapGet decls n
  | .combined ps, n => lookupList ps n
/-- the `for _, pkg := range packages` loop of `CombinedPackage.Lookup` -/
def lookupList : List (Pkg α) → α → Decl
  | [], _ => none
  | p :: ps, n =>
    match p.lookup n with
    | some d => some d          -- `if decl != nil { return decl }`
    | none => lookupList ps n
end

/-- `if err == StopLookup { err = nil }` -/
def stopToNil : Error → Error
  | some .stop => none
  | e => e

/-- the `for n, d := range p.Declarations { if err = f(n, d); err != nil { break } }` loop of
`Package.LookupFunc` (as fixed; the unfixed code assigned to a shadowed `err`) -/
def pkgLoop {σ : Type} (f : Callback α σ) : List (α × Decl) → σ → σ × Error
  | [], s => (s, none)
  | (n, d) :: rest, s =>
    match f s n d with
    | (s', none) => pkgLoop f rest s'
    | (s', some e) => (s', some e)

/-- the variables `CombinedPackage.LookupFunc` declares and its closure `w` captures, together with
the state of the caller's `f` -/
structure CState (α σ : Type) where
  inner : σ
  err : Error
  names : List α

/-- the closure `w` of `CombinedPackage.LookupFunc` -/
def wrap {σ : Type} (f : Callback α σ) : Callback α (CState α σ) := fun st name decl =>
  if name ∈ st.names then (st, st.err)
  else
    let r := f st.inner name decl
    ({ inner := r.1, err := r.2, names := name :: st.names }, r.2)

mutual
/-- `Package.LookupFunc` / `CombinedPackage.LookupFunc` -/
def Pkg.lookupFunc : Pkg α → {σ : Type} → Callback α σ → σ → σ × Error
  | .pkg decls, _, f, s =>
    let r := pkgLoop f decls s
    (r.1, stopToNil r.2)
  | .combined ps, _, f, s =>
    let st := combLoop ps (wrap f) { inner := s, err := none, names := [] }
    (st.inner, stopToNil st.err)
/-- `for _, pkg := range packages { _ = pkg.LookupFunc(w); if err != nil { break } }` -/
def combLoop : List (Pkg α) → {σ : Type} → Callback α (CState α σ) → CState α σ → CState α σ
  | [], _, _, st => st
  | p :: ps, _, w, st =>
    let r := p.lookupFunc w st       -- the returned error is discarded (`_ =`)
    if r.1.err.isSome then r.1 else combLoop ps w r.1
end

/-! ### importers -/

/-- `native.Importer` values: `Packages`, `CombinedImporter`, and any other importer (`custom`,
identified by `id`, with an arbitrary result function). `ρ` are package values, `ε` errors. -/
inductive Imp (α ρ ε : Type) where
  | packages (m : List (α × Option ρ))      -- a nil `ImportablePackage` may be stored in the map
  | custom (id : Nat) (g : α → Option ρ × Option ε)
  | combined (is : List (Imp α ρ ε))

variable {ρ ε : Type}

/-- Go `p, ok := pp[path]` -/
def mapFind : List (α × Option ρ) → α → Option (Option ρ)
  | [], _ => none
  | (k, v) :: r, n => if k = n then some v else mapFind r n

mutual
/-- `Import`; the `List Nat` is the log of the custom importers called so far (most recent last) -/
def Imp.imp : Imp α ρ ε → α → List Nat → List Nat × (Option ρ × Option ε)
  | .packages m, path, log =>
    match mapFind m path with
    | some p => (log, (p, none))
    | none => (log, (none, none))
  | .custom id g, path, log => (log ++ [id], g path)
  | .combined is, path, log => impList is path log
/-- the loop of `CombinedImporter.Import` -/
def impList : List (Imp α ρ ε) → α → List Nat → List Nat × (Option ρ × Option ε)
  | [], _, log => (log, (none, none))
  | i :: is, path, log =>
    let r := i.imp path log
    if r.2.1.isSome || r.2.2.isSome then r else impList is path r.1
end

/-! ### specification: first-match association lists -/

mutual
/-- all declarations of a package in combination order -/
def Pkg.flatten : Pkg α → List (α × Decl)
  | .pkg decls => decls
  | .combined ps => flattenList ps
def flattenList : List (Pkg α) → List (α × Decl)
  | [] => []
  | p :: ps => p.flatten ++ flattenList ps
end

/-- keep the first occurrence of every name not in `seen` -/
def dedupFirst : List (α × Decl) → List α → List (α × Decl)
  | [], _ => []
  | (n, d) :: r, seen =>
    if n ∈ seen then dedupFirst r seen else (n, d) :: dedupFirst r (n :: seen)

/-- the names seen after going through a list -/
def addSeen : List (α × Decl) → List α → List α
  | [], seen => seen
  | (n, _) :: r, seen => if n ∈ seen then addSeen r seen else addSeen r (n :: seen)

/-- the declarations of a package as `LookupFunc` must enumerate them -/
def Pkg.decls (p : Pkg α) : List (α × Decl) := dedupFirst p.flatten []

/-- first non-nil value bound to `n` -/
def firstNonNil : List (α × Decl) → α → Decl
  | [], _ => none
  | (k, d) :: r, n => if k = n then (match d with | some v => some v | none => firstNonNil r n)
                      else firstNonNil r n

/-- what a `LookupFunc` call has to do with callback `f` on the declarations `L` (already
distinct): call `f` along `L` up to and including the first non-nil error; return it, or nil
when it is `StopLookup` -/
def specLookupFunc {σ : Type} (f : Callback α σ) (L : List (α × Decl)) (s : σ) : σ × Error :=
  let r := pkgLoop f L s
  (r.1, stopToNil r.2)

mutual
/-- the non-combined importers of an importer, in order -/
def Imp.leaves : Imp α ρ ε → List (Imp α ρ ε)
  | .packages m => [.packages m]
  | .custom id g => [.custom id g]
  | .combined is => leavesList is
def leavesList : List (Imp α ρ ε) → List (Imp α ρ ε)
  | [] => []
  | i :: is => i.leaves ++ leavesList is
end

/-- result of one non-combined importer, logging it when it is a custom one -/
def leafImp (i : Imp α ρ ε) (path : α) (log : List Nat) : List Nat × (Option ρ × Option ε) :=
  match i with
  | .packages m => (log, ((mapFind m path).getD none, none))
  | .custom id g => (log ++ [id], g path)
  | .combined _ => (log, (none, none))

/-- first result that is not (nil, nil), asking the importers in order and no further -/
def firstHit : List (Imp α ρ ε) → α → List Nat → List Nat × (Option ρ × Option ε)
  | [], _, log => (log, (none, none))
  | i :: is, path, log =>
    let r := leafImp i path log
    if r.2.1.isSome || r.2.2.isSome then r else firstHit is path r.1

/-! ### well-formedness: Go maps have distinct keys -/
mutual
def Pkg.WF : Pkg α → Prop
  | .pkg decls => (decls.map Prod.fst).Nodup
  | .combined ps => wfList ps
def wfList : List (Pkg α) → Prop
  | [] => True
  | p :: ps => p.WF ∧ wfList ps
end

end ScriggoV.Packages
