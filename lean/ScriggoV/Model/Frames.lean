import ScriggoV.Spec.DeferLang
/-! Model of Scriggo's call-frame machine (internal/runtime: `VM.calls`, `nextCall` in vm.go;
`runFunc`, `OpCall*`, `OpTailCall`, `OpDefer`, `OpRecover`, `OpReturn`, `OpPanic` in run.go;
`VM.Run`'s unwrapping of `stopError`/`fatalError`/`*PanicError`; the accessor layer of the
public `PanicError` in errors.go), over the abstract instructions of `Spec/DeferLang.lean`.
Hand-written; tied to the code by go/props/c12. Core Lean only.

`VM.calls` is ONE stack for return addresses and pending deferred calls; here it is a list
with the top of the stack first, so the loops of the code that scan from the top down are
structural recursions. Deferred *native* callables (`call.cl.fn == nil`, run in place through
`callNative`) are not modelled. -/
namespace ScriggoV.Frames
open ScriggoV.DeferLang

/-- `callStatus` -/
inductive Status where
  | started | tailed | returned | deferred | panicked | recovered
  deriving DecidableEq, Repr, Inhabited

/-- `callFrame` (registers, renderer and variadic count abstracted away) -/
structure Frame where
  /-- `cl.fn`: for `started`/`tailed` the caller to resume, for `deferred` the deferred callable,
  for `returned`/`panicked`/`recovered` the function that is finishing (used by `finalize` only) -/
  fn : Callee
  pc : Nat
  status : Status
  /-- `prevPanic`: for `panicked`/`recovered`, the panics active before the call panicked -/
  prev : Chain
  deriving DecidableEq, Repr, Inhabited

/-- the part of `VM` the frame machine uses -/
structure State where
  /-- `vm.fn` -/
  cur : Callee
  /-- `vm.pc` -/
  pc : Nat
  /-- `vm.calls`, top first -/
  calls : List Frame
  /-- `vm.panic` -/
  chain : Chain
  /-- what has been printed and recovered so far, newest first -/
  out : List Event
  deriving Repr, Inhabited

/-- what `nextCall` and the code after it decide -/
inductive Next where
  /-- `nextCall` returned true: run `fn` from `pc` with this call stack -/
  | resume (fn : Callee) (pc : Nat) (calls : List Frame) (chain : Chain)
  /-- `nextCall` returned false: the run is over -/
  | over (chain : Chain)
  deriving Repr

/-- `nextCall`, `case panicked`: walk down to the nearest `deferred` frame; `above` is
`vm.calls[i+1]`, `prev` the `prevPanic` of the lowest panicked/recovered frame passed. -/
def scanPanicked (chain : Chain) : Chain → Frame → List Frame → Next
  | _, _, [] => .over chain
  | prev, above, c :: rest =>
    let prev' := if c.status = .panicked ∨ c.status = .recovered then c.prev else prev
    if c.status = .deferred then
      .resume c.fn c.pc ({ above with status := .panicked, prev := prev' } :: rest) chain
    else scanPanicked chain prev' c rest

/-- `nextCall`; `cur` is `vm.fn` (what a `deferred` frame is replaced with, marked `returned`) -/
def nextCall (cur : Callee) : List Frame → Chain → Next
  | [], chain => .over chain
  | c :: rest, chain =>
    match c.status with
    | .started => .resume c.fn c.pc rest chain
    | .tailed => nextCall cur rest chain
    | .deferred =>
      .resume c.fn c.pc ({ fn := cur, pc := 0, status := .returned, prev := [] } :: rest) chain
    | .returned =>
      match rest with
      | p :: rest' =>
        if p.status = .deferred then .resume p.fn p.pc (c :: rest') chain
        else nextCall cur rest chain
      | [] => .over chain
    | .recovered =>
      -- the deferred call that recovered has returned: the panics raised since the call
      -- panicked are no longer active; the frame goes on as `returned`
      match rest with
      | p :: rest' =>
        if p.status = .deferred then .resume p.fn p.pc ({ c with status := .returned } :: rest') c.prev
        else nextCall cur rest c.prev
      | [] => .over c.prev
    | .panicked => scanPanicked chain c.prev c rest

/-- the end of `runFunc`: `if vm.panic != nil { return vm.panic }; return nil` -/
def finish (out : List Event) (chain : Chain) : Step State :=
  .halt ⟨out.reverse, if chain.isEmpty then .done else .panicked chain⟩

def continueWith (out : List Event) : Next → Step State
  | .resume fn pc calls chain => .next { cur := fn, pc := pc, calls := calls, chain := chain, out := out }
  | .over chain => finish out chain

/-- `OpReturn` -/
def doReturn (s : State) : Step State :=
  match s.calls with
  | [] => finish s.out s.chain
  | c :: rest =>
    if c.status = .started then
      continueWith s.out (.resume c.fn c.pc rest s.chain)
    else continueWith s.out (nextCall s.cur s.calls s.chain)

/-- `OpPanic` and what `runFunc` does with the `*PanicError` coming out of `runRecoverable` -/
def doPanic (s : State) (v : Nat) : Step State :=
  let chain := { val := v, recovered := false } :: s.chain
  match s.calls with
  | [] => finish s.out chain
  | _ :: _ =>
    continueWith s.out
      (nextCall s.cur ({ fn := s.cur, pc := 0, status := .panicked, prev := s.chain } :: s.calls) chain)

/-- the loop of `OpRecover`: skip `deferred` frames; a `panicked` frame becomes `recovered` -/
def recoverScan : List Frame → Option (List Frame)
  | [] => none
  | c :: rest =>
    match c.status with
    | .deferred => (recoverScan rest).map (c :: ·)
    | .panicked => some ({ c with status := .recovered } :: rest)
    | _ => none

/-- `OpRecover`: the new call stack, chain and the value returned (`none`: nil) -/
def doRecover (down : Bool) (calls : List Frame) (chain : Chain) :
    Except Bad (List Frame × Chain × Option Nat) :=
  let scanFrom (skipped : List Frame) (cs : List Frame) : Except Bad (List Frame × Chain × Option Nat) :=
    match recoverScan cs with
    | none => .ok (calls, chain, none)
    | some cs' =>
      match chain with
      | [] => .error .nilPanic
      | l :: ls => .ok (skipped ++ cs', { l with recovered := true } :: ls, some l.val)
  if down then
    match calls with
    | [] => .error .noFrame
    | c :: rest => if c.status = .panicked then .ok (calls, chain, none) else scanFrom [c] rest
  else scanFrom [] calls

def advance (s : State) : State := { s with pc := s.pc + 1 }

/-- one instruction of `vm.run` together with what `runFunc`/`Run` do when it ends the run -/
def step (p : Prog) (s : State) : Step State :=
  match bodyOf p s.cur with
  | none => .halt ⟨s.out.reverse, .fault .noFunction⟩
  | some body =>
    match fetch body s.pc with
    | .print x => .next { advance s with out := .out x :: s.out }
    | .call f =>
      continueWith s.out
        (.resume (.fn f) 0 ({ fn := s.cur, pc := s.pc + 1, status := .started, prev := [] } :: s.calls) s.chain)
    | .tailcall f =>
      continueWith s.out
        (.resume (.fn f) 0 ({ fn := s.cur, pc := s.pc + 1, status := .tailed, prev := [] } :: s.calls) s.chain)
    | .defer f =>
      .next { advance s with calls := { fn := .fn f, pc := 0, status := .deferred, prev := [] } :: s.calls }
    | .deferRec =>
      .next { advance s with calls := { fn := .recSynth, pc := 0, status := .deferred, prev := [] } :: s.calls }
    | .ret => doReturn s
    | .panic v => doPanic s v
    | .recover =>
      match doRecover false s.calls s.chain with
      | .error b => .halt ⟨s.out.reverse, .fault b⟩
      | .ok (calls, chain, v) => .next { advance s with calls := calls, chain := chain, out := .recov v :: s.out }
    | .recoverDown =>
      match doRecover true s.calls s.chain with
      | .error b => .halt ⟨s.out.reverse, .fault b⟩
      | .ok (calls, chain, _) => .next { advance s with calls := calls, chain := chain }
    | .repanic =>
      match doRecover false s.calls s.chain with
      | .error b => .halt ⟨s.out.reverse, .fault b⟩
      | .ok (calls, chain, v) =>
        let s' : State := { advance s with calls := calls, chain := chain, out := .recov v :: s.out }
        match v with
        | some x => doPanic s' x
        | none => .next s'
    | .stop k => .halt ⟨s.out.reverse, .stopped k⟩
    | .fatal v => .halt ⟨s.out.reverse, .fatal v⟩

def init : State := { cur := .fn 0, pc := 0, calls := [], chain := [], out := [] }

/-- `VM.Run` on the main function, for at most `fuel` instructions -/
def run (p : Prog) (fuel : Nat) : Result :=
  iterate (step p) (fun s => s.out.reverse) fuel init

/-! ### the public accessor layer (errors.go) -/

/-- `*runtime.PanicError` as the public package sees it: nil or a link and its `next` -/
abbrev RtPanic := Chain

namespace Pub
/-- `*scriggo.PanicError`: nil, or a wrapper around a `*runtime.PanicError` (possibly nil!) -/
inductive PanicError where
  | nil
  | wrap (p : RtPanic)
  deriving DecidableEq, Repr

/-- `Program.Run`: `err = &PanicError{p}` for a non-nil `*runtime.PanicError` -/
def ofRun (c : Chain) : PanicError := match c with
  | [] => .nil
  | _ :: _ => .wrap c

/-- `(*PanicError).Next` as fixed: nil at the end of the chain -/
def next : PanicError → Except Bad PanicError
  | .nil => .error .nilPanic
  | .wrap [] => .error .nilPanic            -- p.p.Next() on a nil p.p
  | .wrap (_ :: rest) => match rest with
    | [] => .ok .nil
    | _ :: _ => .ok (.wrap rest)

/-- `(*PanicError).Next` as it was: `return &PanicError{p.p.Next()}` -/
def nextOld : PanicError → Except Bad PanicError
  | .nil => .error .nilPanic
  | .wrap [] => .error .nilPanic
  | .wrap (_ :: rest) => .ok (.wrap rest)

/-- `Message` (and `Recovered`): dereference `p.p` -/
def message : PanicError → Except Bad Nat
  | .wrap (l :: _) => .ok l.val
  | _ => .error .nilPanic

def recovered : PanicError → Except Bad Bool
  | .wrap (l :: _) => .ok l.recovered
  | _ => .error .nilPanic

/-- the loop `for p := err; p != nil; p = p.Next() { use p.Message(), p.Recovered() }` -/
def walk (nxt : PanicError → Except Bad PanicError) : Nat → PanicError → Except Bad (Option (List Link))
  | _, .nil => .ok (some [])
  | 0, _ => .ok none        -- not finished within the fuel
  | n + 1, p => do
    let v ← message p
    let r ← recovered p
    let q ← nxt p
    match ← walk nxt n q with
    | some ls => .ok (some (⟨v, r⟩ :: ls))
    | none => .ok none
end Pub

end ScriggoV.Frames
