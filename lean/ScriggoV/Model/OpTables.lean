import ScriggoV.Gen.OpTokens
/-!
# The operator tables between printer and parser (property C27)

Everything an operator goes through from a node to printed source and back is a finite table in
the Go sources, regenerated on every check (`Gen/OpTokens.lean`, `Gen/Precedence.lean`):

```
constant ──String()──▶ text ──lexCode / lexIdentifierOrKeyword──▶ token ──parser switch──▶ constant
```

This file only composes them (core Lean only):

* `words`: the blank-separated words of what a `String` method writes for an operator (every
  `String` method surrounds a binary or assignment operator with blanks; the adjacency of a unary
  operator with its operand is re-checked by the real lexer on every generated case);
* `lexWord`: the token of one word — the fixed-text emits of `lexCode`, then the keyword switch of
  `lexIdentifierOrKeyword`, then (template syntax) its second switch. The longest-match order of the
  byte switch plays no role for a whole word; that a word of the table lexes to exactly that token
  is tied to the real lexer by the harness for every entry;
* `parseAssignOp`, `parseUnaryOp`, `parseBinaryOp`: printed operator → constant.

Classification of the `String` methods of `ast.go` (`stringMethods`, generated): which of them are
source that must parse back (`roundTripExpr`, `roundTripStmt`) and which are descriptions
(`notSource`) or not nodes (`notNodes`). The harness asks for these lists and has to produce
round-trip cases for every type of the first two.
-/
namespace ScriggoV.OpTables
open ScriggoV.Gen.Precedence ScriggoV.Gen.OpTokens

/-- split at blanks, empty words dropped -/
def splitWords : List Char → List Char → List (List Char)
  | [], [] => []
  | [], cur => [cur.reverse]
  | c :: cs, cur =>
    if c = ' ' then
      (if cur.isEmpty then splitWords cs [] else cur.reverse :: splitWords cs [])
    else splitWords cs (c :: cur)

def words (s : String) : List String := (splitWords s.toList []).map String.ofList

def lookup (tbl : List (String × Tok)) (w : String) : Option Tok :=
  match tbl.find? (fun e => e.1 == w) with
  | some e => some e.2
  | none => none

/-- the token the lexer gives for a whole word of operator/keyword text -/
def lexWord (template : Bool) (w : String) : Option Tok :=
  match lookup lexEmits w with
  | some t => some t
  | none =>
    match lookup keywords w with
    | some t => some t
    | none => if template then lookup templateKeywords w else none

/-- printed assignment operator → `assignmentType` of its token -/
def parseAssignOp (template : Bool) (printed : String) : Option Assign :=
  match words printed with
  | [w] => (lexWord template w).bind assignmentType
  | _ => none

/-- printed unary operator → the operator of the `UnaryOperator` node `parseExpr` builds -/
def parseUnaryOp (printed : String) : Option Op :=
  match words printed with
  | [w] => (lexWord true w).bind parseUnary
  | _ => none

/-- printed binary operator (one or two words) → the operator of the `BinaryOperator` node -/
def parseBinaryOp (printed : String) : Option Op :=
  match words printed with
  | [w] => (lexWord true w).bind parseBinary
  | [w1, w2] =>
    match lexWord true w1, lexWord true w2 with
    | some t1, some t2 => parseBinary2 t1 t2
    | _, _ => none
  | _ => none

/-! ## classification of the `String` methods -/

/-- expression and type nodes: round-tripped by the expression streams -/
def roundTripExpr : List String := ["ArrayType", "BasicLiteral", "BinaryOperator", "Call", "ChanType",
  "Default", "FuncType", "Identifier", "Index", "Interface", "MapType", "Selector", "SliceType", "Slicing",
  "StructType", "TypeAssertion", "UnaryOperator"]

/-- statement nodes (and `render`, an expression that only occurs at statement level): round-tripped
by the statement streams -/
def roundTripStmt : List String := ["Assignment", "Defer", "Extends", "Go", "Goto", "Import", "Render", "Send",
  "Show", "Text", "TypeDeclaration", "Var"]

/-- `String()` is a description or abbreviates by design (`block statement`, `func literal`,
`T{...}`, `[Placeholder]`): not source -/
def notSource : List String := ["Block", "CompositeLiteral", "Func", "Placeholder"]

/-- not nodes: enumerations, positions, and the parts `FuncType`/`StructType`/`CompositeLiteral` print -/
def notNodes : List String := ["ChanDirection", "Context", "Field", "Format", "KeyValue", "OperatorType", "Parameter", "Position"]

/-! ## string-typed fields: written as they are parsed

`parserUnquotes` (generated): the fields the parser fills with `unquoteString(tok.txt)`, i.e. the
*content* of a string literal. `stringWrites` (generated): how each `String` method writes each
string-typed field. A field that holds a content has to be written through `strconv.Quote`, whose
inverse `unquoteString` is; written between
plain quotes it comes back only when the content has no quote, backslash or line break. -/

/-- the ways the `String` method of type `t` writes field `f` -/
def writesOf (t f : String) : List Write :=
  (stringWrites.filter fun e => e.1 == t && e.2.1 == f).map fun e => e.2.2

end ScriggoV.OpTables
