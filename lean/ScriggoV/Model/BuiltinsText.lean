import ScriggoV.Basic.Bytes
import ScriggoV.Basic.GoExpr
import ScriggoV.Basic.Utf8
import ScriggoV.Gen.BuiltinFuncs
/-! Models of builtin/builtin.go for C25, second part: `isSeparator`, `Capitalize` (over the bytes
of the string, with Go's range-over-string decoding `Utf8.decodeRune` and checked slicing),
`CapitalizeAll` (`strings.Map`), `ToKebab` (over the `[]rune` of the string, checked indexing),
`Reverse` (the swap loop over any list), `FormatFloat`'s `format[0]`. The functions of package
`unicode` are the parameter `U : UnicodeFns`. Slice bounds, conditions and loop headers are the
regenerated ones of Gen/BuiltinFuncs.lean; the control flow is hand-written against the source
texts recorded at the end of this file. Core Lean only. -/
namespace ScriggoV.Builtins
open ScriggoV.Gen.BuiltinFuncs ScriggoV.Utf8

/-- `isSeparator(r)` -/
def isSeparator (U : UnicodeFns) (r : Nat) : Bool :=
  if r ≤ 0x7F then
    if 48 ≤ r ∧ r ≤ 57 then false
    else if 97 ≤ r ∧ r ≤ 122 then false
    else if 65 ≤ r ∧ r ≤ 90 then false
    else if r = 95 then false
    else true
  else if U.isLetter r || U.isDigit r then false
  else U.isSpace r

/-! ### Capitalize -/

/-- the part of `Capitalize` after the first non-separator, non-upper rune `r` at byte offset `i`:
`_, size := utf8.DecodeRuneInString(s[i:])`, then `s[:i] + string(ToUpper(r)) + s[i+size:]` -/
def capRebuild (U : UnicodeFns) (s : Bytes) (i : Int) (r : Nat) : Except Fault Bytes :=
  match sliceOfI s (capTailLo s i 0) (capTailHi s i 0) with
  | .error f => .error f
  | .ok tail =>
    let size : Int := ((decodeRune tail).2 : Nat)
    match sliceOfI s (capPreLo s i size) (capPreHi s i size) with
    | .error f => .error f
    | .ok pre =>
      match sliceOfI s (capPostLo s i size) (capPostHi s i size) with
      | .error f => .error f
      | .ok post => .ok (pre ++ encodeRune (U.toUpper r) ++ post)

/-- `for i, r := range s { … }` on the rest `s[i:]` still to visit; fuel = `len(s)`, running out
of it is reported as a fault (never happens: `capitalize_structure`) -/
def capLoop (U : UnicodeFns) (s : Bytes) : Nat → Bytes → Nat → Except Fault Bytes
  | _, [], _ => .ok s
  | 0, _ :: _, _ => .error .other
  | fuel + 1, c :: cs, i =>
    let d := decodeRune (c :: cs)
    if isSeparator U d.1 then capLoop U s fuel ((c :: cs).drop d.2) (i + d.2)   -- `continue`
    else if U.isUpper d.1 then .ok s
    else capRebuild U s (i : Int) d.1

def capitalize (U : UnicodeFns) (s : Bytes) : Except Fault Bytes := capLoop U s s.length s 0

/-! ### CapitalizeAll -/

/-- the mapping function with its captured variable `prev`: returns the mapped rune -/
def capAllStep (U : UnicodeFns) (prev r : Nat) : Nat :=
  if isSeparator U prev then U.toUpper r else r

/-- `strings.Map(mapping, s)` (stdlib, assumed): every rune of `s` (an ill-formed byte is U+FFFD)
is replaced by the encoding of its image; `prev` becomes the *original* rune -/
def capAllLoop (U : UnicodeFns) : Nat → Bytes → Nat → Bytes
  | _, [], _ => []
  | 0, _ :: _, _ => []
  | fuel + 1, c :: cs, prev =>
    let d := decodeRune (c :: cs)
    encodeRune (capAllStep U prev d.1) ++ capAllLoop U fuel ((c :: cs).drop d.2) d.1

def capitalizeAll (U : UnicodeFns) (s : Bytes) : Bytes := capAllLoop U s.length s 32

/-! ### ToKebab -/

/-- `[]rune(s)` -/
def runeValsAux : Nat → Bytes → List Nat
  | _, [] => []
  | 0, _ :: _ => []
  | fuel + 1, c :: cs =>
    let d := decodeRune (c :: cs)
    d.1 :: runeValsAux fuel ((c :: cs).drop d.2)

def runeVals (s : Bytes) : List Nat := runeValsAux s.length s

/-- `for i := range n { r := runes[i]; switch { … } }` over the indices still to visit; the
output is kept as a list of runes (`WriteByte('-')` = rune 45) -/
def kebabLoop (U : UnicodeFns) (runes : List Nat) (n : Int) : List Nat → Bool → List Nat → Except Fault (List Nat)
  | [], _, out => .ok out
  | i :: is, noDash, out =>
    match getAtIR runes (i : Int) with
    | .error f => .error f
    | .ok r =>
      if kebabCase1 U r then kebabLoop U runes n is true (out ++ [r])
      else if kebabCase2 U r then
        match kebabUpperDash U runes noDash (i : Int) n with
        | .error f => .error f
        | .ok d => kebabLoop U runes n is true ((if d then out ++ [45] else out) ++ [U.toLower r])
      else
        match kebabDefaultDash U runes noDash (i : Int) n with
        | .error f => .error f
        | .ok true => kebabLoop U runes n is false (out ++ [45])
        | .ok false => kebabLoop U runes n is noDash out

/-- `strings.TrimSuffix(b.String(), "-")` on the rune list (a final byte `-` is a final rune `-`) -/
def trimSuffixDash (out : List Nat) : List Nat :=
  if out.getLast? = some 45 then out.dropLast else out

/-- `ToKebab` on the runes of the string; the result as runes -/
def toKebabRunes (U : UnicodeFns) (runes : List Nat) : Except Fault (List Nat) :=
  match kebabLoop U runes (runes.length : Int) (List.range runes.length) false [] with
  | .error f => .error f
  | .ok out => .ok (trimSuffixDash out)

def toKebab (U : UnicodeFns) (s : Bytes) : Except Fault Bytes :=
  match toKebabRunes U (runeVals s) with
  | .error f => .error f
  | .ok out => .ok (out.flatMap encodeRune)

/-! ### Reverse -/

/-- `swap(i, j)` of `reflect.Swapper`: both indices checked -/
def swapAt {α : Type} (xs : List α) (i j : Int) : Except Fault (List α) :=
  if i < 0 ∨ j < 0 then .error .index else
  match xs[i.toNat]?, xs[j.toNat]? with
  | some a, some b => .ok ((xs.set i.toNat b).set j.toNat a)
  | _, _ => .error .index

def revLoop {α : Type} (l : Int) : Nat → List α → Int → Int → Except Fault (List α)
  | 0, _, _, _ => .error .other
  | fuel + 1, xs, i, j =>
    match revCond i j l with
    | .error f => .error f
    | .ok false => .ok xs
    | .ok true =>
      match swapAt xs i j with
      | .error f => .error f
      | .ok xs' => revLoop l fuel xs' (revNextI i j l) (revNextJ i j l)

/-- `Reverse(slice)` for a slice value (`nil` and non-slices are handled before: return / documented panic) -/
def goReverse {α : Type} (xs : List α) : Except Fault (List α) :=
  let l : Int := (xs.length : Int)
  if l ≤ 1 then .ok xs else revLoop l xs.length xs (revInitI l) (revInitJ l)

/-! ### FormatFloat: `format[0]` after the `switch format` -/

/-- `none` = the documented panic "formatFloat: invalid format"; `some b` = the verb passed to strconv -/
def formatFloatVerb (format : Bytes) : Except Fault (Option UInt8) :=
  if formatFloatFormats.contains format then
    match getAtI format formatFloatIndex with
    | .error f => .error f
    | .ok b => .ok (some b)
  else .ok none

/-! ### the source texts the control flow above was written against -/

def expectedSrcIsSeparator : String :=
  "func(r rune) bool { if r <= 0x7F { switch { case '0' <= r && r <= '9': return false case 'a' <= r && r <= 'z': return false case 'A' <= r && r <= 'Z': return false case r == '_': return false } return true } if unicode.IsLetter(r) || unicode.IsDigit(r) { return false } return unicode.IsSpace(r) }"

def expectedSrcCapitalize : String :=
  "func(s string) string { for i, r := range s { if isSeparator(r) { continue } if unicode.IsUpper(r) { return s } _, size := utf8.DecodeRuneInString(s[i:]) r = unicode.ToUpper(r) b := strings.Builder{} b.Grow(len(s)) b.WriteString(s[:i]) b.WriteRune(r) b.WriteString(s[i+size:]) return b.String() } return s }"

def expectedSrcCapitalizeAll : String :=
  "func(s string) string { prev := ' ' return strings.Map(func(r rune) rune { if isSeparator(prev) { prev = r return unicode.ToUpper(r) } prev = r return r }, s) }"

def expectedSrcToKebab : String :=
  "func(s string) string { b := strings.Builder{} b.Grow(len(s) + 2) noDash := false runes := []rune(s) n := len(runes) for i := range n { r := runes[i] switch { case unicode.IsLower(r) || unicode.IsDigit(r): b.WriteRune(r) noDash = true case unicode.IsUpper(r): if noDash && (unicode.IsLower(runes[i-1]) || i+1 < n && unicode.IsLower(runes[i+1])) { b.WriteByte('-') } b.WriteRune(unicode.ToLower(r)) noDash = true default: if noDash && i+1 < n { b.WriteByte('-') noDash = false } } } return strings.TrimSuffix(b.String(), \"-\") }"

def expectedSrcReverse : String :=
  "func(slice any) { if slice == nil { return } rv := reflect.ValueOf(slice) if rv.Kind() != reflect.Slice { panic(\"reverse: cannot reverse non-slice value of type \" + rv.Type().String()) } l := rv.Len() if l <= 1 { return } swap := reflect.Swapper(slice) for i, j := 0, l-1; i < j; i, j = i+1, j-1 { swap(i, j) } return }"

def expectedSrcAbbreviate : String :=
  "func(s string, n int) string { const spaces = \" \\n\\r\\t\\f\" s = strings.TrimRight(s, spaces) if len(s) <= n { return s } p := 0 n2 := 0 for i := range s { switch p { case n - 2: n2 = i case n: break } p++ } if p <= n { return s } if n < 3 { return \"\" } if p = strings.LastIndexAny(s[:n2], spaces); p > 0 { s = strings.TrimRight(s[:p], spaces) } else { s = \"\" } if l := len(s) - 1; l >= 0 && (s[l] == '.' || s[l] == ',') { s = s[:l] } return s + \"...\" }"

def expectedSrcAbs : String :=
  "func(x int) int { if x < 0 { return -x } return x }"

def expectedSrcMax : String :=
  "func(x, y int) int { if x < y { return y } return x }"

def expectedSrcMin : String :=
  "func(x, y int) int { if y < x { return y } return x }"

def expectedSrcQueryEscape : String :=
  "func(s string) string { const hexchars = \"0123456789abcdef\" last := 0 numHex := 0 for i := 0; i < len(s); i++ { c := s[i] if '0' <= c && c <= '9' || 'a' <= c && c <= 'z' || 'A' <= c && c <= 'Z' || c == '-' || c == '.' || c == '_' { continue } last = i + 1 numHex++ } if numHex == 0 { return s } j := 0 b := make([]byte, len(s)+2*numHex) for i := 0; i < last; i++ { c := s[i] if '0' <= c && c <= '9' || 'a' <= c && c <= 'z' || 'A' <= c && c <= 'Z' || c == '-' || c == '.' || c == '_' { b[j] = c } else { b[j] = '%' j++ b[j] = hexchars[c>>4] j++ b[j] = hexchars[c&0xF] } j++ } if j != len(b) { copy(b[j:], s[last:]) } return string(b) }"

def expectedSrcIndentJSON : String :=
  "func(data native.JSON, prefix, indent string) native.JSON { if !onlyJSONWhitespace(prefix) { panic(\"indentJSON: prefix does not contain only whitespace\") } if !onlyJSONWhitespace(indent) { panic(\"indentJSON: indent does not contain only whitespace\") } var b bytes.Buffer err := json.Indent(&b, []byte(trimJSONSpace(data)), prefix, indent) if err != nil { panic(replacePrefix(err, \"json\", \"indentJSON\")) } return native.JSON(b.String()) }"

def expectedSrcMarshalJSONIndent : String :=
  "func(v any, prefix, indent string) (native.JSON, error) { if !onlyJSONWhitespace(prefix) { return \"\", errors.New(\"marshalJSONIndent: prefix does not contain only whitespace\") } if !onlyJSONWhitespace(indent) { return \"\", errors.New(\"marshalJSONIndent: indent does not contain only whitespace\") } b, err := json.MarshalIndent(v, prefix, indent) if err != nil { return \"\", fmt.Errorf(\"%s\", err) } return native.JSON(b), nil }"

end ScriggoV.Builtins
