import ScriggoV.Gen.ConvertPanic
/-! C05 — which Go panics each operation of the virtual machine can raise on code that the
compiler emits (`canRaise`), read off `run.go`, `vm.go`, `registers.go` and the reflect / Go
runtime calls they make. Hand-written and trusted; the harness measures it: every panic
recovered by the real virtual machine while running the fault-injection programs must be in
`canRaise` (an observed pair outside it is a correspondence break).

Not in `canRaise`, by the statement of the property: `*fatalError` raised by `env.Fatal`
(documented), Go run-time errors raised inside embedder-supplied native code (the embedder's),
process-level failures (out of memory, stack exhaustion of the host). Core Lean only. -/
namespace ScriggoV.Faults
open ScriggoV.Gen.ConvertPanic

/-! messages, as bytes -/
/-- `runtime error: invalid memory address or nil pointer dereference` -/
abbrev nilPointer : List UInt8 :=
  [114, 117, 110, 116, 105, 109, 101, 32, 101, 114, 114, 111, 114, 58, 32, 105, 110, 118, 97, 108, 105, 100, 32, 109, 101, 109, 111, 114, 121, 32, 97, 100, 100, 114, 101, 115, 115, 32, 111, 114, 32, 110, 105, 108, 32, 112, 111, 105, 110, 116, 101, 114, 32, 100, 101, 114, 101, 102, 101, 114, 101, 110, 99, 101]
/-- `runtime error: integer divide by zero` -/
abbrev divZero : List UInt8 :=
  [114, 117, 110, 116, 105, 109, 101, 32, 101, 114, 114, 111, 114, 58, 32, 105, 110, 116, 101, 103, 101, 114, 32, 100, 105, 118, 105, 100, 101, 32, 98, 121, 32, 122, 101, 114, 111]
/-- `runtime error: index out of range` -/
abbrev indexPfx : List UInt8 :=
  [114, 117, 110, 116, 105, 109, 101, 32, 101, 114, 114, 111, 114, 58, 32, 105, 110, 100, 101, 120, 32, 111, 117, 116, 32, 111, 102, 32, 114, 97, 110, 103, 101]
/-- `runtime error: slice bounds out of range` -/
abbrev sliceBoundsPfx : List UInt8 :=
  [114, 117, 110, 116, 105, 109, 101, 32, 101, 114, 114, 111, 114, 58, 32, 115, 108, 105, 99, 101, 32, 98, 111, 117, 110, 100, 115, 32, 111, 117, 116, 32, 111, 102, 32, 114, 97, 110, 103, 101]
/-- `reflect: slice index out of range` -/
abbrev reflSliceIndex : List UInt8 :=
  [114, 101, 102, 108, 101, 99, 116, 58, 32, 115, 108, 105, 99, 101, 32, 105, 110, 100, 101, 120, 32, 111, 117, 116, 32, 111, 102, 32, 114, 97, 110, 103, 101]
/-- `reflect: array index out of range` -/
abbrev reflArrayIndex : List UInt8 :=
  [114, 101, 102, 108, 101, 99, 116, 58, 32, 97, 114, 114, 97, 121, 32, 105, 110, 100, 101, 120, 32, 111, 117, 116, 32, 111, 102, 32, 114, 97, 110, 103, 101]
/-- `reflect.Value.Slice3: slice index out of bounds` -/
abbrev reflSlice3 : List UInt8 :=
  [114, 101, 102, 108, 101, 99, 116, 46, 86, 97, 108, 117, 101, 46, 83, 108, 105, 99, 101, 51, 58, 32, 115, 108, 105, 99, 101, 32, 105, 110, 100, 101, 120, 32, 111, 117, 116, 32, 111, 102, 32, 98, 111, 117, 110, 100, 115]
/-- `close of closed channel` -/
abbrev closeClosed : List UInt8 :=
  [99, 108, 111, 115, 101, 32, 111, 102, 32, 99, 108, 111, 115, 101, 100, 32, 99, 104, 97, 110, 110, 101, 108]
/-- `close of nil channel` -/
abbrev closeNil : List UInt8 :=
  [99, 108, 111, 115, 101, 32, 111, 102, 32, 110, 105, 108, 32, 99, 104, 97, 110, 110, 101, 108]
/-- `send on closed channel` -/
abbrev sendClosed : List UInt8 :=
  [115, 101, 110, 100, 32, 111, 110, 32, 99, 108, 111, 115, 101, 100, 32, 99, 104, 97, 110, 110, 101, 108]
/-- `assignment to entry in nil map` -/
abbrev nilMap : List UInt8 :=
  [97, 115, 115, 105, 103, 110, 109, 101, 110, 116, 32, 116, 111, 32, 101, 110, 116, 114, 121, 32, 105, 110, 32, 110, 105, 108, 32, 109, 97, 112]
/-- `runtime error: hash of unhashable type ` -/
abbrev unhashOld : List UInt8 :=
  [114, 117, 110, 116, 105, 109, 101, 32, 101, 114, 114, 111, 114, 58, 32, 104, 97, 115, 104, 32, 111, 102, 32, 117, 110, 104, 97, 115, 104, 97, 98, 108, 101, 32, 116, 121, 112, 101, 32]
/-- `hash of unhashable type: ` -/
abbrev unhashNew : List UInt8 :=
  [104, 97, 115, 104, 32, 111, 102, 32, 117, 110, 104, 97, 115, 104, 97, 98, 108, 101, 32, 116, 121, 112, 101, 58, 32]
/-- `runtime error: comparing uncomparable type ` -/
abbrev uncomparable : List UInt8 :=
  [114, 117, 110, 116, 105, 109, 101, 32, 101, 114, 114, 111, 114, 58, 32, 99, 111, 109, 112, 97, 114, 105, 110, 103, 32, 117, 110, 99, 111, 109, 112, 97, 114, 97, 98, 108, 101, 32, 116, 121, 112, 101, 32]
/-- `reflect: cannot convert slice with length` -/
abbrev convSlicePfx : List UInt8 :=
  [114, 101, 102, 108, 101, 99, 116, 58, 32, 99, 97, 110, 110, 111, 116, 32, 99, 111, 110, 118, 101, 114, 116, 32, 115, 108, 105, 99, 101, 32, 119, 105, 116, 104, 32, 108, 101, 110, 103, 116, 104]
/-- `reflect.MakeChan: negative buffer size` -/
abbrev makeChanNeg : List UInt8 :=
  [114, 101, 102, 108, 101, 99, 116, 46, 77, 97, 107, 101, 67, 104, 97, 110, 58, 32, 110, 101, 103, 97, 116, 105, 118, 101, 32, 98, 117, 102, 102, 101, 114, 32, 115, 105, 122, 101]
/-- `makechan: size out of range` -/
abbrev makeChanRange : List UInt8 :=
  [109, 97, 107, 101, 99, 104, 97, 110, 58, 32, 115, 105, 122, 101, 32, 111, 117, 116, 32, 111, 102, 32, 114, 97, 110, 103, 101]
/-- `reflect.MakeSlice: negative len` -/
abbrev makeSliceNegLen : List UInt8 :=
  [114, 101, 102, 108, 101, 99, 116, 46, 77, 97, 107, 101, 83, 108, 105, 99, 101, 58, 32, 110, 101, 103, 97, 116, 105, 118, 101, 32, 108, 101, 110]
/-- `reflect.MakeSlice: negative cap` -/
abbrev makeSliceNegCap : List UInt8 :=
  [114, 101, 102, 108, 101, 99, 116, 46, 77, 97, 107, 101, 83, 108, 105, 99, 101, 58, 32, 110, 101, 103, 97, 116, 105, 118, 101, 32, 99, 97, 112]
/-- `reflect.MakeSlice: len > cap` -/
abbrev makeSliceLenCap : List UInt8 :=
  [114, 101, 102, 108, 101, 99, 116, 46, 77, 97, 107, 101, 83, 108, 105, 99, 101, 58, 32, 108, 101, 110, 32, 62, 32, 99, 97, 112]
/-- `runtime: allocation size out of range` -/
abbrev allocRange : List UInt8 :=
  [114, 117, 110, 116, 105, 109, 101, 58, 32, 97, 108, 108, 111, 99, 97, 116, 105, 111, 110, 32, 115, 105, 122, 101, 32, 111, 117, 116, 32, 111, 102, 32, 114, 97, 110, 103, 101]

/-- the message of the run-time error for an unhashable map key (two forms, depending on the
Go run-time path) -/
def unhashable (m : List UInt8) : Bool := isPrefix unhashOld m || isPrefix unhashNew m

/-- the instruction (or the absence of one) during which a native function is running:
`OpCallNative`, `OpCallIndirect` with a native callee, `OpReturn` (a deferred native call made by
`nextCall`), and `vm.fn == nil` (a deferred native call made while unwinding) -/
def nativeCtx (hasFn : Bool) (op : Op) (neg nativeCallee : Bool) : Bool :=
  if !hasFn then true else
  match op, neg with
  | .OpCallNative, false => true
  | .OpReturn, false => true
  | .OpCallIndirect, false => nativeCallee
  | _, _ => false

/-- Go run-time errors (`runtime.Error` values that are not Scriggo's) -/
def goRuntime (op : Op) (neg : Bool) (m : List UInt8) : Bool :=
  match op, neg with
  | .OpDiv, false | .OpDivInt, false | .OpRem, false | .OpRemInt, false => m == divZero
  | .OpSetSlice, _ | .OpIndexString, _ => isPrefix indexPfx m
  | .OpStringSlice, false => isPrefix sliceBoundsPfx m
  | .OpClose, false => m == closeClosed || m == closeNil
  | .OpSend, _ | .OpSelect, false => m == sendClosed
  | .OpSetMap, _ => m == nilMap || unhashable m
  | .OpDelete, false | .OpMapIndex, _ => unhashable m
  | .OpIf, _ => isPrefix uncomparable m || unhashable m
  | .OpMakeChan, _ => m == makeChanRange
  | .OpMakeSlice, false => m == allocRange
  | .OpPanic, false => true      -- `panic(nil)` is a *runtime.PanicNilError
  | _, _ => false

/-- strings reflect panics with -/
def reflectStr (op : Op) (neg : Bool) (m : List UInt8) : Bool :=
  match op, neg with
  | .OpAddr, false | .OpIndex, _ | .OpIndexRef, _ | .OpSetSlice, _ => m == reflSliceIndex || m == reflArrayIndex
  | .OpSlice, false => m == reflSlice3
  | .OpConvert, false => isPrefix convSlicePfx m
  | .OpMakeChan, _ => m == makeChanNeg
  | .OpMakeSlice, false => m == makeSliceNegLen || m == makeSliceNegCap || m == makeSliceLenCap
  | .OpPanic, false => true      -- `panic("…")`
  | _, _ => false

/-- the faults each operation can raise; `hasFn = false`: no function is running (unwinding) -/
def canRaise (hasFn : Bool) (op : Op) (neg nativeCallee : Bool) (p : Payload) : Bool :=
  match p with
  -- `panic(errNilPointer)` of every indirect register access, failed assertions, … : every
  -- operation can raise Scriggo's own runtimeError (with any message)
  | .scriggoRuntimeError _ => true
  -- `env.Stop` called by a native function
  | .stopError => nativeCtx hasFn op neg nativeCallee
  -- a failing writer or a value that cannot be shown
  | .outError => hasFn && (op == .OpShow || op == .OpText) && !neg
  -- documented: `env.Fatal`; excluded by the property
  | .fatalError => false
  | .goRuntimeError m => hasFn && goRuntime op neg m
  | .str m => (hasFn && reflectStr op neg m) || nativeCtx hasFn op neg nativeCallee
  -- `go` of a nil function value is an error value; a native function can panic with one
  | .err => (hasFn && op == .OpGo && !neg) || (hasFn && op == .OpPanic && !neg) || nativeCtx hasFn op neg nativeCallee
  -- any other value: `panic(v)`, a panicking native function
  | .other => (hasFn && op == .OpPanic && !neg) || nativeCtx hasFn op neg nativeCallee

end ScriggoV.Faults
