/-! The parse sites of the path-taking statements (C18).

A *site* is a place of the template grammar at which the parser builds a node that carries a
file path — `*ast.Extends`, `*ast.Import`, `*ast.Render` — together with the `end` token kind
the statement parser `(*parsing).parse(tok, end)` was entered with:

* `tokenEndStatement`   the statement is written as `{% … %}`;
* `tokenEndStatements`  the statement is one of the statements of a `{%% … %%}` block
                        (an import there can also be grouped: `import ( "a"; "b" )`);
* `tokenEOF`            programs, scripts and the body of a function literal;
* (no `end` at all)     the operand `render "p"` of the expression of `{{ … }}`.

A *guard* is what the parser does with the path before it builds the node.  The table
`Site → Guard` is **generated** from /repo (`Gen/PathSites.lean`, generator `PathSites` of
go/cmd/extract): one entry per case of the `end` switch / `if` that leads to the node
constructor, so that a forgotten case is an entry `Guard.none`.  Core Lean only. -/
namespace ScriggoV.Paths

/-- what is done with the path before the node is built -/
inductive Guard
  | none       -- nothing: the path reaches `rooted` as it was written
  | template   -- `if !ValidTemplatePath(path) { panic(syntaxError(…)) }`
  | package    -- `validatePackagePath(path, pos)` (programs; accepts "main" or a valid template
               -- path that passes further tests)
  deriving DecidableEq, Repr

/-- a path-taking statement × the `end` token kind in force where it is parsed -/
inductive Site
  | extStmt | extStmts | extEOF
  | impStmt | impStmts | impEOF
  | renShow | renStmt | renStmts | renEOF
  deriving DecidableEq, Repr

def Site.all : List Site :=
  [.extStmt, .extStmts, .extEOF, .impStmt, .impStmts, .impEOF, .renShow, .renStmt, .renStmts, .renEOF]

theorem Site.mem_all (s : Site) : s ∈ Site.all := by cases s <;> decide

abbrev SiteTable := Site → Guard

/-- every site does something with its path -/
def Guarded (tbl : SiteTable) : Prop := ∀ s, tbl s ≠ .none

/-- the decision procedure of `Guarded`: a look at the whole (finite) table -/
def guardedB (tbl : SiteTable) : Bool := Site.all.all fun s => tbl s != .none

theorem guarded_of_check (tbl : SiteTable) (h : guardedB tbl = true) : Guarded tbl := by
  intro s
  have := List.all_eq_true.mp h s (Site.mem_all s)
  simpa using this

theorem check_of_guarded (tbl : SiteTable) (h : Guarded tbl) : guardedB tbl = true := by
  apply List.all_eq_true.mpr
  intro s _
  simpa using h s

/-- the table of a parser that validates at every site (what the theorems need of the real one) -/
def SiteTable.ideal : SiteTable
  | .impEOF => .package
  | _ => .template

end ScriggoV.Paths
