import ScriggoV.Gen.FieldIndex
import ScriggoV.Model.Struct
/-! # The per-function table of field-index paths (C01)

`functionBuilder.makeFieldIndex` (builder.go) keeps, per compiled function, the list
`fn.FieldIndexes` of the `reflect.StructField.Index` paths its `Field` / `SetField` / `Addr`
instructions use; an instruction carries the POSITION of its path in that list, and the VM's
`fieldByIndex` walks the path it finds there. The list is de-duplicated with `sameFieldIndex`.

The comparisons, operand orders and returned constants of the two functions are regenerated
(`Gen/FieldIndex.lean`); their control skeleton is mirrored here by hand (the generator refuses any
other skeleton): the guard, the `for k, i := range` loop with its checked access `other[k]`, the
scan of the table in order, the limit test, the append. Then: `compileEvents` — the emitter's
requests in order (`Struct.Ev`) threaded through the table; and a small register machine for whole
selector reads and writes (`SStmt` → `SInstr`), to state what a right table buys: the compiled
instructions, run against the FINAL table of the function, do what the source selectors say. -/
namespace ScriggoV.FieldIndex
open ScriggoV.Gen.FieldIndex ScriggoV.Struct

inductive Err
  | index      -- `other[k]` out of range: a host panic inside the compiler
  | limit      -- LimitExceededError
  deriving DecidableEq, Repr, Inhabited

/-- `for k, a := range ranged { if elemGuard a other[k] { return elemGuardResult } }; return finalResult`
(`k` is the position reached) -/
def sameLoop (other : Path) : Path → Nat → Except Err Bool
  | [], _ => .ok finalResult
  | a :: rest, k =>
    match other[k]? with
    | none => .error .index
    | some b => if elemGuard a b then .ok elemGuardResult else sameLoop other rest (k + 1)

/-- `sameFieldIndex(i1, i2)` -/
def sameFieldIndex (i1 i2 : Path) : Except Err Bool :=
  if lenGuard i1.length i2.length then .ok lenGuardResult
  else if rangeFirst then sameLoop i2 i1 0 else sameLoop i1 i2 0

/-- the scan `for i, index2 := range fb.fn.FieldIndexes { if sameFieldIndex(…) { return int8(i) } }` -/
def findFrom (p : Path) : List Path → Nat → Except Err (Option Nat)
  | [], _ => .ok none
  | q :: rest, i =>
    match (if requestedFirst then sameFieldIndex p q else sameFieldIndex q p) with
    | .error e => .error e
    | .ok true => .ok (some i)
    | .ok false => findFrom p rest (i + 1)

/-- `makeFieldIndex(index)`: the position answered and the table afterwards -/
def makeFieldIndex (tbl : List Path) (p : Path) : Except Err (Nat × List Path) :=
  match findFrom p tbl 0 with
  | .error e => .error e
  | .ok (some i) => .ok (i, tbl)
  | .ok none => if limitReached tbl.length then .error .limit else .ok (tbl.length, tbl ++ [p])

/-- the position travels as `int8(position)` in the instruction and is read back as `uint8(operand)` -/
def readBack (i : Nat) : Nat := (BitVec.ofNat indexBits i).toNat

/-! ## the emitter's requests threaded through the table -/

inductive FI
  | field (i : Nat)
  | setField (i : Nat)
  deriving DecidableEq, Repr, Inhabited

def emitOf (i : Nat) : Ev → List FI
  | .read _ => [.field i]
  | .addr _ => []
  | .store _ => [.setField i]

def compileEvents : List Ev → List Path → Except Err (List FI × List Path)
  | [], tbl => .ok ([], tbl)
  | ev :: rest, tbl =>
    match makeFieldIndex tbl ev.path with
    | .error e => .error e
    | .ok (i, tbl1) =>
      match compileEvents rest tbl1 with
      | .error e => .error e
      | .ok (code, tbl2) => .ok (emitOf i ev ++ code, tbl2)

/-- what the disassembler prints for an instruction: kind and the path STORED at its position -/
def printed (tbl : List Path) : FI → Option (Bool × Path)
  | .field i => tbl[readBack i]?.map fun p => (false, p)
  | .setField i => tbl[readBack i]?.map fun p => (true, p)

/-- what the source asks for: kind and the REQUESTED path of every instruction -/
def requested : List Ev → List (Bool × Path)
  | [] => []
  | .read p :: rest => (false, p) :: requested rest
  | .addr _ :: rest => requested rest
  | .store p :: rest => (true, p) :: requested rest

/-! ## whole-selector reads and writes on a register machine -/

inductive SStmt
  | get (dst src : Nat) (p : Path)      -- r[dst] = r[src].<path>
  | set (obj : Nat) (p : Path) (src : Nat)   -- r[obj].<path> = r[src]
  deriving Repr, Inhabited

inductive SInstr
  | field (src idx dst : Nat)           -- OpField
  | setField (src obj idx : Nat)        -- OpSetField
  deriving Repr, Inhabited

abbrev Regs := List SVal

def getPut (dst src : Nat) (p : Path) (rs : Regs) : Option Regs :=
  rs[src]?.bind fun v => (select p v).bind fun x => setLocal dst x rs

def setPut (obj : Nat) (p : Path) (src : Nat) (rs : Regs) : Option Regs :=
  rs[obj]?.bind fun v => rs[src]?.bind fun x => (update p x v).bind fun v' => setLocal obj v' rs

def SStmt.eval : SStmt → Regs → Option Regs
  | .get dst src p, rs => getPut dst src p rs
  | .set obj p src, rs => setPut obj p src rs

/-- the VM: `fieldByIndex` walks the path stored at the instruction's position -/
def SInstr.exec (tbl : List Path) : SInstr → Regs → Option Regs
  | .field src idx dst, rs => tbl[readBack idx]?.bind fun p => getPut dst src p rs
  | .setField src obj idx, rs => tbl[readBack idx]?.bind fun p => setPut obj p src rs

def evalAll : List SStmt → Regs → Option Regs
  | [], rs => some rs
  | s :: rest, rs => (s.eval rs).bind (evalAll rest)

def execAll (tbl : List Path) : List SInstr → Regs → Option Regs
  | [], rs => some rs
  | i :: rest, rs => (i.exec tbl rs).bind (execAll tbl rest)

def SStmt.path : SStmt → Path
  | .get _ _ p | .set _ p _ => p

def SStmt.instr (i : Nat) : SStmt → SInstr
  | .get dst src _ => .field src i dst
  | .set obj _ src => .setField src obj i

def compileS : List SStmt → List Path → Except Err (List SInstr × List Path)
  | [], tbl => .ok ([], tbl)
  | s :: rest, tbl =>
    match makeFieldIndex tbl s.path with
    | .error e => .error e
    | .ok (i, tbl1) =>
      match compileS rest tbl1 with
      | .error e => .error e
      | .ok (code, tbl2) => .ok (s.instr i :: code, tbl2)

end ScriggoV.FieldIndex
