import ScriggoV.Gen.NativeEnv
import ScriggoV.Model.Runs
/-! # C19 — which execution environment a native call observes, over histories of runs

One compiled artefact is run many times, each run with its own `RunOptions` (print hook, context,
variables): `Run` creates a VM with a new `env` (`runtime.NewVM`) and configures *that* env. A
native function that takes a `native.Env` must be handed the env of the run that calls it —
whatever ran before on the same artefact.

The one place where per-run data is stored in the artefact is the pooled argument slice of a
`NativeFunction` (`argsPool`): `callNative` takes a `[]reflect.Value` from the pool, writes the
arguments into it, calls, and puts it back *still holding them*. The model keeps the pools in the
shared part of the machine of `Model/Runs.lean` (`Runs.Machine`, `Runs.Sys`, schedules), with
arbitrary stale contents, and fills a slice the way the regenerated `Gen/NativeEnv.lean` says
`callNative` does (`Rules`): per class of parameter, written always / only if the slot is still
empty / under some other condition / never. Invariant wanted: *every slot that holds per-run data
is overwritten before use*.

Not modelled here: that the slice handed to `go native(args)` is not put back while the callee
may still read it (C10: `no_put_reachable_after_go`). Core Lean only (linked into the driver). -/
namespace ScriggoV.EnvPool
open ScriggoV.Gen.NativeEnv
open ScriggoV.Runs

/-- a slot of a pooled `[]reflect.Value` -/
inductive Slot
  | empty                  -- `reflect.New(t).Elem()`: nil / zero, as `argsPool.New` makes it
  | env (e : Nat)          -- a `native.Env`: the one of the run with token `e`
  | val (v : Int)          -- an ordinary argument (from a register)
  | vals (vs : List Int)   -- the slice of a variadic parameter
  deriving DecidableEq, Repr

/-- the VM that executes a call -/
inductive VMKind
  | main       -- the VM `Run` created (`NewVM`)
  | goroutine  -- a VM made by `startGoroutine` for `go f()` of a Scriggo function
  | callback   -- a VM made by `(*callable).Value` when native code calls a Scriggo function back
  deriving DecidableEq, Repr

/-- how the code treats per-run data on the way to a native call -/
structure Rules where
  envFill : Fill
  regFill : Fill
  varFill : Fill
  /-- what is written into an env slot is `vm.envArg` -/
  envFromVm : Bool
  /-- wherever `env` or `envArg` of a VM is assigned, `envArg` is `reflect.ValueOf` of that env -/
  envArgIsEnv : Bool
  /-- every VM other than the one `Run` creates is created with the env of the VM creating it -/
  spawnInherits : Bool
  /-- the fill loop comes before the `Call`/`CallSlice`, which are handed the filled slice -/
  fillBeforeCall : Bool
  deriving DecidableEq, Repr

/-- the obligation on the code -/
def Rules.Sound (R : Rules) : Prop :=
  R.envFill = .always ∧ R.regFill = .always ∧ R.varFill = .always ∧ R.envFromVm = true ∧
  R.envArgIsEnv = true ∧ R.spawnInherits = true ∧ R.fillBeforeCall = true

instance (R : Rules) : Decidable R.Sound := by unfold Rules.Sound; infer_instance

def Rules.fillOf (R : Rules) : SlotClass → Fill
  | .env => R.envFill
  | .reg => R.regFill
  | .variadic => R.varFill

/-- one write of the fill loop. A write under a condition the model knows nothing about is taken
as not happening. -/
def writeSlot : Fill → Slot → Slot → Slot
  | .always, _, new => new
  | .ifEmpty, old, new => if old = .empty then new else old
  | .guarded, old, _ => old
  | .never, old, _ => old

/-- a native call in the code: which function, from which VM, started with `go` or not, and the
constants its ordinary arguments are computed from (the run's input is added: per-run data) -/
structure Call where
  f : Nat
  vm : VMKind
  async : Bool
  args : List Int
  deriving DecidableEq, Repr

/-- what the callee finds in its argument slice, next to what a fresh slice filled by the calling
run would hold -/
structure Seen where
  f : Nat
  got : List Slot
  want : List Slot
  deriving DecidableEq, Repr

/-- the artefact: signatures of its native functions, the native calls of its code in order, and
per native function the pooled slices with whatever the last call left in them -/
structure Artefact where
  natives : List (List SlotClass)
  body : List Call
  pools : List (List (List Slot))
  deriving Repr

/-- a run: its env (identified by the run's token), its input, and the native goroutines it
started whose callee has not read its arguments yet -/
structure Run where
  env : Nat
  input : Int
  pc : Nat := 0
  inflight : List Seen := []
  deriving DecidableEq, Repr

/-- an env that is not the run's own -/
def notEnvOf (l : Run) : Nat := l.env + 1

/-- the env of the VM that executes the call -/
def vmEnv (R : Rules) (l : Run) : VMKind → Nat
  | .main => l.env
  | _ => if R.spawnInherits then l.env else notEnvOf l

/-- what `callNative` writes into an env slot -/
def envArg (R : Rules) (l : Run) (k : VMKind) : Nat :=
  if R.envFromVm && R.envArgIsEnv then vmEnv R l k else notEnvOf l

def newSlot (c : SlotClass) (e : Nat) (input a : Int) : Slot :=
  match c with
  | .env => .env e
  | .reg => .val (a + input)
  | .variadic => .vals [a + input]

/-- the fill loop over a slice taken from the pool (a slice shorter than the signature counts as
empty from there on: `argsPool.New` makes slices of the right length) -/
def fillSlice (R : Rules) (e : Nat) (input : Int) : List SlotClass → List Slot → List Int → List Slot
  | [], _, _ => []
  | c :: cs, old, as =>
    writeSlot (R.fillOf c) (old.headD .empty) (newSlot c e input (as.headD 0))
      :: fillSlice R e input cs old.tail as.tail

/-- the same loop over a new slice -/
def ideal (e : Nat) (input : Int) : List SlotClass → List Int → List Slot
  | [], _ => []
  | c :: cs, as => newSlot c e input (as.headD 0) :: ideal e input cs as.tail

/-- `sync.Pool.Get` -/
def poolGet (pools : List (List (List Slot))) (f : Nat) : List Slot × List (List (List Slot)) :=
  match pools[f]? with
  | some (s :: rest) => (s, pools.set f rest)
  | _ => ([], pools)

/-- `sync.Pool.Put` -/
def poolPut (pools : List (List (List Slot))) (f : Nat) (s : List Slot) : List (List (List Slot)) :=
  match pools[f]? with
  | some p => pools.set f (s :: p)
  | none => pools

/-- once the code is through, one of the started native goroutines reads its arguments -/
def deliver (sh : Artefact) (l : Run) : Artefact × Run × List Seen :=
  match l.inflight with
  | [] => (sh, l, [])
  | p :: rest => (sh, { l with inflight := rest }, [p])

/-- `callNative`: get a slice from the pool, fill it, call (or start the callee with `go`: it
reads the slice later, and the slice does not return to the pool), put it back -/
def callStep (R : Rules) (sh : Artefact) (l : Run) (c : Call) : Artefact × Run × List Seen :=
  let sig := sh.natives.getD c.f []
  let got := poolGet sh.pools c.f
  let filled := fillSlice R (envArg R l c.vm) l.input sig got.1 c.args
  let seen : Seen := ⟨c.f, if R.fillBeforeCall then filled else got.1, ideal l.env l.input sig c.args⟩
  if c.async then
    ({ sh with pools := got.2 }, { l with pc := l.pc + 1, inflight := l.inflight ++ [seen] }, [])
  else
    ({ sh with pools := poolPut got.2 c.f filled }, { l with pc := l.pc + 1 }, [seen])

/-- one step of a run: the next native call of the code, or a delivery -/
def step (R : Rules) (sh : Artefact) (l : Run) : Artefact × Run × List Seen :=
  match sh.body[l.pc]? with
  | none => deliver sh l
  | some c => callStep R sh l c

/-- the machine of `Model/Runs.lean` whose steps are native calls -/
abbrev machine (R : Rules) : Machine := ⟨Artefact, Run, Seen, step R⟩

/-- the envs a slice carries -/
def envsOf : List Slot → List Nat
  | [] => []
  | .env e :: ss => e :: envsOf ss
  | _ :: ss => envsOf ss

/-- the callee found exactly what the run with env `e` passes, and every env in it is `e` -/
def Seen.Good (e : Nat) (o : Seen) : Prop := o.got = o.want ∧ ∀ e' ∈ envsOf o.want, e' = e

/-! ## the code's rules, read off `Gen/NativeEnv.lean` -/

def fillOfClass (c : SlotClass) : Fill :=
  match slotRules.find? (fun r => r.cls == c) with
  | some r => r.fill
  | none => .never

def srcOfClass (c : SlotClass) : Src :=
  match slotRules.find? (fun r => r.cls == c) with
  | some r => r.src
  | none => .other

def codeRules : Rules where
  envFill := fillOfClass .env
  regFill := fillOfClass .reg
  varFill := fillOfClass .variadic
  envFromVm := srcOfClass .env == .vmEnvArg
  envArgIsEnv := !envArgSites.isEmpty && envArgSites.all (fun s => s.2.2.2)
    && envArgSites.length == envWrites && vmLiteralsSettingEnv == 0
  spawnInherits :=
    createSites.all (fun s => s.2.2 == .vmEnv || s.2.2 == .param || (s.2.2 == .fresh && s.1 == "NewVM"))
    && valueArgs.all (fun s => s.2 == "vm.env")
  fillBeforeCall := !callSites.isEmpty && callSites.all (fun s => s.2.1 && s.2.2)

/-- a history: `n` runs of one artefact with empty pools, run `i` with env `i` and input `i` -/
def freshSys (R : Rules) (natives : List (List SlotClass)) (body : List Call) (n : Nat) : Sys (machine R) :=
  ⟨⟨natives, body, List.replicate natives.length []⟩,
   (List.range n).map (fun i => ({ env := i, input := (i : Int) } : Run)), []⟩

end ScriggoV.EnvPool
