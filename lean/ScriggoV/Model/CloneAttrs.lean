/-! Control-flow skeleton of the arms of `astutil.CloneExpression` / `CloneNode` (C28) with
respect to the attributes every node shares: the parenthesis count of an expression (copied
by the epilogue `expr2.SetParenthesis(expr.Parenthesis())` that follows the type switch) and
the position (copied by `ClonePosition` in the constructor call of the arm).

An arm leaves the switch either by reaching its end — then the epilogue runs on the shared
result variable — or by a `return` of its own, which skips the epilogue. The real skeleton is
regenerated into `Gen/AstSchema.lean` (`cloneExits`, `cloneEpilogueParen`, `clonePos`).
Core Lean only. -/
namespace ScriggoV.CloneAttrs

/-- one way out of an arm of the type switch -/
inductive Exit where
  /-- the arm reaches its end; `assigned`: the shared result variable is assigned by a
  statement on the arm's top level (so on every path to the end) -/
  | fall (assigned : Bool)
  /-- a `return x` inside the arm; `selfParen`: `x.SetParenthesis(<original>.Parenthesis())`
  is executed on the returned variable before it -/
  | ret (selfParen : Bool)
  deriving DecidableEq, Repr

/-- where the arm's constructor call takes the position of the copy from -/
inductive PosMode where
  /-- `ClonePosition(e.Position)` / `ClonePosition(e.Pos())` of the node being cloned -/
  | cloned
  /-- the constructor has no position parameter (it makes the position itself) -/
  | ctor
  /-- anything else: the original's pointer, another node's position, nil, … -/
  | other
  deriving DecidableEq, Repr

/-- Parenthesis count of the value that leaves the clone function through exit `e` when the
original has `p` parentheses (`none`: there is no value — the result variable was never
assigned). Constructors make nodes with 0 parentheses; `epilogue` says whether the statements
after the switch copy the count. -/
def parenOut (epilogue : Bool) (p : Nat) : Exit → Option Nat
  | .fall true => some (if epilogue then p else 0)
  | .fall false => none
  | .ret s => some (if s then p else 0)

/-- boolean form of "the exit keeps the parenthesis count" -/
def exitKeeps (epilogue : Bool) : Exit → Bool
  | .fall a => a && epilogue
  | .ret s => s

theorem parenOut_of_keeps (epilogue : Bool) (e : Exit) (h : exitKeeps epilogue e = true) (p : Nat) :
    parenOut epilogue p e = some p := by
  cases e with
  | fall a => cases a <;> cases epilogue <;> simp_all [exitKeeps, parenOut]
  | ret s => cases s <;> simp_all [exitKeeps, parenOut]

/-- and conversely: an exit that does not keep it loses a parenthesised original's count -/
theorem parenOut_of_not_keeps (epilogue : Bool) (e : Exit) (h : exitKeeps epilogue e = false) :
    parenOut epilogue 1 e ≠ some 1 := by
  cases e with
  | fall a => cases a <;> cases epilogue <;> simp_all [exitKeeps, parenOut]
  | ret s => cases s <;> simp_all [exitKeeps, parenOut]

end ScriggoV.CloneAttrs
