import ScriggoV.Basic.Bytes
/-! C05 — the URL state machine of the template renderer
(`internal/runtime/renderer.go`: `renderer.Text`, `renderer.Show` → `showInURL`, `endURL`).

Hand-written from the Go code, statement by statement; every Go index is a checked access
(`txt[0]`, `s[len(s)-1]`), so "the renderer never indexes out of range" is the theorem
`run calls ≠ .error _`. What the escapers (`pathEscape`, `queryEscape`, the non-URL
contexts) write is not modelled here (C06/C07): the output is a list of tokens naming the
escaper and its argument. Writer errors are C13's and are not modelled (every write succeeds).
Core Lean only. -/
namespace ScriggoV.URLState

/-- the four URL fields of `renderer` -/
structure State where
  inURL : Bool := false
  query : Bool := false
  addAmpersand : Bool := false
  removeQuestionMark : Bool := false
  deriving DecidableEq, Repr

/-- one call on the renderer. `text`: `Text(txt, inURL, isSet)`. `show`: `Show(env, v, ctx)`
where `s` is `html.UnescapeString` of what `showInHTML` wrote for `v` (only used in a URL),
`quoted` says `ctx == ContextQuotedAttr`. `showErr`: a `Show` whose `showInHTML` returned an
error (a value that cannot be shown): in a URL it returns before touching the state. -/
inductive Call where
  | text (txt : Bytes) (inURL isSet : Bool)
  | «show» (s : Bytes) (inURL quoted : Bool)
  | showErr (inURL : Bool)
  deriving DecidableEq, Repr

/-- what is written, by whom -/
inductive Out where
  | raw (b : Bytes)                  -- `r.out.Write(txt)`
  | amp                              -- `io.WriteString(r.out, "&amp;")`
  | path (s : Bytes) (quoted : Bool) -- `pathEscape(out, s, quoted)`
  | query (s : Bytes)                -- `queryEscape(out, s)`
  | other (s : Bytes)                -- one of the non-URL `showIn*`
  deriving DecidableEq, Repr

/-- `endURL` -/
def endURL (_ : State) : State := {}

/-- the prologue shared by `Text` and `Show`: "check and eventually change the URL state" -/
def enter (r : State) (inURL : Bool) : State :=
  if r.inURL != inURL then
    let r := if !inURL then endURL r else r
    { r with inURL := inURL }
  else r

/-- Go `s[len(s)-1]` -/
def lastByte (s : Bytes) : Except Fault UInt8 :=
  if s.length = 0 then .error .index else getAt s (s.length - 1)

/-- the `else if r.query` branch of `Text` up to the write of `txt` -/
def textQuery (r : State) (txt : Bytes) : Except Fault (State × List Out) := do
  let c0 ← if r.removeQuestionMark then getAt txt 0 else pure 0   -- `txt[0]`, evaluated only then
  let txt := if r.removeQuestionMark && c0 == 0x3F then txt.drop 1 else txt
  -- `len(txt) > 0 && txt[0] != '&'`
  let amp : List Out :=
    if r.addAmpersand && decide (txt.length > 0) && txt.head? != some 0x26 then [.amp] else []
  pure ({ r with removeQuestionMark := false, addAmpersand := false }, amp ++ [.raw txt])

/-- `renderer.Text` -/
def text (r : State) (txt : Bytes) (inURL isSet : Bool) : Except Fault (State × List Out) :=
  let r := enter r inURL
  if inURL then
    if isSet && txt.contains 0x2C then
      .ok ({ r with query := false }, [.raw txt])
    else if r.query then
      textQuery r txt
    else
      .ok ({ r with query := txt.any (fun c => c == 0x3F || c == 0x23) }, [.raw txt])
  else .ok (r, [.raw txt])

/-- the `r.query && r.removeQuestionMark` branch of `showInURL` (with the guard `len(s) > 0`
that the code has now) -/
def showRemoveQ (r : State) (s : Bytes) (quoted : Bool) : Except Fault (State × List Out) :=
  if s.length > 0 then do
    let c ← lastByte s
    pure ({ r with addAmpersand := c != 0x26 }, [.path s quoted])
  else .ok (r, [.path s quoted])

/-- the part of `showInURL` taken when `s` contains `?` outside a query -/
def showStartQuery (r : State) (s : Bytes) (quoted : Bool) : Except Fault (State × List Out) := do
  let c ← lastByte s
  let r := { r with query := true, removeQuestionMark := true }
  let r := if c != 0x26 && c != 0x3F then { r with addAmpersand := true } else r
  pure (r, [.path s quoted])

/-- `showInURL` after `showInHTML` succeeded -/
def showInURL (r : State) (s : Bytes) (quoted : Bool) : Except Fault (State × List Out) :=
  if r.query then
    if r.removeQuestionMark then showRemoveQ r s quoted
    else .ok (r, [.query s])
  else if s.contains 0x3F then showStartQuery r s quoted
  else .ok (r, [.path s quoted])

/-- one call -/
def step (r : State) : Call → Except Fault (State × List Out)
  | .text txt inURL isSet => text r txt inURL isSet
  | .show s inURL quoted =>
    let r := enter r inURL
    if inURL then showInURL r s quoted else .ok (r, [.other s])
  | .showErr inURL => .ok (enter r inURL, [])

/-- a sequence of calls on a new renderer: the final state and everything written -/
def runFrom (r : State) : List Call → Except Fault (State × List Out)
  | [] => .ok (r, [])
  | c :: cs => do
    let (r1, o1) ← step r c
    let (r2, o2) ← runFrom r1 cs
    pure (r2, o1 ++ o2)

def run (calls : List Call) : Except Fault (State × List Out) := runFrom {} calls

/-- the emitter never emits an empty `Text` (`emitter_statements.go`: `if len(txt) != 0`) -/
def Call.wellFormed : Call → Bool
  | .text txt _ _ => !txt.isEmpty
  | _ => true

end ScriggoV.URLState
