/-! # The direct (uncancellable) channel calls of the instruction loop (C11)

`OpReceive`, `OpSend`, `OpSelect` and `OpRange` make their channel operation either through
`reflect.Select` with the context's done case appended, or *directly* (`ch.Send(v)`, `ch.Recv()`,
`reflect.Select(vm.cases)`): a direct call is woken by the channel only. Which of the two is
decided by the guard of an `if`. This file models one sender on a buffered channel that other
goroutines use as well, under a cancellable context, and asks what the guard may depend on.

* `noContext` (`done == nil`): fixed before the first instruction; false under a cancellable context.
* `localFlag`: a variable of the activation (`hasDefaultCase`), not shared with anybody.
* `observation`: anything read from the channel (`ch.Len() < ch.Cap()`): true when read, possibly
  false when acted upon — another goroutine can take the last free slot in between.

Core Lean only. -/
namespace ScriggoV.Cancel.FastPath

inductive Guard
  | noContext | localFlag | observation
deriving DecidableEq, Repr

/-- classification of the guard texts that the extractor finds -/
def guardOf (g : String) : Guard :=
  if g == "done == nil" then .noContext
  else if g == "done == nil || hasDefaultCase" then .localFlag
  else .observation

inductive Phase
  | idle
  | decidedFast        -- the guard was true: the direct call comes next
  | decidedSlow        -- the guard was false: reflect.Select with the done case comes next
  | parkedPlain        -- inside ch.Send(v): only the channel wakes it
  | parkedWithDone     -- inside reflect.Select: the channel or the closed Done() channel wakes it
  | sent
  | stopped            -- `return vm.stop()`
deriving DecidableEq, Repr

inductive Ev
  | check              -- the sender evaluates the guard
  | act                -- the sender makes (or is still inside) its call
  | fill               -- another goroutine sends on the channel
  | drain              -- another goroutine receives from it
  | cancel             -- the context is cancelled (the receivers of the run stop: no drain afterwards)
deriving DecidableEq, Repr

structure St where
  len : Nat
  cap : Nat
  ph : Phase
  cancelled : Bool
deriving DecidableEq, Repr

/-- `racy`: the guard of the direct send reads the channel (`… || ch.Len() < ch.Cap()`); otherwise it
is `done == nil`, false here (the context is cancellable) -/
def step (racy : Bool) (s : St) : Ev → St
  | .check =>
    match s.ph with
    | .idle => if racy && s.len < s.cap then { s with ph := .decidedFast } else { s with ph := .decidedSlow }
    | _ => s
  | .fill => if s.len < s.cap then { s with len := s.len + 1 } else s
  | .drain => if s.cancelled then s else { s with len := s.len - 1 }
  | .cancel => { s with cancelled := true }
  | .act =>
    match s.ph with
    | .decidedFast | .parkedPlain =>
      if s.len < s.cap then { s with len := s.len + 1, ph := .sent } else { s with ph := .parkedPlain }
    | .decidedSlow | .parkedWithDone =>
      if s.len < s.cap then { s with len := s.len + 1, ph := .sent }
      else if s.cancelled then { s with ph := .stopped } else { s with ph := .parkedWithDone }
    | _ => s

def run (racy : Bool) (s : St) (evs : List Ev) : St := evs.foldl (step racy) s

end ScriggoV.Cancel.FastPath
