import ScriggoV.Gen.Precedence
/-!
# Printing and parsing of expressions (property C27)

Hand-written executable model (core Lean only) of

* `ast/ast.go`: the `String()` methods of `Identifier`, `BasicLiteral` (int), `UnaryOperator`,
  `BinaryOperator`, `Call`, `Index`, `Selector` (as they are: only `*x`/`<-x` under a call is
  parenthesised, see `callParens`) and the parentheses count of `expression`
  (`print`, to a list of *tokens*; the parenthesisation conditions and the precedence table are
  the generated definitions of `Gen/Precedence.lean`);
* `internal/compiler/parser_expressions.go`: `parseExpr` restricted to the tokens `print` emits
  (`parse`). The operator-path algorithm is the real one (`path` is `List Frame`, leaf first:
  a unary operator is pushed; a binary operator goes up the path while
  `op.Precedence() <= path[p-1].Precedence()` — `reduce` — and becomes the new leaf;
  `addLastOperand` is `closeAll`). The recursive calls of `parseExpr` for `( e )`, `f(args)` and
  `e[i]` are made explicit as a stack of suspended contexts (`Ctx`), so that the parser is a fold
  of `step` over the tokens: `Mode.operand` is the top of the outer `for` loop (an operand or a
  unary operator is expected), `Mode.operator e` is the inner loop `for operator == nil` after
  the operand `e`.

A parenthesised expression is `Expr.paren e` (the real tree keeps a count on the node:
`expr.SetParenthesis(expr.Parenthesis() + 1)`); `String()` ignores the count and looks at the
node's type, hence `print (.paren e) = print e` and `prec?` looks through `paren`.
-/
namespace ScriggoV.ExprPP
open ScriggoV.Gen.Precedence

/-- the unary operators `parseExpr` builds -/
inductive UnOp where
  | not | plus | minus | xor | pointer | address | receive | extNot
  deriving DecidableEq, Repr

/-- the binary operators `parseExpr` builds -/
inductive BinOp where
  | eq | ne | lt | le | gt | ge | bitAnd | bitOr | and | or | add | sub | mul | div | mod
  | xor | andNot | shl | shr | contains | notContains | extAnd | extOr
  deriving DecidableEq, Repr

def UnOp.all : List UnOp := [.not, .plus, .minus, .xor, .pointer, .address, .receive, .extNot]
def BinOp.all : List BinOp := [.eq, .ne, .lt, .le, .gt, .ge, .bitAnd, .bitOr, .and, .or, .add, .sub,
  .mul, .div, .mod, .xor, .andNot, .shl, .shr, .contains, .notContains, .extAnd, .extOr]

/-- `operatorFromTokenType(typ, false)` / the `ast.Operator…` constant of the node -/
def UnOp.toOp : UnOp → Op
  | .not => .Not | .plus => .Addition | .minus => .Subtraction | .xor => .Xor
  | .pointer => .Pointer | .address => .Address | .receive => .Receive | .extNot => .ExtendedNot

def BinOp.toOp : BinOp → Op
  | .eq => .Equal | .ne => .NotEqual | .lt => .Less | .le => .LessEqual | .gt => .Greater
  | .ge => .GreaterEqual | .bitAnd => .BitAnd | .bitOr => .BitOr | .and => .And | .or => .Or
  | .add => .Addition | .sub => .Subtraction | .mul => .Multiplication | .div => .Division
  | .mod => .Modulo | .xor => .Xor | .andNot => .AndNot | .shl => .LeftShift | .shr => .RightShift
  | .contains => .Contains | .notContains => .NotContains | .extAnd => .ExtendedAnd | .extOr => .ExtendedOr

/-- operator tokens of the lexer, one per spelling -/
inductive OpTok where
  | eq | ne | lt | le | gt | ge | not | amp | bar | andand | oror | plus | minus | star | slash
  | percent | caret | andnot | shl | shr | contains | arrow | extAnd | extOr | extNot
  deriving DecidableEq, Repr

def OpTok.all : List OpTok := [.eq, .ne, .lt, .le, .gt, .ge, .not, .amp, .bar, .andand, .oror, .plus,
  .minus, .star, .slash, .percent, .caret, .andnot, .shl, .shr, .contains, .arrow, .extAnd, .extOr, .extNot]

/-- spelling of an operator token in the source -/
def OpTok.text : OpTok → String
  | .eq => "==" | .ne => "!=" | .lt => "<" | .le => "<=" | .gt => ">" | .ge => ">=" | .not => "!"
  | .amp => "&" | .bar => "|" | .andand => "&&" | .oror => "||" | .plus => "+" | .minus => "-"
  | .star => "*" | .slash => "/" | .percent => "%" | .caret => "^" | .andnot => "&^" | .shl => "<<"
  | .shr => ">>" | .contains => "contains" | .arrow => "<-" | .extAnd => "and" | .extOr => "or"
  | .extNot => "not"

inductive Token where
  | ident (n : Nat)
  | int (n : Nat)
  | op (o : OpTok)
  | lparen | rparen | lbrack | rbrack | period | comma | ellipsis
  deriving DecidableEq, Repr

/-- the token of a unary operator (`UnaryOperator.String`: `n.Op.String()`) -/
def unTok : UnOp → OpTok
  | .not => .not | .plus => .plus | .minus => .minus | .xor => .caret | .pointer => .star
  | .address => .amp | .receive => .arrow | .extNot => .extNot

/-- the tokens of a binary operator (`" " + n.Op.String() + " "`); `not contains` is two tokens -/
def binToks : BinOp → List Token
  | .eq => [.op .eq] | .ne => [.op .ne] | .lt => [.op .lt] | .le => [.op .le] | .gt => [.op .gt]
  | .ge => [.op .ge] | .bitAnd => [.op .amp] | .bitOr => [.op .bar] | .and => [.op .andand]
  | .or => [.op .oror] | .add => [.op .plus] | .sub => [.op .minus] | .mul => [.op .star]
  | .div => [.op .slash] | .mod => [.op .percent] | .xor => [.op .caret] | .andNot => [.op .andnot]
  | .shl => [.op .shl] | .shr => [.op .shr] | .contains => [.op .contains]
  | .notContains => [.op .extNot, .op .contains] | .extAnd => [.op .extAnd] | .extOr => [.op .extOr]

/-- parser: the unary `case` of the outer switch (`tokenArrow` not followed by `chan` included) -/
def unaryOf : OpTok → Option UnOp
  | .plus => some .plus | .minus => some .minus | .not => some .not | .extNot => some .extNot
  | .caret => some .xor | .star => some .pointer | .amp => some .address | .arrow => some .receive
  | _ => none

/-- parser: the binary `case` of the inner switch, `operatorFromTokenType(tok.typ, true)` -/
def binaryOf : OpTok → Option BinOp
  | .eq => some .eq | .ne => some .ne | .lt => some .lt | .le => some .le | .gt => some .gt
  | .ge => some .ge | .andand => some .and | .oror => some .or | .extAnd => some .extAnd
  | .extOr => some .extOr | .plus => some .add | .minus => some .sub | .star => some .mul
  | .slash => some .div | .percent => some .mod | .amp => some .bitAnd | .bar => some .bitOr
  | .caret => some .xor | .andnot => some .andNot | .shl => some .shl | .shr => some .shr
  | .contains => some .contains
  | _ => none

/-- `(*BinaryOperator).Precedence()` of a node the parser can build (never the panic: `bprec_defined`) -/
def bprec (b : BinOp) : Nat :=
  match binaryPrecedence b.toOp with
  | some p => p
  | none => 0

/-- `(*UnaryOperator).Precedence()` -/
abbrev uprec : Nat := unaryPrecedence

inductive Expr where
  | ident (n : Nat)
  | lit (n : Nat)
  | unary (op : UnOp) (e : Expr)
  | binary (op : BinOp) (l r : Expr)
  | call (f : Expr) (args : List Expr) (variadic : Bool)
  | index (e i : Expr)
  | selector (e : Expr) (n : Nat)
  | paren (e : Expr)

/-- `e.(Operator)` and `e.Precedence()`: `none` for a node that is not an operator. The
parentheses count of the node plays no role. -/
def Expr.prec? : Expr → Option Nat
  | .unary _ _ => some uprec
  | .binary b _ _ => some (bprec b)
  | .paren e => e.prec?
  | _ => none

/-- `ok && rule(child.Precedence())` -/
def needs (rule : Nat → Bool) (child : Expr) : Bool :=
  match child.prec? with
  | some c => rule c
  | none => false

/-- `_, ok := e.(Operator)` -/
def isOperator (e : Expr) : Bool := e.prec?.isSome

/-- the operator of a `*UnaryOperator` node (whatever its parentheses count) -/
def Expr.unaryOp? : Expr → Option UnOp
  | .unary u _ => some u
  | .paren e => e.unaryOp?
  | _ => none

/-- `Call.String`: `case *UnaryOperator: if fn.Op == OperatorPointer || fn.Op == OperatorReceive`
— the only case in which the function of a call is parenthesised (function and channel types are
outside the fragment). `Index.String` and `Selector.String` never parenthesise their operand. -/
def callParens (f : Expr) : Bool :=
  match f.unaryOp? with
  | some .pointer => true
  | some .receive => true
  | _ => false

def wrap (c : Bool) (ts : List Token) : List Token :=
  if c then Token.lparen :: (ts ++ [Token.rparen]) else ts

mutual
/-- `String()`, as tokens -/
def print : Expr → List Token
  | .ident n => [.ident n]
  | .lit n => [.int n]
  | .paren e => print e
  | .unary u e => .op (unTok u) :: wrap (needs (unaryParens u.toOp uprec) e) (print e)
  | .binary b l r =>
      wrap (needs (binaryLeftParens b.toOp (bprec b)) l) (print l) ++ binToks b ++
        wrap (needs (binaryRightParens b.toOp (bprec b)) r) (print r)
  | .call f args v =>
      wrap (callParens f) (print f) ++ .lparen :: (printArgs args ++ (if v then [.ellipsis, .rparen] else [.rparen]))
  | .index e i => print e ++ .lbrack :: (print i ++ [.rbrack])
  | .selector e n => print e ++ [.period, .ident n]
/-- the arguments, separated by commas -/
def printArgs : List Expr → List Token
  | [] => []
  | a :: as => print a ++ (match as with | [] => [] | _ :: _ => .comma :: printArgs as)
end

/-! ## the parser -/

/-- an operator of the path with its pending (right) operand missing -/
inductive Frame where
  | un (u : UnOp)
  | bin (b : BinOp) (l : Expr)

def Frame.prec : Frame → Nat
  | .un _ => uprec
  | .bin b _ => bprec b

/-- set the missing child (`leaf.Expr = op` / `leaf.Expr2 = op`) -/
def Frame.plug : Frame → Expr → Expr
  | .un u, e => .unary u e
  | .bin b l, e => .binary b l e

/-- `for p > 0 && op.Precedence() <= path[p-1].Precedence() { p-- }`: the operators left behind
get `x` (transitively) as their last operand; returns the completed sub-tree `path[p]` and `path[:p]` -/
def reduce (q : Nat) : Expr → List Frame → Expr × List Frame
  | x, [] => (x, [])
  | x, f :: fs => if q ≤ f.prec then reduce q (f.plug x) fs else (x, f :: fs)

/-- `addLastOperand` -/
def closeAll : Expr → List Frame → Expr
  | x, [] => x
  | x, f :: fs => closeAll (f.plug x) fs

/-- a suspended call of `parseExpr` (its `path`) waiting for a nested one to return -/
inductive Ctx where
  | paren (path : List Frame)
  | call (path : List Frame) (f : Expr) (args : List Expr)
  | index (path : List Frame) (e : Expr)

inductive Mode where
  | operand
  | operator (e : Expr)
  | dot (e : Expr)
  | notc (e : Expr)
  | variadic (e : Expr)

structure St where
  mode : Mode
  path : List Frame
  ctxs : List Ctx

/-- the current `parseExpr` returns `e` (already closed with `addLastOperand`) to its caller, the
next token being `t` -/
def ret (e : Expr) (t : Token) (ctxs : List Ctx) : Option St :=
  match t, ctxs with
  | .rparen, .paren p :: k => some ⟨.operator (.paren e), p, k⟩
  | .rparen, .call p f args :: k => some ⟨.operator (.call f (args ++ [e]) false), p, k⟩
  | .comma, .call p f args :: k => some ⟨.operand, [], .call p f (args ++ [e]) :: k⟩
  | .ellipsis, .call p f args :: k => some ⟨.variadic (.call f (args ++ [e]) true), p, k⟩
  | .rbrack, .index p x :: k => some ⟨.operator (.index x e), p, k⟩
  | _, _ => none

def step (s : St) (t : Token) : Option St :=
  match s.mode with
  | .operand =>
    match t with
    | .lparen => some ⟨.operand, [], .paren s.path :: s.ctxs⟩
    | .ident n => some { s with mode := .operator (.ident n) }
    | .int n => some { s with mode := .operator (.lit n) }
    | .op o =>
      match unaryOf o with
      | some u => some { s with path := .un u :: s.path }
      | none => none
    | .rparen =>
      -- no expression: only `f()` and `f(a, b,)` go on
      match s.path, s.ctxs with
      | [], .call p f args :: k => some ⟨.operator (.call f args false), p, k⟩
      | _, _ => none
    | _ => none
  | .operator e =>
    match t with
    | .lparen => some ⟨.operand, [], .call s.path e [] :: s.ctxs⟩
    | .lbrack => some ⟨.operand, [], .index s.path e :: s.ctxs⟩
    | .period => some { s with mode := .dot e }
    | .op o =>
      if o = .extNot then some { s with mode := .notc e }
      else match binaryOf o with
        | some b =>
          let r := reduce (bprec b) e s.path
          some { s with mode := .operand, path := .bin b r.1 :: r.2 }
        | none => none
    | t => ret (closeAll e s.path) t s.ctxs
  | .dot e =>
    match t with
    | .ident n => some { s with mode := .operator (.selector e n) }
    | _ => none
  | .notc e =>
    match t with
    | .op .contains =>
      let r := reduce (bprec .notContains) e s.path
      some { s with mode := .operand, path := .bin .notContains r.1 :: r.2 }
    | _ => none
  | .variadic e =>
    match t with
    | .rparen => some { s with mode := .operator e }
    | _ => none

def run : St → List Token → Option St
  | s, [] => some s
  | s, t :: ts => match step s t with
    | some s' => run s' ts
    | none => none

def St.init : St := ⟨.operand, [], []⟩

/-- end of the source -/
def finish (s : St) : Option Expr :=
  match s.mode, s.ctxs with
  | .operator e, [] => some (closeAll e s.path)
  | _, _ => none

/-- `parseExpr` on a complete source: `none` is a syntax error -/
def parse (ts : List Token) : Option Expr :=
  match run St.init ts with
  | some s => finish s
  | none => none

/-! ## what the round trip yields -/

def wrapP (c : Bool) (e : Expr) : Expr := if c then .paren e else e

mutual
/-- the tree with exactly the parentheses `print` writes -/
def norm : Expr → Expr
  | .ident n => .ident n
  | .lit n => .lit n
  | .paren e => norm e
  | .unary u e => .unary u (wrapP (needs (unaryParens u.toOp uprec) e) (norm e))
  | .binary b l r =>
      .binary b (wrapP (needs (binaryLeftParens b.toOp (bprec b)) l) (norm l))
        (wrapP (needs (binaryRightParens b.toOp (bprec b)) r) (norm r))
  | .call f args v => .call (wrapP (callParens f) (norm f)) (normArgs args) v
  | .index e i => .index (norm e) (norm i)
  | .selector e n => .selector (norm e) n
def normArgs : List Expr → List Expr
  | [] => []
  | a :: as => norm a :: normArgs as
end

mutual
/-- the tree without any parentheses count -/
def strip : Expr → Expr
  | .ident n => .ident n
  | .lit n => .lit n
  | .paren e => strip e
  | .unary u e => .unary u (strip e)
  | .binary b l r => .binary b (strip l) (strip r)
  | .call f args v => .call (strip f) (stripArgs args) v
  | .index e i => .index (strip e) (strip i)
  | .selector e n => .selector (strip e) n
def stripArgs : List Expr → List Expr
  | [] => []
  | a :: as => strip a :: stripArgs as
end

mutual
/-- trees the parser can return: a variadic call has an argument -/
def WF : Expr → Prop
  | .ident _ => True
  | .lit _ => True
  | .paren e => WF e
  | .unary _ e => WF e
  | .binary _ l r => WF l ∧ WF r
  | .call f args v => WF f ∧ WFArgs args ∧ (v = true → args ≠ [])
  | .index e i => WF e ∧ WF i
  | .selector e _ => WF e
def WFArgs : List Expr → Prop
  | [] => True
  | a :: as => WF a ∧ WFArgs as
end

mutual
/-- the sub-fragment on which `String()` parses back (finding postfix-operand-parens): the operand
of a call, index or selector is not a unary or binary operator, except `*x` and `<-x` as the
function of a call (the one case `Call.String` parenthesises). -/
def Plain : Expr → Prop
  | .ident _ => True
  | .lit _ => True
  | .paren e => Plain e
  | .unary _ e => Plain e
  | .binary _ l r => Plain l ∧ Plain r
  | .call f args _ => Plain f ∧ PlainArgs args ∧ (isOperator f = true → callParens f = true)
  | .index e i => Plain e ∧ Plain i ∧ isOperator e = false
  | .selector e _ => Plain e ∧ isOperator e = false
def PlainArgs : List Expr → Prop
  | [] => True
  | a :: as => Plain a ∧ PlainArgs as
end

end ScriggoV.ExprPP
