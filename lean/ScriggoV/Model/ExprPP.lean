import ScriggoV.Gen.Precedence
/-!
# Printing and parsing of expressions (property C27)

Hand-written executable model (core Lean only) of

* `ast/ast.go`: the `String()` methods of `Identifier`, `BasicLiteral`, `UnaryOperator`,
  `BinaryOperator`, `Call`, `Index`, `Slicing`, `Selector`, `TypeAssertion`, `Default`,
  `SliceType`, `ArrayType`, `MapType`, `ChanType`, `Interface` and the parentheses count of
  `expression` (`print`, to a list of *tokens*; the parenthesisation conditions of the two operator
  nodes, the precedence table and the enumerations are the generated definitions of
  `Gen/Precedence.lean`; `callParens`, `chanParens` mirror `Call.String` and `ChanType.String`);
* `internal/compiler/parser_expressions.go`: `parseExpr` restricted to the tokens `print` emits
  (`parse`). The operator-path algorithm is the real one (`path` is `List Frame`, leaf first:
  a unary operator is pushed; a binary operator goes up the path while
  `op.Precedence() <= path[p-1].Precedence()` — `reduce` — and becomes the new leaf;
  `addLastOperand` is `closeAll`). The recursive calls of `parseExpr` (`( e )`, `f(args)`, `e[i]`,
  `e[lo:hi:max]`, `e.(T)`, `[n]T`, `map[K]V`, `chan T`, the right side of `default`) are made
  explicit as a stack of suspended calls (`Ctx`: what the caller waits for, its `path`, its
  `mustBeType`), so that the parser is a fold of `step` over the tokens. `Mode.operand` is the top
  of the outer `for` loop, `Mode.operator e` the inner loop `for operator == nil` after the operand
  `e`; with `mustBeType` the call returns as soon as it has its operand (`complete`), except that
  an identifier may still be followed by `.name` (`Mode.tyIdent`, `settle`).

A parenthesised expression is `Expr.paren e` (the real tree keeps a count on the node:
`expr.SetParenthesis(expr.Parenthesis() + 1)`); `String()` ignores the count and looks at the
node's type, hence `print (.paren e) = print e` and `prec?`, `core` look through `paren`.
-/
namespace ScriggoV.ExprPP
open ScriggoV.Gen.Precedence

/-- the unary operators `parseExpr` builds -/
inductive UnOp where
  | not | plus | minus | xor | pointer | address | receive | extNot
  deriving DecidableEq, Repr

/-- the binary operators `parseExpr` builds -/
inductive BinOp where
  | eq | ne | lt | le | gt | ge | bitAnd | bitOr | and | or | add | sub | mul | div | mod
  | xor | andNot | shl | shr | contains | notContains | extAnd | extOr
  deriving DecidableEq, Repr

def UnOp.all : List UnOp := [.not, .plus, .minus, .xor, .pointer, .address, .receive, .extNot]
def BinOp.all : List BinOp := [.eq, .ne, .lt, .le, .gt, .ge, .bitAnd, .bitOr, .and, .or, .add, .sub,
  .mul, .div, .mod, .xor, .andNot, .shl, .shr, .contains, .notContains, .extAnd, .extOr]

/-- `operatorFromTokenType(typ, false)` / the `ast.Operator…` constant of the node -/
def UnOp.toOp : UnOp → Op
  | .not => .Not | .plus => .Addition | .minus => .Subtraction | .xor => .Xor
  | .pointer => .Pointer | .address => .Address | .receive => .Receive | .extNot => .ExtendedNot

def BinOp.toOp : BinOp → Op
  | .eq => .Equal | .ne => .NotEqual | .lt => .Less | .le => .LessEqual | .gt => .Greater
  | .ge => .GreaterEqual | .bitAnd => .BitAnd | .bitOr => .BitOr | .and => .And | .or => .Or
  | .add => .Addition | .sub => .Subtraction | .mul => .Multiplication | .div => .Division
  | .mod => .Modulo | .xor => .Xor | .andNot => .AndNot | .shl => .LeftShift | .shr => .RightShift
  | .contains => .Contains | .notContains => .NotContains | .extAnd => .ExtendedAnd | .extOr => .ExtendedOr

/-- operator tokens of the lexer, one per spelling -/
inductive OpTok where
  | eq | ne | lt | le | gt | ge | not | amp | bar | andand | oror | plus | minus | star | slash
  | percent | caret | andnot | shl | shr | contains | arrow | extAnd | extOr | extNot
  deriving DecidableEq, Repr

def OpTok.all : List OpTok := [.eq, .ne, .lt, .le, .gt, .ge, .not, .amp, .bar, .andand, .oror, .plus,
  .minus, .star, .slash, .percent, .caret, .andnot, .shl, .shr, .contains, .arrow, .extAnd, .extOr, .extNot]

/-- spelling of an operator token in the source -/
def OpTok.text : OpTok → String
  | .eq => "==" | .ne => "!=" | .lt => "<" | .le => "<=" | .gt => ">" | .ge => ">=" | .not => "!"
  | .amp => "&" | .bar => "|" | .andand => "&&" | .oror => "||" | .plus => "+" | .minus => "-"
  | .star => "*" | .slash => "/" | .percent => "%" | .caret => "^" | .andnot => "&^" | .shl => "<<"
  | .shr => ">>" | .contains => "contains" | .arrow => "<-" | .extAnd => "and" | .extOr => "or"
  | .extNot => "not"

inductive Token where
  | ident (n : Nat)
  | lit (k : LiteralType) (n : Nat)
  | op (o : OpTok)
  | lparen | rparen | lbrack | rbrack | period | comma | ellipsis | colon
  | lbrace | rbrace
  | kwMap | kwChan | kwInterface | kwDefault
  deriving DecidableEq, Repr

/-- the token of a unary operator (`UnaryOperator.String`: `n.Op.String()`) -/
def unTok : UnOp → OpTok
  | .not => .not | .plus => .plus | .minus => .minus | .xor => .caret | .pointer => .star
  | .address => .amp | .receive => .arrow | .extNot => .extNot

/-- the tokens of a binary operator (`" " + n.Op.String() + " "`); `not contains` is two tokens -/
def binToks : BinOp → List Token
  | .eq => [.op .eq] | .ne => [.op .ne] | .lt => [.op .lt] | .le => [.op .le] | .gt => [.op .gt]
  | .ge => [.op .ge] | .bitAnd => [.op .amp] | .bitOr => [.op .bar] | .and => [.op .andand]
  | .or => [.op .oror] | .add => [.op .plus] | .sub => [.op .minus] | .mul => [.op .star]
  | .div => [.op .slash] | .mod => [.op .percent] | .xor => [.op .caret] | .andNot => [.op .andnot]
  | .shl => [.op .shl] | .shr => [.op .shr] | .contains => [.op .contains]
  | .notContains => [.op .extNot, .op .contains] | .extAnd => [.op .extAnd] | .extOr => [.op .extOr]

/-- parser: the unary `case` of the outer switch (`tokenArrow` not followed by `chan` included) -/
def unaryOf : OpTok → Option UnOp
  | .plus => some .plus | .minus => some .minus | .not => some .not | .extNot => some .extNot
  | .caret => some .xor | .star => some .pointer | .amp => some .address | .arrow => some .receive
  | _ => none

/-- parser: the binary `case` of the inner switch, `operatorFromTokenType(tok.typ, true)` -/
def binaryOf : OpTok → Option BinOp
  | .eq => some .eq | .ne => some .ne | .lt => some .lt | .le => some .le | .gt => some .gt
  | .ge => some .ge | .andand => some .and | .oror => some .or | .extAnd => some .extAnd
  | .extOr => some .extOr | .plus => some .add | .minus => some .sub | .star => some .mul
  | .slash => some .div | .percent => some .mod | .amp => some .bitAnd | .bar => some .bitOr
  | .caret => some .xor | .andnot => some .andNot | .shl => some .shl | .shr => some .shr
  | .contains => some .contains
  | _ => none

/-- `(*BinaryOperator).Precedence()` of a node the parser can build (never the panic: `bprec_defined`) -/
def bprec (b : BinOp) : Nat :=
  match binaryPrecedence b.toOp with
  | some p => p
  | none => 0

/-- `(*UnaryOperator).Precedence()` -/
abbrev uprec : Nat := unaryPrecedence

/-- Expressions, types included (in the real tree a type is an `ast.Expression` too: `T` is an
`Identifier`, `p.T` a `Selector`, `*T` a `UnaryOperator`). -/
inductive Expr where
  | ident (n : Nat)
  | lit (k : LiteralType) (n : Nat)
  | unary (op : UnOp) (e : Expr)
  | binary (op : BinOp) (l r : Expr)
  | call (f : Expr) (args : List Expr) (variadic : Bool)
  | index (e i : Expr)
  | slicing (e : Expr) (lo hi max : Option Expr) (full : Bool)
  | selector (e : Expr) (n : Nat)
  | typeAssert (e t : Expr)
  | dflt (l r : Expr)
  | sliceT (t : Expr)
  | arrayT (len : Option Expr) (t : Expr)
  | mapT (k v : Expr)
  | chanT (d : ChanDirection) (t : Expr)
  | iface
  | paren (e : Expr)

/-- `e.(Operator)` and `e.Precedence()`: `none` for a node that is not an operator. The
parentheses count of the node plays no role. -/
def Expr.prec? : Expr → Option Nat
  | .unary _ _ => some uprec
  | .binary b _ _ => some (bprec b)
  | .paren e => e.prec?
  | _ => none

/-- `ok && rule(child.Precedence())` -/
def needs (rule : Nat → Bool) (child : Expr) : Bool :=
  match child.prec? with
  | some c => rule c
  | none => false

/-- `_, ok := e.(Operator)` -/
def isOperator (e : Expr) : Bool := e.prec?.isSome

/-- the node without its parentheses count -/
def Expr.core : Expr → Expr
  | .paren e => e.core
  | e => e

/-- `Call.String`: `case *UnaryOperator: if fn.Op == OperatorPointer || fn.Op == OperatorReceive`
and `case *ChanType` — the cases in which the function of a call is parenthesised (function types
are outside the fragment). `Index`, `Slicing`, `Selector`, `TypeAssertion` never parenthesise
their operand. -/
def callParens (f : Expr) : Bool :=
  match f.core with
  | .unary .pointer _ => true
  | .unary .receive _ => true
  | .chanT _ _ => true
  | _ => false

/-- `ChanType.String`: `chan (<-chan T)` -/
def chanParens (d : ChanDirection) (t : Expr) : Bool :=
  match d, t.core with
  | .NoDirection, .chanT .ReceiveDirection _ => true
  | _, _ => false

def wrap (c : Bool) (ts : List Token) : List Token :=
  if c then Token.lparen :: (ts ++ [Token.rparen]) else ts

def chanToks : ChanDirection → List Token
  | .NoDirection => [.kwChan]
  | .ReceiveDirection => [.op .arrow, .kwChan]
  | .SendDirection => [.kwChan, .op .arrow]

mutual
/-- `String()`, as tokens -/
def print : Expr → List Token
  | .ident n => [.ident n]
  | .lit k n => [.lit k n]
  | .paren e => print e
  | .unary u e => .op (unTok u) :: wrap (needs (unaryParens u.toOp uprec) e) (print e)
  | .binary b l r =>
      wrap (needs (binaryLeftParens b.toOp (bprec b)) l) (print l) ++ binToks b ++
        wrap (needs (binaryRightParens b.toOp (bprec b)) r) (print r)
  | .call f args v =>
      wrap (callParens f) (print f) ++ .lparen :: (printArgs args ++ (if v then [.ellipsis, .rparen] else [.rparen]))
  | .index e i => print e ++ .lbrack :: (print i ++ [.rbrack])
  | .slicing e lo hi max _ =>
      print e ++ .lbrack :: (printOpt lo ++ .colon :: (printOpt hi ++
        ((match max with | some m => .colon :: print m | none => []) ++ [.rbrack])))
  | .selector e n => print e ++ [.period, .ident n]
  | .typeAssert e t => print e ++ .period :: .lparen :: (print t ++ [.rparen])
  | .dflt l r => print l ++ .kwDefault :: print r
  | .sliceT t => .lbrack :: .rbrack :: print t
  | .arrayT len t => .lbrack :: ((match len with | some l => print l | none => [.ellipsis]) ++ .rbrack :: print t)
  | .mapT k v => .kwMap :: .lbrack :: (print k ++ .rbrack :: print v)
  | .chanT d t => chanToks d ++ wrap (chanParens d t) (print t)
  | .iface => [.kwInterface, .lbrace, .rbrace]
/-- the arguments, separated by commas -/
def printArgs : List Expr → List Token
  | [] => []
  | a :: as => print a ++ (match as with | [] => [] | _ :: _ => .comma :: printArgs as)
/-- an optional bound of a slicing -/
def printOpt : Option Expr → List Token
  | none => []
  | some e => print e
end

/-! ## the parser -/

/-- an operator of the path with its pending (right) operand missing -/
inductive Frame where
  | un (u : UnOp)
  | bin (b : BinOp) (l : Expr)

def Frame.prec : Frame → Nat
  | .un _ => uprec
  | .bin b _ => bprec b

/-- set the missing child (`leaf.Expr = op` / `leaf.Expr2 = op`) -/
def Frame.plug : Frame → Expr → Expr
  | .un u, e => .unary u e
  | .bin b l, e => .binary b l e

/-- `for p > 0 && op.Precedence() <= path[p-1].Precedence() { p-- }`: the operators left behind
get `x` (transitively) as their last operand; returns the completed sub-tree `path[p]` and `path[:p]` -/
def reduce (q : Nat) : Expr → List Frame → Expr × List Frame
  | x, [] => (x, [])
  | x, f :: fs => if q ≤ f.prec then reduce q (f.plug x) fs else (x, f :: fs)

/-- `addLastOperand` -/
def closeAll : Expr → List Frame → Expr
  | x, [] => x
  | x, f :: fs => closeAll (f.plug x) fs

/-- what a suspended call of `parseExpr` is waiting for -/
inductive CtxKind where
  | paren                                   -- `( e )`
  | call (f : Expr) (args : List Expr)      -- `f(a, b`
  | index (e : Expr)                        -- `e[ i`
  | sliceHi (e : Expr) (lo : Option Expr)   -- `e[lo: hi`
  | sliceMax (e : Expr) (lo hi : Option Expr) -- `e[lo:hi: max`
  | arrLen                                  -- `[ len`  (or `[]`, `[...]`)
  | arrElem (len : Option Expr)             -- `[len] T`
  | sliceElem                               -- `[] T`
  | mapKey                                  -- `map[ K`
  | mapVal (k : Expr)                       -- `map[K] V`
  | chanElem (d : ChanDirection)            -- `chan T`
  | assertTy (e : Expr)                     -- `e.( T`
  | dfltRhs (l : Expr)                      -- `l default r`

/-- a suspended call of `parseExpr`: its `path` and its `mustBeType` -/
structure Ctx where
  kind : CtxKind
  path : List Frame
  ty : Bool

inductive Mode where
  | operand                    -- top of the outer loop
  | operator (e : Expr)        -- the loop `for operator == nil`, operand parsed
  | dot (e : Expr)             -- after `e .`
  | notc (e : Expr)            -- after `e not`
  | variadic (e : Expr)        -- after `f(a...`
  | tyIdent (n : Nat)          -- `mustBeType`: identifier read, a `.` may follow
  | tyDot (n : Nat)            -- `mustBeType`: after `p .`
  | mapOpen                    -- after `map`
  | chanOpen                   -- after `chan`: `<-` may follow
  | ifaceOpen | ifaceClose     -- after `interface`, after `interface {`
  | arrEllipsis                -- after `[ ...`

structure St where
  mode : Mode
  path : List Frame
  ty : Bool          -- `mustBeType` of the current call of `parseExpr`
  ctxs : List Ctx

/-- The call of `parseExpr` with path `p` and `mustBeType = ty` has its operand `e`. With
`mustBeType` it returns at once (`if dontEatLeftBraces || mustBeType`), and a caller that was
waiting for the last component of a type (`[]T`, `[n]T`, `map[K]V`, `chan T`) has its own operand,
and so on. -/
def complete : Expr → List Frame → Bool → List Ctx → St
  | e, p, false, k => ⟨.operator e, p, false, k⟩
  | e, p, true, [] => ⟨.operator (closeAll e p), [], true, []⟩
  | e, p, true, c :: k =>
    match c.kind with
    | .sliceElem => complete (.sliceT (closeAll e p)) c.path c.ty k
    | .arrElem len => complete (.arrayT len (closeAll e p)) c.path c.ty k
    | .mapVal key => complete (.mapT key (closeAll e p)) c.path c.ty k
    | .chanElem d => complete (.chanT d (closeAll e p)) c.path c.ty k
    | _ => ⟨.operator (closeAll e p), [], true, c :: k⟩

/-- a `Default` node needs an identifier or a call on its left (`switch operand.(type)`) -/
def dfltLhsOk (e : Expr) : Bool :=
  match e with
  | .ident _ => true
  | .call _ _ _ => true
  | .paren e => dfltLhsOk e
  | _ => false

/-- the current `parseExpr` returns `e` (already closed with `addLastOperand`) to its caller, the
next token being `t` -/
def ret (e : Expr) (t : Token) : List Ctx → Option St
  | [] => none
  | c :: k =>
    match t, c.kind with
    | .rparen, .paren => some (complete (.paren e) c.path c.ty k)
    | .rparen, .call f args => some (complete (.call f (args ++ [e]) false) c.path c.ty k)
    | .comma, .call f args => some ⟨.operand, [], false, ⟨.call f (args ++ [e]), c.path, c.ty⟩ :: k⟩
    | .ellipsis, .call f args => some ⟨.variadic (.call f (args ++ [e]) true), c.path, c.ty, k⟩
    | .rbrack, .index x => some (complete (.index x e) c.path c.ty k)
    | .colon, .index x => some ⟨.operand, [], false, ⟨.sliceHi x (some e), c.path, c.ty⟩ :: k⟩
    | .rbrack, .sliceHi x lo => some (complete (.slicing x lo (some e) none false) c.path c.ty k)
    | .colon, .sliceHi x lo => some ⟨.operand, [], false, ⟨.sliceMax x lo (some e), c.path, c.ty⟩ :: k⟩
    | .rbrack, .sliceMax x lo hi => some (complete (.slicing x lo hi (some e) true) c.path c.ty k)
    | .rbrack, .arrLen => some ⟨.operand, [], true, ⟨.arrElem (some e), c.path, c.ty⟩ :: k⟩
    | .rbrack, .mapKey => some ⟨.operand, [], true, ⟨.mapVal e, c.path, c.ty⟩ :: k⟩
    | .rparen, .assertTy x => some (complete (.typeAssert x e) c.path c.ty k)
    | t, .dfltRhs l => ret (closeAll (.dflt l e) c.path) t k
    | _, _ => none

/-- the current `parseExpr` returns nil (no expression at `t`) -/
def retNil (t : Token) : List Ctx → Option St
  | [] => none
  | c :: k =>
    match t, c.kind with
    | .rparen, .call f args => some (complete (.call f args false) c.path c.ty k)      -- `f()`, `f(a,)`
    | .colon, .index x => some ⟨.operand, [], false, ⟨.sliceHi x none, c.path, c.ty⟩ :: k⟩
    | .rbrack, .sliceHi x lo => some (complete (.slicing x lo none none false) c.path c.ty k)
    | .colon, .sliceHi x lo => some ⟨.operand, [], false, ⟨.sliceMax x lo none, c.path, c.ty⟩ :: k⟩
    | .rbrack, .sliceMax x lo hi => some (complete (.slicing x lo hi none true) c.path c.ty k)
    | .rbrack, .arrLen => some ⟨.operand, [], true, ⟨.sliceElem, c.path, c.ty⟩ :: k⟩   -- `[]T`
    | .ellipsis, .arrLen => some ⟨.arrEllipsis, [], false, c :: k⟩                      -- `[...`
    | _, _ => none

/-- a pushed context and a fresh `parseExpr` -/
def push (s : St) (kind : CtxKind) (ty : Bool) : St :=
  ⟨.operand, [], ty, ⟨kind, s.path, s.ty⟩ :: s.ctxs⟩

/-- the last token was `<-` -/
def recvHead : List Frame → Bool
  | .un .receive :: _ => true
  | _ => false

/-- top of the outer loop: an operand or a unary operator is expected -/
def stepOperand (s : St) (t : Token) : Option St :=
  -- `<-` must be followed by `chan` where a type is expected
  if s.ty = true ∧ recvHead s.path = true ∧ t ≠ .kwChan then none
  else
  match t with
  | .lparen => some (push s .paren s.ty)
  | .ident n =>
    if s.ty then some { s with mode := .tyIdent n } else some { s with mode := .operator (.ident n) }
  | .lit k n => if s.ty then none else some { s with mode := .operator (.lit k n) }
  | .op o =>
    match unaryOf o with
    | some u =>
      if s.ty = true ∧ u ≠ .pointer ∧ u ≠ .receive then none
      else some { s with path := .un u :: s.path }
    | none => none
  | .lbrack => some (push s .arrLen false)
  | .kwMap => some { s with mode := .mapOpen }
  | .kwChan =>
    match s.path with
    | .un .receive :: p => some (push { s with path := p } (.chanElem .ReceiveDirection) true)
    | _ => some { s with mode := .chanOpen }
  | .kwInterface => some { s with mode := .ifaceOpen }
  | t =>
    match s.path with
    | [] => retNil t s.ctxs
    | _ :: _ => none

/-- the loop `for operator == nil`: the operand `e` is parsed -/
def stepOperator (s : St) (e : Expr) (t : Token) : Option St :=
  if s.ty then ret (closeAll e s.path) t s.ctxs
  else
  match t with
  | .lparen => some (push s (.call e []) false)
  | .lbrack => some (push s (.index e) false)
  | .period => some { s with mode := .dot e }
  | .op o =>
    if o = .extNot then some { s with mode := .notc e }
    else match binaryOf o with
      | some b =>
        let r := reduce (bprec b) e s.path
        some { s with mode := .operand, path := .bin b r.1 :: r.2 }
      | none => ret (closeAll e s.path) t s.ctxs
  | .kwDefault => if dfltLhsOk e then some (push s (.dfltRhs e) false) else none
  | t => ret (closeAll e s.path) t s.ctxs

/-- the state once the pending identifier of a type is known to be complete -/
def settle (s : St) : St :=
  match s.mode with
  | .tyIdent n => complete (.ident n) s.path s.ty s.ctxs
  | _ => s

def step (s : St) (t : Token) : Option St :=
  match s.mode with
  | .operand => stepOperand s t
  | .operator e => stepOperator s e t
  | .dot e =>
    match t with
    | .ident n => some { s with mode := .operator (.selector e n) }
    | .lparen => some (push s (.assertTy e) true)
    | _ => none
  | .notc e =>
    match t with
    | .op .contains =>
      let r := reduce (bprec .notContains) e s.path
      some { s with mode := .operand, path := .bin .notContains r.1 :: r.2 }
    | _ =>
      -- `next := p.next()` was not `contains`: the call returns with `tok` still the `not` token and
      -- `next` is lost. Every caller rejects `not`, except the one that was parsing the right side
      -- of a `default`: its loop goes on with the `not` (and reads the token after the lost one).
      match s.ctxs with
      | c :: k =>
        match c.kind with
        | .dfltRhs l => some ⟨.notc (.dflt l (closeAll e s.path)), c.path, c.ty, k⟩
        | _ => none
      | [] => none
  | .variadic e =>
    match t with
    | .rparen => some (complete e s.path s.ty s.ctxs)
    | _ => none
  | .tyIdent n =>
    match t with
    | .period => some { s with mode := .tyDot n }
    | t =>
      let s' := complete (.ident n) s.path s.ty s.ctxs
      match s'.mode with
      | .operator e => stepOperator s' e t
      | _ => none
  | .tyDot n =>
    match t with
    | .ident m => some (complete (.selector (.ident n) m) s.path s.ty s.ctxs)
    | _ => none
  | .mapOpen =>
    match t with
    | .lbrack => some (push s .mapKey true)
    | _ => none
  | .chanOpen =>
    match t with
    | .op .arrow => some (push s (.chanElem .SendDirection) true)
    | t => stepOperand (push s (.chanElem .NoDirection) true) t
  | .ifaceOpen =>
    match t with
    | .lbrace => some { s with mode := .ifaceClose }
    | _ => none
  | .ifaceClose =>
    match t with
    | .rbrace => some (complete .iface s.path s.ty s.ctxs)
    | _ => none
  | .arrEllipsis =>
    match t, s.ctxs with
    | .rbrack, c :: k => some ⟨.operand, [], true, ⟨.arrElem none, c.path, c.ty⟩ :: k⟩
    | _, _ => none

def run : St → List Token → Option St
  | s, [] => some s
  | s, t :: ts => match step s t with
    | some s' => run s' ts
    | none => none

def St.init : St := ⟨.operand, [], false, []⟩

/-- end of the source: every pending call of `parseExpr` must be the right side of a `default` -/
def closeDflt : Expr → List Ctx → Option Expr
  | e, [] => some e
  | e, c :: k =>
    match c.kind with
    | .dfltRhs l => closeDflt (closeAll (.dflt l e) c.path) k
    | _ => none

def finish (s : St) : Option Expr :=
  match (settle s).mode, (settle s).ty with
  | .operator e, false => closeDflt (closeAll e (settle s).path) (settle s).ctxs
  | _, _ => none

/-- `parseExpr` on a complete source: `none` is a syntax error -/
def parse (ts : List Token) : Option Expr :=
  match run St.init ts with
  | some s => finish s
  | none => none

/-! ## what the round trip yields -/

def wrapP (c : Bool) (e : Expr) : Expr := if c then .paren e else e

mutual
/-- the tree with exactly the parentheses `print` writes -/
def norm : Expr → Expr
  | .ident n => .ident n
  | .lit k n => .lit k n
  | .paren e => norm e
  | .unary u e => .unary u (wrapP (needs (unaryParens u.toOp uprec) e) (norm e))
  | .binary b l r =>
      .binary b (wrapP (needs (binaryLeftParens b.toOp (bprec b)) l) (norm l))
        (wrapP (needs (binaryRightParens b.toOp (bprec b)) r) (norm r))
  | .call f args v => .call (wrapP (callParens f) (norm f)) (normArgs args) v
  | .index e i => .index (norm e) (norm i)
  | .slicing e lo hi max full => .slicing (norm e) (normOpt lo) (normOpt hi) (normOpt max) full
  | .selector e n => .selector (norm e) n
  | .typeAssert e t => .typeAssert (norm e) (norm t)
  | .dflt l r => .dflt (norm l) (norm r)
  | .sliceT t => .sliceT (norm t)
  | .arrayT len t => .arrayT (normOpt len) (norm t)
  | .mapT k v => .mapT (norm k) (norm v)
  | .chanT d t => .chanT d (wrapP (chanParens d t) (norm t))
  | .iface => .iface
def normArgs : List Expr → List Expr
  | [] => []
  | a :: as => norm a :: normArgs as
def normOpt : Option Expr → Option Expr
  | none => none
  | some e => some (norm e)
end

mutual
/-- the tree without any parentheses count -/
def strip : Expr → Expr
  | .ident n => .ident n
  | .lit k n => .lit k n
  | .paren e => strip e
  | .unary u e => .unary u (strip e)
  | .binary b l r => .binary b (strip l) (strip r)
  | .call f args v => .call (strip f) (stripArgs args) v
  | .index e i => .index (strip e) (strip i)
  | .slicing e lo hi max full => .slicing (strip e) (stripOpt lo) (stripOpt hi) (stripOpt max) full
  | .selector e n => .selector (strip e) n
  | .typeAssert e t => .typeAssert (strip e) (strip t)
  | .dflt l r => .dflt (strip l) (strip r)
  | .sliceT t => .sliceT (strip t)
  | .arrayT len t => .arrayT (stripOpt len) (strip t)
  | .mapT k v => .mapT (strip k) (strip v)
  | .chanT d t => .chanT d (strip t)
  | .iface => .iface
def stripArgs : List Expr → List Expr
  | [] => []
  | a :: as => strip a :: stripArgs as
def stripOpt : Option Expr → Option Expr
  | none => none
  | some e => some (strip e)
end

/-! ## which trees -/

/-- what `parseExpr` accepts where a type is expected (`mustBeType`), function and struct types
excluded: `T`, `p.T`, `*T`, `(T)`, `[]T`, `[n]T`, `[...]T`, `map[K]V`, `chan T`, `interface{}` -/
def IsType : Expr → Bool
  | .ident _ => true
  | .selector e _ => (match e.core with | .ident _ => true | _ => false)
  | .unary .pointer t => IsType t
  | .paren t => IsType t
  | .sliceT _ => true
  | .arrayT _ _ => true
  | .mapT _ _ => true
  | .chanT _ _ => true
  | .iface => true
  | _ => false

mutual
/-- trees the parser can return -/
def WF : Expr → Prop
  | .ident _ => True
  | .lit _ _ => True
  | .paren e => WF e
  | .unary _ e => WF e
  | .binary _ l r => WF l ∧ WF r
  | .call f args v => WF f ∧ WFArgs args ∧ (v = true → args ≠ [])
  | .index e i => WF e ∧ WF i
  | .slicing e lo hi max full => WF e ∧ WFOpt lo ∧ WFOpt hi ∧ WFOpt max ∧ full = max.isSome
  | .selector e _ => WF e
  | .typeAssert e t => WF e ∧ WF t ∧ IsType t = true
  | .dflt l r => WF l ∧ WF r ∧ dfltLhsOk l = true
  | .sliceT t => WF t ∧ IsType t = true
  | .arrayT len t => WFOpt len ∧ WF t ∧ IsType t = true
  | .mapT k v => WF k ∧ IsType k = true ∧ WF v ∧ IsType v = true
  | .chanT _ t => WF t ∧ IsType t = true
  | .iface => True
def WFArgs : List Expr → Prop
  | [] => True
  | a :: as => WF a ∧ WFArgs as
def WFOpt : Option Expr → Prop
  | none => True
  | some e => WF e
end

/-- the printed form ends with an identifier read where a type is expected: a following `.` would
be taken for a qualified name (`[]T.x` is `[](T.x)`). `inTy`: the tree is itself in type position. -/
def endsTy : Bool → Expr → Bool
  | true, .ident _ => true
  | inTy, .paren e => endsTy inTy e
  | inTy, .unary u e => if needs (unaryParens u.toOp uprec) e then false else endsTy inTy e
  | false, .binary b _ r => if needs (binaryRightParens b.toOp (bprec b)) r then false else endsTy false r
  | false, .dflt _ r => endsTy false r
  | _, .sliceT t => endsTy true t
  | _, .arrayT _ t => endsTy true t
  | _, .mapT _ v => endsTy true v
  | _, .chanT d t => if chanParens d t then false else endsTy true t
  | _, _ => false

/-- the printed form starts with `chan`: after `<-` it would be read as `<-chan` -/
def startsChan : Expr → Bool
  | .chanT .NoDirection _ => true
  | .chanT .SendDirection _ => true
  | .paren e => startsChan e
  | .binary b l _ => if needs (binaryLeftParens b.toOp (bprec b)) l then false else startsChan l
  | .call f _ _ => if callParens f then false else startsChan f
  | .index e _ => startsChan e
  | .slicing e _ _ _ _ => startsChan e
  | .selector e _ => startsChan e
  | .typeAssert e _ => startsChan e
  | .dflt l _ => startsChan l
  | _ => false

def isDflt (e : Expr) : Bool := match e.core with | .dflt _ _ => true | _ => false

mutual
/-- The sub-fragment on which `String()` parses back:
* the operand of a call, index, slicing, selector or type assertion is not a bare unary or binary
  operator, except `*x`/`<-x` under a call (finding postfix-operand-parens);
* a `default` expression is the whole expression, an argument, an index, a bound, an array length
  or the right side of another `default` (finding default-operand);
* the operand of a selector or type assertion does not end in a type name (`[]T.x`);
* the operand of `<-` does not start with `chan` (`<-chan T`). -/
def Plain : Expr → Prop
  | .ident _ => True
  | .lit _ _ => True
  | .paren e => Plain e
  | .unary u e => Plain e ∧ isDflt e = false ∧ (u = .receive → needs (unaryParens u.toOp uprec) e = false → startsChan e = false)
  | .binary _ l r => Plain l ∧ Plain r ∧ isDflt l = false ∧ isDflt r = false
  | .call f args _ => Plain f ∧ PlainArgs args ∧ (isOperator f = true → callParens f = true) ∧ isDflt f = false
  | .index e i => Plain e ∧ Plain i ∧ isOperator e = false ∧ isDflt e = false
  | .slicing e lo hi max _ => Plain e ∧ PlainOpt lo ∧ PlainOpt hi ∧ PlainOpt max ∧ isOperator e = false ∧ isDflt e = false
  | .selector e _ => Plain e ∧ isOperator e = false ∧ isDflt e = false ∧ endsTy false e = false
  | .typeAssert e t => Plain e ∧ Plain t ∧ isOperator e = false ∧ isDflt e = false ∧ endsTy false e = false
  | .dflt l r => Plain l ∧ Plain r
  | .sliceT t => Plain t
  | .arrayT len t => PlainOpt len ∧ Plain t
  | .mapT k v => Plain k ∧ Plain v
  | .chanT _ t => Plain t
  | .iface => True
def PlainArgs : List Expr → Prop
  | [] => True
  | a :: as => Plain a ∧ PlainArgs as
def PlainOpt : Option Expr → Prop
  | none => True
  | some e => Plain e
end

end ScriggoV.ExprPP
