import ScriggoV.Gen.ShowTables
/-! C09 — the recursion skeleton around the generated show tables.

`Gen/ShowTables.lean` says what one call of `checkShow*` / `showIn*` does with a value of a given
type (a `DTree`, run on a `TInfo` to give an `Act`); this file (hand-written, core Lean only) says how the calls nest over a type
descriptor: the static side over the *type* (`t.Elem()`, `t.Key()`, `t.Field(i)`), the dynamic
side over the *value* (`v.Index(i)`, `v.Elem()`, `v.Field(i)`, map keys and values; an interface
holds nil or a value with its own dynamic type). Facts about package reflect that are written
here, not regenerated: `Elem/Key/NumField` panic on a type without them; `reflect.ValueOf(nil)`
has kind `Invalid`; a type switch on a nil interface matches no interface case. -/
namespace ScriggoV.Show
open ScriggoV.Gen

/-- the decision trees of one side in one context: for the shown value itself, for its
components, for map keys -/
structure Fns where
  topT : DTree
  compT : DTree
  keyT : DTree

def Fns.top (f : Fns) (i : TInfo) : Act := f.topT.run i TInfo.nil
def Fns.comp (f : Fns) (i : TInfo) : Act := f.compT.run i TInfo.nil
def Fns.key (f : Fns) (i k : TInfo) : Act := f.keyT.run i k

def staticFns (c : Ctx) : Fns :=
  ⟨ShowTables.checkShow_tree c.inURL c.ast, ShowTables.checkShowComp_tree c.inURL c.ast,
   ShowTables.checkShowKey_tree c.inURL c.ast⟩

def dynFns (c : Ctx) : Fns :=
  ⟨ShowTables.showTop_tree c.inURL c.ast, ShowTables.showComp_tree c.inURL c.ast,
   ShowTables.showKey_tree c.inURL c.ast⟩

def TDesc.info : TDesc → TInfo
  | .basic i | .seen i | .ifaceNil i | .ifaceVal i _ | .elem i _ | .map i _ _ | .struct i _ => i

def TDesc.isInterface : TDesc → Bool
  | .ifaceNil _ | .ifaceVal _ _ => true
  | _ => false

/-- outcome of an action on a type/value without components -/
def Act.leaf (a : Act) : Res := a.eval .panic .panic .panic

/-! ### static side: `checkShow`, then `checkShowJS/JSON` on the components -/

mutual
/-- the recursive check (`checkShowJS(t, types)`) on a component -/
def staticRec (f : Fns) (seen : Res) : TDesc → Res
  | .seen _ => seen
  | .basic i => (f.comp i).leaf
  | .ifaceNil i => (f.comp i).leaf
  | .ifaceVal i _ => (f.comp i).leaf
  | .elem i e => (f.comp i).eval (staticRec f seen e) .panic .panic
  | .map i k v => (f.comp i).eval (staticRec f seen v) .panic (f.key i k.info).leaf
  | .struct i fs => (f.comp i).eval .panic (staticFields f seen fs) .panic
/-- the loop over the fields: the first exported field that is not accepted decides -/
def staticFields (f : Fns) (seen : Res) : TFields → Res
  | .nil => .ok
  | .cons exported t rest =>
    if exported then
      match staticRec f seen t with
      | .ok => staticFields f seen rest
      | r => r
    else staticFields f seen rest
end

/-- `checkShow(t, ctx, inURL)` -/
def staticTop (c : Ctx) : TDesc → Res
  | .basic i | .seen i | .ifaceNil i | .ifaceVal i _ => ((staticFns c).top i).leaf
  | .elem i e =>
    ((staticFns c).top i).eval (staticRec (staticFns c) (ShowTables.checkShowSeen c.inURL c.ast) e) .panic .panic
  | .map i k v =>
    ((staticFns c).top i).eval (staticRec (staticFns c) (ShowTables.checkShowSeen c.inURL c.ast) v) .panic
      ((staticFns c).key i k.info).leaf
  | .struct i fs =>
    ((staticFns c).top i).eval .panic (staticFields (staticFns c) (ShowTables.checkShowSeen c.inURL c.ast) fs) .panic

/-! ### dynamic side: `renderer.Show`, then `showInJS/JSON` on the components of the value -/

/-- what the renderer's key decision looks at: the key value itself (`key.Interface()`) -/
def dynKeyInfo : TDesc → TInfo
  | .ifaceNil _ => TInfo.nil
  | .ifaceVal _ d => d.info
  | .basic i | .seen i | .elem i _ | .map i _ _ | .struct i _ => i

mutual
/-- the recursive show (`showInJS(env, out, v.Index(i).Interface())`) on a component. A value
at a recursive occurrence of an enclosing type (`seen`) is a smaller value of a type this very
function is proved about; it is given `ok` here (values are finite trees). -/
def dynRec (f : Fns) : TDesc → Res
  | .seen _ => .ok
  | .basic i => (f.comp i).leaf
  | .ifaceNil _ => (f.comp TInfo.nil).leaf
  | .ifaceVal _ d => dynRec f d
  | .elem i e => (f.comp i).eval (dynRec f e) .panic .panic
  | .map i k v => (f.comp i).eval (dynRec f v) .panic (f.key i (dynKeyInfo k)).leaf
  | .struct i fs => (f.comp i).eval .panic (dynFields f fs) .panic
def dynFields (f : Fns) : TFields → Res
  | .nil => .ok
  | .cons exported t rest =>
    if exported then
      match dynRec f t with
      | .ok => dynFields f rest
      | r => r
    else dynFields f rest
end

/-- `renderer.Show(env, v, ctx)` where `v` is the value of an expression of the described type
(the dynamic value, or nil, when the type is an interface) -/
def dynTop (c : Ctx) : TDesc → Res
  | .ifaceNil _ => ((dynFns c).top TInfo.nil).leaf
  | .ifaceVal _ d => dynTop c d
  | .basic i | .seen i => ((dynFns c).top i).leaf
  | .elem i e => ((dynFns c).top i).eval (dynRec (dynFns c) e) .panic .panic
  | .map i k v => ((dynFns c).top i).eval (dynRec (dynFns c) v) .panic ((dynFns c).key i (dynKeyInfo k)).leaf
  | .struct i fs => ((dynFns c).top i).eval .panic (dynFields (dynFns c) fs) .panic

/-- the type checker accepts `{{ e }}` in context `c` for an expression of type `t` -/
def staticOK (c : Ctx) (t : TDesc) : Bool := staticTop c t == .ok
/-- showing a value described by `t` in context `c` does not fail for a reason of type -/
def dynOK (c : Ctx) (t : TDesc) : Bool := dynTop c t == .ok

/-! ### "the dynamic type would itself have been accepted" -/

/-- a map key held in an interface is accepted when the checker's key decision accepts its
dynamic type -/
def keyAccepted (c : Ctx) (i : TInfo) : TDesc → Bool
  | .ifaceVal _ d => !d.isInterface && ((staticFns c).key i d.info).leaf == .ok
  | _ => true

mutual
/-- every value held in an interface inside the described value has a dynamic type that is not
an interface and that the recursive check accepts -/
def dynAccepted (c : Ctx) : TDesc → Bool
  | .basic _ | .seen _ | .ifaceNil _ => true
  | .ifaceVal _ d =>
    !d.isInterface && staticRec (staticFns c) (ShowTables.checkShowSeen c.inURL c.ast) d == .ok && dynAccepted c d
  | .elem _ e => dynAccepted c e
  | .map i k v => keyAccepted c i k && dynAccepted c v
  | .struct _ fs => fieldsAccepted c fs
def fieldsAccepted (c : Ctx) : TFields → Bool
  | .nil => true
  | .cons _ t rest => dynAccepted c t && fieldsAccepted c rest
end

/-- the same for the shown value itself: its dynamic type is accepted by `checkShow` -/
def dynAcceptedTop (c : Ctx) : TDesc → Bool
  | .ifaceVal _ d => !d.isInterface && staticOK c d && dynAccepted c d
  | t => dynAccepted c t

/-- the description of an interface type: the renderer never meets it, it meets the value inside -/
def TInfo.isIface (i : TInfo) : Bool := i.kind == .interface || i.ident == .emptyInterface

/-- a map node describes a map type (which is none of the exact types the code compares with) -/
def mapInfoWF (i : TInfo) : Bool := i.kind == .map && i.ident == .none

mutual
/-- the descriptor is the description of a Go type/value as far as the proof needs it:
interface types are described by the interface nodes only, map nodes describe map types -/
def TDesc.wf : TDesc → Bool
  | .basic i | .seen i => !i.isIface
  | .ifaceNil _ => true
  | .ifaceVal _ d => d.wf
  | .elem i e => !i.isIface && e.wf
  | .map i k v => mapInfoWF i && k.wf && v.wf
  | .struct i fs => !i.isIface && fs.wf
def TFields.wf : TFields → Bool
  | .nil => true
  | .cons _ t rest => t.wf && rest.wf
end

end ScriggoV.Show
