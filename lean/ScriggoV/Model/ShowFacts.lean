import ScriggoV.Model.Show
/-! C09 — the finite check behind the theorem. "What the checker accepts the renderer shows" is a
statement about all kinds × exact types × combinations of implemented interfaces; instead of
enumerating them the two decision trees are explored *symbolically*: a state records what the
questions asked so far have established (the kinds and exact types still possible, the interfaces
known to be implemented or not), a question that the state decides is not asked again, and at each
pair of leaves reached under one state the two actions are compared. `Lemmas/Show.lean` proves
that a successful exploration implies the statement for every type; `Props/C09.lean` runs it (by
`decide`) on the regenerated trees of every context. Core Lean only: the driver runs the same
exploration to list the states where it fails. -/
namespace ScriggoV.Show
open ScriggoV.Gen

def Res.isOk (r : Res) : Bool := r == .ok

/-- does an action end well, given which components do -/
def Act.okEval (e f k : Bool) : Act → Bool
  | .ret r => r.isOk
  | .elem => e
  | .fields => f
  | .key => k
  | .seq a b => a.okEval e f k && b.okEval e f k

def Act.leafOk (a : Act) : Bool := a.okEval false false false

def bools : List Bool := [false, true]

/-- one node: whichever components are fine, if the static action accepts then the dynamic
action does not fail -/
def nodeFact (s d : Act) : Bool :=
  bools.all fun e => bools.all fun f => bools.all fun k => !s.okEval e f k || d.okEval e f k

/-- a type/value without components: accepted ⇒ shown -/
def leafFact (s d : Act) : Bool := !s.leafOk || d.leafOk

/-! ### symbolic states -/

structure SubjSt where
  kinds : List Kind
  idents : List Ident
  yes : List Iface
  no : List Iface

structure SymSt where
  self : SubjSt
  key : SubjSt

def SymSt.get (st : SymSt) : Subj → SubjSt
  | .self => st.self
  | .key => st.key

def SymSt.set (st : SymSt) (s : Subj) (x : SubjSt) : SymSt :=
  match s with
  | .self => { st with self := x }
  | .key => { st with key := x }

/-- explore a tree from a state; `chk` judges the action at each leaf reachable from the state -/
def explore (chk : Act → SymSt → Bool) : DTree → SymSt → Bool
  | .leaf a, st => chk a st
  | .askK s p y n, st =>
    let cur := st.get s
    let ky := cur.kinds.filter p
    let kn := cur.kinds.filter (fun k => !p k)
    (ky.isEmpty || explore chk y (st.set s { cur with kinds := ky })) &&
    (kn.isEmpty || explore chk n (st.set s { cur with kinds := kn }))
  | .askI s p y n, st =>
    let cur := st.get s
    let iy := cur.idents.filter p
    let i_n := cur.idents.filter (fun i => !p i)
    (iy.isEmpty || explore chk y (st.set s { cur with idents := iy })) &&
    (i_n.isEmpty || explore chk n (st.set s { cur with idents := i_n }))
  | .askF s x y n, st =>
    let cur := st.get s
    if cur.yes.contains x then explore chk y st
    else if cur.no.contains x then explore chk n st
    else explore chk y (st.set s { cur with yes := x :: cur.yes }) &&
         explore chk n (st.set s { cur with no := x :: cur.no })

/-- explore two trees under the same states and compare the actions at the leaves -/
def explore2 (cmp : Act → Act → Bool) (s d : DTree) (st : SymSt) : Bool :=
  explore (fun a st' => explore (fun b _ => cmp a b) d st') s st

def SubjSt.all : SubjSt := ⟨Kind.all, Ident.all, [], []⟩
/-- any type that is not an interface type -/
def SubjSt.nonIface : SubjSt :=
  ⟨Kind.all.filter (· != .interface), Ident.all.filter (· != .emptyInterface), [], []⟩
/-- map types -/
def SubjSt.maps : SubjSt := ⟨[.map], [.none], [], []⟩
/-- the nil value -/
def SubjSt.nil : SubjSt := ⟨[.invalid], [.none], [], Iface.all⟩

/-! ### the facts, per context -/

def nodeTopOK (c : Ctx) : Bool :=
  explore2 nodeFact (staticFns c).topT (dynFns c).topT ⟨.nonIface, .nil⟩
def nilTopOK (c : Ctx) : Bool :=
  explore (fun a _ => !a.leafOk || ((dynFns c).top TInfo.nil).leafOk) (staticFns c).topT ⟨.all, .nil⟩
def nodeCompOK (c : Ctx) : Bool :=
  explore2 nodeFact (staticFns c).compT (dynFns c).compT ⟨.nonIface, .nil⟩
def nilCompOK (c : Ctx) : Bool :=
  explore (fun a _ => !a.leafOk || ((dynFns c).comp TInfo.nil).leafOk) (staticFns c).compT ⟨.all, .nil⟩
def keyOK (c : Ctx) : Bool :=
  explore2 leafFact (staticFns c).keyT (dynFns c).keyT ⟨.maps, .nonIface⟩
def keyNilOK (c : Ctx) : Bool :=
  explore (fun a st' => explore (fun b _ => leafFact a b) (dynFns c).keyT (st'.set .key .nil))
    (staticFns c).keyT ⟨.maps, .all⟩

/-- the whole check of one context -/
def tableOK (c : Ctx) : Bool :=
  nodeTopOK c && nilTopOK c && nodeCompOK c && nilCompOK c && keyOK c && keyNilOK c

/-! ### the same exploration, returning the states where the comparison fails (diagnostics) -/

def exploreL {α : Type} (chk : Act → SymSt → List α) : DTree → SymSt → List α
  | .leaf a, st => chk a st
  | .askK s p y n, st =>
    let cur := st.get s
    let ky := cur.kinds.filter p
    let kn := cur.kinds.filter (fun k => !p k)
    (if ky.isEmpty then [] else exploreL chk y (st.set s { cur with kinds := ky })) ++
    (if kn.isEmpty then [] else exploreL chk n (st.set s { cur with kinds := kn }))
  | .askI s p y n, st =>
    let cur := st.get s
    let iy := cur.idents.filter p
    let i_n := cur.idents.filter (fun i => !p i)
    (if iy.isEmpty then [] else exploreL chk y (st.set s { cur with idents := iy })) ++
    (if i_n.isEmpty then [] else exploreL chk n (st.set s { cur with idents := i_n }))
  | .askF s x y n, st =>
    let cur := st.get s
    if cur.yes.contains x then exploreL chk y st
    else if cur.no.contains x then exploreL chk n st
    else exploreL chk y (st.set s { cur with yes := x :: cur.yes }) ++
         exploreL chk n (st.set s { cur with no := x :: cur.no })

def explore2L (cmp : Act → Act → Bool) (s d : DTree) (st : SymSt) : List SymSt :=
  exploreL (fun a st' => exploreL (fun b st'' => if cmp a b then [] else [st'']) d st') s st

/-- (which fact, state) for every failing pair of leaves of a context -/
def failingStates (c : Ctx) : List (String × SymSt) :=
  (explore2L nodeFact (staticFns c).topT (dynFns c).topT ⟨.nonIface, .nil⟩).map (("top", ·)) ++
  (exploreL (fun a st => if !a.leafOk || ((dynFns c).top TInfo.nil).leafOk then [] else [st])
    (staticFns c).topT ⟨.all, .nil⟩).map (("top-nil", ·)) ++
  (explore2L nodeFact (staticFns c).compT (dynFns c).compT ⟨.nonIface, .nil⟩).map (("comp", ·)) ++
  (exploreL (fun a st => if !a.leafOk || ((dynFns c).comp TInfo.nil).leafOk then [] else [st])
    (staticFns c).compT ⟨.all, .nil⟩).map (("comp-nil", ·)) ++
  (explore2L leafFact (staticFns c).keyT (dynFns c).keyT ⟨.maps, .nonIface⟩).map (("key", ·)) ++
  (exploreL (fun a st' => exploreL (fun b st'' => if leafFact a b then [] else [st''])
      (dynFns c).keyT (st'.set .key .nil)) (staticFns c).keyT ⟨.maps, .all⟩).map (("key-nil", ·))

end ScriggoV.Show
