import ScriggoV.Model.ShowTypes
/-! C09 — the `case *ast.Show` of `checkNodes` as data (types only; the program itself is
regenerated into `Gen/ShowOperands.lean`).

The checker walks the expressions of a show statement (`{% show a, b %}` has several, `{{ a }}` one);
for each of them `checkExpr2` returns a *pair* of type infos — `(nil, ti)` for an ordinary
expression, `(ti of x or nil, ti of y)` for `x default y` — and an inner loop calls `checkShow` on
every non-nil member of the pair. What matters for C09 is where the error of `checkShow` is
tested: the statements below are the only ones the generator recognises in that region; the error
variables are numbered by declaration (`slot`), so that shadowing is kept. -/
namespace ScriggoV.Show

inductive Stmt where
  /-- `var err error` -/
  | declErr (slot : Nat)
  /-- `err := checkShow(ti.Type, node.Context, tc.inURL)` or `err = …` on the loop variable -/
  | check (slot : Nat)
  /-- `if err != nil { panic(tc.errorf(node, "cannot show %s (%s)", expr, err)) }` -/
  | report (slot : Nat)
  /-- `if ti == nil { continue }` -/
  | skipAbsent
  /-- `if ti.Nil() { panic(tc.errorf(node, "use of untyped nil")) }` -/
  | nilPanic
  /-- a statement that neither tests nor sets an error variable, does not call `checkShow` and
  does not leave the loops (`tis := tc.checkExpr2(expr, true)`, `ti.setValue(nil)`, …) -/
  | skip
  deriving DecidableEq, Repr

/-- the statements of the Show case around its two loops
```
pre…
for _, expr := range node.Expressions {
    exprPre…
    for _, ti := range tis { body… }
    exprPost…
}
post…
``` -/
structure ShowLoop where
  pre : List Stmt
  exprPre : List Stmt
  body : List Stmt
  exprPost : List Stmt
  post : List Stmt
  deriving DecidableEq, Repr

end ScriggoV.Show
