import ScriggoV.Model.Compose
import ScriggoV.Gen.ShowFastPath
/-! C16: the engine of `Model/Compose.lean` with the *regenerated* fast-path guards
(Gen/ShowFastPath.lean, from emitter_statements.go). Core Lean only. -/
namespace ScriggoV.Compose
open ScriggoV.Gen

/-- `canOptimizeShowMacro` on (result format, context) -/
def genMacroGuard (f : Format) (c : Ctx) : Bool := ShowFastPath.macroGuard f.code c.code

/-- the guard of the `*ast.Render` branch of the Show case (`true` when there is none) -/
def genRenderGuard (f : Format) (c : Ctx) : Bool := ShowFastPath.renderGuard f.code c.code

/-- the engine as it is in /repo today -/
def genEngine (conv : Bytes → Bytes) (esc : Format → Ctx → Bytes → Except Err Bytes) : Engine :=
  { macroGuard := genMacroGuard, renderGuard := genRenderGuard, conv := conv, esc := esc }

end ScriggoV.Compose
