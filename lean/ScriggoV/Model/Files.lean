import ScriggoV.Basic.Bytes
/-! Model of `files.go` (`scriggo.Files`, an `io/fs` file system over `map[string][]byte`) —
hand-written, core Lean only.

* The map is an association list `FS` in the order `range` happens to visit it; theorems
  quantify over every such list with distinct keys.
* Names are byte strings and the model performs the same string operations as the code
  (`strings.HasPrefix`, `strings.IndexByte`, slicing, `sort.Strings`, `path.Base`,
  `fs.ValidPath` with `utf8.ValidString`).
* `Open`/`ReadDir(n)`/`Stat`/`Read`/`Close` act on handles (`*filesFile`, `*filesDir`) kept in a
  table: `step : State → Op → State × Out`.
* Slices: `name[len(dir):]` is guarded by `HasPrefix`, `names[d.n:]` by `d.n < len(names)`,
  `names[:n]` by `len(names) > n`, `f.data[f.offset:]` by `0 ≤ offset ≤ len`; the guards are
  mirrored, so `List.drop/take` are used directly. -/
namespace ScriggoV.Files

abbrev FS := List (Bytes × Bytes)

def slash : UInt8 := 47
def dot : UInt8 := 46

/-! ### `utf8.ValidString` -/

/-- accepted range of the second byte and number of further continuation bytes, by lead byte
(the `first`/`acceptRanges` tables of unicode/utf8) -/
def lead (c : UInt8) : Option (Nat × Nat × Nat) :=
  let n := c.toNat
  if 0xC2 ≤ n ∧ n ≤ 0xDF then some (0x80, 0xBF, 0)
  else if n = 0xE0 then some (0xA0, 0xBF, 1)
  else if 0xE1 ≤ n ∧ n ≤ 0xEC then some (0x80, 0xBF, 1)
  else if n = 0xED then some (0x80, 0x9F, 1)
  else if 0xEE ≤ n ∧ n ≤ 0xEF then some (0x80, 0xBF, 1)
  else if n = 0xF0 then some (0x90, 0xBF, 2)
  else if 0xF1 ≤ n ∧ n ≤ 0xF3 then some (0x80, 0xBF, 2)
  else if n = 0xF4 then some (0x80, 0x8F, 2)
  else none

/-- byte-at-a-time validator: `need` continuation bytes are still expected, the next one in
`lo..hi` (the later ones in 0x80..0xBF) -/
def utf8Step : Nat → Nat → Nat → Bytes → Bool
  | 0, _, _, [] => true
  | _ + 1, _, _, [] => false
  | 0, _, _, c :: r =>
    if c.toNat < 0x80 then utf8Step 0 0 0 r
    else
      match lead c with
      | some (lo, hi, k) => utf8Step (k + 1) lo hi r
      | none => false
  | n + 1, lo, hi, c :: r =>
    if lo ≤ c.toNat ∧ c.toNat ≤ hi then utf8Step n 0x80 0xBF r else false

def utf8OK (s : Bytes) : Bool := utf8Step 0 0 0 s

/-! ### `fs.ValidPath` -/

/-- elements of a slash-separated name (`cur` is the element being read) -/
def splitSlash : Bytes → Bytes → List Bytes
  | [], cur => [cur]
  | c :: r, cur => if c = slash then cur :: splitSlash r [] else splitSlash r (cur ++ [c])

/-- `elem == "" || elem == "." || elem == ".."` negated -/
def okElem (e : Bytes) : Bool := !(e = [] || e = [dot] || e = [dot, dot])

def elemsOK (name : Bytes) : Bool := (splitSlash name []).all okElem

def validPath (name : Bytes) : Bool :=
  utf8OK name && (name = [dot] || elemsOK name)

/-! ### `path.Base` -/

def base (p : Bytes) : Bytes :=
  if p = [] then [dot]
  else
    let q := (p.reverse.dropWhile (· = slash)).reverse      -- strip trailing slashes
    let r := (q.reverse.takeWhile (· ≠ slash)).reverse      -- after the last slash
    if r = [] then [slash] else r

/-! ### handles -/

/-- `filesFile` (and `filesFileInfo`, the same struct). `mode` is `0` (`false`) or `fs.ModeDir`
(`true`), the only two values the code ever stores. -/
structure File where
  name : Bytes
  data : Bytes
  offset : Int
  mode : Bool
  deriving DecidableEq, Repr

inductive Handle where
  | file (f : File)                 -- `*filesFile`
  | dir (f : File) (n : Nat)        -- `*filesDir` (embeds `filesFile`; `n` entries already returned)
  deriving DecidableEq, Repr

def Handle.f : Handle → File
  | .file f => f
  | .dir f _ => f

def Handle.setF : Handle → File → Handle
  | .file _, f => .file f
  | .dir _ n, f => .dir f n

/-! ### `Files.Open` -/

/-- `for n := range fsys { if strings.HasPrefix(n, prefix) { … } }` -/
def anyHasPrefix (fs : FS) (pre : Bytes) : Bool := fs.any fun kv => pre.isPrefixOf kv.1

/-- `Files.Open`; `none` is the `*os.PathError{Op: "open", Err: os.ErrNotExist}` -/
def fsOpen (fs : FS) (name : Bytes) : Option Handle :=
  if validPath name then
    if name = [dot] then some (.dir { name := name, data := [], offset := 0, mode := true } 0)
    else
      match fs.lookup name with
      | some data => some (.file { name := name, data := data, offset := 0, mode := false })
      | none =>
        if anyHasPrefix fs (name ++ [slash]) then
          some (.dir { name := name, data := [], offset := 0, mode := true } 0)
        else none
  else none

/-! ### `filesDir.ReadDir` -/

/-- `strings.IndexByte` -/
def indexByte : Bytes → UInt8 → Option Nat
  | [], _ => none
  | x :: r, c => if x = c then some 0 else (indexByte r c).map (· + 1)

/-- one iteration of the loop body up to the name it yields: `none` = `continue` (no prefix),
`(name, true)` = directory child (name cut after its first element below `dir`),
`(name, false)` = the key itself -/
def child (dir key : Bytes) : Option (Bytes × Bool) :=
  if dir.isPrefixOf key then
    match indexByte (key.drop dir.length) slash with
    | some i => if i > 0 then some (key.take (dir.length + i), true) else some (key, false)
    | none => some (key, false)
  else none

/-- the `for name := range d.fsys` loop: collected `names` and the `hasDir` set -/
def collect (dir : Bytes) : FS → List Bytes → List Bytes → List Bytes × List Bytes
  | [], names, hasDir => (names, hasDir)
  | (key, _) :: r, names, hasDir =>
    match child dir key with
    | none => collect dir r names hasDir
    | some (nm, true) =>
      if nm ∈ hasDir then collect dir r names hasDir
      else collect dir r (names ++ [nm]) (nm :: hasDir)
    | some (nm, false) => collect dir r (names ++ [nm]) hasDir

/-- Go string comparison `a <= b` (bytewise lexicographic) -/
def bytesLe : Bytes → Bytes → Bool
  | [], _ => true
  | _ :: _, [] => false
  | a :: as, b :: bs =>
    if a.toNat < b.toNat then true else if a.toNat = b.toNat then bytesLe as bs else false

def insertSorted (x : Bytes) : List Bytes → List Bytes
  | [] => [x]
  | y :: r => if bytesLe x y then x :: y :: r else y :: insertSorted x r

/-- `sort.Strings` (the sorted permutation; which algorithm produces it cannot be observed on
strings) -/
def sortStrings : List Bytes → List Bytes
  | [] => []
  | x :: r => insertSorted x (sortStrings r)

/-- `var dir string; if d.name != "." { dir = d.name + "/" }` -/
def dirPrefix (name : Bytes) : Bytes := if name = [dot] then [] else name ++ [slash]

/-- the entry built for a name: `filesFileInfo{name, mode: ModeDir}` or
`filesFileInfo{name, data: d.fsys[name]}` (a missing key yields nil data) -/
def mkEntry (fs : FS) (hasDir : List Bytes) (nm : Bytes) : File :=
  if nm ∈ hasDir then { name := nm, data := [], offset := 0, mode := true }
  else { name := nm, data := (fs.lookup nm).getD [], offset := 0, mode := false }

/-- all names of the directory, sorted, and `hasDir` -/
def listing (fs : FS) (name : Bytes) : List Bytes × List Bytes :=
  let c := collect (dirPrefix name) fs [] []
  (sortStrings c.1, c.2)

/-- `filesDir.ReadDir(n)` on a directory handle with offset `off`; `none` is `io.EOF`.
Returns the new offset and the entries. -/
def readDir (fs : FS) (f : File) (off : Nat) (n : Int) : Nat × Option (List File) :=
  let l := listing fs f.name
  let names := if off < l.1.length then l.1.drop off else []
  if n > 0 ∧ names.length = 0 then (off, none)
  else
    let names := if n > 0 ∧ names.length > n then names.take n.toNat else names
    (off + names.length, some (names.map (mkEntry fs l.2)))

/-! ### `Stat`, `Read`, `Close`, `filesFileInfo` -/

/-- what can be observed of a `fs.FileInfo`: `Name()`, `Size()`, `Mode()`, `IsDir()` -/
structure Info where
  name : Bytes
  size : Nat
  mode : Bool
  isDir : Bool
  deriving DecidableEq, Repr

def File.info (f : File) : Info :=
  { name := base f.name, size := f.data.length, mode := f.mode, isDir := f.mode }

inductive ReadRes where
  | invalid                       -- `*os.PathError{Op: "read", Err: os.ErrInvalid}`
  | eof                           -- `0, io.EOF`
  | data (b : Bytes)              -- `len b, nil`
  deriving DecidableEq, Repr

/-- `filesFile.Read(p)` with `len(p) = k` -/
def File.read (f : File) (k : Nat) : File × ReadRes :=
  if f.offset < 0 then (f, .invalid)
  else if f.offset = f.data.length then (f, .eof)
  else
    let b := (f.data.drop f.offset.toNat).take k      -- `copy(p, f.data[f.offset:])`
    ({ f with offset := f.offset + b.length }, .data b)

def File.close (f : File) : File := { f with offset := -1 }

/-! ### the state machine -/

structure State where
  fs : FS
  handles : List Handle

inductive Op where
  | open (name : Bytes)
  | readDir (h : Nat) (n : Int)
  | stat (h : Nat)
  | read (h : Nat) (k : Nat)
  | close (h : Nat)

inductive Out where
  | opened (h : Nat) (isDir : Bool)
  | notExist
  | entries (l : List File)
  | eof
  | notDir                         -- the handle is a `*filesFile`: no `ReadDir` method
  | badHandle
  | info (i : Info)
  | read (r : ReadRes)
  | closed
  deriving DecidableEq, Repr

def step (s : State) : Op → State × Out
  | .open name =>
    match fsOpen s.fs name with
    | none => (s, .notExist)
    | some h => ({ s with handles := s.handles ++ [h] }, .opened s.handles.length (h.f.mode))
  | .readDir i n =>
    match s.handles[i]? with
    | none => (s, .badHandle)
    | some (.file _) => (s, .notDir)
    | some (.dir f off) =>
      let r := readDir s.fs f off n
      ({ s with handles := s.handles.set i (.dir f r.1) },
        match r.2 with | none => .eof | some l => .entries l)
  | .stat i =>
    match s.handles[i]? with
    | none => (s, .badHandle)
    | some h => (s, .info h.f.info)
  | .read i k =>
    match s.handles[i]? with
    | none => (s, .badHandle)
    | some h =>
      let r := h.f.read k
      ({ s with handles := s.handles.set i (h.setF r.1) }, .read r.2)
  | .close i =>
    match s.handles[i]? with
    | none => (s, .badHandle)
    | some h => ({ s with handles := s.handles.set i (h.setF h.f.close) }, .closed)

def run (s : State) : List Op → State × List Out
  | [] => (s, [])
  | op :: ops =>
    let r := step s op
    let q := run r.1 ops
    (q.1, r.2 :: q.2)

end ScriggoV.Files
