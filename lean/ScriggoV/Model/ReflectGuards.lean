import ScriggoV.Spec.Reflect
/-! Guard order of the builtins that apply package reflect to an argument of type `any`
(UnmarshalJSON, UnmarshalYAML, Reverse, Sort): the body of such a function, as a sequence of
checks and reflect operations in evaluation order (`Gen/ReflectGuards.lean`, regenerated from
builtin.go), run on every abstract argument (`Spec/Reflect.lean`).

A statement is a reflect operation (panics when its precondition fails), a `return` / documented
`panic("fn: …")`, the installation of a deferred `recover`, or an `if`. A condition the model does
not interpret (`err != nil`, `l <= 1`, a loop, a switch clause) is `Cond.opaque`: both branches
are followed, so `outcomes` is the list of everything that can happen for the argument.
Core Lean only. -/
namespace ScriggoV.Reflect

/-- conditions on registers; `neg` is `!=` / `!` -/
inductive Cond
  | argNil (r : Nat) (neg : Bool)                 -- `x == nil` for the `any` parameter
  | kindIs (r : Nat) (k : RKind) (neg : Bool)     -- `x.Kind() == reflect.K`, x a Value or a Type
  | isZero (r : Nat) (neg : Bool)                 -- `x.IsZero()`
  | isNilV (r : Nat) (neg : Bool)                 -- `x.IsNil()`
  | opaque
  deriving DecidableEq, Repr, Inhabited

/-- how a function is left -/
inductive RetKind
  | err        -- `return <error value>`
  | ok         -- `return nil`
  | plain      -- `return` (no result, or named results)
  | docPanic   -- `panic("<fn>: …")`: the documented panic of the function
  deriving DecidableEq, Repr, Inhabited

def RetKind.name : RetKind → String
  | .err => "err" | .ok => "ok" | .plain => "plain" | .docPanic => "docpanic"

inductive Stmt
  | op (dst : Nat) (o : Op) (src : String)        -- register dst := o
  | ret (k : RetKind)
  | deferRecover                                  -- `defer func() { … recover() … }()`
  | ite (c : Cond) (src : String) (thn els : List Stmt)
  deriving Repr, Inhabited

inductive Outcome
  | done                                          -- fell off the end of the body
  | left (k : RetKind)
  | panic (src : String) (recovered : Bool)       -- a reflect operation panicked at `src`
  deriving Repr, Inhabited

def Outcome.isPanic : Outcome → Bool
  | .panic _ _ => true
  | _ => false

def Outcome.isErr : Outcome → Bool
  | .left .err => true
  | _ => false

def Outcome.isOk : Outcome → Bool
  | .left .ok => true
  | _ => false

def Outcome.isDocPanic : Outcome → Bool
  | .left .docPanic => true
  | _ => false

def Outcome.name : Outcome → String
  | .done => "done"
  | .left k => "left:" ++ k.name
  | .panic src r => (if r then "recovered-panic:" else "panic:") ++ src

structure St where
  regs : Regs
  recovering : Bool
  deriving Repr, Inhabited

/-- `none`: evaluating the condition panics; `some none`: not interpreted -/
def Cond.eval (rs : Regs) : Cond → Option (Option Bool)
  | .argNil r neg =>
    match rs.get r with
    | .iface .nilIface => some (some (!neg))
    | .iface _ => some (some neg)
    | _ => none
  | .kindIs r k neg =>
    match rs.get r with
    | .value false _ _ _ => some (some ((k == .invalid) != neg))    -- Kind of the zero Value
    | .value true (some k') _ _ => some (some ((k' == k) != neg))
    | .value true none _ _ => some none
    | .type .nil => none                                             -- Kind of the nil Type panics
    | .type (.known k') => some (some ((k' == k) != neg))
    | .type .unknown => some none
    | _ => none
  | .isZero r neg =>
    match rs.get r with
    | .value true _ (some z) _ => some (some (z != neg))
    | .value true _ none _ => some none
    | _ => none                                                      -- IsZero of the zero Value panics
  | .isNilV r neg =>
    match rs.get r with
    | .value true (some k) (some z) _ => if k.nilable then some (some (z != neg)) else none
    | .value true (some k) none _ => if k.nilable then some none else none
    | _ => none
  | .opaque => some none

inductive Res
  | cont (st : St)
  | fin (o : Outcome)

mutual
def execStmt : Stmt → St → List Res
  | .op dst o src, st =>
    match o.eval st.regs with
    | some obj => [.cont { st with regs := (dst, obj) :: st.regs }]
    | none => [.fin (.panic src st.recovering)]
  | .ret k, _ => [.fin (.left k)]
  | .deferRecover, st => [.cont { st with recovering := true }]
  | .ite c src thn els, st =>
    match c.eval st.regs with
    | none => [.fin (.panic src st.recovering)]
    | some (some true) => execStmts thn st
    | some (some false) => execStmts els st
    | some none => execStmts thn st ++ execStmts els st
def execStmts : List Stmt → St → List Res
  | [], st => [.cont st]
  | s :: rest, st => (execStmt s st).flatMap fun
    | .cont st' => execStmts rest st'
    | .fin o => [.fin o]
end

/-- everything that can happen when the function is called with argument `a` (register 0) -/
def outcomes (prog : List Stmt) (a : Arg) : List Outcome :=
  (execStmts prog { regs := [(0, .iface a)], recovering := false }).map fun
    | .fin o => o
    | .cont _ => .done

/-- no reflect operation of `prog` panics, whatever the argument and the uninterpreted conditions -/
def neverPanics (prog : List Stmt) (a : Arg) : Bool := (outcomes prog a).all (fun o => !o.isPanic)

/-- canonical rendering for the driver: the distinct outcome names, in order of first occurrence -/
def outcomeNames (prog : List Stmt) (a : Arg) : List String :=
  (outcomes prog a).foldl (fun acc o => if acc.contains o.name then acc else acc ++ [o.name]) []

end ScriggoV.Reflect
