/-! # Runs of one compiled artefact (C10)

An abstract machine for "a built Program/Template is run many times, in sequence and
concurrently". `Shared` is the compiled artefact (`*runtime.Function` tree, `[]compiler.Global`,
`NativeFunction`s with their `argsPool`), `Local` is everything `Run` creates afresh
(`runtime.NewVM()`: registers, call stack, `env`, renderer, the per-run copies of the global
variables made by `initGlobalVariables` / `initPackageLevelVariables`).

A step *may* write `Shared` in this model — the point of the frame hypothesis (`Frame`) is to say
which part of `Shared` a step may write (`NativeFunction.argsPool`) and that nothing a step
computes depends on that part.  Core Lean only (linked into the driver). -/
namespace ScriggoV.Runs

/-- one step of one run over a shared artefact -/
structure Machine where
  Shared : Type
  Local : Type
  Obs : Type
  step : Shared → Local → Shared × Local × List Obs

/-- system state: the artefact, the runs in flight, and every observation made so far tagged
with the index of the run that made it -/
structure Sys (M : Machine) where
  sh : M.Shared
  ls : List M.Local
  trace : List (Nat × M.Obs)

variable {M : Machine}

/-- run `i` takes one step (nothing happens if there is no run `i`) -/
def stepRun (i : Nat) (s : Sys M) : Sys M :=
  match s.ls[i]? with
  | none => s
  | some l =>
    ⟨(M.step s.sh l).1, s.ls.set i (M.step s.sh l).2.1,
     s.trace ++ (M.step s.sh l).2.2.map (fun o => (i, o))⟩

/-- a schedule is any list of run indices -/
def runSched (sched : List Nat) (s : Sys M) : Sys M :=
  sched.foldl (fun s i => stepRun i s) s

/-- what run `i` has emitted -/
def obsOf (i : Nat) (s : Sys M) : List M.Obs :=
  (s.trace.filter (fun p => p.1 == i)).map (fun p => p.2)

/-- what can be observed of run `i`: its local state (result, error) and its output -/
def observe (i : Nat) (s : Sys M) : Option M.Local × List M.Obs := (s.ls[i]?, obsOf i s)

/-- a system holding run `i` only, over the same artefact, with nothing emitted yet -/
def alone (i : Nat) (s : Sys M) : Sys M := ⟨s.sh, (s.ls[i]?).toList, []⟩

/-- run `i` alone for as many steps as `sched` gives it -/
def runAlone (i : Nat) (sched : List Nat) (s : Sys M) : Sys M :=
  runSched (List.replicate (sched.count i) 0) (alone i s)

/-- The frame hypothesis: there is a *core* of the shared artefact that no step changes and on
which alone the local result and the observations of a step depend. -/
structure Frame (M : Machine) (C : Type) where
  core : M.Shared → C
  pres : ∀ sh l, core (M.step sh l).1 = core sh
  det : ∀ sh sh' l, core sh = core sh' → (M.step sh l).2 = (M.step sh' l).2

/-! ## A concrete instance: a toy register machine with a pooled argument slice

It mirrors the one place where the real VM does write the artefact: `callNative` takes a
`[]reflect.Value` from `fn.argsPool`, overwrites every slot, calls, and puts the slice back
still holding the arguments of this call. When the native function is started with `go`
(`go fn.value.Call(args)`) the callee reads the slice *later*, in its own goroutine: the model
has a `goNative` instruction whose callee is delivered by a later step of the run, and a
`PutPolicy` saying when the slice goes back to the pool. -/

inductive Instr
  | const (r : Nat) (v : Int)      -- r := v              (OpLoad from Function.Values / immediate)
  | addv (r : Nat)                 -- r := r + input      (OpGetVar of a per-run global)
  | add (r q : Nat)                -- r := r + q
  | native (f : Nat) (r : Nat)     -- r := native_f(r)    (OpCallNative through argsPool)
  | goNative (f : Nat) (r : Nat)   -- go native_f(r)      (OpGo + OpCallNative: the callee runs later)
  | join                           -- wait for one started native goroutine (it reads its arguments now)
  | show (r : Nat)                 -- emit r              (OpShow / print)
deriving Repr, DecidableEq

/-- when the slice handed to `go native_f(args)` returns to the pool -/
inductive PutPolicy
  | never        -- the code: on the go path the slice is not put back (the collector frees it)
  | afterRead    -- an alternative that is also safe: the callee puts it back once it has read it
  | atGo         -- the defect: put back right after the go statement, while the callee has not run
deriving Repr, DecidableEq

/-- a started native goroutine that has not read its arguments yet: the function and the
argument slice it was handed -/
structure Pending where
  f : Nat
  args : List Int
deriving Repr, DecidableEq

/-- what a run emits: values shown by the code, and what its native goroutines recorded -/
inductive ToyObs
  | shown (v : Int)
  | recorded (f : Nat) (v : Int)
deriving Repr, DecidableEq

/-- the artefact: code, and per native function the stack of pooled one-slot argument slices
(each still holding whatever the last call left in it) -/
structure Artefact where
  body : List Instr
  pools : List (List (List Int))
deriving Repr, DecidableEq

structure Run where
  pc : Nat
  regs : List Int
  input : Int
  inflight : List Pending := []
deriving Repr, DecidableEq

def reg (l : Run) (r : Nat) : Int := l.regs.getD r 0

def setReg (l : Run) (r : Nat) (v : Int) : Run :=
  { l with pc := l.pc + 1, regs := if r < l.regs.length then l.regs.set r v else l.regs }

/-- the native functions of the toy: `f(x) = 3x + f` -/
def natFn (f : Nat) (x : Int) : Int := 3 * x + f

/-- `sync.Pool.Get`: a pooled slice if there is one (stale contents!), else a new zeroed one -/
def poolGet (pools : List (List (List Int))) (f : Nat) : List Int × List (List (List Int)) :=
  match pools[f]? with
  | some (s :: rest) => (s, pools.set f rest)
  | _ => ([0], pools)

/-- `sync.Pool.Put` -/
def poolPut (pools : List (List (List Int))) (f : Nat) (s : List Int) : List (List (List Int)) :=
  match pools[f]? with
  | some p => pools.set f (s :: p)
  | none => pools

/-- the slice on top of pool `f` (what the next `Get` returns, and fills) -/
def poolTop (pools : List (List (List Int))) (f : Nat) : List Int :=
  match pools[f]? with
  | some (s :: _) => s
  | _ => [0]

/-- the argument actually passed: slot 0 of the slice, or 0 for an empty slice -/
def slot0 (s : List Int) : Int := s.headD 0

/-- overwrite the slice: every slot of the real slice is overwritten (generated fact
`argsPoolFilledOnEveryPath`); the toy's slices have one slot, so nothing of the old contents is left -/
def fill (_ : List Int) (v : Int) : List Int := [v]

/-- a started native goroutine runs: it reads its arguments now. Under `atGo` its slice went back
to the pool at the go statement, so what it reads is whatever that pooled slice holds by now (the
slice on top of the pool: the one the next `Get` returned and filled). -/
def deliver (pol : PutPolicy) (sh : Artefact) (l : Run) (p : Pending) (rest : List Pending) :
    Artefact × Run × List ToyObs :=
  if pol = .atGo then
    (sh, { l with inflight := rest }, [.recorded p.f (natFn p.f (slot0 (poolTop sh.pools p.f)))])
  else
    (if pol = .afterRead then { sh with pools := poolPut sh.pools p.f p.args } else sh,
     { l with inflight := rest }, [.recorded p.f (natFn p.f (slot0 p.args))])

/-- one step; `overwrite = false` is the *broken* variant that calls with the slice as it came
out of the pool; `pol` says when the slice of a `go` call returns to the pool -/
def toyStep (overwrite : Bool) (pol : PutPolicy) (sh : Artefact) (l : Run) :
    Artefact × Run × List ToyObs :=
  match sh.body[l.pc]? with
  | none =>
    match l.inflight with
    | [] => (sh, l, [])
    | p :: rest => deliver pol sh l p rest
  | some .join =>
    match l.inflight with
    | [] => (sh, { l with pc := l.pc + 1 }, [])
    | p :: rest => deliver pol sh l p rest
  | some (.const r v) => (sh, setReg l r v, [])
  | some (.addv r) => (sh, setReg l r (reg l r + l.input), [])
  | some (.add r q) => (sh, setReg l r (reg l r + reg l q), [])
  | some (.show r) => (sh, { l with pc := l.pc + 1 }, [.shown (reg l r)])
  | some (.native f r) =>
    let got := poolGet sh.pools f
    let args := if overwrite then fill got.1 (reg l r) else got.1
    let res := natFn f (slot0 args)
    ({ sh with pools := poolPut got.2 f (fill got.1 (reg l r)) }, setReg l r res, [])
  | some (.goNative f r) =>
    let got := poolGet sh.pools f
    let args := fill got.1 (reg l r)
    if pol = .atGo then
      ({ sh with pools := poolPut got.2 f args },
       { l with pc := l.pc + 1, inflight := l.inflight ++ [⟨f, args⟩] }, [])
    else
      ({ sh with pools := got.2 },
       { l with pc := l.pc + 1, inflight := l.inflight ++ [⟨f, args⟩] }, [])

abbrev toy : Machine := ⟨Artefact, Run, ToyObs, toyStep true .never⟩
abbrev toyAfterRead : Machine := ⟨Artefact, Run, ToyObs, toyStep true .afterRead⟩
abbrev toyStale : Machine := ⟨Artefact, Run, ToyObs, toyStep false .never⟩
abbrev toyPutAtGo : Machine := ⟨Artefact, Run, ToyObs, toyStep true .atGo⟩

/-- a fresh run: `NewVM()` + the run's own input -/
def freshRun (nregs : Nat) (input : Int) : Run := ⟨0, List.replicate nregs 0, input, []⟩

def toySys (body : List Instr) (npools : Nat) (inputs : List Int) : Sys toy :=
  ⟨⟨body, List.replicate npools []⟩, inputs.map (freshRun 4), []⟩

/-! ## Values made by a run, and an artefact that keeps them

`OpLoadFunc`, `OpMethodValue`, … make a *function value* while a run executes: a `callable` — the
compiled function plus `vars`, the globals of the run that made it (and, lazily, a
`reflect.MakeFunc` bound to that run's `env`). `ValueMachine` abstracts this: a step makes a value
from the code and the run's own state (`make`) and does something with it (`use`). `keep = true` is
the variant in which the artefact has a slot that keeps the first value made and hands it to every
later step of every run (a memo in the compiled `Function`). -/

structure ValueMachine where
  Core : Type
  Local : Type
  Obs : Type
  Val : Type
  make : Core → Local → Val
  use : Core → Local → Val → Local × List Obs

/-- the value a step works with: the kept one if there is one and the artefact keeps values -/
def ValueMachine.pick (K : ValueMachine) (keep : Bool) (sh : K.Core × Option K.Val) (l : K.Local) : K.Val :=
  if keep then sh.2.getD (K.make sh.1 l) else K.make sh.1 l

@[reducible] def ValueMachine.machine (K : ValueMachine) (keep : Bool) : Machine where
  Shared := K.Core × Option K.Val
  Local := K.Local
  Obs := K.Obs
  step := fun sh l =>
    ((sh.1, if keep then some (K.pick keep sh l) else sh.2), K.use sh.1 l (K.pick keep sh l))

/-- `make` does not look at the run: the value is the same whichever run makes it (a function
without captured variables *and* without the run's globals; a constant) -/
def ValueMachine.RunIndependent (K : ValueMachine) : Prop := ∀ c l l', K.make c l = K.make c l'

/-- artefacts whose slot, if filled, holds the value every run would make -/
def ValueMachine.Kept (K : ValueMachine) : Type :=
  { p : K.Core × Option K.Val // ∀ v, p.2 = some v → ∀ l, v = K.make p.1 l }

/-- the keeping machine over such artefacts (it stays among them when `make` is run independent) -/
def ValueMachine.keeping (K : ValueMachine) (hind : K.RunIndependent) : Machine where
  Shared := K.Kept
  Local := K.Local
  Obs := K.Obs
  step := fun sh l =>
    (⟨(sh.1.1, some (sh.1.2.getD (K.make sh.1.1 l))), by
        intro v hv l'
        cases h : sh.1.2 with
        | none => rw [h] at hv; simp at hv; rw [← hv]; exact hind _ _ _
        | some w => rw [h] at hv; simp at hv; rw [← hv]; exact sh.2 w h l'⟩,
     K.use sh.1.1 l (sh.1.2.getD (K.make sh.1.1 l)))

/-- the smallest instance with a value that captures its run: the run's state is its global
variable (its input) and what it has shown; the value made is "the function that reads my global";
using it shows the global it reads -/
abbrev capture : ValueMachine where
  Core := Unit
  Local := Int × Int
  Obs := Int
  Val := Int
  make := fun _ l => l.1
  use := fun _ l v => ((l.1, v), [v])

end ScriggoV.Runs
