import ScriggoV.Gen.VarBinding
/-! C17 — model of how a template's predeclared global variables are recorded at emission time
(`internal/compiler/emitter_var_store.go`: `predefVarIndex`, `setPredefVarRef`, the predefined
branch of `nonLocalVarIndex`; `emitter_util.go`: `setFunctionVarRefs`; the `Upvar` the checker
builds in `checker_expressions.go`: `checkIdentifier`), bound to the values passed to `Run`
(`templates.go`: `initGlobalVariables`, `UsedVars`) and resolved at run time
(`internal/runtime/run.go`: `OpLoadFunc` builds a closure's variables from `fn.VarRefs`;
`OpGetVar`/`OpSetVar` index `vm.vars`; `OpCallFunc`/`OpCallMacro` set `vm.vars = env.globals`).

The emitter is seen as a state machine over the *events* of one emission, in the order the emitter
walks the trees:

* `declFunc f`          a function that is not a function literal (`newFunction`/`newMacro`: the
                        macros and `$initvars` of imported, extended and rendered files). `VarRefs`
                        stays nil: at run time its variables are the globals of the environment.
                        Function 0 (the template's main function) exists from the start.
* `use f v`             `nonLocalVarIndex` meets the predeclared variable `v` while emitting `f`.
* `pkgVar k x`          `createScriggoPackageVar`: a variable `x` declared by the template file that is
                        package `k` takes the next place in the same slice of globals and is bound,
                        by name, in `k`.
* `bindImport t k x`    `emitImport` → `bindScriggoPackageVar`: the variable `x` of the imported
                        package `k` is bound *by name* — unexported names included — in the importing
                        package `t` (0 = the main file).
`declFunc f k` says which package `f` belongs to (`em.pkg` while it is emitted); a function literal
belongs to the package of the enclosing function.
* `closure p f ups`     a function literal `f` (every macro declared in a template file is one)
                        met while emitting `p`: `setFunctionVarRefs(f, ups)`, `ups` the `Upvars`
                        the checker collected for it (predeclared variables and captured locals).

A predeclared variable is identified by the `*reflect.Value` of its declaration; there is one
declaration per global name, so the model identifies it by that name. What is recorded about it
(`Global.Pkg`, `Global.Name`) comes from the expressions listed in `Gen/VarBinding.lean`, which the
check regenerates from the code. Core Lean only. -/
namespace ScriggoV.VarStore
open ScriggoV.Gen.VarBinding

abbrev Fn := Nat

/-- `compiler.Global` of a variable without value: what `initGlobalVariables` and `UsedVars` read -/
structure Global where
  pkg : String
  name : String
  deriving DecidableEq, Repr

/-- one entry of `ast.Func.Upvars` -/
inductive Upvar
  | predef (v : String)   -- `Declaration == nil`: a predeclared variable
  | loc (name : String)   -- a variable of an enclosing function (`setClosureVar(fn, name, i)`)
  deriving DecidableEq, Repr

/-- one entry of `runtime.Function.VarRefs` -/
inductive Ref
  | var (k : Nat)   -- `ref ≥ 0`: variable `k` of the function executing `LoadFunc`
  | reg             -- `ref < 0`: an indirect register of that function
  deriving DecidableEq, Repr

inductive Event
  | declFunc (f : Fn) (pkg : Nat)
  | use (f : Fn) (v : String)
  | closure (p f : Fn) (ups : List Upvar)
  | pkgVar (pkg : Nat) (x : String)
  | bindImport (target src : Nat) (x : String)
  deriving Repr

/-- What is known of a function once it exists. For a function literal: its `VarRefs` and the
variables `OpLoadFunc` builds from them — `vars[i] = vm.vars[refs[i]]` evaluated in the enclosing
function, whose own variables are the globals (`VarRefs == nil`) or were built the same way when
*it* was loaded; `some g` = global `g`, `none` = a captured local. -/
inductive FnKind
  | top
  | closure (parent : Fn) (refs : List Ref) (vars : List (Option Nat))
  deriving Repr

/-- the configuration read from the code (see `Cfg.code`) -/
structure Cfg where
  globalsPkg : String
  bindPkg : String
  upvarPkg : NameSource
  upvarName : NameSource
  usePkg : NameSource
  useName : NameSource
  ixPkg : NameSource
  ixName : NameSource
  owner : RefOwner
  share : Bool
  valueInit : InitMode
  pointerInit : InitMode
  /-- package recorded for a variable declared by a template file -/
  tmplPkg : String
  /-- `UsedVars`: the package whose globals are reported (`none`: all) -/
  usedPkg : Option String
  /-- `nonLocalVarIndex`: the order of its three lookups -/
  lookupOrder : List Lookup

/-- the code as it is -/
def Cfg.code : Cfg :=
  { globalsPkg := globalsPkgName, bindPkg := bindPkgName,
    upvarPkg := upvarPkgSource, upvarName := upvarNameSource,
    usePkg := usePkgSource, useName := useNameSource,
    ixPkg := upvarIndexPkgSource, ixName := upvarIndexNameSource,
    owner := upvarRefOwner, share := oneGlobalPerVariable,
    valueInit := Gen.VarBinding.valueInit, pointerInit := Gen.VarBinding.pointerInit,
    tmplPkg := templatePkgName, usedPkg := usedVarsPkg, lookupOrder := Gen.VarBinding.lookupOrder }

/-- a name in the checker / in `nonLocalVarIndex`, for the global identifier `v` -/
def Cfg.nameOf (c : Cfg) (src : NameSource) (v : String) : String :=
  match src with
  | .nativePackageName => c.globalsPkg
  | .identName => v
  | .lit s => s
  | .upvarPkg => v
  | .upvarName => v

/-- the global `nonLocalVarIndex` records for `v` -/
def Cfg.useGlobal (c : Cfg) (v : String) : Global := ⟨c.nameOf c.usePkg v, c.nameOf c.useName v⟩

/-- the `Upvar` the checker builds for `v` (`NativePkg`, `NativeName`) -/
def Cfg.upvarOf (c : Cfg) (v : String) : Global := ⟨c.nameOf c.upvarPkg v, c.nameOf c.upvarName v⟩

/-- the global `setFunctionVarRefs` records for the upvar of `v` -/
def Cfg.upvarGlobal (c : Cfg) (v : String) : Global :=
  let up := c.upvarOf v
  let pick (src : NameSource) : String :=
    match src with
    | .upvarPkg => up.pkg
    | .upvarName => up.name
    | other => c.nameOf other v
  ⟨pick c.ixPkg, pick c.ixName⟩

/-- `varStore` (the part about predeclared variables) and the functions created so far -/
structure Store where
  globals : List Global
  /-- `predefVarGlobal` -/
  gidx : String → Option Nat
  /-- `predefVarRef[fn][v]` -/
  ref : Fn → String → Option Nat
  kind : Fn → Option FnKind
  /-- `closureVars[fn][name]` -/
  closureVar : Fn → String → Option Nat
  /-- `scriggoPackageVarRefs[pkg][name]` -/
  pkgVarRef : Nat → String → Option Nat
  /-- the package a function is emitted in -/
  fnPkg : Fn → Nat

def Store.init : Store :=
  { globals := [], gidx := fun _ => none, ref := fun _ _ => none,
    kind := fun f => if f = 0 then some .top else none,
    closureVar := fun _ _ => none, pkgVarRef := fun _ _ => none, fnPkg := fun _ => 0 }

def Store.setRef (s : Store) (f : Fn) (v : String) (i : Nat) : Store :=
  { s with ref := fun f' v' => if f' = f ∧ v' = v then some i else s.ref f' v' }

/-- `varStore.predefVarIndex(v, typ, pkg, name)` with `em.fb.fn = f` -/
def predefVarIndex (c : Cfg) (s : Store) (f : Fn) (v : String) (g : Global) : Nat × Store :=
  match s.ref f v with
  | some i => (i, s)
  | none =>
    match (if c.share then s.gidx v else none) with
    | some i => (i, s.setRef f v i)
    | none =>
      let i := s.globals.length
      (i, { (s.setRef f v i) with
              globals := s.globals ++ [g],
              gidx := fun v' => if v' = v then some i else s.gidx v' })

/-- the loop of `setFunctionVarRefs(fn, closureVars)` from position `i` on, with `em.fb.fn = p` -/
def setRefs (c : Cfg) (p f : Fn) : List Upvar → Nat → Store → List Ref × Store
  | [], _, s => ([], s)
  | .predef v :: us, i, s =>
    let r := predefVarIndex c s p v (c.upvarGlobal v)
    let s2 := r.2.setRef (match c.owner with | .newFunction => f | .currentFunction => p) v i
    let rest := setRefs c p f us (i + 1) s2
    (.var r.1 :: rest.1, rest.2)
  | .loc name :: us, i, s =>
    let s1 := { s with closureVar := fun f' n => if f' = f ∧ n = name then some i else s.closureVar f' n }
    let rest := setRefs c p f us (i + 1) s1
    (.reg :: rest.1, rest.2)

/-- variable `k` of function `f` at run time: the global it is (`OpLoadFunc`, `OpCallFunc`) -/
def resolve (s : Store) (f : Fn) (k : Nat) : Option Nat :=
  match s.kind f with
  | none => none
  | some .top => some k
  | some (.closure _ _ vars) =>
    match vars[k]? with
    | some (some g) => some g
    | _ => none

/-- `vars[i] = vm.vars[ref]` / `vm.general(-ref).Elem()` executed in `p` -/
def loadVar (s : Store) (p : Fn) : Ref → Option Nat
  | .var k => resolve s p k
  | .reg => none

/-- in a function literal every predeclared variable is among the recorded upvars (the checker
adds it to all nested functions), elsewhere anything goes -/
def admits (s : Store) (f : Fn) (v : String) : Bool :=
  match s.kind f with
  | none => false
  | some .top => true
  | some (.closure ..) => (s.ref f v).isSome

def admitsAll (s : Store) (p : Fn) : List Upvar → Bool
  | [] => true
  | .predef v :: us => admits s p v && admitsAll s p us
  | .loc _ :: us => admitsAll s p us

/-- `varStore.nonLocalVarIndex` for an identifier the checker resolved to the predeclared variable
`v` (`ti.IsNative()` holds), with `em.fb.fn = f`: the three lookups in the order of the code. A hit
by *name* among the closure or package variables returns that variable's index — the reference is
then emitted as whatever variable has that name (recorded in `ref` as the emitted index).
The package-variable hit returns the index of that global: this is the code for a function that is
not a closure (`Gen.VarBinding.pkgVarIndexing = .globalIndexOrVarRef`, `packageVarRef` with
`fn.VarRefs == nil`; in a closure the code now returns an entry of the closure's VarRefs that refers
to the same global — same variable at run time, other number). With the code's order (`predefined`
first, `Cfg.Sound.order`) neither by-name branch is reached for a predeclared variable; the branch is
exercised by `packageVars_first_refuted` only, in a function that is not a closure. -/
def nonLocalVarIndexFrom (c : Cfg) (s : Store) (f : Fn) (v : String) : List Lookup → Nat × Store
  | [] => (0, s)
  | .predefined :: _ => predefVarIndex c s f v (c.useGlobal v)
  | .closureVars :: rest =>
    match s.closureVar f v with
    | some i => (i, s.setRef f v i)
    | none => nonLocalVarIndexFrom c s f v rest
  | .packageVars :: rest =>
    match s.pkgVarRef (s.fnPkg f) v with
    | some i => (i, s.setRef f v i)
    | none => nonLocalVarIndexFrom c s f v rest

def nonLocalVarIndex (c : Cfg) (s : Store) (f : Fn) (v : String) : Nat × Store :=
  nonLocalVarIndexFrom c s f v c.lookupOrder

/-- one emission event; `none` = not an emission the checker and emitter produce -/
def step (c : Cfg) (s : Store) : Event → Option Store
  | .declFunc f pkg =>
    match s.kind f with
    | some _ => none
    | none => some { s with kind := fun f' => if f' = f then some .top else s.kind f',
                            fnPkg := fun f' => if f' = f then pkg else s.fnPkg f' }
  | .use f v =>
    if admits s f v then some (nonLocalVarIndex c s f v).2 else none
  | .closure p f ups =>
    match s.kind f with
    | some _ => none
    | none =>
      if (s.kind p).isSome && admitsAll s p ups then
        let r := setRefs c p f ups 0 s
        let vars := r.1.map (loadVar r.2 p)
        some { r.2 with kind := fun f' => if f' = f then some (.closure p r.1 vars) else r.2.kind f',
                        fnPkg := fun f' => if f' = f then r.2.fnPkg p else r.2.fnPkg f' }
      else none
  | .pkgVar k x =>
    some { s with globals := s.globals ++ [⟨c.tmplPkg, x⟩],
                  pkgVarRef := fun k' x' => if k' = k ∧ x' = x then some s.globals.length else s.pkgVarRef k' x' }
  | .bindImport t k x =>
    some { s with pkgVarRef := fun k' x' => if k' = t ∧ x' = x then s.pkgVarRef k x else s.pkgVarRef k' x' }

def run (c : Cfg) : List Event → Store → Option Store
  | [], s => some s
  | e :: es, s =>
    match step c s e with
    | none => none
    | some s' => run c es s'

def emit (c : Cfg) (es : List Event) : Option Store := run c es Store.init

/-! ### `Run`: binding and execution -/

/-- one value of `Run`'s `vars` map -/
inductive InitVal
  | value (n : Int)      -- a value of the variable's type
  | pointer (n : Int)    -- a pointer to a variable of that type, currently holding `n`
  | nilValue             -- `nil`
  | nilPointer           -- a nil pointer of the right type
  | wrongType
  deriving DecidableEq, Repr

/-- `values[i]` -/
inductive Slot
  | shared (name : String)   -- the caller's variable `*vars[name]`
  | own (n : Int)            -- a new variable, initially `n`
  deriving DecidableEq, Repr

inductive InitFault
  | nilInitializer | nilPointer | wrongType
  deriving DecidableEq, Repr

def InitFault.name : InitFault → String
  | .nilInitializer => "nil-initializer" | .nilPointer => "nil-pointer" | .wrongType => "wrong-type"

/-- body of the loop of `initGlobalVariables` for a variable without value -/
def initOne (c : Cfg) (init : List (String × InitVal)) (g : Global) : Except InitFault Slot :=
  if g.pkg = c.bindPkg then
    match init.lookup g.name with
    | some .nilValue => .error .nilInitializer
    | some (.value n) => .ok (.own n)
    | some .wrongType => .error .wrongType
    | some .nilPointer => .error .nilPointer
    | some (.pointer n) =>
      match c.pointerInit with
      | .shares => .ok (.shared g.name)
      | .copies => .ok (.own n)
    | none => .ok (.own 0)
  else .ok (.own 0)

def initGlobalVariables (c : Cfg) (init : List (String × InitVal)) : List Global → Except InitFault (List Slot)
  | [] => .ok []
  | g :: gs =>
    match initOne c init g with
    | .error e => .error e
    | .ok sl =>
      match initGlobalVariables c init gs with
      | .error e => .error e
      | .ok sls => .ok (sl :: sls)

/-- the variables that exist during one `Run`: the new ones by global index, the caller's by name -/
structure Mem where
  own : Nat → Int
  caller : String → Int

def Mem.init (slots : List Slot) (init : List (String × InitVal)) : Mem :=
  { own := fun i => match slots[i]? with | some (.own n) => n | _ => 0,
    caller := fun v => match init.lookup v with | some (.pointer n) => n | _ => 0 }

inductive RunFault
  | notEmitted | badVarIndex | badGlobalIndex
  deriving DecidableEq, Repr

def RunFault.name : RunFault → String
  | .notEmitted => "not-emitted" | .badVarIndex => "bad-var-index" | .badGlobalIndex => "bad-global-index"

/-- a reference to `v` in the code of `f`, executed -/
inductive Action
  | show (f : Fn) (v : String)
  | set (f : Fn) (v : String) (n : Int)
  deriving Repr

/-- `GetVar k` / `SetVar k` in `f`: the global behind it -/
def globalOf (s : Store) (f : Fn) (v : String) : Except RunFault Nat :=
  match s.ref f v with
  | none => .error .notEmitted
  | some k =>
    match resolve s f k with
    | none => .error .badVarIndex
    | some g => .ok g

def readG (slots : List Slot) (m : Mem) (g : Nat) : Except RunFault Int :=
  match slots[g]? with
  | none => .error .badGlobalIndex
  | some (.shared name) => .ok (m.caller name)
  | some (.own _) => .ok (m.own g)

def writeG (slots : List Slot) (m : Mem) (g : Nat) (n : Int) : Except RunFault Mem :=
  match slots[g]? with
  | none => .error .badGlobalIndex
  | some (.shared name) => .ok { m with caller := fun u => if u = name then n else m.caller u }
  | some (.own _) => .ok { m with own := fun i => if i = g then n else m.own i }

def exec (s : Store) (slots : List Slot) : List Action → Mem → Except RunFault (List Int × Mem)
  | [], m => .ok ([], m)
  | .show f v :: as, m =>
    match globalOf s f v with
    | .error e => .error e
    | .ok g =>
      match readG slots m g with
      | .error e => .error e
      | .ok x =>
        match exec s slots as m with
        | .error e => .error e
        | .ok r => .ok (x :: r.1, r.2)
  | .set f v n :: as, m =>
    match globalOf s f v with
    | .error e => .error e
    | .ok g =>
      match writeG slots m g n with
      | .error e => .error e
      | .ok m' => exec s slots as m'

/-- `Template.UsedVars` before sorting -/
def usedVars (c : Cfg) (s : Store) : List String :=
  (s.globals.filter fun g => match c.usedPkg with | none => true | some p => g.pkg == p).map Global.name

end ScriggoV.VarStore
