import ScriggoV.Basic.Bytes
import ScriggoV.Gen.LinkDestTables
/-! Model of the link-destination rewriting of `scriggo build -llms` (cmd/scriggo):
`applyReplacements` (sort, skip overlaps, splice), `markdownURLEscape`, `markdownUnescape`
(mdescape.go) and the destination / title / label scanners `parseDestination`, `parseTitle`,
`findLabelEnd` (linkdestination.go). `isMarkdownEscapable` comes from `Gen/LinkDestTables.lean`;
the generator pins the source text of the modelled functions. Hand-written, core Lean only;
tied to the code through the tag-guarded test driver cmd/scriggo/verif_c29_test.go. -/
namespace ScriggoV.LinkDest
open ScriggoV.Gen.LinkDestTables

/-! ### applyReplacements -/

/-- `type replacement struct { start, stop int; repl string }` (indices are never negative
where the code builds them: `appendReplacement` rejects `start < 0`) -/
structure Repl where
  start : Nat
  stop : Nat
  text : Bytes
  deriving Repr, DecidableEq

/-- insertion into a list sorted by `start`, after the elements with an equal `start` -/
def insertByStart (r : Repl) : List Repl → List Repl
  | [] => [r]
  | x :: xs => if r.start < x.start then r :: x :: xs else x :: insertByStart r xs

/-- `slices.SortFunc(replacements, cmp.Compare(a.start, b.start))` — as a stable sort; the
scanner only produces distinct `start`s, for which every sort gives this result -/
def sortByStart : List Repl → List Repl
  | [] => []
  | r :: rs => insertByStart r (sortByStart rs)

/-- the loop `for _, r := range replacements { if r.start < prev { continue }; dst.Write(src[prev:r.start]);
dst.WriteString(r.repl); prev = r.stop }; dst.Write(src[prev:])` with checked slicing -/
def applyLoop (src : Bytes) : Nat → List Repl → Bytes → Except Fault Bytes
  | prev, [], out =>
    match sliceOf src prev src.length with
    | .error f => .error f
    | .ok tail => .ok (out ++ tail)
  | prev, r :: rs, out =>
    if r.start < prev then applyLoop src prev rs out
    else
      match sliceOf src prev r.start with
      | .error f => .error f
      | .ok seg => applyLoop src r.stop rs (out ++ seg ++ r.text)

def applyReplacements (src : Bytes) (rs : List Repl) : Except Fault Bytes :=
  if rs.isEmpty then .ok src else applyLoop src 0 (sortByStart rs) []

/-! ### markdownURLEscape / markdownUnescape -/

/-- `markdownURLEscape`: every backslash that is the last byte or is followed by a byte of
`isMarkdownEscapable` is doubled -/
def urlEscape : Bytes → Bytes
  | [] => []
  | c :: rest =>
    if c == 92 then
      (if (match rest with
           | [] => true
           | d :: _ => isMarkdownEscapable d) then [92, 92] else [92]) ++ urlEscape rest
    else c :: urlEscape rest

/-- what `markdownUnescape` has read and not yet decided on -/
inductive Pend
  | none
  | slash   -- a backslash
  | c2      -- the byte 0xC2
  deriving DecidableEq, Repr

/-- `markdownUnescape`: `\x` with `x` escapable gives `x`; the UTF-8 sequence C2 A0 (U+00A0)
gives a space; everything else is copied -/
def unescFrom : Pend → Bytes → Bytes
  | .none, [] => []
  | .slash, [] => [92]
  | .c2, [] => [194]
  | p, c :: rest =>
    let flush : Bytes :=
      match p with
      | .none => []
      | .slash => [92]
      | .c2 => [194]
    if p == .slash && isMarkdownEscapable c then c :: unescFrom .none rest
    else if p == .c2 && c == 160 then 32 :: unescFrom .none rest
    else
      flush ++ (if c == 92 then unescFrom .slash rest
                else if c == 194 then unescFrom .c2 rest
                else c :: unescFrom .none rest)

def mdUnescape (s : Bytes) : Bytes := unescFrom .none s

/-! ### scanners (goldmark's `util.IsPunct` / `util.IsSpace` tables, tied by the harness) -/

def isPunct (c : UInt8) : Bool :=
  (decide (33 ≤ c) && decide (c ≤ 47)) || (decide (58 ≤ c) && decide (c ≤ 64)) ||
  (decide (91 ≤ c) && decide (c ≤ 96)) || (decide (123 ≤ c) && decide (c ≤ 126))

def isSpace (c : UInt8) : Bool := c == 32 || c == 9 || c == 10 || c == 13

/-- `skipSpaces`: number of leading space bytes -/
def countSpaces : Bytes → Nat
  | [] => 0
  | c :: rest => if isSpace c then countSpaces rest + 1 else 0

/-- the `<…>` loop of parseDestination on the bytes after `<`: relative index of the closing
`>`; `sl` = "the previous byte was a backslash (not itself escaped)" -/
def angleScan : Bool → Bytes → Nat → Option Nat
  | _, [], _ => none
  | sl, c :: rest, i =>
    if sl && isPunct c then angleScan false rest (i + 1)
    else if c == 92 then angleScan true rest (i + 1)
    else if c == 62 then some i
    else angleScan false rest (i + 1)

/-- the bare-destination loop of parseDestination: relative index where it stops -/
def plainScan : Bool → Nat → Bytes → Nat → Nat
  | _, _, [], i => i
  | sl, opened, c :: rest, i =>
    if sl && isPunct c then plainScan false opened rest (i + 1)
    else if c == 92 then plainScan true opened rest (i + 1)
    else if c == 40 then plainScan false (opened + 1) rest (i + 1)
    else if c == 41 then (if opened == 0 then i else plainScan false (opened - 1) rest (i + 1))
    else if isSpace c then i
    else plainScan false opened rest (i + 1)

/-- `parseDestination(line, pos)`: `some (start, stop, after)` or `none` for `ok == false` -/
def parseDestination (line : Bytes) (pos : Nat) : Option (Nat × Nat × Nat) :=
  let p := pos + countSpaces (line.drop pos)
  match line.drop p with
  | [] => none
  | c :: rest =>
    if c == 60 then
      match angleScan false rest 0 with
      | some k => some (p + 1, p + 1 + k, p + 1 + k + 1)
      | none => none
    else
      let n := plainScan false 0 (c :: rest) 0
      if n == 0 then none else some (p, p + n, p + n)

/-- the loop of parseTitle on the bytes after the opener: relative index of the closer. A
backslash is only looked at once the next byte is known (`sl`): followed by punctuation both
are skipped, otherwise it is an ordinary byte (and may itself be the closer when the function
is called on a backslash). -/
def titleScan (closer : UInt8) : Bool → Bytes → Nat → Option Nat
  | sl, [], i => if sl && closer == 92 then some (i - 1) else none
  | sl, c :: rest, i =>
    if sl && isPunct c then titleScan closer false rest (i + 1)
    else if sl && closer == 92 then some (i - 1)
    else if c == 92 then titleScan closer true rest (i + 1)
    else if c == closer then some i
    else titleScan closer false rest (i + 1)

/-- `parseTitle(line, pos)`: `line[pos]` faults when `pos ≥ len(line)`; `some end` or `none` -/
def parseTitle (line : Bytes) (pos : Nat) : Except Fault (Option Nat) :=
  match line.drop pos with
  | [] => .error .index
  | opener :: rest =>
    let closer : UInt8 := if opener == 40 then 41 else opener
    .ok ((titleScan closer false rest 0).map (fun k => pos + 1 + k + 1))

/-- the loop of findLabelEnd -/
def labelScan : Bool → Bytes → Nat → Option Nat
  | _, [], _ => none
  | sl, c :: rest, i =>
    if sl && isPunct c then labelScan false rest (i + 1)
    else if c == 91 then none
    else if c == 93 then some i
    else labelScan (c == 92) rest (i + 1)

/-- `findLabelEnd(line, pos)`: `none` for -1 -/
def findLabelEnd (line : Bytes) (pos : Nat) : Option Nat :=
  (labelScan false (line.drop pos) 0).map (fun k => pos + k)

/-! ### appendReplacement's decision, with net/url as a parameter -/

/-- the fields of `url.URL` that `appendReplacement` looks at (`rest`: everything else) -/
structure Url where
  scheme : Bytes
  host : Bytes
  path : Bytes
  rest : Bytes

/-- net/url and the path arithmetic, as parameters: `parse` is `url.Parse` (`none` = error),
`str` is `(*URL).String`, `relocate` is the host / path rewriting of `appendReplacement`
(base host, `path.Join` with the base path and the directory, `.html` → `.md`, …) -/
structure UrlLib where
  parse : Bytes → Option Url
  str : Url → Bytes
  relocate : Url → Url

/-- `appendReplacement`: the text that replaces the destination `dest`, or `none` when the
destination is left alone (parse error, absolute URL, only query and/or fragment) -/
def appendDecision (L : UrlLib) (baseScheme : Bytes) (dest : Bytes) : Option Bytes :=
  match L.parse (mdUnescape dest) with
  | none => none
  | some u =>
    if !u.scheme.isEmpty || (u.host.isEmpty && u.path.isEmpty) then none
    else some (urlEscape (L.str (L.relocate { u with scheme := baseScheme })))

end ScriggoV.LinkDest
