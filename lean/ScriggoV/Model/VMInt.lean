import ScriggoV.Gen.VMInt
import ScriggoV.Spec.GoInt
/-! # What the VM computes for a Go integer operator

Glue between the generated pieces (`Gen/VMInt.lean`: opcode bodies of run.go, `flatten` and the
`emit…` choices of builder_instructions.go) and the source-level operators. Hand-written here, and
tied to the code by the correspondence harness only:

* the order in which `emitBinaryOp` consults its three operator switches (`binPlan`; the switches
  themselves are regenerated: `binEmitBit`, `binEmitInt`, `binEmitGen`), `emitNeg` / `emitXor` for
  the unary operators (`emitUnaryOp`);
* unary `^x` is emitted as `mask ^ x` with `mask = -1` (signed) or the maximum of the type;
* a conversion is a move when source and destination kind coincide, else `OpConvertInt` /
  `OpConvertUint` by the signedness of the source (`changeRegister`, `emitConvert`);
* that "unsigned" for `emitComparison` means `¬ k.signed` (the table `cmpCond` is regenerated).

Core Lean only. -/
namespace ScriggoV.VM
open ScriggoV.Gen.VMInt ScriggoV.GoInt

/-- Execute an emitted instruction on register contents. `x`, `y` are the contents of the operand
registers; `junk` is whatever the destination register held before when it is not `x`. The kind
the opcode body sees is the one in operand A when the emitter put it there, else the operand kind
`k0` (the `…Int` bodies do not look at it). -/
def runEmitted (e : Emitted) (k0 : Kind) (x y junk : BitVec 64) : Except Fault (BitVec 64) :=
  let content : Operand → BitVec 64
    | .x => x
    | .y => y
    | .z => if e.zEqX then x else junk
    | .kind _ => 0
  let k := match e.a with
    | .kind k => k
    | _ => k0
  vmBody e.op k (content e.a) (content e.b) (content e.c)

def srcOpOfBin : BinOp → SrcOp
  | .add => .add | .sub => .sub | .mul => .mul | .div => .div | .rem => .rem
  | .and => .and | .or => .or | .xor => .xor | .andNot => .andNot

def srcOpOfShift : ShiftOp → SrcOp
  | .shl => .shl | .shr => .shr

/-- `emitBinaryOp` for an arithmetic, shift or bit operator at operand kind `k`: the emit function
it calls and whether it first moves `x` into a new register `z` and passes `z` as `x`. The three
tables are regenerated from the three `switch op` statements; the order in which they are
consulted (bit operations first, then `kind == reflect.Int`, then the rest) is hand-written. -/
def binPlan (op : SrcOp) (k : Kind) : Option (EmitFn × Bool) :=
  match binEmitBit op with
  | some p => some p
  | none => if k = .int then binEmitInt op else binEmitGen op

/-- the instruction for `op` at kind `k` run on register contents -/
def runPlan (op : SrcOp) (k : Kind) (x y junk : BitVec 64) : Except Fault (BitVec 64) :=
  match binPlan op k with
  | some (f, _) => runEmitted (emit f k) k x y junk
  | none => .error .other

/-- `x op y` at kind `k` as the emitter and the VM compute it -/
def vmOp (op : BinOp) (k : Kind) (x y junk : BitVec 64) : Except Fault (BitVec 64) :=
  runPlan (srcOpOfBin op) k x y junk

/-- `x << n`, `x >> n` with `x` of kind `k`; `n` is the content of the count register -/
def vmShift (op : ShiftOp) (k : Kind) (x n junk : BitVec 64) : Except Fault (BitVec 64) :=
  runPlan (srcOpOfShift op) k x n junk

/-- `-y` -/
def vmNeg (k : Kind) (y junk : BitVec 64) : Except Fault (BitVec 64) :=
  runEmitted (emit .emitNeg k) k junk y junk

/-- the constant the emitter loads for `^y`: `-1` for signed kinds, the maximum value otherwise -/
def notMask (k : Kind) : BitVec 64 :=
  if k.signed then BitVec.allOnes 64 else BitVec.ofNat 64 (2 ^ k.bits - 1)

/-- `^y`, emitted as `mask ^ y` into the register holding the mask -/
def vmNot (k : Kind) (y : BitVec 64) : Except Fault (BitVec 64) :=
  runEmitted (emit .emitXor k) k (notMask k) y 0

def vmUn (op : UnOp) (k : Kind) (y junk : BitVec 64) : Except Fault (BitVec 64) :=
  match op with
  | .neg => vmNeg k y junk
  | .not => vmNot k y
  | .plus => .ok y

/-- `dst(x)` for `x` of kind `src` -/
def vmConv (src dst : Kind) (x : BitVec 64) : Except Fault (BitVec 64) :=
  if src = dst then .ok x
  else if src.signed then vmConvertInt dst x else vmConvertUint dst x

/-- `string(x)` for `x` of integer kind `src`: `OpConvertInt` / `OpConvertUint` by the signedness
of the source, destination type of kind String -/
def vmConvStr (src : Kind) (x : BitVec 64) : Bytes :=
  if src.signed then vmConvertIntStr x else vmConvertUintStr x

def srcCmpOf : CmpOp → SrcCmp
  | .eq => .eq | .ne => .ne | .lt => .lt | .le => .le | .gt => .gt | .ge => .ge

/-- the condition `emitComparison` chooses (`cmpCond` is regenerated from its switches) -/
def condOf (op : CmpOp) (k : Kind) : Cond := cmpCond (srcCmpOf op) (!k.signed)

/-- `x op y` for a comparison operator: OpIfInt with A = x, C = y -/
def vmCmp (op : CmpOp) (k : Kind) (x y : BitVec 64) : Bool :=
  vmIfInt (condOf op k) x y

end ScriggoV.VM
