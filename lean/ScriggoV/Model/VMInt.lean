import ScriggoV.Gen.VMInt
import ScriggoV.Spec.GoInt
/-! # What the VM computes for a Go integer operator

Glue between the generated pieces (`Gen/VMInt.lean`: opcode bodies of run.go, `flatten` and the
`emit…` choices of builder_instructions.go) and the source-level operators. Hand-written here, and
tied to the code by the correspondence harness only:

* which `emit…` function the emitter calls for which operator (`emitBinaryOp`, `emitUnaryOp` in
  emitter_expressions.go) — `emitFnOf`, `shiftFnOf`;
* unary `^x` is emitted as `mask ^ x` with `mask = -1` (signed) or the maximum of the type;
* a conversion is a move when source and destination kind coincide, else `OpConvertInt` /
  `OpConvertUint` by the signedness of the source (`changeRegister`, `emitConvert`);
* the condition `emitComparison` picks (`…U` conditions for unsigned kinds).

Core Lean only. -/
namespace ScriggoV.VM
open ScriggoV.Gen.VMInt ScriggoV.GoInt

/-- Execute an emitted instruction on register contents. `x`, `y` are the contents of the operand
registers; `junk` is whatever the destination register held before when it is not `x`. The kind
the opcode body sees is the one in operand A when the emitter put it there, else the operand kind
`k0` (the `…Int` bodies do not look at it). -/
def runEmitted (e : Emitted) (k0 : Kind) (x y junk : BitVec 64) : Except Fault (BitVec 64) :=
  let content : Operand → BitVec 64
    | .x => x
    | .y => y
    | .z => if e.zEqX then x else junk
    | .kind _ => 0
  let k := match e.a with
    | .kind k => k
    | _ => k0
  vmBody e.op k (content e.a) (content e.b) (content e.c)

def emitFnOf : BinOp → EmitFn
  | .add => .emitAdd | .sub => .emitSub | .mul => .emitMul | .div => .emitDiv | .rem => .emitRem
  | .and => .emitAnd | .or => .emitOr | .xor => .emitXor | .andNot => .emitAndNot

def shiftFnOf : ShiftOp → EmitFn
  | .shl => .emitShl | .shr => .emitShr

/-- `x op y` at kind `k` as the emitter and the VM compute it -/
def vmOp (op : BinOp) (k : Kind) (x y junk : BitVec 64) : Except Fault (BitVec 64) :=
  runEmitted (emit (emitFnOf op) k) k x y junk

/-- `x << n`, `x >> n` with `x` of kind `k`; `n` is the content of the count register -/
def vmShift (op : ShiftOp) (k : Kind) (x n junk : BitVec 64) : Except Fault (BitVec 64) :=
  runEmitted (emit (shiftFnOf op) k) k x n junk

/-- `-y` -/
def vmNeg (k : Kind) (y junk : BitVec 64) : Except Fault (BitVec 64) :=
  runEmitted (emit .emitNeg k) k junk y junk

/-- the constant the emitter loads for `^y`: `-1` for signed kinds, the maximum value otherwise -/
def notMask (k : Kind) : BitVec 64 :=
  if k.signed then BitVec.allOnes 64 else BitVec.ofNat 64 (2 ^ k.bits - 1)

/-- `^y`, emitted as `mask ^ y` into the register holding the mask -/
def vmNot (k : Kind) (y : BitVec 64) : Except Fault (BitVec 64) :=
  runEmitted (emit .emitXor k) k (notMask k) y 0

def vmUn (op : UnOp) (k : Kind) (y junk : BitVec 64) : Except Fault (BitVec 64) :=
  match op with
  | .neg => vmNeg k y junk
  | .not => vmNot k y
  | .plus => .ok y

/-- `dst(x)` for `x` of kind `src` -/
def vmConv (src dst : Kind) (x : BitVec 64) : Except Fault (BitVec 64) :=
  if src = dst then .ok x
  else if src.signed then vmConvertInt dst x else vmConvertUint dst x

/-- `string(x)` for `x` of integer kind `src`: `OpConvertInt` / `OpConvertUint` by the signedness
of the source, destination type of kind String -/
def vmConvStr (src : Kind) (x : BitVec 64) : Bytes :=
  if src.signed then vmConvertIntStr x else vmConvertUintStr x

/-- the condition `emitComparison` chooses -/
def condOf (op : CmpOp) (k : Kind) : Cond :=
  match op, k.signed with
  | .eq, _ => .equal
  | .ne, _ => .notEqual
  | .lt, true => .less | .lt, false => .lessU
  | .le, true => .lessEqual | .le, false => .lessEqualU
  | .gt, true => .greater | .gt, false => .greaterU
  | .ge, true => .greaterEqual | .ge, false => .greaterEqualU

/-- `x op y` for a comparison operator: OpIfInt with A = x, C = y -/
def vmCmp (op : CmpOp) (k : Kind) (x y : BitVec 64) : Bool :=
  vmIfInt (condOf op k) x y

end ScriggoV.VM
