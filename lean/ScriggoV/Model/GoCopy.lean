/-! # `go`: four register files, four stack shifts (C14)

The VM has four register files (class 0 int, 1 float, 2 string, 3 general), each with its own
frame pointer. A call is followed by a shift instruction with four operands, one per class: the
emitter evaluates the arguments of class `c` into the registers `fp c + shift c + 1 + k` of file
`c` (the callee's frame starts at `fp c + shift c`). `startGoroutine` copies, for every class, the
parent's file from some offset to the bottom of the new VM's file; `sel c` says *which* operand
of the shift instruction it uses for class `c` (the code: its own). Core Lean only. -/
namespace ScriggoV.GoCopy

abbrev Val := Int

/-- the parent at a `go` statement: the four register files, frame pointers and stack shifts -/
structure Parent where
  file : Nat → List Val
  fp : Nat → Nat
  shift : Nat → Nat

/-- register `r` of class `c` of the callee, as the emitter laid it out in the parent's file -/
def placed (p : Parent) (c r : Nat) : Option Val := (p.file c)[p.fp c + p.shift c + r]?

/-- `startGoroutine`: the new VM's register file of class `c` (its frame pointer is 0) -/
def childFile (sel : Nat → Nat) (p : Parent) (c : Nat) : List Val :=
  (p.file c).drop (p.fp c + p.shift (sel c))

/-- register `r` of class `c` as the new goroutine reads it -/
def childReg (sel : Nat → Nat) (p : Parent) (c r : Nat) : Option Val := (childFile sel p c)[r]?

/-! ## What a receive leaves in its value register

`reflect.Select` / `Value.Recv` hand back `(v, ok)`; on a closed channel `v` is the zero value and
`ok = false`. The VM stores `v` into the register of the receive (`vm.setFromReflectValue`). Modelled
with the guard as a parameter: `guardOk = false` is the code (store whatever `ok` is), `guardOk =
true` a VM that stores only when `ok` (the register keeps what it held). -/

/-- the value register after a receive that gave `(v, ok)`, `old` being its content before -/
def recvStore (guardOk : Bool) (old : Int) (recv : Int × Bool) : Int :=
  if guardOk && !recv.2 then old else recv.1

/-- Go: after `x = <-c` (or a select case `case x = <-c`) `x` is the value sent, or the zero value
if the channel is closed -/
def goRecv (recv : Int × Bool) : Int := if recv.2 then recv.1 else 0

end ScriggoV.GoCopy
