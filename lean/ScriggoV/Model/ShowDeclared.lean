import ScriggoV.Model.Show
import ScriggoV.Gen.ScriggoImplements
/-! C09 — types declared in template code (`{% type T X %}`, and the composite types a template
builds from them).

Such a type is a value of one of the types of internal/compiler/types; its `Implements` method is
what `checkShow*` call when they ask `t.Implements(stringerType)` and the like. If the method
passes the receiver itself to the package-level `Implements`, that sees a `runtime.ScriggoType` and
answers "only the empty interface": the method set of a declared type is empty, as in Go. If it
passed the embedded type, the methods of the underlying native type would be reported. At run
time the value travels in a method-less proxy: the renderer finds none of the interfaces and none
of the exact types (`time.Time`, `[]byte`, the trusted string types), only the kind and the
components of the underlying type. Core Lean only. -/
namespace ScriggoV.Show
open ScriggoV.Gen

/-- every `Implements` method of the template-made types hands the receiver itself on, and the
package-level function then answers by the empty method set -/
def declaredAsksReceiver : Bool :=
  ScriggoImplements.methods.all (·.2) && ScriggoImplements.scriggoTypeImplementsOnlyEmptyInterface

/-- what the checker learns about a declared type whose underlying type is described by `u` -/
def declaredInfo (asksReceiver : Bool) (u : TInfo) : TInfo :=
  ⟨u.kind, .none, if asksReceiver then fun _ => false else u.impl⟩

/-- what the renderer learns about a value of that type -/
def runtimeInfo (u : TInfo) : TInfo := ⟨u.kind, .none, fun _ => false⟩

/-- replace the description of the type itself, keeping its components -/
def TDesc.retop (f : TInfo → TInfo) : TDesc → TDesc
  | .basic i => .basic (f i)
  | .seen i => .seen (f i)
  | .ifaceNil i => .ifaceNil i
  | .ifaceVal i d => .ifaceVal i d
  | .elem i e => .elem (f i) e
  | .map i k v => .map (f i) k v
  | .struct i fs => .struct (f i) fs

end ScriggoV.Show
