import ScriggoV.Model.VMInt
import ScriggoV.Model.Eval
/-! # The emitter and the VM on typed integer expressions

A model of `internal/compiler/emitter_expressions.go` (+ `emitter_util.go`, `builder.go`,
`builder_instructions.go`) restricted to the expression language of `Model/Eval.lean`, and of the
instructions it emits as `internal/runtime/run.go` executes them.

**Emitter side** (hand-written mirror of the Go control flow, tied to the code by the
`compile-vs-emitter` stream of the harness, which compares instruction sequences):

* `St` — the part of `functionBuilder` that matters here: `numRegs[intRegister]` and
  `fn.Values.Int`; `newRegister` is `numRegs+1`; an `enterStack … exitStack` pair (lexically
  scoped in the Go code) is "remember `numRegs`, restore it afterwards";
* `operand` — `_emitExpr` without a given register (`emitExpr` / `emitExprK`): an immediate when
  `allowK` and the constant fits `immMin..immMax` (regenerated), the variable's own register for a
  local identifier, else a new register and `emitInto`;
* `emitInto` — `_emitExpr` once the destination register is fixed: `emitValueNotPredefined`
  (`OpLoad` from the Int constant table, `makeIntValue` de-duplicates), identifier → move,
  `emitUnaryOp`, `emitBinaryOp` (which `emit…` function: `binEmit`, regenerated from the three
  `switch op` statements; the instruction each appends: `emit`, regenerated), conversion →
  `changeRegister` (move / `OpConvertInt` / `OpConvertUint`), comparison → `Move 1; If; Move 0`.

Constant subexpressions other than literals never reach the emitter (the type checker folds them:
`ti.HasValue()`); `Foldless` is the class of trees for which the model claims to *be* the emitter.
The correctness theorem does not need it.

**VM side**: `exec` is built from the regenerated opcode bodies (`vmBody`, `vmConvertInt`,
`vmConvertUint`, `vmIfInt`); `OpMove`, `OpLoad` and the "skip the next instruction" effect of
`OpIfInt` are hand-written. Registers are natural numbers (the limit of 127 registers, where the
real emitter stops with a LimitExceededError, is not modelled). Core Lean only. -/
namespace ScriggoV.Compile
open ScriggoV ScriggoV.GoInt ScriggoV.Eval ScriggoV.Gen.VMInt ScriggoV.VM

/-- an integer register `i1, i2, …` of the current frame: a natural number (a notation rather than
a definition, so that arithmetic on register numbers stays plain `Nat` arithmetic) -/
local notation "Reg" => Nat

/-- operand B (C for `OpIfInt`): a register, or — negated opcode — an `int8` immediate -/
inductive Src
  | reg (r : Reg)
  | imm (b : BitVec 8)
  deriving DecidableEq, Repr, Inhabited

def Src.toReg : Src → Reg
  | .reg r => r
  | .imm _ => 0

/-- operand A of an arithmetic instruction: the register of `x`, or a `reflect.Kind` -/
inductive ArgA
  | reg (r : Reg)
  | kind (k : Kind)
  deriving DecidableEq, Repr, Inhabited

inductive Instr
  | move (s : Src) (d : Reg)                          -- OpMove / -OpMove, A = intRegister
  | load (i : Nat) (d : Reg)                          -- OpLoad, value index `i` of the Int table
  | op (o : VOp) (a : ArgA) (b : Src) (c : Reg)       -- an arithmetic opcode (negated: `b` immediate)
  | convertInt (s : Reg) (k : Kind) (d : Reg)         -- OpConvertInt to a type of kind `k`
  | convertUint (s : Reg) (k : Kind) (d : Reg)        -- OpConvertUint
  | ifInt (a : Reg) (cond : Cond) (c : Src)           -- OpIfInt / -OpIfInt
  deriving DecidableEq, Repr, Inhabited

/-! ## the emitter -/

/-- `fb.numRegs[intRegister]` and `fb.fn.Values.Int` -/
structure St where
  numRegs : Nat
  consts : List (BitVec 64)
  deriving Repr, Inhabited

def findConst (v : BitVec 64) : List (BitVec 64) → Option Nat
  | [] => none
  | c :: cs => if c = v then some 0 else (findConst v cs).map (· + 1)

/-- `makeIntValue`: the index of `v` in the table, appended when absent -/
def makeIntValue (v : BitVec 64) (st : St) : Nat × St :=
  match findConst v st.consts with
  | some i => (i, st)
  | none => (st.consts.length, { st with consts := st.consts ++ [v] })

/-- `-128 <= v && v <= 127` of `_emitExpr` (bounds regenerated) on the `int64` value of a constant -/
def immOK (v : BitVec 64) : Bool := decide (immMin ≤ v.toInt) && decide (v.toInt ≤ immMax)

/-- static kind of an integer-valued tree (`ti.Type.Kind()`) -/
def kindOf : Expr → Kind
  | .lit k _ => k
  | .var k _ => k
  | .un _ e => kindOf e
  | .bin _ a _ => kindOf a
  | .sh _ a _ => kindOf a
  | .cmp _ _ _ => .int
  | .conv k _ => k

structure IntoOut where
  code : List Instr
  st : St
  deriving Repr, Inhabited

structure OperOut where
  code : List Instr
  src : Src
  st : St
  deriving Repr, Inhabited

/-- the instruction an `emit…` function appends (`e` from the regenerated table) for the actual
arguments `x`, `y` (register or immediate: the `k` flag), `z` -/
def instrOf (e : Emitted) (x : Reg) (y : Src) (z : Reg) : Instr :=
  let srcOf : Operand → Src := fun o =>
    match o with
    | .x => .reg x | .y => y | .z => .reg z | .kind _ => .imm 0
  let a : ArgA :=
    match e.a with
    | .kind k => .kind k
    | o => .reg (srcOf o).toReg
  .op e.op a (srcOf e.b) (srcOf e.c).toReg

/-- `_emitExpr(expr, dstType, 0, false, allowK)` with `dstType` the type of `expr`; `into` is the
rest of `_emitExpr` once the register is known (`emitInto expr`) -/
def operand (vr : Nat → Reg) (e : Expr) (allowK : Bool) (into : Reg → St → IntoOut) (st : St) : OperOut :=
  let fresh : OperOut :=
    let r := st.numRegs + 1
    let o := into r { st with numRegs := r }
    ⟨o.code, .reg r, o.st⟩
  match e with
  | .lit _ z => if allowK && immOK (reg z) then ⟨[], .imm ((reg z).setWidth 8), st⟩ else fresh
  | .var _ i => ⟨[], .reg (vr i), st⟩
  | _ => fresh

/-- the tail of `emitBinaryOp` for an arithmetic, bitwise or shift operator -/
def binTail (sop : SrcOp) (k : Kind) (x : Reg) (y : Src) (dst : Reg) (n : Nat) : List Instr :=
  match binPlan sop k with
  | some (f, false) => [instrOf (emit f k) x y dst]
  | some (f, true) =>
    let z := n + 1
    [.move (.reg x) z, instrOf (emit f k) z y z, .move (.reg z) dst]
  | none => []

/-- `changeRegister(false, src, dst, srcType, dstType)` between integer types -/
def changeReg (ks kd : Kind) (s dst : Reg) : List Instr :=
  if ks = kd then (if s = dst then [] else [.move (.reg s) dst])
  else if ks.signed then [.convertInt s kd dst] else [.convertUint s kd dst]

/-- `_emitExpr` with the destination register `dst` fixed; `vr` is `scopeLookup` -/
def emitInto (vr : Nat → Reg) : Expr → Reg → St → IntoOut
  | .lit _ z, dst, st =>
    let m := makeIntValue (reg z) st
    ⟨[.load m.1 dst], m.2⟩
  | .var _ i, dst, st => ⟨if vr i = dst then [] else [.move (.reg (vr i)) dst], st⟩
  | .un op e, dst, st =>
    match op with
    | .plus => emitInto vr e dst st
    | .neg =>
      -- enterScope; y := emitExpr(operand); emitNeg(y, reg, kind); exitScope
      let o := operand vr e false (emitInto vr e) st
      ⟨o.code ++ [instrOf (emit .emitNeg (kindOf e)) dst o.src dst], { o.st with numRegs := st.numRegs }⟩
    | .not =>
      -- enterStack; y := newRegister; emitExprR(operand, y); x := newRegister; x = mask;
      -- emitXor(false, x, y, x); changeRegister(x, reg); exitStack
      let k := kindOf e
      let y := st.numRegs + 1
      let o := emitInto vr e y { st with numRegs := y }
      let x := o.st.numRegs + 1
      let m := makeIntValue (notMask k) o.st
      let mask : List Instr × St :=
        if k.signed then ([.move (.imm (-1)) x], o.st) else ([.load m.1 x], m.2)
      ⟨o.code ++ mask.1 ++ [instrOf (emit .emitXor k) x (.reg y) x, .move (.reg x) dst],
        { mask.2 with numRegs := st.numRegs }⟩
  | .bin op a b, dst, st =>
    let oa := operand vr a false (emitInto vr a) st
    let ob := operand vr b true (emitInto vr b) oa.st
    ⟨oa.code ++ ob.code ++ binTail (srcOpOfBin op) (kindOf a) oa.src.toReg ob.src dst ob.st.numRegs, ob.st⟩
  | .sh op a n, dst, st =>
    let oa := operand vr a false (emitInto vr a) st
    let ob := operand vr n true (emitInto vr n) oa.st
    ⟨oa.code ++ ob.code ++ binTail (srcOpOfShift op) (kindOf a) oa.src.toReg ob.src dst ob.st.numRegs, ob.st⟩
  | .cmp op a b, dst, st =>
    let oa := operand vr a false (emitInto vr a) st
    let ob := operand vr b true (emitInto vr b) oa.st
    ⟨oa.code ++ ob.code ++
      [.move (.imm 1) dst, .ifInt oa.src.toReg (condOf op (kindOf a)) ob.src, .move (.imm 0) dst], ob.st⟩
  | .conv k e, dst, st =>
    let o := operand vr e false (emitInto vr e) st
    ⟨o.code ++ changeReg (kindOf e) k o.src.toReg dst, o.st⟩

/-- `em.emitExpr(e, typ)`: the code and the register that holds the value afterwards -/
def compile (vr : Nat → Reg) (e : Expr) (st : St) : OperOut := operand vr e false (emitInto vr e) st

/-- `em.emitExprK(e, typ)`, as for the right-hand side of `r := e` -/
def compileK (vr : Nat → Reg) (e : Expr) (st : St) : OperOut := operand vr e true (emitInto vr e) st

/-- a tree the type checker would fold (it has a value at compile time) -/
def isConst : Expr → Bool
  | .lit _ _ => true
  | .var _ _ => false
  | .un _ e => isConst e
  | .conv _ e => isConst e
  | .bin _ a b => isConst a && isConst b
  | .sh _ a b => isConst a && isConst b
  | .cmp _ a b => isConst a && isConst b

/-- the only constant subtrees are literals: what the emitter gets to see -/
def foldless : Expr → Bool
  | .lit _ _ => true
  | .var _ _ => true
  | .un _ e => !isConst e && foldless e
  | .conv _ e => !isConst e && foldless e
  | .bin _ a b => !(isConst a && isConst b) && foldless a && foldless b
  | .sh _ a b => !(isConst a && isConst b) && foldless a && foldless b
  | .cmp _ a b => !(isConst a && isConst b) && foldless a && foldless b

/-! ## the VM -/

/-- `vm.regs.int` of the current frame, by register number -/
abbrev RegFile := Reg → BitVec 64

def setReg (rf : RegFile) (r : Reg) (v : BitVec 64) : RegFile := fun r' => if r' = r then v else rf r'

/-- `vm.intk(b, op < 0)` -/
def srcVal (rf : RegFile) : Src → BitVec 64
  | .reg r => rf r
  | .imm b => b.signExtend 64

/-- one instruction: the new registers and whether the next instruction is skipped. The opcode
bodies are the regenerated ones; for an arithmetic opcode whose operand A is a register the body
does not look at a kind (`.int` is passed). `.other`: a value index outside the table. -/
def exec (tbl : List (BitVec 64)) : Instr → RegFile → Except Fault (RegFile × Bool)
  | .move s d, rf => .ok (setReg rf d (srcVal rf s), false)
  | .load i d, rf =>
    match tbl[i]? with
    | some v => .ok (setReg rf d v, false)
    | none => .error .other
  | .op o a b c, rf =>
    let r := match a with
      | .kind k => vmBody o k 0 (srcVal rf b) (rf c)
      | .reg x => vmBody o .int (rf x) (srcVal rf b) (rf c)
    match r with
    | .ok v => .ok (setReg rf c v, false)
    | .error f => .error f
  | .convertInt s k d, rf =>
    match vmConvertInt k (rf s) with
    | .ok v => .ok (setReg rf d v, false)
    | .error f => .error f
  | .convertUint s k d, rf =>
    match vmConvertUint k (rf s) with
    | .ok v => .ok (setReg rf d v, false)
    | .error f => .error f
  | .ifInt a cond c, rf => .ok (rf, vmIfInt cond (rf a) (srcVal rf c))

/-- run straight-line code; the flag says that the next instruction is to be skipped -/
def runS (tbl : List (BitVec 64)) : List Instr → RegFile × Bool → Except Fault (RegFile × Bool)
  | [], s => .ok s
  | i :: rest, (rf, skip) =>
    if skip then runS tbl rest (rf, false)
    else
      match exec tbl i rf with
      | .ok s => runS tbl rest s
      | .error f => .error f

def run (tbl : List (BitVec 64)) (code : List Instr) (rf : RegFile) : Except Fault (RegFile × Bool) :=
  runS tbl code (rf, false)

end ScriggoV.Compile
