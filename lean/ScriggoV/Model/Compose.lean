import ScriggoV.Basic.Bytes
/-! C16 — render, import and extends as their expansions: the model.

Hand-written, core Lean only. What is modelled (and from where):

* formats and contexts                        ast/ast.go (`Format*`, `Context*`; codes tied to Gen/ShowFastPath)
* the renderer the callee of a shown macro    internal/runtime/run.go `OpCallMacro`/`OpCallIndirect`/`OpReturn`
  call gets (`choice`)                        (tied to Gen/ShowFastPath by `decide` in Props/C16)
* `fast`: what the emitter's Show case does   internal/compiler/emitter_statements.go `case *ast.Show:`
  on its two fast paths (call with
  `toFormat = ctx`)
* `generic`: `emitExpr` + `emitShow`          the third branch of the same case: the typed result is a value
                                              shown through `showIn<ctx>` — the *abstract escaper* `esc`
* the item language and its evaluator         parser_template.go `expand`, checker.go (extends → dummy import in
                                              front of the layout's nodes), checker_statements.go
                                              `templateFileToPackage` (texts of an imported file are dropped),
                                              checker_expressions.go `checkRender` (render = call of a dummy
                                              macro whose body is the file and whose format is the file's);
                                              macros take parameters (string or format types) with constant
                                              arguments; the macros of an imported or extending file have
                                              package scope (forward references), those of a file that is
                                              run see what was declared before them; an importer (and the
                                              layout of an extending file) gets the *exported* macros only
                                              (`exported`, `expAdd`): the same unexported name may be declared
                                              in several files of one build and every reference resolves in
                                              the scope chain of the file it is written in

The guards under which the emitter takes a fast path are *parameters* (`Engine.macroGuard`,
`Engine.renderGuard`): the driver and the theorems instantiate them with the regenerated ones. -/
namespace ScriggoV.Compose

/-! ## formats, contexts -/

inductive Format | text | html | css | js | json | markdown
  deriving DecidableEq, Repr, Inhabited

inductive Ctx
  | text | html | css | js | json | markdown | tag | quotedAttr | unquotedAttr
  | cssString | jsString | jsonString | tabCodeBlock | spacesCodeBlock
  /-- `ContextQuotedAttr` / `ContextUnquotedAttr` with the emitter's `inURL` flag set: the whole value
  of a URL attribute (`href`, `src`, …); the show goes through `showInURL` -/
  | urlQuoted | urlUnquoted
  deriving DecidableEq, Repr, Inhabited

def Format.all : List Format := [.text, .html, .css, .js, .json, .markdown]
def Ctx.all : List Ctx :=
  [.text, .html, .css, .js, .json, .markdown, .tag, .quotedAttr, .unquotedAttr,
   .cssString, .jsString, .jsonString, .tabCodeBlock, .spacesCodeBlock]

/-- value of the Go constant `ast.Format…` -/
def Format.code : Format → Nat
  | .text => 0 | .html => 1 | .css => 2 | .js => 3 | .json => 4 | .markdown => 5

/-- value of the Go constant `ast.Context…` -/
def Ctx.code : Ctx → Nat
  | .text => 0 | .html => 1 | .css => 2 | .js => 3 | .json => 4 | .markdown => 5 | .tag => 6
  | .quotedAttr => 7 | .unquotedAttr => 8 | .cssString => 9 | .jsString => 10 | .jsonString => 11
  | .tabCodeBlock => 12 | .spacesCodeBlock => 13
  | .urlQuoted => 7 | .urlUnquoted => 8

/-- number on the driver's wire: the Go constant, 14 and 15 for the two URL variants -/
def Ctx.wire : Ctx → Nat
  | .urlQuoted => 14 | .urlUnquoted => 15 | c => c.code

def Format.goName : Format → String
  | .text => "FormatText" | .html => "FormatHTML" | .css => "FormatCSS" | .js => "FormatJS"
  | .json => "FormatJSON" | .markdown => "FormatMarkdown"

def Ctx.goName : Ctx → String
  | .text => "ContextText" | .html => "ContextHTML" | .css => "ContextCSS" | .js => "ContextJS"
  | .json => "ContextJSON" | .markdown => "ContextMarkdown" | .tag => "ContextTag"
  | .quotedAttr => "ContextQuotedAttr" | .unquotedAttr => "ContextUnquotedAttr"
  | .cssString => "ContextCSSString" | .jsString => "ContextJSString" | .jsonString => "ContextJSONString"
  | .tabCodeBlock => "ContextTabCodeBlock" | .spacesCodeBlock => "ContextSpacesCodeBlock"
  | .urlQuoted => "ContextQuotedAttr" | .urlUnquoted => "ContextUnquotedAttr"

def Format.ofCode (n : Nat) : Option Format := Format.all.find? (fun f => f.code == n)
def Ctx.ofCode (n : Nat) : Option Ctx := Ctx.all.find? (fun c => c.code == n)
def Ctx.ofWire (n : Nat) : Option Ctx :=
  if n == 14 then some .urlQuoted else if n == 15 then some .urlUnquoted else Ctx.ofCode n

/-- Go `ast.Context(format)`: the top-level context of a file of that format -/
def Format.ctx : Format → Ctx
  | .text => .text | .html => .html | .css => .css | .js => .js | .json => .json | .markdown => .markdown

/-! ## the renderer switch of `OpCallMacro` / `OpReturn` -/

/-- which renderer the body of a called macro writes to -/
inductive Choice
  | same       -- the caller's renderer
  | builder    -- a strings.Builder whose content becomes the result (`ReturnString`)
  | mdBuffer   -- a bytes.Buffer that `OpReturn` converts Markdown→HTML into the caller's out
  | fresh      -- a new renderer on the caller's out: the body is written as it is
  deriving DecidableEq, Repr

def Choice.code : Choice → Nat
  | .same => 0 | .builder => 1 | .mdBuffer => 2 | .fresh => 3

/-- `OpCallMacro` with `b = ast.Format(ctx)` (the Show fast paths pass the context as format) for a
macro of format `from`. -/
def choice (frm : Format) (ctx : Ctx) : Choice :=
  if ctx.code = frm.code then .same
  else if frm = .markdown ∧ ctx.code = Format.html.code then .mdBuffer
  else .fresh

/-- The output of a fast-path call: the body's output `content`, through the chosen renderer. -/
def fast (conv : Bytes → Bytes) (frm : Format) (ctx : Ctx) (content : Bytes) : Bytes :=
  match choice frm ctx with
  | .mdBuffer => conv content
  | _ => content

/-- The generic path: the call returns the string (`ReturnString`), typed with the format type of
`from`; `emitShow` shows that value in `ctx`. `esc from ctx` *is* `showIn<ctx>` on a value of the
format type — a parameter. -/
def generic (esc : Format → Ctx → Bytes → Bytes) (frm : Format) (ctx : Ctx) (content : Bytes) : Bytes :=
  esc frm ctx content

/-- A fast path is right for a macro result of format `from` in context `ctx` exactly under this
condition (proved from the `EscFacts` below). `ctx = text` is there because `showInText` writes every
value as it is. -/
def compatible (frm : Format) (ctx : Ctx) : Bool :=
  ctx == frm.ctx || (frm == .markdown && ctx == .html) || ctx == .text

/-- the condition `canOptimizeShowMacro` uses (strictly stronger than `compatible`) -/
def sameOrMdHtml (frm : Format) (ctx : Ctx) : Bool :=
  ctx == frm.ctx || (frm == .markdown && ctx == .html)

/-- What the theorems need to know about the escaper and the converter. -/
structure EscFacts (esc : Format → Ctx → Bytes → Bytes) (conv : Bytes → Bytes) : Prop where
  /-- a value of a format type shown in the top-level context of its own format is written as it is -/
  same : ∀ f c, esc f f.ctx c = c
  /-- `showInText` writes every value as it is -/
  text : ∀ f c, esc f .text c = c
  /-- `showInHTML` converts a Markdown value -/
  mdhtml : ∀ c, esc .markdown .html c = conv c
  /-- in every other case some content is changed by the escaper -/
  differ : ∀ f ctx, compatible f ctx = false → ∃ c, esc f ctx c ≠ c

/-! ## item language -/

inductive Atom
  | text (b : Bytes)
  /-- `{{ "literal" }}` -/
  | showConst (ctx : Ctx) (b : Bytes)
  /-- `{{ p }}` for the `i`-th parameter of the enclosing macro -/
  | showParam (ctx : Ctx) (i : Nat)
  /-- `{{ render "p" }}` (`viaVar = false`) or `{% var x = render "p" %}{{ x }}` (`viaVar = true`) -/
  | render (ctx : Ctx) (p : Nat) (viaVar : Bool)
  /-- `{{ M(c₁, …) }}` or `{% var x = M(c₁, …) %}{{ x }}`; the arguments are string constants -/
  | call (ctx : Ctx) (m : Nat) (viaVar : Bool) (args : List Bytes)
  deriving Repr

inductive Item
  | atom (a : Atom)
  /-- `{% macro M(p₁ T₁, …) [format] %}body{% end %}`; without a format the macro has the format of
  its file; a parameter type is `string` or a format type -/
  | macroDecl (m : Nat) (fmt : Option Format) (params : List Format) (body : List Atom)
  | extends_ (p : Nat)
  | import_ (p : Nat)
  deriving Repr

structure File where
  format : Format
  items : List Item
  deriving Repr

inductive Err
  | fuel
  | noFile (p : Nat)
  | undefined (m : Nat)
  | badExtends
  | badArgs
  /-- the escaper table handed to the driver has no entry for this triple -/
  | needEsc (f : Format) (c : Ctx) (b : Bytes)
  deriving Repr

/-- A declared macro: result format, parameter types, body and its scope. A macro of a file that is
run (main file, rendered file, layout) sees what was declared before it (`env`, `home = none`); a
macro of an imported or extending file sees the whole file (`home = some q`: package scope, forward
references allowed), resolved when it is called. -/
inductive MacroVal where
  | mk (fmt : Format) (params : List Format) (body : List Atom) (env : List (Nat × MacroVal))
      (home : Option Nat)

abbrev Env := List (Nat × MacroVal)

def lookup : Env → Nat → Option MacroVal
  | [], _ => none
  | (k, v) :: rest, m => if k = m then some v else lookup rest m

/-- concatenation of the outputs, first error wins -/
def mapE {α : Type} (f : α → Except Err Bytes) : List α → Except Err Bytes
  | [] => .ok []
  | a :: as =>
    match f a with
    | .error e => .error e
    | .ok x =>
      match mapE f as with
      | .error e => .error e
      | .ok y => .ok (x ++ y)

def foldE {σ α : Type} (f : σ → α → Except Err σ) : σ → List α → Except Err σ
  | s, [] => .ok s
  | s, a :: as =>
    match f s a with
    | .error e => .error e
    | .ok s' => foldE f s' as

/-! ## the engine -/

structure Engine where
  /-- guard of the `{{ M() }}` fast path as a function of (result format, context) -/
  macroGuard : Format → Ctx → Bool
  /-- guard of the `{{ render }}` fast path -/
  renderGuard : Format → Ctx → Bool
  /-- the Markdown converter the template was built with -/
  conv : Bytes → Bytes
  /-- `showIn<ctx>` on a value of the format type; `Except` only so that the driver can run on a
  finite table (`needEsc`); the theorems use `liftEsc` of a total function -/
  esc : Format → Ctx → Bytes → Except Err Bytes

def liftEsc (esc : Format → Ctx → Bytes → Bytes) : Format → Ctx → Bytes → Except Err Bytes :=
  fun f c b => .ok (esc f c b)

/-- one shown macro call / render: the emitter's three-way choice of the Show case -/
def showSite (E : Engine) (guard : Bool) (viaVar : Bool) (frm : Format) (ctx : Ctx) (content : Bytes) :
    Except Err Bytes :=
  if !viaVar && guard then .ok (fast E.conv frm ctx content) else E.esc frm ctx content

/-- the macros a called macro sees: its own environment, or the package scope of its home file -/
def scopeEnv (S : Nat → Except Err Env) (env : Env) : Option Nat → Except Err Env
  | none => .ok env
  | some q => S q

def nthArg : List (Format × Bytes) → Nat → Option (Format × Bytes)
  | [], _ => none
  | a :: _, 0 => some a
  | _ :: r, i+1 => nthArg r i

/-- `R p` = (format of file `p`, its output when run on its own); `S q` = package scope of the
imported file `q`; `args` = the arguments of the enclosing macro call with their parameter types.
Fuel bounds the depth of macro calls. -/
def evalAtom (E : Engine) (R : Nat → Except Err (Format × Bytes)) (S : Nat → Except Err Env) :
    Nat → Env → List (Format × Bytes) → Atom → Except Err Bytes
  | _, _, _, .text b => .ok b
  | _, _, _, .showConst ctx b => E.esc .text ctx b
  | _, _, args, .showParam ctx i =>
    match nthArg args i with
    | none => .error (.undefined i)
    | some (f, b) => E.esc f ctx b
  | _, _, _, .render ctx p viaVar =>
    match R p with
    | .error e => .error e
    | .ok (f, content) => showSite E (E.renderGuard f ctx) viaVar f ctx content
  | 0, _, _, .call _ _ _ _ => .error .fuel
  | n+1, env, _, .call ctx m viaVar cargs =>
    match lookup env m with
    | none => .error (.undefined m)
    | some (.mk f ps body cenv home) =>
      if cargs.length ≠ ps.length then .error .badArgs else
      match scopeEnv S cenv home with
      | .error e => .error e
      | .ok senv =>
        match mapE (evalAtom E R S n senv (ps.zip cargs)) body with
        | .error e => .error e
        | .ok content => showSite E (E.macroGuard f ctx) viaVar f ctx content

/-! ## names

Macro names are numbered so that the **even** numbers are the exported ones (an upper-case first
letter: `M0`, `M1`, … on the harness's wire) and the odd numbers the unexported ones (`m0`, `m1`, …):
name `n` is written `M⟨n/2⟩` when `n` is even and `m⟨n/2⟩` when it is odd. The same number in two
files is the same identifier. -/

/-- Go `isExported(name)` (compiler.go) on the numbering above -/
def exported (m : Nat) : Bool := m % 2 == 0

/-- first byte of the name on the wire: `M` (77) for an exported, `m` (109) for an unexported one -/
def nameInitial (m : Nat) : Nat := if m % 2 == 0 then 77 else 109

/-- what an importer gets from a declaration `m` of the imported file: only exported names
(`emitPackage`: `if isExported(fun.Ident.Name) || isDummyMacroForRender { functions[name] = fn }`;
type checker: an import declares the exported names of the package in the file block) -/
def expAdd (m : Nat) (v : MacroVal) (e : Env) : Env :=
  if exported m then (m, v) :: e else e

/-- state of the pass over the items of an imported file -/
structure ISt where
  loc : Env    -- package scope of the file: own macros (exported or not) and what it imports
  exp : Env    -- what an importer gets: own *exported* macros only

/-- one item of the imported file `q`; `X` gives the exports of the files it imports. Top-level
texts and shows are dropped (`templateFileToPackage`); `extends` is skipped (the file is the dummy
import of the child). -/
def passStep (X : Nat → Except Err Env) (q : Nat) (fmt : Format) (st : ISt) : Item → Except Err ISt
  | .atom _ => .ok st
  | .extends_ _ => .ok st
  | .macroDecl m fm ps body =>
    .ok ⟨(m, .mk (fm.getD fmt) ps body [] (some q)) :: st.loc,
         expAdd m (.mk (fm.getD fmt) ps body [] (some q)) st.exp⟩
  | .import_ q' =>
    match X q' with
    | .error e => .error e
    | .ok ex => .ok ⟨ex ++ st.loc, st.exp⟩

def expOf : Except Err ISt → Except Err Env
  | .error e => .error e
  | .ok st => .ok st.exp

def locOf : Except Err ISt → Except Err Env
  | .error e => .error e
  | .ok st => .ok st.loc

/-- the pass over an imported (or extending) file: its package scope and its exports -/
def passOf (files : List File) : Nat → Nat → Except Err ISt
  | 0, _ => .error .fuel
  | n+1, q =>
    match files[q]? with
    | none => .error (.noFile q)
    | some f => foldE (passStep (fun q' => expOf (passOf files n q')) q f.format) ⟨[], []⟩ f.items

def exportsOf (files : List File) (n q : Nat) : Except Err Env := expOf (passOf files n q)
def scopeOf (files : List File) (n q : Nat) : Except Err Env := locOf (passOf files n q)

/-- state of the pass over the items of a file that is run -/
structure St where
  env : Env
  out : Bytes

def stepItem (E : Engine) (R : Nat → Except Err (Format × Bytes)) (S X : Nat → Except Err Env)
    (n : Nat) (fmt : Format) (st : St) : Item → Except Err St
  | .atom a =>
    match evalAtom E R S n st.env [] a with
    | .error e => .error e
    | .ok x => .ok ⟨st.env, st.out ++ x⟩
  | .macroDecl m fm ps body => .ok ⟨(m, .mk (fm.getD fmt) ps body st.env none) :: st.env, st.out⟩
  | .import_ q =>
    match X q with
    | .error e => .error e
    | .ok ex => .ok ⟨ex ++ st.env, st.out⟩
  | .extends_ _ => .error .badExtends

def runItems (E : Engine) (R : Nat → Except Err (Format × Bytes)) (S X : Nat → Except Err Env)
    (n : Nat) (fmt : Format) (items : List Item) : Except Err Bytes :=
  match foldE (stepItem E R S X n fmt) ⟨[], []⟩ items with
  | .error e => .error e
  | .ok st => .ok st.out

/-- `extends` is accepted when the formats are equal or the child is Markdown and the layout HTML
(parser_template.go, `expand`) -/
def extendsOK (child layout : Format) : Bool :=
  child == layout || (child == .markdown && layout == .html)

/-- Run file `p`. `main = false` for a rendered file, which may not extend. A file that extends
`l` runs as `l` with the dummy import of the child in front (checker.go). -/
def runFile (E : Engine) (files : List File) : Nat → Bool → Nat → Except Err (Format × Bytes)
  | 0, _, _ => .error .fuel
  | n+1, main, p =>
    match files[p]? with
    | none => .error (.noFile p)
    | some f =>
      match f.items with
      | .extends_ l :: _ =>
        if !main then .error .badExtends else
        match files[l]? with
        | none => .error (.noFile l)
        | some lay =>
          if !extendsOK f.format lay.format then .error .badExtends else
          match runItems E (fun q => runFile E files n false q) (scopeOf files n) (exportsOf files n) n
              lay.format (.import_ p :: lay.items) with
          | .error e => .error e
          | .ok out => .ok (lay.format, out)
      | items =>
        match runItems E (fun q => runFile E files n false q) (scopeOf files n) (exportsOf files n) n
            f.format items with
        | .error e => .error e
        | .ok out => .ok (f.format, out)

/-- the engine with both fast paths switched off: every shown call goes through `emitShow` -/
def Engine.allGeneric (E : Engine) : Engine :=
  { E with macroGuard := fun _ _ => false, renderGuard := fun _ _ => false }

/-! ## the documented expansions (specification side) -/

/-- An item of file `q` as it reads when written into another file: a macro without a result format
keeps the format of the file it comes from; imports stay; texts and `extends` go. -/
def inlineItem (qfmt : Format) : Item → Option Item
  | .macroDecl m fm ps body => some (.macroDecl m (some (fm.getD qfmt)) ps body)
  | .import_ p => some (.import_ p)
  | _ => none

def inlineDecls (q : File) : List Item :=
  q.items.filterMap (inlineItem q.format)

/-- every import of the file precedes its macro declarations (`seen` = a declaration was met) -/
def importsFirst : Bool → List Item → Bool
  | _, [] => true
  | seen, .import_ _ :: r => !seen && importsFirst seen r
  | _, .macroDecl _ _ _ _ :: r => importsFirst true r
  | seen, .atom _ :: r => importsFirst seen r
  | seen, .extends_ _ :: r => importsFirst seen r

/-- the macro name an atom calls -/
def Atom.callee : Atom → Option Nat
  | .call _ m _ _ => some m
  | _ => none

end ScriggoV.Compose
