import ScriggoV.Basic.Bytes
import ScriggoV.Basic.GoExpr
import ScriggoV.Gen.BuiltinTables
import ScriggoV.Spec.Runes
/-! Models of builtin/builtin.go for C25: `QueryEscape` (two passes with `last`/`numHex`, the
pre-sized buffer and the final `copy`), `onlyJSONWhitespace` and `trimJSONSpace` (checked
indexing into the bounded table `lookupJSONSpace` and into the input; conditions, initial
values and slice bounds are the regenerated ones of Gen/BuiltinTables.lean), `Abbreviate`
(over the byte string and its runes as Go's `range` sees them), `Abs`/`Max`/`Min` on `int`
(64-bit, explicit wrap-around). Hand-written; core Lean only. -/
namespace ScriggoV.Builtins
open ScriggoV.Gen.BuiltinTables

/-! ### QueryEscape -/

/-- first loop over `s[i:]`: returns `(last, numHex)` -/
def qPass1 : Bytes → Nat → Nat → Nat → Nat × Nat
  | [], _, last, numHex => (last, numHex)
  | c :: cs, i, last, numHex =>
    if unreserved c then qPass1 cs (i+1) last numHex      -- `continue`
    else qPass1 cs (i+1) (i+1) (numHex+1)

/-- `hexchars[k]` -/
def hexAt (k : UInt8) : Except Fault UInt8 := getAt hexchars k.toNat

/-- body of the second loop for the byte `c`: writes at `j`, returns the buffer and the new `j` -/
def qStep (b : Bytes) (j : Nat) (c : UInt8) : Except Fault (Bytes × Nat) :=
  if unreserved c then
    match setAt b j c with
    | .error f => .error f
    | .ok b => .ok (b, j + 1)
  else
    match setAt b j 37 with
    | .error f => .error f
    | .ok b =>
      match hexAt (c >>> 4) with
      | .error f => .error f
      | .ok h =>
        match setAt b (j + 1) h with
        | .error f => .error f
        | .ok b =>
          match hexAt (c &&& 0xF) with
          | .error f => .error f
          | .ok l =>
            match setAt b (j + 2) l with
            | .error f => .error f
            | .ok b => .ok (b, j + 3)

/-- second loop `for i := 0; i < last; i++` over the indices still to do; reads `s[i]` checked -/
def qPass2 (s : Bytes) : List Nat → Bytes → Nat → Except Fault (Bytes × Nat)
  | [], b, j => .ok (b, j)
  | i :: is, b, j =>
    match getAt s i with
    | .error f => .error f
    | .ok c =>
      match qStep b j c with
      | .error f => .error f
      | .ok (b, j) => qPass2 s is b j

/-- `if j != len(b) { copy(b[j:], s[last:]) }` -/
def qTail (s b : Bytes) (j last : Nat) : Except Fault Bytes :=
  if j != b.length then
    match sliceOf s last s.length with
    | .error f => .error f
    | .ok t => copyAt b j t
  else .ok b

def queryEscape (s : Bytes) : Except Fault Bytes :=
  let (last, numHex) := qPass1 s 0 0 0
  if numHex == 0 then .ok s
  else
    match qPass2 s (List.range last) (List.replicate (s.length + 2 * numHex) (0 : UInt8)) 0 with
    | .error f => .error f
    | .ok (b, j) => qTail s b j last

/-! ### onlyJSONWhitespace / trimJSONSpace -/

/-- `for i := 0; i < len(s); i++ { if <onlyWSStop> { return false } }; return true`
over the indices still to visit -/
def onlyWSFrom (s : Bytes) : List Nat → Except Fault Bool
  | [] => .ok true
  | i :: is =>
    match onlyWSStop s (i : Int) with
    | .error f => .error f
    | .ok true => .ok false
    | .ok false => onlyWSFrom s is

def onlyJSONWhitespace (s : Bytes) : Except Fault Bool := onlyWSFrom s (List.range s.length)

/-- `for ; <trimCond1>; i++ {}`; the fuel is `len(data)+1`, running out of it is reported as a fault
(`trimJSONSpace_eq_spec` shows it never happens) -/
def trimLoop1 (data : Bytes) (j : Int) : Nat → Int → Except Fault Int
  | 0, _ => .error .other
  | fuel + 1, i =>
    match trimCond1 data i j with
    | .error f => .error f
    | .ok false => .ok i
    | .ok true => trimLoop1 data j fuel (i + 1)

/-- `for ; <trimCond2>; j-- {}` -/
def trimLoop2 (data : Bytes) (i : Int) : Nat → Int → Except Fault Int
  | 0, _ => .error .other
  | fuel + 1, j =>
    match trimCond2 data i j with
    | .error f => .error f
    | .ok false => .ok j
    | .ok true => trimLoop2 data i fuel (j - 1)

def trimJSONSpace (data : Bytes) : Except Fault Bytes :=
  if data.length == 0 then .ok data          -- `if len(data) == 0 { return data }`
  else
    match trimLoop1 data (trimInitJ data) (data.length + 1) (trimInitI data) with
    | .error f => .error f
    | .ok i =>
      match trimLoop2 data i (data.length + 1) (trimInitJ data) with
      | .error f => .error f
      | .ok j => sliceOfI data (trimLo data i j) (trimHi data i j)

/-! ### Abs / Max / Min on 64-bit `int` -/

/-- two's-complement wrap-around of a 64-bit signed result -/
def wrap64 (x : Int) : Int := Int.bmod x 18446744073709551616

def minInt64 : Int := -9223372036854775808
def maxInt64 : Int := 9223372036854775807
def InRange (x : Int) : Prop := minInt64 ≤ x ∧ x ≤ maxInt64
instance (x : Int) : Decidable (InRange x) := by unfold InRange; exact inferInstance

/-- `if x < 0 { return -x }; return x` -/
def goAbs (x : Int) : Int := if x < 0 then wrap64 (-x) else x
/-- `if x < y { return y }; return x` -/
def goMax (x y : Int) : Int := if x < y then y else x
/-- `if y < x { return y }; return x` -/
def goMin (x y : Int) : Int := if y < x then y else x

/-! ### Abbreviate -/
open ScriggoV.Runes

def isSpace (c : UInt8) : Bool := abbrSpaces.contains c

/-- `strings.TrimRight(s, spaces)` for the ASCII cutset `spaces` (byte-wise; stdlib, assumed) -/
def trimRight (s : Bytes) : Bytes := (s.reverse.dropWhile isSpace).reverse

/-- `strings.LastIndexAny(s, spaces)` for the ASCII set `spaces`: index of the last byte of `s`
that is in the set, or -1 (stdlib, assumed). `lastIdxFrom s i` scans `s[i:]`. -/
def lastIdxFrom : Bytes → Nat → Int → Int
  | [], _, acc => acc
  | c :: cs, i, acc => lastIdxFrom cs (i + 1) (if isSpace c then (i : Int) else acc)

def lastIndexAny (s : Bytes) : Int := lastIdxFrom s 0 (-1)

/-- `for i := range s { switch p { case n-2: n2 = i; case n: break }; p++ }` over the runes still
to visit (`i` = byte offset of the rune); the `break` only leaves the `switch`. Returns `(p, n2)`. -/
def abbrLoop (nm2 : Int) : List Bytes → Nat → Int → Nat → Int × Nat
  | [], _, p, n2 => (p, n2)
  | r :: rs, i, p, n2 => abbrLoop nm2 rs (i + r.length) (p + 1) (if p = nm2 then i else n2)

def dots : Bytes := [46, 46, 46]

/-- `if l := len(s) - 1; l >= 0 && (s[l] == '.' || s[l] == ',') { s = s[:l] }; return s + "..."` -/
def abbrDot (s : Bytes) : Except Fault Bytes :=
  let l : Int := (s.length : Int) - 1
  if l ≥ 0 then
    match getAtI s l with
    | .error f => .error f
    | .ok c =>
      if c == 46 || c == 44 then
        match sliceOfI s 0 l with
        | .error f => .error f
        | .ok t => .ok (t ++ dots)
      else .ok (s ++ dots)
  else .ok (s ++ dots)

/-- `if p = strings.LastIndexAny(s[:n2], spaces); p > 0 { s = strings.TrimRight(s[:p], spaces) } else { s = "" }` … -/
def abbrTail (s : Bytes) (n2 : Nat) : Except Fault Bytes :=
  match sliceOf s 0 n2 with
  | .error f => .error f
  | .ok pre =>
    let p := lastIndexAny pre
    if p > 0 then
      match sliceOfI s 0 p with
      | .error f => .error f
      | .ok t => abbrDot (trimRight t)
    else abbrDot []

/-- `Abbreviate(s, n)`; `n` is a Go `int` (the theorems assume `InRange n`), `n - 2` wraps as in Go -/
def abbreviate (s0 : Bytes) (n : Int) : Except Fault Bytes :=
  let s := trimRight s0
  if (s.length : Int) ≤ n then .ok s
  else
    let pn := abbrLoop (wrap64 (n - 2)) (runes s) 0 0 0
    if pn.1 ≤ n then .ok s
    else if n < 3 then .ok []
    else abbrTail s pn.2

end ScriggoV.Builtins
