import ScriggoV.Spec.GoInt
import ScriggoV.Basic.GoBV
/-! # Reference semantics for typed integer expressions

A small typed expression language over the eleven Go integer kinds and `bool` — typed literals,
variables, unary `- ^ +`, the arithmetic/bitwise binary operators, shifts (count of any integer
kind), comparisons, conversions — with a big-step evaluator built on `Spec/GoInt`. It plays the
role the gc compiler plays in the property text: the harness prints the same trees as Go source,
runs them with Scriggo, and compares with `eval`. Operands are evaluated left to right; the first
run-time panic wins. Prefix serialisation (`toTokens` / `parse`) is the line-protocol format.
Core Lean only. -/
namespace ScriggoV.Eval
open ScriggoV.GoInt

inductive Ty
  | int (k : Kind)
  | bool
  deriving DecidableEq, Repr, Inhabited

inductive Val
  | int (k : Kind) (z : Int)
  | bool (b : Bool)
  deriving DecidableEq, Repr, Inhabited

instance instDecEqOutcomeVal : DecidableEq (Except Fault Val) := exceptDecEq

def Val.ty : Val → Ty
  | .int k _ => .int k
  | .bool _ => .bool

inductive Expr
  | lit (k : Kind) (z : Int)          -- a typed constant `k(z)`
  | var (k : Kind) (i : Nat)          -- variable number `i`, declared with kind `k`
  | un (op : UnOp) (e : Expr)
  | bin (op : BinOp) (a b : Expr)
  | sh (op : ShiftOp) (a n : Expr)
  | cmp (op : CmpOp) (a b : Expr)
  | conv (k : Kind) (e : Expr)
  deriving Repr, Inhabited

/-- values of the variables, by number -/
abbrev Env := List Int

/-- static typing (Go: operands of a binary operator have identical types; a shift count may be
of any integer type; comparisons give `bool`) -/
def typeOf : Expr → Option Ty
  | .lit k z => if InRange k z then some (.int k) else none
  | .var k _ => some (.int k)
  | .un _ e =>
    match typeOf e with
    | some (.int k) => some (.int k)
    | _ => none
  | .bin _ a b =>
    match typeOf a, typeOf b with
    | some (.int k), some (.int k') => if k = k' then some (.int k) else none
    | _, _ => none
  | .sh _ a n =>
    match typeOf a, typeOf n with
    | some (.int k), some (.int _) => some (.int k)
    | _, _ => none
  | .cmp _ a b =>
    match typeOf a, typeOf b with
    | some (.int k), some (.int k') => if k = k' then some .bool else none
    | _, _ => none
  | .conv k e =>
    match typeOf e with
    | some (.int _) => some (.int k)
    | _ => none

def binVal (op : BinOp) : Val → Val → Except Fault Val
  | .int k x, .int k' y => if k = k' then (binop op k x y).map (Val.int k) else .error .other
  | _, _ => .error .other

def shVal (op : ShiftOp) : Val → Val → Except Fault Val
  | .int k x, .int _ n => (shift op k x n).map (Val.int k)
  | _, _ => .error .other

def cmpVal (op : CmpOp) : Val → Val → Except Fault Val
  | .int k x, .int k' y => if k = k' then .ok (.bool (cmp op x y)) else .error .other
  | _, _ => .error .other

def unVal (op : UnOp) : Val → Except Fault Val
  | .int k x => .ok (.int k (unop op k x))
  | _ => .error .other

def convVal (k : Kind) : Val → Except Fault Val
  | .int _ x => .ok (.int k (conv k x))
  | _ => .error .other

/-- big-step evaluation; `.error .other` only for ill-typed trees or a bad environment
(excluded for well-typed trees by `eval_sound` in `Props/C01.lean`) -/
def eval (ρ : Env) : Expr → Except Fault Val
  | .lit k z => .ok (.int k z)
  | .var k i =>
    match ρ[i]? with
    | some z => if InRange k z then .ok (.int k z) else .error .other
    | none => .error .other
  | .un op e => do
    let v ← eval ρ e
    unVal op v
  | .bin op a b => do
    let va ← eval ρ a
    let vb ← eval ρ b
    binVal op va vb
  | .sh op a n => do
    let va ← eval ρ a
    let vn ← eval ρ n
    shVal op va vn
  | .cmp op a b => do
    let va ← eval ρ a
    let vb ← eval ρ b
    cmpVal op va vb
  | .conv k e => do
    let v ← eval ρ e
    convVal k v

/-! ## protocol tokens -/

def binName : BinOp → String
  | .add => "add" | .sub => "sub" | .mul => "mul" | .div => "div" | .rem => "rem"
  | .and => "and" | .or => "or" | .xor => "xor" | .andNot => "andnot"
def shName : ShiftOp → String
  | .shl => "shl" | .shr => "shr"
def unName : UnOp → String
  | .neg => "neg" | .not => "not" | .plus => "plus"
def cmpName : CmpOp → String
  | .eq => "eq" | .ne => "ne" | .lt => "lt" | .le => "le" | .gt => "gt" | .ge => "ge"

def binOfName (s : String) : Option BinOp :=
  [BinOp.add, .sub, .mul, .div, .rem, .and, .or, .xor, .andNot].find? (fun o => binName o == s)
def shOfName (s : String) : Option ShiftOp := [ShiftOp.shl, .shr].find? (fun o => shName o == s)
def unOfName (s : String) : Option UnOp := [UnOp.neg, .not, .plus].find? (fun o => unName o == s)
def cmpOfName (s : String) : Option CmpOp :=
  [CmpOp.eq, .ne, .lt, .le, .gt, .ge].find? (fun o => cmpName o == s)

/-- prefix notation with fixed arity -/
def toTokens : Expr → List String
  | .lit k z => ["lit", k.name, toString z]
  | .var k i => ["var", k.name, toString i]
  | .un op e => "un" :: unName op :: toTokens e
  | .bin op a b => "bin" :: binName op :: (toTokens a ++ toTokens b)
  | .sh op a n => "sh" :: shName op :: (toTokens a ++ toTokens n)
  | .cmp op a b => "cmp" :: cmpName op :: (toTokens a ++ toTokens b)
  | .conv k e => "conv" :: k.name :: toTokens e

/-- parse one expression from the front of the token list (`fuel` bounds the depth; the number of
tokens is always enough) -/
def parse : Nat → List String → Option (Expr × List String)
  | 0, _ => none
  | _ + 1, "lit" :: k :: z :: rest => do
    let k ← Kind.ofName k
    let z ← z.toInt?
    pure (.lit k z, rest)
  | _ + 1, "var" :: k :: i :: rest => do
    let k ← Kind.ofName k
    let i ← i.toNat?
    pure (.var k i, rest)
  | f + 1, "un" :: op :: rest => do
    let op ← unOfName op
    let (e, rest) ← parse f rest
    pure (.un op e, rest)
  | f + 1, "bin" :: op :: rest => do
    let op ← binOfName op
    let (a, rest) ← parse f rest
    let (b, rest) ← parse f rest
    pure (.bin op a b, rest)
  | f + 1, "sh" :: op :: rest => do
    let op ← shOfName op
    let (a, rest) ← parse f rest
    let (b, rest) ← parse f rest
    pure (.sh op a b, rest)
  | f + 1, "cmp" :: op :: rest => do
    let op ← cmpOfName op
    let (a, rest) ← parse f rest
    let (b, rest) ← parse f rest
    pure (.cmp op a b, rest)
  | f + 1, "conv" :: k :: rest => do
    let k ← Kind.ofName k
    let (e, rest) ← parse f rest
    pure (.conv k e, rest)
  | _ + 1, _ => none

def Val.render : Val → String
  | .int k z => k.name ++ " " ++ toString z
  | .bool b => "bool " ++ (if b then "true" else "false")

end ScriggoV.Eval
