/-! # Terminating statements (Go specification, "Terminating statements") — C03

A function with results must end in a terminating statement, otherwise the type checker reports
"missing return". This file transcribes the specification's definition for a skeleton of the
control-flow statements (what a statement *is* matters, not its expressions):

1. a `return` or `goto` statement; 2. a call to the built-in `panic`;
3. a block whose statement list ends in a terminating statement;
4. an `if` with an `else` branch, both branches terminating;
5. a `for` with no `break` referring to it, no loop condition and no range clause;
6. a `switch` (expression or type switch) with no `break` referring to it, a default case, and
   every clause ending in a terminating statement or (expression switch) a `fallthrough`;
7. a `select` with no `break` referring to it and every clause ending in a terminating statement;
8. a labeled statement labeling a terminating statement.

"A `break` referring to" a statement: an unlabeled `break` whose innermost enclosing
`for`/`switch`/`select` is that statement, or a `break L` where `L` is its label.

`outs` is a reference semantics for the skeleton: the ways a statement may complete when every
condition may go either way; the theorem of `Props/C03.lean` says a terminating statement never
completes normally. Core Lean only. -/
namespace ScriggoV.Terminating

inductive SwKind | expr | type | select
  deriving DecidableEq, Repr

mutual
inductive TStmt
  | simple                                   -- any statement that just completes (x++, f(), x = 1, a declaration)
  | ret | panicCall | gotoS
  | brk (l : Option Nat) | cont (l : Option Nat) | fall
  | block (ss : TList)
  | ifOnly (thn : TList)
  | ifElse (thn : TList) (els : TStmt)       -- `els` is a block or another `if`
  | forS (cond range : Bool) (body : TList)
  | sw (k : SwKind) (dflt : Bool) (cs : TClauses)
  | labeled (l : Nat) (s : TStmt)
inductive TList
  | nil | cons (s : TStmt) (rest : TList)
inductive TClauses
  | nil | cons (c : TList) (rest : TClauses)
end

mutual
/-- is there a `break` referring to the statement whose body this is? `label`: the label of that
statement; `implicit`: an unlabeled `break` here still refers to it -/
def hasBreak (s : TStmt) (label : Option Nat) (implicit : Bool) : Bool :=
  match s with
  | .brk none => implicit
  | .brk (some l) => label == some l
  | .block ss => hasBreakL ss label implicit
  | .ifOnly t => hasBreakL t label implicit
  | .ifElse t e => hasBreakL t label implicit || hasBreak e label implicit
  | .forS _ _ body => label.isSome && hasBreakL body label false
  | .sw _ _ cs => label.isSome && hasBreakC cs label false
  | .labeled _ s => hasBreak s label implicit
  | _ => false
def hasBreakL (ss : TList) (label : Option Nat) (implicit : Bool) : Bool :=
  match ss with
  | .nil => false
  | .cons s rest => hasBreak s label implicit || hasBreakL rest label implicit
def hasBreakC (cs : TClauses) (label : Option Nat) (implicit : Bool) : Bool :=
  match cs with
  | .nil => false
  | .cons c rest => hasBreakL c label implicit || hasBreakC rest label implicit
end

/-- the statement list ends in a `fallthrough` -/
def endsInFall : TList → Bool
  | .nil => false
  | .cons .fall .nil => true
  | .cons (.labeled _ .fall) .nil => true
  | .cons _ rest => endsInFall rest

mutual
/-- the specification's "terminating statement"; `label` = the label of the statement, if any -/
def terminating (s : TStmt) (label : Option Nat) : Bool :=
  match s with
  | .ret | .gotoS | .panicCall => true
  | .block ss => terminatingL ss
  | .ifElse t e => terminatingL t && terminating e none
  | .forS cond range body => !cond && !range && !hasBreakL body label true
  | .sw k dflt cs => (k == .select || dflt) && !hasBreakC cs label true && terminatingC k cs
  | .labeled l s => terminating s (some l)
  | _ => false
/-- "the statement list ends in a terminating statement" -/
def terminatingL (ss : TList) : Bool :=
  match ss with
  | .nil => false
  | .cons s .nil => terminating s none
  | .cons _ rest => terminatingL rest
def terminatingC (k : SwKind) (cs : TClauses) : Bool :=
  match cs with
  | .nil => true
  | .cons c rest => (terminatingL c || (k == .expr && endsInFall c)) && terminatingC k rest
end

end ScriggoV.Terminating

namespace ScriggoV.Terminating

/-! ## Reference semantics of the skeleton: how a statement may complete -/

/-- the ways a statement completes: normally (control falls to the next statement), by
`return`, by a panic, by a `goto`, by a `break`/`continue` (unlabeled or labeled) that leaves
it, or by `fallthrough` -/
inductive Out
  | normal | ret | panic | jump | brkU | brkL (l : Nat) | contU | contL (l : Nat) | fall
  deriving DecidableEq, Repr

/-- one pass through a loop body that completed with `o`: what the loop (with label `label`)
completes with, if it completes at all (`none`: the next iteration starts) -/
def loopOut (label : Option Nat) (o : Out) : Option Out :=
  match o with
  | .normal | .contU => none
  | .contL l => if label = some l then none else some (.contL l)
  | .brkU => some .normal
  | .brkL l => if label = some l then some .normal else some (.brkL l)
  | o => some o

/-- a clause of a switch/select (with label `label`) completed with `o` -/
def switchOut (label : Option Nat) (o : Out) : Out :=
  match o with
  | .brkU => .normal
  | .brkL l => if label = some l then .normal else .brkL l
  | o => o

mutual
/-- every way the statement may complete, each condition going either way; `label`: its label -/
def outs (s : TStmt) (label : Option Nat) : List Out :=
  match s with
  | .simple => [.normal]
  | .ret => [.ret]
  | .panicCall => [.panic]
  | .gotoS => [.jump]
  | .brk none => [.brkU]
  | .brk (some l) => [.brkL l]
  | .cont none => [.contU]
  | .cont (some l) => [.contL l]
  | .fall => [.fall]
  | .block ss => outsL ss
  | .ifOnly t => .normal :: outsL t
  | .ifElse t e => outsL t ++ outs e none
  | .forS cond range body =>
    (if cond || range then [.normal] else []) ++ (outsL body).filterMap (loopOut label)
  | .sw k dflt cs =>
    -- no default: no clause may be chosen (a select without default blocks instead)
    (if k != .select && !dflt then [.normal] else []) ++ (outsC cs).map (switchOut label)
  | .labeled l s => outs s (some l)
/-- a statement list: the statements in sequence -/
def outsL (ss : TList) : List Out :=
  match ss with
  | .nil => [.normal]
  | .cons s rest =>
    (outs s none).filter (· != .normal) ++ (if .normal ∈ outs s none then outsL rest else [])
/-- execution starting at the first clause of `cs`: its statement list, continuing in the next
clause after `fallthrough` (a `fallthrough` in the last clause is not Go) -/
def outsFrom (cs : TClauses) : List Out :=
  match cs with
  | .nil => []
  | .cons c rest => (outsL c).filter (· != .fall) ++ (if .fall ∈ outsL c then outsFrom rest else [])
/-- execution starting at any clause -/
def outsC (cs : TClauses) : List Out :=
  match cs with
  | .nil => []
  | .cons c rest =>
    ((outsL c).filter (· != .fall) ++ (if .fall ∈ outsL c then outsFrom rest else [])) ++ outsC rest
end

end ScriggoV.Terminating
