import ScriggoV.Basic.Bytes
/-! Model of `scriggo.HTMLEscape` (templates.go) — the two-pass algorithm with its
indices `n`, `j`, the pre-sized buffer and the early-exit branch, hand-written.
`builtin.HtmlEscape` calls the same function. -/
namespace ScriggoV.HTMLEscape

/-- first pass `switch`: how many extra bytes the byte needs (0 = `default: continue`) -/
def extraOf (c : UInt8) : Nat :=
  if c == 34 || c == 39 || c == 38 then 4 else if c == 60 || c == 62 then 3 else 0

/-- second pass `switch`: the entity copied for a special byte -/
def entity (c : UInt8) : Option Bytes :=
  if c == 34 then some [38, 35, 51, 52, 59]        -- &#34;
  else if c == 39 then some [38, 35, 51, 57, 59]   -- &#39;
  else if c == 38 then some [38, 97, 109, 112, 59] -- &amp;
  else if c == 60 then some [38, 108, 116, 59]     -- &lt;
  else if c == 62 then some [38, 103, 116, 59]     -- &gt;
  else none

/-- first loop: `pass1 s[i:] i n j` -/
def pass1 : Bytes → Nat → Nat → Nat → Nat × Nat
  | [], _, n, j => (n, j)
  | c :: cs, i, n, j =>
    if extraOf c == 0 then pass1 cs (i+1) n j
    else
      let n' := n + extraOf c
      pass1 cs (i+1) n' (if n' ≤ 4 then i else j)

/-- second loop: `pass2 n s[i:] i j b` -/
def pass2 (n : Nat) : Bytes → Nat → Nat → Bytes → Except Fault Bytes
  | [], _, _, b => .ok b
  | c :: cs, i, j, b =>
    match entity c with
    | none => do
      let b ← setAt b j c
      pass2 n cs (i+1) (j+1) b
    | some e => do
      let b ← copyAt b j e
      let j := j + e.length
      if j == i + n then copyAt b j (c :: cs)   -- `copy(b[j:], s[i:]); break`
      else pass2 n cs (i+1) j b

/-- `if j > 0 { copy(b[:j], s[:j]) }` -/
def prefill (s b : Bytes) (j : Nat) : Except Fault Bytes :=
  if j > 0 then do
    let src ← sliceOf s 0 j
    let _ ← sliceOf b 0 j
    copyAt b 0 src
  else pure b

def htmlEscape (s : Bytes) : Except Fault Bytes :=
  let (n, j) := pass1 s 0 0 0
  if n == 0 then .ok s
  else
    match prefill s (List.replicate (s.length + n) (0 : UInt8)) j with
    | .error f => .error f
    | .ok b =>
      match sliceOf s j s.length with
      | .error f => .error f
      | .ok rest => pass2 n rest j j b

/-! ### specification: replace each of the five bytes by its entity -/
def esc5 (c : UInt8) : Bytes := (entity c).getD [c]
def spec (s : Bytes) : Bytes := s.flatMap esc5

end ScriggoV.HTMLEscape
