/-! Independence of a build from what the process built before (C30).

A build reads its inputs and whatever state of the process survives builds, and may change that
state: `build : State → ι → ο × State`, with `State` the valuation of the package-level
variables of the compiler (and of what they reach). A *history* is the list of inputs built before.

`history_independent_of_frame`: if builds change only the components listed in `W` (frame
condition) and the result of a build does not read those components, then the result of building
`i` after any history is the result of building `i` in the initial state. With `W = []` — no
build-surviving writable state — the second hypothesis is vacuous
(`history_independent_of_no_written_state`): the result of a build is a function of its inputs.
Core Lean only. -/
namespace ScriggoV.History

variable {ι ο : Type}

/-- the state that survives builds: a value per named component -/
abbrev State := String → Nat

/-- the state after building the inputs of a history one after the other -/
def after (build : State → ι → ο × State) (s : State) : List ι → State
  | [] => s
  | i :: rest => after build (build s i).2 rest

/-- builds change at most the components of `W` -/
def Frame (W : List String) (build : State → ι → ο × State) : Prop :=
  ∀ s i x, x ∉ W → (build s i).2 x = s x

/-- the result of a build does not read the components of `W` -/
def Blind (W : List String) (build : State → ι → ο × State) : Prop :=
  ∀ s s' i, (∀ x, x ∉ W → s x = s' x) → (build s i).1 = (build s' i).1

theorem after_agrees (W : List String) (build : State → ι → ο × State) (fr : Frame W build) :
    ∀ (hist : List ι) (s : State) (x : String), x ∉ W → after build s hist x = s x
  | [], _, _, _ => rfl
  | i :: rest, s, x, hx => by
    simp only [after]
    rw [after_agrees W build fr rest (build s i).2 x hx, fr s i x hx]

/-- **History independence.** Builds that write only `W` and do not read `W` give, after any
history, what they give in a fresh process. -/
theorem history_independent_of_frame (W : List String) (build : State → ι → ο × State)
    (fr : Frame W build) (bl : Blind W build) (s0 : State) (hist : List ι) (i : ι) :
    (build (after build s0 hist) i).1 = (build s0 i).1 :=
  bl _ _ i (fun x hx => after_agrees W build fr hist s0 x hx)

/-- **With no build-surviving writable state the result of a build is a function of its inputs.** -/
theorem history_independent_of_no_written_state (build : State → ι → ο × State)
    (fr : Frame [] build) (s0 : State) (hist : List ι) (i : ι) :
    (build (after build s0 hist) i).1 = (build s0 i).1 := by
  apply history_independent_of_frame [] build fr ?_ s0 hist i
  intro s s' i h
  have : s = s' := funext (fun x => h x (by simp))
  rw [this]

/-- the hypothesis cannot be dropped: a build that caches the first input it sees (the component
"cache") answers with it ever after -/
def cachingBuild (s : State) (i : Nat) : Nat × State :=
  if s "cache" = 0 then (i, fun x => if x = "cache" then i else s x) else (s "cache", s)

theorem caching_is_history_dependent :
    (cachingBuild (after cachingBuild (fun _ => 0) [1]) 2).1 ≠ (cachingBuild (fun _ => 0) 2).1 := by
  decide

end ScriggoV.History
