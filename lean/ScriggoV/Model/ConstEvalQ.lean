import ScriggoV.Model.ConstEval
/-! # Numeric constant expressions: the exact evaluator and Scriggo's evaluation strategy (C02)

* `evalExact rule` — the Go specification (`Spec/GoConst.lean`): exact arithmetic on `Rat`, kinds
  of untyped constants (integer < rune < floating-point), integer vs. rational division,
  representability, "truncated to integer", the implementation limits of go/types; `rule` is the
  rule for a constant shift count (`goRule` for the reference).
* `evalScriggo` — what the type checker (`checker_expressions.go: binaryOp`, `typeof`) and
  `constant.go` do.  A numeric constant (`NC`) is held in one of five implementations: `int64Const`,
  `intConst` (`NC.int`, see `Model/ConstEval.lean`), `float64Const` (`NC.f64`), `floatConst` — a
  512-bit `big.Float` (`NC.bigf`) — or `ratConst` (`NC.rat`).  Two operands of different
  implementations are first brought to the same one by `toSameConstImpl`: the *generated* table
  `Gen.ConstInt.promote` says by which conversion steps; each step is exact on some values only
  (`stepExactOn`: `float64(int64)` keeps 53 bits, `big.Float.SetRat` 512 bits).
  The model covers the fragment where no step and no `big.Float` operation rounds: where one would,
  it answers `inexact` (not a rejection: "outside the exact fragment").

math/big (`big.Float` at 512 bits, `big.Rat`) is trusted: interpreted by its documented meaning.
Core Lean only. -/
namespace ScriggoV.ConstEval
open ScriggoV.Spec.GoConst
open ScriggoV.Gen.ConstInt

/-- value of a constant expression: a numeric constant of some type (its imaginary part is zero
unless the type is untyped complex), or an untyped boolean -/
inductive Val where
  | num (ty : Ty) (v : CQ)
  | bool (b : Bool)
  deriving DecidableEq, Repr

/-! ## the exact evaluator (specification) -/

/-- a result of type `ty` must be representable (typed), within 512 bits (untyped integer kinds);
floating-point and complex values are not limited here (the generator keeps them moderate) -/
def checkTy (ty : Ty) (v : CQ) : R Val :=
  match ty with
  | .untyped u =>
    if u.isInteger && !fitsUntyped v.re.num then .error .untypedOverflow else .ok (.num ty v)
  | .typed k => if representable k v.re.num then .ok (.num ty v) else .error .overflow

/-- conversion of a constant to an integer kind: its value must be real, an integer, in the range -/
def intoKind (k : Kind) (v : CQ) : R Unit :=
  if !v.isReal || !isIntegral v.re then .error .truncated
  else if representable k v.re.num then .ok () else .error .overflow

/-- operand types of a binary operation: an untyped operand is converted to the other's type; the
kind of two untyped operands is the larger kind -/
def unify (ta tb : Ty) (x y : CQ) : R Ty :=
  match ta, tb with
  | .untyped u, .untyped u' => .ok (.untyped (u.max u'))
  | .typed k, .untyped _ => do intoKind k y; .ok (.typed k)
  | .untyped _, .typed k => do intoKind k x; .ok (.typed k)
  | .typed k, .typed k' => if k = k' then .ok (.typed k) else .error .mismatched

def exactConv (k : Kind) (v : Val) : R Val :=
  match v with
  | .num _ x => do intoKind k x; .ok (.num (.typed k) x)
  | .bool _ => .error .notInteger

/-- `complement` of the integer specification, by type -/
def complTy (ty : Ty) (x : Int) : Int :=
  match ty with
  | .untyped _ => complement none x
  | .typed k => complement (some k) x

def exactUn (op : UnOp) (v : Val) : R Val :=
  match v with
  | .num ty x =>
    match op with
    | .plus => .ok (.num ty x)
    | .neg => checkTy ty ⟨-x.re, -x.im⟩
    | .compl => if ty.isInteger then checkTy ty (CQ.ofReal (complTy ty x.re.num : Int)) else .error .invalidOp
  | .bool _ => .error .notInteger

def exactBin (op : Arith) (va vb : Val) : R Val :=
  match va, vb with
  | .num ta x, .num tb y => do
    let ty ← unify ta tb x y
    let r := if ty = .untyped .complex then arithC op x y
             else (arithQ ty.isInteger op x.re y.re).map CQ.ofReal
    match r with
    | .error .divZero => .error .divZero
    | .error .notDefined => .error .invalidOp
    | .ok r => checkTy ty r
  | _, _ => .error .notInteger

def exactCmp (op : Cmp) (va vb : Val) : R Val :=
  match va, vb with
  | .num ta x, .num tb y => do
    let ty ← unify ta tb x y
    if ty = .untyped .complex then
      match cmpC op x y with
      | some b => .ok (.bool b)
      | none => .error .invalidOp
    else .ok (.bool (cmpQ op x.re y.re))
  | _, _ => .error .notInteger

/-- the result of shifting an untyped floating-point or complex constant (which must be an
integer) is an untyped integer constant -/
def shiftTy : Ty → Ty
  | .untyped .float => .untyped .int
  | .untyped .complex => .untyped .int
  | t => t

def exactShift (rule : ShiftRule) (isLeft : Bool) (va vb : Val) : R Val :=
  match va, vb with
  | .num ta x, .num _ c => do
    if !x.isReal || !isIntegral x.re then .error .truncated
    if !c.isReal || !isIntegral c.re then .error .truncated
    rule isLeft c.re.num
    checkTy (shiftTy ta) (CQ.ofReal
      ((if isLeft then shiftLeft x.re.num c.re.num.toNat else shiftRight x.re.num c.re.num.toNat : Int)))
  | _, _ => .error .notInteger

/-- `real(x)` / `imag(x)` of an untyped numeric constant: an untyped floating-point constant -/
def exactPart (imag : Bool) (v : Val) : R Val :=
  match v with
  | .num (.untyped _) x => .ok (.num (.untyped .float) (CQ.ofReal (if imag then x.im else x.re)))
  | _ => .error .invalidOp

/-- `complex(a, b)` of two untyped real constants: an untyped complex constant -/
def exactComplex (va vb : Val) : R Val :=
  match va, vb with
  | .num (.untyped _) x, .num (.untyped _) y =>
    if !x.isReal || !y.isReal then .error .truncated else .ok (.num (.untyped .complex) ⟨x.re, y.re⟩)
  | _, _ => .error .invalidOp

def evalExact (rule : ShiftRule) : Expr → R Val
  | .lit n => if fitsUntyped n then .ok (.num (.untyped .int) (CQ.ofReal (n : Int))) else .error .tooLarge
  | .rlit n => .ok (.num (.untyped .rune) (CQ.ofReal (n : Int)))
  | .flit n d => .ok (.num (.untyped .float) (CQ.ofReal (mkRat n d)))
  | .ilit n d => .ok (.num (.untyped .complex) ⟨0, mkRat n d⟩)
  | .re e => do exactPart false (← evalExact rule e)
  | .im e => do exactPart true (← evalExact rule e)
  | .cx a b => do
    let va ← evalExact rule a
    let vb ← evalExact rule b
    exactComplex va vb
  | .conv k e => do exactConv k (← evalExact rule e)
  | .un op e => do exactUn op (← evalExact rule e)
  | .bin op a b => do
    let va ← evalExact rule a
    let vb ← evalExact rule b
    exactBin op va vb
  | .cmp op a b => do
    let va ← evalExact rule a
    let vb ← evalExact rule b
    exactCmp op va vb
  | .shl a b => do
    let va ← evalExact rule a
    let vb ← evalExact rule b
    exactShift rule true va vb
  | .shr a b => do
    let va ← evalExact rule a
    let vb ← evalExact rule b
    exactShift rule false va vb

/-! ## Scriggo's strategy: implementations and promotion -/

/-- a numeric constant as `constant.go` holds it -/
inductive NC where
  | int (c : SC)        -- int64Const / intConst
  | f64 (v : Rat)       -- float64Const: a float64 value
  | bigf (v : Rat)      -- floatConst: a big.Float of 512 bits precision
  | rat (v : Rat)       -- ratConst: a big.Rat
  deriving DecidableEq, Repr

def NC.val : NC → Rat
  | .int c => (c.val : Int)
  | .f64 v => v
  | .bigf v => v
  | .rat v => v

def NC.impl : NC → Impl
  | .int (.small _) => .small
  | .int (.big _) => .big
  | .f64 _ => .f64
  | .bigf _ => .bigf
  | .rat _ => .rat

def isPow2 (d : Nat) : Bool := d != 0 && 2 ^ d.log2 == d

/-- the natural number `n` can be written with a mantissa of `p` bits: `n = m * 2^e`, `m < 2^p` -/
def repBits (p n : Nat) : Bool := n == 0 || (n.log2 + 1 ≤ p || n % 2 ^ (n.log2 + 1 - p) == 0)

/-- the rational `q` is a binary floating-point number with a mantissa of `p` bits (exponent range
not considered) -/
def repQ (p : Nat) (q : Rat) : Bool := isPow2 q.den && repBits p q.num.natAbs

/-- precision of `floatConst` (`bigFloat()`: `SetPrec(512)`) and of a float64 -/
def bigFloatPrec : Nat := 512
def float64Prec : Nat := 53

/-- on which values a conversion step is exact (documented behaviour of the Go conversions and of
math/big: `float64(int64)` rounds to 53 bits, `big.Float.SetInt/SetRat` round to the precision of
the receiver, everything else is exact) -/
def stepExactOn : Step → Rat → Bool
  | .i64ToF64, v => repQ float64Prec v
  | .i64ToBigFloat, v => repQ bigFloatPrec v
  | .bigToBigFloat, v => repQ bigFloatPrec v
  | .f64ToBigFloat, v => repQ bigFloatPrec v
  | .ratToBigFloat, v => repQ bigFloatPrec v
  | .i64ToBig, _ => true
  | .i64ToRat, _ => true
  | .bigToRat, _ => true
  | .f64ToRat, _ => true

/-- implementation a step starts from and arrives at; `none` when applied to another one -/
def stepTarget : Step → NC → Option (Rat → NC)
  | .i64ToBig, .int (.small _) => some (fun v => .int (.big v.num))
  | .i64ToF64, .int (.small _) => some .f64
  | .i64ToBigFloat, .int (.small _) => some .bigf
  | .i64ToRat, .int (.small _) => some .rat
  | .bigToBigFloat, .int (.big _) => some .bigf
  | .bigToRat, .int (.big _) => some .rat
  | .f64ToBigFloat, .f64 _ => some .bigf
  | .f64ToRat, .f64 _ => some .rat
  | .ratToBigFloat, .rat _ => some .bigf
  | _, _ => none

/-- one conversion step: the same value in the new implementation, `inexact` if the step would
round it, `fault` if the step does not apply to this implementation -/
def applyStep (s : Step) (c : NC) : R NC :=
  match stepTarget s c with
  | none => .error .fault
  | some mk => if stepExactOn s c.val then .ok (mk c.val) else .error .inexact

def applySteps : List Step → NC → R NC
  | [], c => .ok c
  | s :: rest, c => do applySteps rest (← applyStep s c)

/-- `toSameConstImpl(c1, c2)` with the generated table -/
def toSame (a b : NC) : R (NC × NC) :=
  match promote a.impl b.impl with
  | none => .error .fault
  | some (sa, sb) => do
    let a' ← applySteps sa a
    let b' ← applySteps sb b
    .ok (a', b')

/-! ## operations of the floating-point implementations (hand-modelled) -/

inductive FOp where
  | add | sub | mul | quo
  deriving DecidableEq, Repr

def fop : Arith → Option FOp
  | .add => some .add | .sub => some .sub | .mul => some .mul | .quo => some .quo
  | _ => none

def fopSem : FOp → Rat → Rat → Rat
  | .add, x, y => x + y
  | .sub, x, y => x - y
  | .mul, x, y => x * y
  | .quo, x, y => x / y

/-- `floatConst.binaryOp`: a big.Float operation at 512 bits; exact iff the result has a 512-bit mantissa -/
def bigfArith (op : FOp) (x y : Rat) : R NC :=
  if op == .quo && y == 0 then .error .divZero
  else
    let r := fopSem op x y
    if repQ bigFloatPrec r then .ok (.bigf r) else .error .inexact

/-- `ratConst.binaryOp`: exact -/
def ratArith (op : FOp) (x y : Rat) : R NC :=
  if op == .quo && y == 0 then .error .divZero else .ok (.rat (fopSem op x y))

/-- `float64Const.binaryOp` on two float64 constants: the shortcuts keep a float64, everything else
is computed by `floatConst` -/
def f64Arith (op : FOp) (x y : Rat) : R NC :=
  match op with
  | .add => if x == 0 then .ok (.f64 y) else if y == 0 then .ok (.f64 x) else bigfArith .add x y
  | .sub => if y == 0 then .ok (.f64 x) else bigfArith .sub x y
  | .mul =>
    if x == 0 || y == 0 then .ok (.f64 0) else if x == 1 then .ok (.f64 y) else if y == 1 then .ok (.f64 x)
    else bigfArith .mul x y
  | .quo => if y == 0 then .error .divZero else if y == 1 then .ok (.f64 x) else bigfArith .quo x y

/-- `c1.binaryOp(op, c2)` on two constants of the same implementation -/
def nArithSame (op : Arith) (a b : NC) : R NC :=
  match a, b with
  | .int x, .int y => do .ok (.int (← sArith op x y))
  | .f64 x, .f64 y => match fop op with | some f => f64Arith f x y | none => .error .invalidOp
  | .bigf x, .bigf y => match fop op with | some f => bigfArith f x y | none => .error .invalidOp
  | .rat x, .rat y => match fop op with | some f => ratArith f x y | none => .error .invalidOp
  | _, _ => .error .fault

def sameImpl (a b : NC) : Bool :=
  match a, b with
  | .int _, .int _ => true     -- int64Const with intConst is handled inside `sArith`
  | .f64 _, .f64 _ => true
  | .bigf _, .bigf _ => true
  | .rat _, .rat _ => true
  | _, _ => false

/-- `c1.binaryOp(op, c2)` for an arithmetic operator -/
def nArith (op : Arith) (a b : NC) : R NC :=
  if sameImpl a b then nArithSame op a b
  else do
    let (a', b') ← toSame a b
    nArithSame op a' b'

def nCmpSame (op : Cmp) (a b : NC) : R Bool :=
  match a, b with
  | .int x, .int y => sCmp op x y
  | .f64 x, .f64 y => .ok (cmpQ op x y)
  | .bigf x, .bigf y => .ok (cmpQ op x y)
  | .rat x, .rat y => .ok (cmpQ op x y)
  | _, _ => .error .fault

def nCmp (op : Cmp) (a b : NC) : R Bool :=
  if sameImpl a b then nCmpSame op a b
  else do
    let (a', b') ← toSame a b
    nCmpSame op a' b'

/-- `c.representedBy(typ)` for an integer kind: integer implementations as in `sRep`; a float64 or a
big.Float must be an integer that fits int64 (signed kinds) / uint64 (unsigned kinds), a big.Rat must
be an integer — "truncated to integer" otherwise — and is then checked as an integer constant -/
def nRep (k : Kind) (c : NC) : R SC :=
  let viaInt (v : Rat) : R SC :=
    if fitsInt64 v.num then sRep (kindCode k) (.small (BitVec.ofInt 64 v.num)) else sRep (kindCode k) (.big v.num)
  match c with
  | .int c => sRep (kindCode k) c
  | .f64 v | .bigf v =>
    if isIntegral v && (if k.signed then fitsInt64 v.num else fitsUint64 v.num) then viaInt v
    else .error .truncated
  | .rat v => if isIntegral v then sRep (kindCode k) (.big v.num) else .error .truncated

/-- integer constant a shifted floating-point constant is turned into (`floatConst`/`ratConst`
`.binaryOp` on a shift: `IsInt` → `intConst`) -/
def nShiftOperand (a : NC) : R SC :=
  match a with
  | .int c => .ok c
  | .f64 v | .bigf v | .rat v => if isIntegral v then .ok (.big v.num) else .error .truncated

/-- count of a shift (`shiftConstError` on any implementation) -/
def nShiftCount (c : NC) : R SC :=
  match c with
  | .int c => .ok c
  | _ =>
    match nRep .uint c with
    | .ok c' => .ok c'
    | .error _ => .error .truncated

def nShift (isLeft : Bool) (a c : NC) : R NC := do
  let a' ← nShiftOperand a
  let c' ← nShiftCount c
  .ok (.int (← sShift isLeft a' c'))

def nNeg (c : NC) : R NC :=
  match c with
  | .int c => do .ok (.int (← sUnary .neg kInt c))
  | .f64 v => .ok (.f64 (-v))
  | .bigf v => .ok (.bigf (-v))
  | .rat v => .ok (.rat (-v))

/-! ## complex constants: `complexConst{r, i}` with real constants as parts (hand-modelled) -/

inductive CC where
  | re (c : NC)
  | cplx (r i : NC)
  deriving DecidableEq, Repr

def CC.val : CC → CQ
  | .re c => ⟨c.val, 0⟩
  | .cplx r i => ⟨r.val, i.val⟩

def nZero (c : NC) : Bool := c.val == 0

/-- `toSameConstImpl` with a complex constant: the real one becomes `complexConst{c, int64Const(0)}` -/
def asCplx : CC → NC × NC
  | .re c => (c, .int (.small 0#64))
  | .cplx r i => (r, i)

/-- the code discards the errors of the operations on the parts; inside the exact fragment there is
none — `inexact` is handed on, anything else would be a nil constant (a fault) -/
def part (r : R NC) : R NC :=
  match r with
  | .ok c => .ok c
  | .error .inexact => .error .inexact
  | .error _ => .error .fault

def cArith (op : Arith) (a b : CC) : R CC :=
  match a, b with
  | .re x, .re y => do .ok (.re (← nArith op x y))
  | _, _ =>
    let (ar, ai) := asCplx a
    let (br, bi) := asCplx b
    match op with
    | .add | .sub => do .ok (.cplx (← part (nArith op ar br)) (← part (nArith op ai bi)))
    | .mul => do
      let ac ← part (nArith .mul ar br)
      let bd ← part (nArith .mul ai bi)
      let bc ← part (nArith .mul ai br)
      let ad ← part (nArith .mul ar bi)
      .ok (.cplx (← part (nArith .sub ac bd)) (← part (nArith .add bc ad)))
    | .quo => do
      if nZero br && nZero bi then .error .divZero
      let cc ← part (nArith .mul br br)
      let dd ← part (nArith .mul bi bi)
      let s ← part (nArith .add cc dd)
      if nZero s then .error .divZero
      let ac ← part (nArith .mul ar br)
      let bd ← part (nArith .mul ai bi)
      let bc ← part (nArith .mul ai br)
      let ad ← part (nArith .mul ar bi)
      let re ← part (nArith .add ac bd)
      let im ← part (nArith .sub bc ad)
      let re' ← applySteps (asFloatingPoint re.impl) re
      let im' ← applySteps (asFloatingPoint im.impl) im
      .ok (.cplx (← part (nArith .quo re' s)) (← part (nArith .quo im' s)))
    | _ => .error .invalidOp

def cCmp (op : Cmp) (a b : CC) : R Bool :=
  match a, b with
  | .re x, .re y => nCmp op x y
  | _, _ =>
    let (ar, ai) := asCplx a
    let (br, bi) := asCplx b
    match op with
    | .eq => do .ok ((← nCmp .eq ar br) && (← nCmp .eq ai bi))
    | .ne => do .ok ((← nCmp .ne ar br) || (← nCmp .ne ai bi))
    | _ => .error .invalidOp

/-- the real constant a complex constant stands for where an integer is needed: its imaginary part
must be zero ("truncated to integer" otherwise) -/
def cReal (c : CC) : R NC :=
  match c with
  | .re c => .ok c
  | .cplx r i => if nZero i then .ok r else .error .truncated

def cRep (k : Kind) (c : CC) : R SC := do nRep k (← cReal c)

def cNeg (c : CC) : R CC :=
  match c with
  | .re c => do .ok (.re (← nNeg c))
  | .cplx r i => do .ok (.cplx (← nNeg r) (← nNeg i))

def cShift (isLeft : Bool) (a c : CC) : R NC := do
  let a' ← cReal a
  match c with
  | .re c => nShift isLeft a' c
  | .cplx r i =>
    -- shiftConstError: representedBy(uint) of the complex count
    if nZero i then nShift isLeft a' r else .error .truncated

/-- `asFloatingPoint(c1)`: generated steps for the real implementations, a complexConst is left alone -/
def cAsFloatingPoint (a : CC) : R CC :=
  match a with
  | .re c => do .ok (.re (← applySteps (asFloatingPoint c.impl) c))
  | .cplx _ _ => .ok a

/-! ## the checker's composition -/

inductive SVal where
  | num (ty : Ty) (c : CC)
  | bool (b : Bool)
  deriving DecidableEq, Repr

def SVal.abs : SVal → Val
  | .num ty c => .num ty c.val
  | .bool b => .bool b

/-- `reflect.Kind` of the type of a constant: untyped constants have the default type of their kind -/
def ukCode : UKind → Nat
  | .int => kInt | .rune => kInt32Code | .float => kFloat64 | .complex => kComplex128

def tyCode : Ty → Nat
  | .untyped u => ukCode u
  | .typed k => kindCode k

def ukOfCode (n : Nat) : Option UKind :=
  [UKind.int, .rune, .float, .complex].find? (fun u => ukCode u == n)

def tyIsUntyped : Ty → Bool
  | .untyped _ => true
  | .typed _ => false

/-- type of the result of a constant operation, from the generated `foldResultKind` -/
def resultTy (isShift : Bool) (ta tb : Ty) : R Ty :=
  match ta with
  | .typed k => .ok (.typed k)
  | .untyped _ =>
    match ukOfCode (foldResultKind false isShift true (tyCode ta) (tyCode tb)) with
    | some u => .ok (.untyped u)
    | none => .error .fault

/-- after a typed operation the checker calls `representedBy(type)` and keeps its result -/
def sTyped (ty : Ty) (c : CC) : R SVal :=
  match ty with
  | .untyped _ => .ok (.num ty c)
  | .typed k => do .ok (.num ty (.re (.int (← cRep k c))))

/-- an untyped operand next to a typed one is converted to its type -/
def sConvOperands (ta tb : Ty) (a b : CC) : R (Ty × Ty × CC × CC) :=
  match ta, tb with
  | .untyped _, .untyped _ => .ok (ta, tb, a, b)
  | .typed k, .untyped _ => do .ok (ta, ta, a, .re (.int (← cRep k b)))
  | .untyped _, .typed k => do .ok (tb, tb, .re (.int (← cRep k a)), b)
  | .typed k, .typed k' => if k = k' then .ok (ta, tb, a, b) else .error .mismatched

def sConv (k : Kind) (v : SVal) : R SVal :=
  match v with
  | .num _ c => do .ok (.num (.typed k) (.re (.int (← cRep k c))))
  | .bool _ => .error .notInteger

/-- kind of the type handed to `unaryOp` for `^`: `int` / `int32` for untyped integer / rune constants -/
def complCode : Ty → Nat
  | .untyped .rune => kInt32
  | .untyped _ => kInt
  | .typed k => kindCode k

def sUn (op : UnOp) (v : SVal) : R SVal :=
  match v with
  | .num ty c =>
    match op with
    | .plus => .ok (.num ty c)
    | .neg => do
      let r ← cNeg c
      match ty with
      | .untyped _ => .ok (.num ty r)
      | .typed k => do
        let _ ← cRep k r       -- checked, result not kept
        .ok (.num ty r)
    | .compl =>
      if ty.isInteger then
        match c with
        | .re (.int c) => do .ok (.num ty (.re (.int (← sUnary .compl (complCode ty) c))))
        | _ => .error .fault
      else .error .invalidOp
  | .bool _ => .error .notInteger

/-- the both-constants path of `typechecker.binaryOp` for an arithmetic operator: conversion of an
untyped operand, the *generated* kind selection (`foldOpKind`, `foldAsFloat`), `c1.binaryOp(op, c2)`,
`representedBy` for typed operands, the *generated* result type -/
def sBin (op : Arith) (va vb : SVal) : R SVal :=
  match va, vb with
  | .num ta a, .num tb b => do
    let (ta', tb', a', b') ← sConvOperands ta tb a b
    let kind := foldOpKind (tyIsUntyped ta') (tyCode ta') (tyCode tb')
    let a'' ← if foldAsFloat (op == .quo) kind then cAsFloatingPoint a' else .ok a'
    let r ← cArith op a'' b'
    sTyped (← resultTy false ta' tb') r
  | _, _ => .error .notInteger

def sCmpV (op : Cmp) (va vb : SVal) : R SVal :=
  match va, vb with
  | .num ta a, .num tb b => do
    let (_, _, a', b') ← sConvOperands ta tb a b
    .ok (.bool (← cCmp op a' b'))
  | _, _ => .error .notInteger

def sShiftV (isLeft : Bool) (va vb : SVal) : R SVal :=
  match va, vb with
  | .num ta a, .num tb c => do
    let r ← cShift isLeft a c
    sTyped (← resultTy true ta tb) (.re r)
  | _, _ => .error .notInteger

/-- `real(x)` / `imag(x)`: `constant.real()` / `.imag()` — the part as it is stored (the imaginary part
of a real constant is `int64Const(0)`), with type untyped float -/
def sPart (imag : Bool) (v : SVal) : R SVal :=
  match v with
  | .num (.untyped _) c =>
    let (r, i) := asCplx c
    .ok (.num (.untyped .float) (.re (if imag then i else r)))
  | _ => .error .invalidOp

/-- `complex(re, im)` on two untyped constants.  An argument that is itself held as a complexConst
(an untyped complex constant with zero imaginary part) becomes a *part* of the new complexConst as
it is; constants with such a part are not modelled (`inexact` = outside the modelled fragment; the
values are right, but e.g. `imag(c) < 0` is then refused — known findings `complex-*-part-held-as-complex`) -/
def sComplex (va vb : SVal) : R SVal :=
  match va, vb with
  | .num (.untyped _) a, .num (.untyped _) b =>
    if !nZero (asCplx a).2 || !nZero (asCplx b).2 then .error .truncated
    else match a, b with
      | .re x, .re y => .ok (.num (.untyped .complex) (.cplx x y))
      | _, _ => .error .inexact
  | _, _ => .error .invalidOp

/-- `parseBasicLiteral(FloatLiteral)`: a literal whose 512-bit value needs fewer than 53 bits is a
float64Const, any other (moderate) literal a ratConst with the exact value -/
def sFloatLit (q : Rat) : NC := if repQ 52 q then .f64 q else .rat q

/-- `parseBasicLiteral(ImaginaryLiteral)`: the imaginary part of `123i` is parsed as an integer
literal, that of `1.5i` as a floating-point literal -/
def sImagLit (q : Rat) : R NC :=
  if isIntegral q then do .ok (.int (← sLit q.num.toNat)) else .ok (sFloatLit q)

def evalScriggo : Expr → R SVal
  | .lit n => do .ok (.num (.untyped .int) (.re (.int (← sLit n))))
  | .rlit n => .ok (.num (.untyped .rune) (.re (.int (.small (BitVec.ofNat 64 n)))))
  | .flit n d => .ok (.num (.untyped .float) (.re (sFloatLit (mkRat n d))))
  | .ilit n d => do .ok (.num (.untyped .complex) (.cplx (.int (.small 0#64)) (← sImagLit (mkRat n d))))
  | .re e => do sPart false (← evalScriggo e)
  | .im e => do sPart true (← evalScriggo e)
  | .cx a b => do
    let va ← evalScriggo a
    let vb ← evalScriggo b
    sComplex va vb
  | .conv k e => do sConv k (← evalScriggo e)
  | .un op e => do sUn op (← evalScriggo e)
  | .bin op a b => do
    let va ← evalScriggo a
    let vb ← evalScriggo b
    sBin op va vb
  | .cmp op a b => do
    let va ← evalScriggo a
    let vb ← evalScriggo b
    sCmpV op va vb
  | .shl a b => do
    let va ← evalScriggo a
    let vb ← evalScriggo b
    sShiftV true va vb
  | .shr a b => do
    let va ← evalScriggo a
    let vb ← evalScriggo b
    sShiftV false va vb

/-! ## protocol -/

def tyName : Ty → String
  | .untyped .int => "untyped"
  | .untyped .rune => "untyped-rune"
  | .untyped .float => "untyped-float"
  | .untyped .complex => "untyped-complex"
  | .typed k => kindName k

def showRat (q : Rat) : String := s!"{q.num}/{q.den}"

/-- a complex-kinded value is written with both parts, any other with its real part -/
def showCQ (ty : Ty) (v : CQ) : String :=
  if ty = .untyped .complex then s!"{showRat v.re} {showRat v.im}" else showRat v.re

def showVal : R Val → String
  | .ok (.num ty v) => s!"ok num {tyName ty} {showCQ ty v}"
  | .ok (.bool b) => s!"ok bool {b}"
  | .error r => "err " ++ r.name

def implName : Impl → String
  | .small => "small" | .big => "big" | .f64 => "f64" | .bigf => "bigf" | .rat => "rat"

def ccImpl : CC → String
  | .re c => implName c.impl
  | .cplx r i => s!"cplx({implName r.impl},{implName i.impl})"

def showSVal : R SVal → String
  | .ok (.num ty c) => s!"ok num {tyName ty} {showCQ ty c.val} {ccImpl c}"
  | .ok (.bool b) => s!"ok bool {b}"
  | .error r => "err " ++ r.name

end ScriggoV.ConstEval
