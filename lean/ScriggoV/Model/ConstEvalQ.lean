import ScriggoV.Model.ConstEval
/-! # Numeric constant expressions: the exact evaluator and Scriggo's evaluation strategy (C02)

* `evalExact rule` — the Go specification (`Spec/GoConst.lean`): exact arithmetic on `Rat`, kinds
  of untyped constants (integer < rune < floating-point), integer vs. rational division,
  representability, "truncated to integer", the implementation limits of go/types; `rule` is the
  rule for a constant shift count (`goRule` for the reference).
* `evalScriggo` — what the type checker (`checker_expressions.go: binaryOp`, `typeof`) and
  `constant.go` do.  A numeric constant (`NC`) is held in one of five implementations: `int64Const`,
  `intConst` (`NC.int`, see `Model/ConstEval.lean`), `float64Const` (`NC.f64`), `floatConst` — a
  512-bit `big.Float` (`NC.bigf`) — or `ratConst` (`NC.rat`).  Two operands of different
  implementations are first brought to the same one by `toSameConstImpl`: the *generated* table
  `Gen.ConstInt.promote` says by which conversion steps; each step is exact on some values only
  (`stepExactOn`: `float64(int64)` keeps 53 bits, `big.Float.SetRat` 512 bits).
  The model covers the fragment where no step and no `big.Float` operation rounds: where one would,
  it answers `inexact` (not a rejection: "outside the exact fragment").

math/big (`big.Float` at 512 bits, `big.Rat`) is trusted: interpreted by its documented meaning.
Core Lean only. -/
namespace ScriggoV.ConstEval
open ScriggoV.Spec.GoConst
open ScriggoV.Gen.ConstInt

/-- value of a constant expression: a numeric constant of some type, or an untyped boolean -/
inductive Val where
  | num (ty : Ty) (v : Rat)
  | bool (b : Bool)
  deriving DecidableEq, Repr

/-! ## the exact evaluator (specification) -/

/-- a result of type `ty` must be representable (typed), within 512 bits (untyped integer kinds);
floating-point values are not limited here (the generator keeps them moderate) -/
def checkTy (ty : Ty) (v : Rat) : R Val :=
  match ty with
  | .untyped u =>
    if u.isInteger && !fitsUntyped v.num then .error .untypedOverflow else .ok (.num ty v)
  | .typed k => if representable k v.num then .ok (.num ty v) else .error .overflow

/-- conversion of a constant to an integer kind: its value must be an integer in the range -/
def intoKind (k : Kind) (v : Rat) : R Unit :=
  if !isIntegral v then .error .truncated
  else if representable k v.num then .ok () else .error .overflow

/-- operand types of a binary operation: an untyped operand is converted to the other's type -/
def unify (ta tb : Ty) (x y : Rat) : R Ty :=
  match ta, tb with
  | .untyped u, .untyped u' => .ok (.untyped (u.max u'))
  | .typed k, .untyped _ => do intoKind k y; .ok (.typed k)
  | .untyped _, .typed k => do intoKind k x; .ok (.typed k)
  | .typed k, .typed k' => if k = k' then .ok (.typed k) else .error .mismatched

def exactConv (k : Kind) (v : Val) : R Val :=
  match v with
  | .num _ x => do intoKind k x; .ok (.num (.typed k) x)
  | .bool _ => .error .notInteger

/-- `complement` of the integer specification, by type -/
def complTy (ty : Ty) (x : Int) : Int :=
  match ty with
  | .untyped _ => complement none x
  | .typed k => complement (some k) x

def exactUn (op : UnOp) (v : Val) : R Val :=
  match v with
  | .num ty x =>
    match op with
    | .plus => .ok (.num ty x)
    | .neg => checkTy ty (-x)
    | .compl => if ty.isInteger then checkTy ty (complTy ty x.num : Int) else .error .invalidOp
  | .bool _ => .error .notInteger

def exactBin (op : Arith) (va vb : Val) : R Val :=
  match va, vb with
  | .num ta x, .num tb y => do
    let ty ← unify ta tb x y
    match arithQ ty.isInteger op x y with
    | .error .divZero => .error .divZero
    | .error .notDefined => .error .invalidOp
    | .ok r => checkTy ty r
  | _, _ => .error .notInteger

def exactCmp (op : Cmp) (va vb : Val) : R Val :=
  match va, vb with
  | .num ta x, .num tb y => do
    let _ ← unify ta tb x y
    .ok (.bool (cmpQ op x y))
  | _, _ => .error .notInteger

/-- the result of shifting an untyped floating-point constant (which must be an integer) is an
untyped integer constant -/
def shiftTy : Ty → Ty
  | .untyped .float => .untyped .int
  | t => t

def exactShift (rule : ShiftRule) (isLeft : Bool) (va vb : Val) : R Val :=
  match va, vb with
  | .num ta x, .num _ c => do
    if !isIntegral x then .error .truncated
    if !isIntegral c then .error .truncated
    rule isLeft c.num
    checkTy (shiftTy ta) ((if isLeft then shiftLeft x.num c.num.toNat else shiftRight x.num c.num.toNat : Int))
  | _, _ => .error .notInteger

def evalExact (rule : ShiftRule) : Expr → R Val
  | .lit n => if fitsUntyped n then .ok (.num (.untyped .int) (n : Int)) else .error .tooLarge
  | .rlit n => .ok (.num (.untyped .rune) (n : Int))
  | .flit n d => .ok (.num (.untyped .float) (mkRat n d))
  | .conv k e => do exactConv k (← evalExact rule e)
  | .un op e => do exactUn op (← evalExact rule e)
  | .bin op a b => do
    let va ← evalExact rule a
    let vb ← evalExact rule b
    exactBin op va vb
  | .cmp op a b => do
    let va ← evalExact rule a
    let vb ← evalExact rule b
    exactCmp op va vb
  | .shl a b => do
    let va ← evalExact rule a
    let vb ← evalExact rule b
    exactShift rule true va vb
  | .shr a b => do
    let va ← evalExact rule a
    let vb ← evalExact rule b
    exactShift rule false va vb

/-! ## Scriggo's strategy: implementations and promotion -/

/-- a numeric constant as `constant.go` holds it -/
inductive NC where
  | int (c : SC)        -- int64Const / intConst
  | f64 (v : Rat)       -- float64Const: a float64 value
  | bigf (v : Rat)      -- floatConst: a big.Float of 512 bits precision
  | rat (v : Rat)       -- ratConst: a big.Rat
  deriving DecidableEq, Repr

def NC.val : NC → Rat
  | .int c => (c.val : Int)
  | .f64 v => v
  | .bigf v => v
  | .rat v => v

def NC.impl : NC → Impl
  | .int (.small _) => .small
  | .int (.big _) => .big
  | .f64 _ => .f64
  | .bigf _ => .bigf
  | .rat _ => .rat

def isPow2 (d : Nat) : Bool := d != 0 && 2 ^ d.log2 == d

/-- the natural number `n` can be written with a mantissa of `p` bits: `n = m * 2^e`, `m < 2^p` -/
def repBits (p n : Nat) : Bool := n == 0 || (n.log2 + 1 ≤ p || n % 2 ^ (n.log2 + 1 - p) == 0)

/-- the rational `q` is a binary floating-point number with a mantissa of `p` bits (exponent range
not considered) -/
def repQ (p : Nat) (q : Rat) : Bool := isPow2 q.den && repBits p q.num.natAbs

/-- precision of `floatConst` (`bigFloat()`: `SetPrec(512)`) and of a float64 -/
def bigFloatPrec : Nat := 512
def float64Prec : Nat := 53

/-- on which values a conversion step is exact (documented behaviour of the Go conversions and of
math/big: `float64(int64)` rounds to 53 bits, `big.Float.SetInt/SetRat` round to the precision of
the receiver, everything else is exact) -/
def stepExactOn : Step → Rat → Bool
  | .i64ToF64, v => repQ float64Prec v
  | .i64ToBigFloat, v => repQ bigFloatPrec v
  | .bigToBigFloat, v => repQ bigFloatPrec v
  | .f64ToBigFloat, v => repQ bigFloatPrec v
  | .ratToBigFloat, v => repQ bigFloatPrec v
  | .i64ToBig, _ => true
  | .i64ToRat, _ => true
  | .bigToRat, _ => true
  | .f64ToRat, _ => true

/-- implementation a step starts from and arrives at; `none` when applied to another one -/
def stepTarget : Step → NC → Option (Rat → NC)
  | .i64ToBig, .int (.small _) => some (fun v => .int (.big v.num))
  | .i64ToF64, .int (.small _) => some .f64
  | .i64ToBigFloat, .int (.small _) => some .bigf
  | .i64ToRat, .int (.small _) => some .rat
  | .bigToBigFloat, .int (.big _) => some .bigf
  | .bigToRat, .int (.big _) => some .rat
  | .f64ToBigFloat, .f64 _ => some .bigf
  | .f64ToRat, .f64 _ => some .rat
  | .ratToBigFloat, .rat _ => some .bigf
  | _, _ => none

/-- one conversion step: the same value in the new implementation, `inexact` if the step would
round it, `fault` if the step does not apply to this implementation -/
def applyStep (s : Step) (c : NC) : R NC :=
  match stepTarget s c with
  | none => .error .fault
  | some mk => if stepExactOn s c.val then .ok (mk c.val) else .error .inexact

def applySteps : List Step → NC → R NC
  | [], c => .ok c
  | s :: rest, c => do applySteps rest (← applyStep s c)

/-- `toSameConstImpl(c1, c2)` with the generated table -/
def toSame (a b : NC) : R (NC × NC) :=
  match promote a.impl b.impl with
  | none => .error .fault
  | some (sa, sb) => do
    let a' ← applySteps sa a
    let b' ← applySteps sb b
    .ok (a', b')

/-! ## operations of the floating-point implementations (hand-modelled) -/

inductive FOp where
  | add | sub | mul | quo
  deriving DecidableEq, Repr

def fop : Arith → Option FOp
  | .add => some .add | .sub => some .sub | .mul => some .mul | .quo => some .quo
  | _ => none

def fopSem : FOp → Rat → Rat → Rat
  | .add, x, y => x + y
  | .sub, x, y => x - y
  | .mul, x, y => x * y
  | .quo, x, y => x / y

/-- `floatConst.binaryOp`: a big.Float operation at 512 bits; exact iff the result has a 512-bit mantissa -/
def bigfArith (op : FOp) (x y : Rat) : R NC :=
  if op == .quo && y == 0 then .error .divZero
  else
    let r := fopSem op x y
    if repQ bigFloatPrec r then .ok (.bigf r) else .error .inexact

/-- `ratConst.binaryOp`: exact -/
def ratArith (op : FOp) (x y : Rat) : R NC :=
  if op == .quo && y == 0 then .error .divZero else .ok (.rat (fopSem op x y))

/-- `float64Const.binaryOp` on two float64 constants: the shortcuts keep a float64, everything else
is computed by `floatConst` -/
def f64Arith (op : FOp) (x y : Rat) : R NC :=
  match op with
  | .add => if x == 0 then .ok (.f64 y) else if y == 0 then .ok (.f64 x) else bigfArith .add x y
  | .sub => if y == 0 then .ok (.f64 x) else bigfArith .sub x y
  | .mul =>
    if x == 0 || y == 0 then .ok (.f64 0) else if x == 1 then .ok (.f64 y) else if y == 1 then .ok (.f64 x)
    else bigfArith .mul x y
  | .quo => if y == 0 then .error .divZero else if y == 1 then .ok (.f64 x) else bigfArith .quo x y

/-- `c1.binaryOp(op, c2)` on two constants of the same implementation -/
def nArithSame (op : Arith) (a b : NC) : R NC :=
  match a, b with
  | .int x, .int y => do .ok (.int (← sArith op x y))
  | .f64 x, .f64 y => match fop op with | some f => f64Arith f x y | none => .error .invalidOp
  | .bigf x, .bigf y => match fop op with | some f => bigfArith f x y | none => .error .invalidOp
  | .rat x, .rat y => match fop op with | some f => ratArith f x y | none => .error .invalidOp
  | _, _ => .error .fault

def sameImpl (a b : NC) : Bool :=
  match a, b with
  | .int _, .int _ => true     -- int64Const with intConst is handled inside `sArith`
  | .f64 _, .f64 _ => true
  | .bigf _, .bigf _ => true
  | .rat _, .rat _ => true
  | _, _ => false

/-- `c1.binaryOp(op, c2)` for an arithmetic operator -/
def nArith (op : Arith) (a b : NC) : R NC :=
  if sameImpl a b then nArithSame op a b
  else do
    let (a', b') ← toSame a b
    nArithSame op a' b'

def nCmpSame (op : Cmp) (a b : NC) : R Bool :=
  match a, b with
  | .int x, .int y => sCmp op x y
  | .f64 x, .f64 y => .ok (cmpQ op x y)
  | .bigf x, .bigf y => .ok (cmpQ op x y)
  | .rat x, .rat y => .ok (cmpQ op x y)
  | _, _ => .error .fault

def nCmp (op : Cmp) (a b : NC) : R Bool :=
  if sameImpl a b then nCmpSame op a b
  else do
    let (a', b') ← toSame a b
    nCmpSame op a' b'

/-- `c.representedBy(typ)` for an integer kind: integer implementations as in `sRep`; a float64 or a
big.Float must be an integer that fits int64 (signed kinds) / uint64 (unsigned kinds), a big.Rat must
be an integer — "truncated to integer" otherwise — and is then checked as an integer constant -/
def nRep (k : Kind) (c : NC) : R SC :=
  let viaInt (v : Rat) : R SC :=
    if fitsInt64 v.num then sRep (kindCode k) (.small (BitVec.ofInt 64 v.num)) else sRep (kindCode k) (.big v.num)
  match c with
  | .int c => sRep (kindCode k) c
  | .f64 v | .bigf v =>
    if isIntegral v && (if k.signed then fitsInt64 v.num else fitsUint64 v.num) then viaInt v
    else .error .truncated
  | .rat v => if isIntegral v then sRep (kindCode k) (.big v.num) else .error .truncated

/-- integer constant a shifted floating-point constant is turned into (`floatConst`/`ratConst`
`.binaryOp` on a shift: `IsInt` → `intConst`) -/
def nShiftOperand (a : NC) : R SC :=
  match a with
  | .int c => .ok c
  | .f64 v | .bigf v | .rat v => if isIntegral v then .ok (.big v.num) else .error .truncated

/-- count of a shift (`shiftConstError` on any implementation) -/
def nShiftCount (c : NC) : R SC :=
  match c with
  | .int c => .ok c
  | _ =>
    match nRep .uint c with
    | .ok c' => .ok c'
    | .error _ => .error .truncated

def nShift (isLeft : Bool) (a c : NC) : R NC := do
  let a' ← nShiftOperand a
  let c' ← nShiftCount c
  .ok (.int (← sShift isLeft a' c'))

def nNeg (c : NC) : R NC :=
  match c with
  | .int c => do .ok (.int (← sUnary .neg kInt c))
  | .f64 v => .ok (.f64 (-v))
  | .bigf v => .ok (.bigf (-v))
  | .rat v => .ok (.rat (-v))

/-! ## the checker's composition -/

inductive SVal where
  | num (ty : Ty) (c : NC)
  | bool (b : Bool)
  deriving DecidableEq, Repr

def SVal.abs : SVal → Val
  | .num ty c => .num ty c.val
  | .bool b => .bool b

/-- after a typed operation the checker calls `representedBy(type)` and keeps its result -/
def sTyped (ty : Ty) (c : NC) : R SVal :=
  match ty with
  | .untyped _ => .ok (.num ty c)
  | .typed k => do .ok (.num ty (.int (← nRep k c)))

def sConvOperands (ta tb : Ty) (a b : NC) : R (Ty × NC × NC) :=
  match ta, tb with
  | .untyped u, .untyped u' => .ok (.untyped (u.max u'), a, b)
  | .typed k, .untyped _ => do .ok (.typed k, a, .int (← nRep k b))
  | .untyped _, .typed k => do .ok (.typed k, .int (← nRep k a), b)
  | .typed k, .typed k' => if k = k' then .ok (.typed k, a, b) else .error .mismatched

def sConv (k : Kind) (v : SVal) : R SVal :=
  match v with
  | .num _ c => do .ok (.num (.typed k) (.int (← nRep k c)))
  | .bool _ => .error .notInteger

/-- kind of the type handed to `unaryOp` for `^`: `int` / `int32` for untyped integer / rune constants -/
def complCode : Ty → Nat
  | .untyped .rune => kInt32
  | .untyped _ => kInt
  | .typed k => kindCode k

def sUn (op : UnOp) (v : SVal) : R SVal :=
  match v with
  | .num ty c =>
    match op with
    | .plus => .ok (.num ty c)
    | .neg => do
      let r ← nNeg c
      match ty with
      | .untyped _ => .ok (.num ty r)
      | .typed k => do
        let _ ← nRep k r       -- checked, result not kept
        .ok (.num ty r)
    | .compl =>
      if ty.isInteger then
        match c with
        | .int c => do .ok (.num ty (.int (← sUnary .compl (complCode ty) c)))
        | _ => .error .fault
      else .error .invalidOp
  | .bool _ => .error .notInteger

/-- `asFloatingPoint(c1)` before a division whose kind is not an integer kind (generated steps) -/
def sAsFloatingPoint (ty : Ty) (op : Arith) (a : NC) : R NC :=
  if op == .quo && !ty.isInteger then applySteps (asFloatingPoint a.impl) a else .ok a

def sBin (op : Arith) (va vb : SVal) : R SVal :=
  match va, vb with
  | .num ta a, .num tb b => do
    let (ty, a', b') ← sConvOperands ta tb a b
    let a'' ← sAsFloatingPoint ty op a'
    sTyped ty (← nArith op a'' b')
  | _, _ => .error .notInteger

def sCmpV (op : Cmp) (va vb : SVal) : R SVal :=
  match va, vb with
  | .num ta a, .num tb b => do
    let (_, a', b') ← sConvOperands ta tb a b
    .ok (.bool (← nCmp op a' b'))
  | _, _ => .error .notInteger

def sShiftV (isLeft : Bool) (va vb : SVal) : R SVal :=
  match va, vb with
  | .num ta a, .num _ c => do sTyped (shiftTy ta) (← nShift isLeft a c)
  | _, _ => .error .notInteger

/-- `parseBasicLiteral(FloatLiteral)`: a literal whose 512-bit value needs fewer than 53 bits is a
float64Const, any other (moderate) literal a ratConst with the exact value -/
def sFloatLit (q : Rat) : NC := if repQ 52 q then .f64 q else .rat q

def evalScriggo : Expr → R SVal
  | .lit n => do .ok (.num (.untyped .int) (.int (← sLit n)))
  | .rlit n => .ok (.num (.untyped .rune) (.int (.small (BitVec.ofNat 64 n))))
  | .flit n d => .ok (.num (.untyped .float) (sFloatLit (mkRat n d)))
  | .conv k e => do sConv k (← evalScriggo e)
  | .un op e => do sUn op (← evalScriggo e)
  | .bin op a b => do
    let va ← evalScriggo a
    let vb ← evalScriggo b
    sBin op va vb
  | .cmp op a b => do
    let va ← evalScriggo a
    let vb ← evalScriggo b
    sCmpV op va vb
  | .shl a b => do
    let va ← evalScriggo a
    let vb ← evalScriggo b
    sShiftV true va vb
  | .shr a b => do
    let va ← evalScriggo a
    let vb ← evalScriggo b
    sShiftV false va vb

/-! ## protocol -/

def tyName : Ty → String
  | .untyped .int => "untyped"
  | .untyped .rune => "untyped-rune"
  | .untyped .float => "untyped-float"
  | .typed k => kindName k

def showRat (q : Rat) : String := s!"{q.num}/{q.den}"

def showVal : R Val → String
  | .ok (.num ty v) => s!"ok num {tyName ty} {showRat v}"
  | .ok (.bool b) => s!"ok bool {b}"
  | .error r => "err " ++ r.name

def implName : Impl → String
  | .small => "small" | .big => "big" | .f64 => "f64" | .bigf => "bigf" | .rat => "rat"

def showSVal : R SVal → String
  | .ok (.num ty c) => s!"ok num {tyName ty} {showRat c.val} {implName c.impl}"
  | .ok (.bool b) => s!"ok bool {b}"
  | .error r => "err " ++ r.name

end ScriggoV.ConstEval
