/-! Model of how a run gets the storage of its global variables
(`initPackageLevelVariables` in programs.go, the tail of `initGlobalVariables` in templates.go):

```go
for i, global := range globals {
    if global.Value.IsValid() { values[i] = global.Value } else { values[i] = reflect.New(global.Type).Elem() }
}
```

A storage cell is a natural number; the allocator hands out `next, next+1, …` (cells never handed
out before). `Global.value = some c`: the compiler recorded the cell `c` while building
(`Global.Value` valid); `none`: it did not. Core Lean only. -/
namespace ScriggoV.GlobalInit

structure Global where
  value : Option Nat
deriving Repr, DecidableEq

/-- the cells of a run's variables and the allocator's state afterwards -/
def initVars : List Global → Nat → List Nat × Nat
  | [], next => ([], next)
  | g :: gs, next =>
    match g.value with
    | some c => ((c :: (initVars gs next).1), (initVars gs next).2)
    | none => ((next :: (initVars gs (next + 1)).1), (initVars gs (next + 1)).2)

end ScriggoV.GlobalInit
