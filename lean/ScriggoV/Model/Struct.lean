import ScriggoV.Spec.GoInt
/-! # Struct values, field paths, and a reference semantics for selector programs (C01)

Go struct values as trees: a value is an `int` or a record of field values (an embedded struct is
a field like any other — *promotion* is a matter of names only: the selector `o.P` where `P` is a
field of the embedded `Inner` IS `o.Inner.P`, and the type checker hands the emitter the index path
`[0, 0]`, `reflect.StructField.Index`). `select`/`update` walk such a path; value semantics (an
assignment copies) is what the pure functions give for free.

On top: a small statement language — locals, selector chains `x.f.g` (every step with its own index
path), composite literals with every field given, `+` on `int`, `==` on any value, assignment and
`+=` through a selector chain, `println` — with a big-step evaluator (the oracle of stream 7 of the
harness, next to gc), and `Stmt.events`: the field-table requests (`makeFieldIndex`) and the
`Field`/`SetField` instructions the emitter makes for the statement, in its order, with the path
the SOURCE asks for (hand-written from emitSelector / emitCompositeLiteral / emitAssignmentNode;
tied by the disassembly comparison of the harness). Core Lean only. -/
namespace ScriggoV.Struct
open ScriggoV.GoInt

/-- a field-index path (`reflect.StructField.Index`) -/
abbrev Path := List Nat

inductive SVal
  | int (z : Int)
  | node (fs : List SVal)
  deriving Repr, Inhabited

/-- `v.Field(i)` -/
def field (i : Nat) : SVal → Option SVal
  | .node fs => fs[i]?
  | .int _ => none

/-- `v.FieldByIndex(p)` -/
def select : Path → SVal → Option SVal
  | [], v => some v
  | i :: p, v => (field i v).bind (select p)

/-- `v.Field(i).Set(x)` as a function -/
def setField (i : Nat) (x : SVal) : SVal → Option SVal
  | .node fs => if i < fs.length then some (.node (fs.set i x)) else none
  | .int _ => none

/-- `v.FieldByIndex(p).Set(x)` as a function -/
def update : Path → SVal → SVal → Option SVal
  | [], x, _ => some x
  | i :: p, x, v => (field i v).bind fun c => (update p x c).bind fun c' => setField i c' v

mutual
/-- Go `==` on struct values: field by field -/
def SVal.beq : SVal → SVal → Bool
  | .int a, .int b => a == b
  | .node as, .node bs => beqList as bs
  | _, _ => false
def beqList : List SVal → List SVal → Bool
  | [], [] => true
  | a :: as, b :: bs => a.beq b && beqList as bs
  | _, _ => false
end

/-! ## the statement language -/

inductive Expr
  | lit (z : Int)
  | var (x : Nat)                 -- local number `x`
  | sel (e : Expr) (p : Path)     -- ONE Go selector `e.f`; `p` is the index path of `f` (longer than 1: promoted)
  | mk (es : List Expr)           -- composite literal, every field given
  | add (a b : Expr)              -- `+` on int
  | eq (a b : Expr)               -- `==` (1 / 0)
  deriving Repr, Inhabited

inductive Stmt
  | decl (e : Expr)                                   -- `x := e`, the next local
  | assign (x : Nat) (chain : List Path) (e : Expr)   -- `x.f.g = e` (no selector: `x = e`)
  | opAssign (x : Nat) (chain : List Path) (e : Expr) -- `x.f.g += e`
  | print (e : Expr)                                  -- `println(e)`
  | dump (x : Nat)                                    -- every int inside local `x`, depth first (a helper function: no selector in this body)
  deriving Repr, Inhabited

abbrev Env := List SVal

def addVal : SVal → SVal → Option SVal
  | .int a, .int b => some (.int (wrap .int (a + b)))
  | _, _ => none

mutual
def eval (ρ : Env) : Expr → Option SVal
  | .lit z => some (.int z)
  | .var x => ρ[x]?
  | .sel e p => (eval ρ e).bind (select p)
  | .mk es => (evalList ρ es).map SVal.node
  | .add a b => (eval ρ a).bind fun va => (eval ρ b).bind fun vb => addVal va vb
  | .eq a b => (eval ρ a).bind fun va => (eval ρ b).bind fun vb => some (.int (if va.beq vb then 1 else 0))
def evalList (ρ : Env) : List Expr → Option (List SVal)
  | [] => some []
  | e :: es => (eval ρ e).bind fun v => (evalList ρ es).map (v :: ·)
end

mutual
/-- the ints inside a value, depth first -/
def leaves : SVal → List SVal
  | .int z => [.int z]
  | .node fs => leavesList fs
def leavesList : List SVal → List SVal
  | [] => []
  | v :: vs => leaves v ++ leavesList vs
end

/-- the selector chain `x.f.g…` as an expression -/
def selChain (e : Expr) : List Path → Expr
  | [] => e
  | p :: ps => selChain (.sel e p) ps

structure State where
  env : Env
  out : List SVal      -- printed values, in order

def setLocal (x : Nat) (v : SVal) (ρ : Env) : Option Env :=
  if x < ρ.length then some (ρ.set x v) else none

def Stmt.exec (s : State) : Stmt → Option State
  | .decl e => (eval s.env e).map fun v => { s with env := s.env ++ [v] }
  | .assign x chain e =>
    s.env[x]?.bind fun o => (eval s.env e).bind fun v => (update chain.flatten v o).bind fun o' =>
      (setLocal x o' s.env).map fun ρ => { s with env := ρ }
  | .opAssign x chain e =>
    s.env[x]?.bind fun o => (select chain.flatten o).bind fun cur => (eval s.env e).bind fun v =>
      (addVal cur v).bind fun nv => (update chain.flatten nv o).bind fun o' =>
        (setLocal x o' s.env).map fun ρ => { s with env := ρ }
  | .print e => (eval s.env e).map fun v => { s with out := s.out ++ [v] }
  | .dump x => s.env[x]?.map fun v => { s with out := s.out ++ leaves v }

def run : List Stmt → State → Option State
  | [], s => some s
  | st :: rest, s => (st.exec s).bind (run rest)

/-! ## what the emitter asks of the field-index table, in its order -/

/-- `read p`: makeFieldIndex(p) and a `Field` instruction; `addr p`: makeFieldIndex(p) when the
address of an assignment's left side is computed (no instruction yet); `store p`: makeFieldIndex(p)
and a `SetField` instruction -/
inductive Ev
  | read (p : Path)
  | addr (p : Path)
  | store (p : Path)
  deriving Repr, Inhabited, DecidableEq

def Ev.path : Ev → Path
  | .read p | .addr p | .store p => p

mutual
def Expr.events : Expr → List Ev
  | .lit _ => []
  | .var _ => []
  | .sel e p => e.events ++ [.read p]
  | .mk es => eventsList 0 es
  | .add a b => a.events ++ b.events
  | .eq a b => a.events ++ b.events
/-- field `i` of a composite literal: its value, then `SetField` with the one-element path -/
def eventsList (i : Nat) : List Expr → List Ev
  | [] => []
  | e :: es => e.events ++ [.store [i]] ++ eventsList (i + 1) es
end

/-- the left side `x.f.g.h`: `Field` for every step but the last, the last one is the address -/
def lhsEvents : List Path → List Ev
  | [] => []
  | [p] => [.addr p]
  | p :: ps => .read p :: lhsEvents ps

def Stmt.events : Stmt → List Ev
  | .decl e => e.events
  | .print e => e.events
  | .dump _ => []
  | .assign _ chain e =>
    match chain.getLast? with
    | none => e.events
    | some pn => lhsEvents chain ++ e.events ++ [.store pn]
  | .opAssign _ chain e =>
    match chain.getLast? with
    | none => e.events
    | some pn => lhsEvents chain ++ [.read pn] ++ e.events ++ [.store pn]

def events (ss : List Stmt) : List Ev := (ss.map Stmt.events).flatten

end ScriggoV.Struct
