import ScriggoV.Gen.Importers
import ScriggoV.Model.Packages
import ScriggoV.Model.Scopes
/-! # C19 — the importer the embedder configures, as a tree of members

`BuildOptions.Packages` is any `native.Importer`: a `native.Packages` map, an importer of the
embedder's own (a policy that refuses paths, a loader that can fail), or a `CombinedImporter` of
such, nested at will. The importer values are those of `Model/Packages.lean` (C22: `Imp`, with
`Imp.leaves`, `mapFind`); a member answers a path with a pair *(package or nil, error or nil)*.

`eval` is `Import` with the stop condition of `CombinedImporter.Import` as a parameter
(`StopRule`; the code's rule is read off the regenerated `Gen/Importers.lean`). An answer is
*decisive* when it is not (nil, nil): a package supplies the path, an error refuses it.
`flatCfg` is the flat configuration the scope machine of `Model/Scopes.lean` works with (what the
checker makes of the importer's answer for the paths the code imports: error first, then nil —
`Gen/Universe.importExits`). Core Lean only. -/
namespace ScriggoV.ImporterPolicy
open ScriggoV.Packages ScriggoV.Scopes
open ScriggoV.Gen.Importers

/-- importer trees over string paths, native packages and numbered errors -/
abbrev Tree := Imp String NativePkg Nat

/-- a member's answer: (package or nil, error or nil) -/
abbrev Answer := Option NativePkg × Option Nat

/-- which parts of a member's answer make `CombinedImporter.Import` stop and return it -/
structure StopRule where
  onPkg : Bool
  onErr : Bool
  deriving DecidableEq, Repr

/-- the code's rule -/
def codeRule : StopRule := ⟨stopOnPkg, stopOnErr⟩

def StopRule.stops (r : StopRule) (a : Answer) : Bool := (r.onPkg && a.1.isSome) || (r.onErr && a.2.isSome)

mutual
/-- `Import` -/
def eval (r : StopRule) : Tree → String → Answer
  | .packages m, path => ((mapFind m path).getD none, none)
  | .custom _ g, path => g path
  | .combined is, path => evalList r is path
/-- the loop of `CombinedImporter.Import` -/
def evalList (r : StopRule) : List Tree → String → Answer
  | [], _ => (none, none)
  | i :: is, path => if r.stops (eval r i path) then eval r i path else evalList r is path
end

/-- not (nil, nil): the member supplies the path or refuses it -/
def decisive (a : Answer) : Bool := a.1.isSome || a.2.isSome

/-- the answer of a non-combined member -/
def leafAnswer (i : Tree) (path : String) : Answer :=
  match i with
  | .packages m => ((mapFind m path).getD none, none)
  | .custom _ g => g path
  | .combined _ => (none, none)

/-- the first decisive answer of the members in order -/
def firstDecisive : List Tree → String → Answer
  | [], _ => (none, none)
  | i :: is, path => if decisive (leafAnswer i path) then leafAnswer i path else firstDecisive is path

/-- `checkImport` on the importer's answer: `err != nil` first, then `pkg == nil` -/
def toResult : Answer → ImportResult
  | (_, some _) => .err
  | (some p, none) => .pkg p
  | (none, none) => .nilPkg

/-- the paths a check imports -/
def importPaths : List Op → List String
  | [] => []
  | .importNative p _ :: ops => p :: importPaths ops
  | _ :: ops => importPaths ops

/-- the table of the paths for which the answer is a package, … -/
def tableOf (r : StopRule) (t : Tree) : List String → List (String × NativePkg)
  | [] => []
  | p :: ps =>
    match toResult (eval r t p) with
    | .pkg k => (p, k) :: tableOf r t ps
    | _ => tableOf r t ps

/-- … and the paths for which it carries an error -/
def failingOf (r : StopRule) (t : Tree) (paths : List String) : List String :=
  paths.filter fun p => (eval r t p).2.isSome

/-- the flat configuration of `Model/Scopes.lean` for an importer tree, over the given paths
(`none` = nil importer) -/
def flatCfg (r : StopRule) (t : Option Tree) (paths : List String) (globals : List GlobalDecl)
    (allowGo : Bool) : Cfg :=
  match t with
  | none => ⟨none, [], globals, allowGo⟩
  | some t => ⟨some (tableOf r t paths), failingOf r t paths, globals, allowGo⟩

/-- a check under an importer tree -/
def checkTree (r : StopRule) (t : Option Tree) (globals : List GlobalDecl) (allowGo template : Bool)
    (ops : List Op) : Except Scopes.Err State :=
  check (flatCfg r t (importPaths ops) globals allowGo) template ops

/-- some member refuses the path before any member supplies it -/
def RefusedBeforeSupplied (leaves : List Tree) (path : String) : Prop :=
  ∃ A m B, leaves = A ++ m :: B ∧ (∀ a ∈ A, (leafAnswer a path).1 = none) ∧
    (leafAnswer m path).2.isSome = true

end ScriggoV.ImporterPolicy
