import ScriggoV.Model.LinkDestFence
import ScriggoV.Gen.LinkDestInline
/-! Model of `scanInlineLinks` (cmd/scriggo/linkdestination.go) for lines read with an empty HTML
state: the per-byte loop with its tests tried in the order the source has them
(`Gen.LinkDestInline.loopOrder`, regenerated on every check), one hand-written handler per test
(the text of each test is pinned by the generator), `parseInlineDestination` and
`parseTitleAndClose`. The state is `len(linkStack)` (the values on the stack are never read) and
`codeSpanLen`. Where the real code would enter its HTML state (`<` followed by `!`, `?`, `/` or a
letter while no bracket is open) the model stops with `none` ("unsupported"): HTML is not
modelled. Everything the loop looks at lies at or after the current byte, so the model recurses
on the remaining bytes; `skip` is the number of bytes a test has consumed beyond the current one.
Hand-written, core Lean only; tied to the code through cmd/scriggo/verif_c29_test.go (op replace
on one-line sources). -/
namespace ScriggoV.LinkDest
open ScriggoV.Gen.LinkDestInline

/-- `parseTitleAndClose(line, pos)`: the index after the closing `)` -/
def parseTitleAndClose (line : Bytes) (pos : Nat) : Option Nat :=
  let p := pos + countSpaces (line.drop pos)
  match line.drop p with
  | [] => none
  | c :: _ =>
    if c == 41 then some (p + 1)
    else if c != 34 && c != 39 && c != 40 then none
    else
      match parseTitle line p with
      | .ok (some e) =>
        let e' := e + countSpaces (line.drop e)
        match line.drop e' with
        | c2 :: _ => if c2 == 41 then some (e' + 1) else none
        | [] => none
      | _ => none

/-- `parseInlineDestination(line, pos)`: `(start, stop, end)` -/
def parseInlineDestination (line : Bytes) (pos : Nat) : Option (Nat × Nat × Nat) :=
  let p := pos + countSpaces (line.drop pos)
  match line.drop p with
  | [] => none
  | c :: _ =>
    if c == 41 then some (p, p, p + 1)
    else
      match parseDestination line p with
      | none => none
      | some (a, b, after) =>
        if b ≤ a then none
        else
          match parseTitleAndClose line after with
          | none => none
          | some e => some (a, b, e)

def isAsciiAlpha (c : UInt8) : Bool :=
  (decide (97 ≤ c) && decide (c ≤ 122)) || (decide (65 ≤ c) && decide (c ≤ 90))

/-- what a test does to the current byte -/
inductive Step
  /-- consume `adv ≥ 1` bytes, go on with `len(linkStack) = depth`, `codeSpanLen = cs`; `emit`:
  a destination handed to appendReplacement (indices relative to the current byte) -/
  | go (adv depth cs : Nat) (emit : Option (Nat × Nat))
  /-- the real code enters its HTML state here -/
  | unsupported

/-- one handler per test of the loop, on the current byte `c` and the bytes after it; `none`:
the test does not apply, or its block ends without `continue` (the next test is tried) -/
def handler (t : Test) (depth cs : Nat) (c : UInt8) (rest : Bytes) : Option Step :=
  match t with
  | .codeSpan =>
    if cs > 0 then
      if c == 96 then
        -- a backtick string is passed over as a whole; one of a different length is content
        -- (fix 8b404d9; before it such a string was passed one backtick at a time and its tail
        -- could be taken for the closing string)
        let run := countRun 96 (c :: rest)
        some (.go run depth (if run == cs then 0 else cs) none)
      else some (.go 1 depth cs none)
    else none
  | .rawCloser => none   -- html.rawCloser is empty
  | .rawTag => none      -- html.rawTag is empty
  | .htmlOpen =>
    if depth == 0 && c == 60 then
      match rest with
      | d :: _ => if d == 33 || d == 63 || d == 47 || isAsciiAlpha d then some .unsupported else none
      | [] => none
    else none
  | .inHTML => none      -- html.inHTML() is false
  | .escape =>
    if c == 92 then
      match rest with
      | d :: _ => if isPunct d then some (.go 2 depth cs none) else none
      | [] => none
    else none
  | .backtick =>
    if c == 96 then
      let run := countRun 96 (c :: rest)
      some (.go run depth run none)
    else none
  | .openBracket => if c == 91 then some (.go 1 (depth + 1) cs none) else none
  | .closeBracket =>
    if c == 93 then
      if depth > 0 then
        match rest with
        | d :: _ =>
          if d == 40 then
            match parseInlineDestination (c :: rest) 2 with
            | some (a, b, e) => some (.go e 0 cs (if a < b then some (a, b) else none))
            | none => some (.go 1 (depth - 1) cs none)
          else some (.go 1 (depth - 1) cs none)
        | [] => some (.go 1 (depth - 1) cs none)
      else some (.go 1 depth cs none)
    else none

/-- the tests in order; when none applies: `i++` -/
def firstStep : List Test → Nat → Nat → UInt8 → Bytes → Step
  | [], depth, cs, _, _ => .go 1 depth cs none
  | t :: ts, depth, cs, c, rest =>
    match handler t depth cs c rest with
    | some s => s
    | none => firstStep ts depth cs c rest

/-- the loop from the byte at index `pos` on: the destinations handed to appendReplacement, in
order, as `(start, stop)`; `none` when the real code would enter its HTML state -/
def scanInline : (skip depth cs pos : Nat) → Bytes → Option (List (Nat × Nat))
  | _, _, _, _, [] => some []
  | skip + 1, depth, cs, pos, _ :: rest => scanInline skip depth cs (pos + 1) rest
  | 0, depth, cs, pos, c :: rest =>
    match firstStep loopOrder depth cs c rest with
    | .unsupported => none
    | .go adv depth' cs' emit =>
      match scanInline (adv - 1) depth' cs' (pos + 1) rest with
      | none => none
      | some out =>
        some (match emit with
              | some (a, b) => (pos + a, pos + b) :: out
              | none => out)

/-- `scanInlineLinks(line, 0, …)` with a fresh HTML state -/
def scanInlineLinks (line : Bytes) : Option (List (Nat × Nat)) := scanInline 0 0 0 0 line

end ScriggoV.LinkDest
