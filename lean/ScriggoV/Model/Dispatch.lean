import ScriggoV.Gen.ShowDispatch
/-! Evaluation of the regenerated show-dispatch tables (property C06, layer 3): which sinks can
receive bytes of the shown value, per showIn* function and per clause of its type switch.
Core Lean only. -/
namespace ScriggoV.Dispatch
open ScriggoV.Gen.ShowDispatch

/-- the type-switch cases of the TRUSTED types: html, css, js, json, markdown and their
Stringer interfaces (package native). Everything else — `fmt.Stringer`, `native.EnvStringer`,
`error`, `[]byte`, `time.Time`, `nil`, `default` (all kinds) — is untrusted. -/
def trustedCases : List String :=
  ["native.HTML", "native.HTMLStringer", "native.HTMLEnvStringer",
   "native.CSS", "native.CSSStringer", "native.CSSEnvStringer",
   "native.JS", "native.JSStringer", "native.JSEnvStringer",
   "native.JSON", "native.JSONStringer", "native.JSONEnvStringer",
   "native.Markdown", "native.MarkdownStringer", "native.MarkdownEnvStringer"]

/-- a clause is trusted when every type it lists is -/
def trustedClause : Option (List String) → Bool
  | none => false
  | some ts => ts.all trustedCases.contains

/-- the kinds that reach a clause of `switch v.Kind()`: the kinds it lists (including those
falling through from the previous clause); `default` = the kinds listed in no clause -/
def kindsOf (f : Fn) : Option (List String) → List String
  | none => allKinds
  | some ks =>
    ks.filter (· != "default") ++
      (if ks.contains "default" then allKinds.filter (fun k => !(f.kindCases.flatten.contains k)) else [])

def toStringOrigin (k : String) : Origin :=
  match toStringTable.lookup k with
  | some o => o
  | none => (toStringTable.lookup "default").getD .err

/-- two clause labels can lie on one path: one of them is "outside the switch", or they are the
same clause -/
def compatible (a b : Option (List String)) : Bool :=
  match a, b with
  | none, _ => true
  | _, none => true
  | some x, some y => x == y

def orElse (a b : Option (List String)) : Option (List String) :=
  match a with
  | some x => some x
  | none => b

/-- does a directly classified source carry value bytes for the kinds `ks` -/
def carriesVal (ks : List String) : Src → Bool
  | .direct o => o == .val
  | .toStr => ks.any (fun k => toStringOrigin k == .val)
  | .varS => false

/-- the (type clause, kind clause) pairs under which the site receives bytes of the value.
For the local `s` every assignment on a compatible path is followed. -/
def valPaths (f : Fn) (st : Site) : List (Option (List String) × Option (List String)) :=
  match st.src with
  | .varS =>
    (f.assigns.filter (fun a => a.target == "s" && compatible a.typeCase st.typeCase &&
        compatible a.kindCase st.kindCase)).filterMap (fun a =>
      let kc := orElse a.kindCase st.kindCase
      if carriesVal (kindsOf f kc) a.src then some (orElse a.typeCase st.typeCase, kc) else none)
  | src => if carriesVal (kindsOf f st.kindCase) src then [(st.typeCase, st.kindCase)] else []

/-- the same, restricted to untrusted clauses -/
def untrustedValPaths (f : Fn) (st : Site) : List (Option (List String) × Option (List String)) :=
  (valPaths f st).filter (fun p => !trustedClause p.1)

/-- every sink that can receive value bytes of an untrusted clause (in source order, no
duplicates) -/
def untrustedValSinks (f : Fn) : List Sink :=
  (f.sites.filterMap (fun st => if (untrustedValPaths f st).isEmpty then none else some st.sink)).eraseDups

/-- the untrusted clauses whose value bytes reach a RAW write -/
def rawUntrusted (f : Fn) : List (Option (List String) × Option (List String)) :=
  (f.sites.filter (fun st => st.sink == .raw)).flatMap (untrustedValPaths f)

/-- all (function, clause) pairs with a raw write of untrusted value bytes -/
def rawUntrustedAll : List (String × Option (List String) × Option (List String)) :=
  fns.flatMap (fun f => (rawUntrusted f).map (fun p => (f.name, p.1, p.2)))

/-- showInAttribute: the clauses that do NOT set `escapeEntities = true` -/
def attrNoEntityClauses (f : Fn) : List (List String) :=
  (f.typeCases.map (·.1)).filter (fun tc =>
    !(f.assigns.any (fun a => a.target == "escapeEntities" && a.typeCase == some tc)))

def fnNamed (n : String) : Option Fn := fns.find? (·.name == n)

/-- function names called recursively with value bytes -/
def recursionTargets (f : Fn) : List String :=
  (untrustedValSinks f).filterMap (fun s => match s with | .recur n => some n | _ => none)

end ScriggoV.Dispatch
