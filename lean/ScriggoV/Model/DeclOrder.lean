import ScriggoV.Model.Order
/-! Ordering of the package-level declarations (C30) — model of `sortDeclarations`
(/repo/internal/compiler/checker_package.go).

Before a package is type-checked its declarations are reordered: types first, then constants,
then variables, then functions; inside each group a declaration is emitted as soon as every
global it uses has been emitted ("search for the next declaration with resolved dependencies",
restarting from the first pending one each time); when none is ready the rest is appended as it
is and the type checker reports the error.

The dependencies come from a Go map keyed by the *declared identifier* (`packageDeclsDeps`,
`map[*ast.Identifier][]*ast.Identifier`). A map has no order: here it is the list of its entries
in *some* enumeration order, each key once (`Entries`, keys distinct by `id`). How the list of a
declaration is fetched is a parameter of the model:

* `byId`   — `deps[c.Lhs[0]]`: the entry whose key *is* the identifier. One entry at most, so the
  enumeration order is irrelevant (`byId_perm`), and the whole ordering is a function of the
  declaration list only (`sortDeclarations_perm_invariant`).
* `byName` — `depsOf(c.Lhs[0].Name, deps)` as it was before fix 89d8011: range over the map, first
  key met with that *name*. All blank declarations are called `_`: with two of them the result is
  whichever the enumeration reaches first (`byName_not_perm_invariant`), unless the names are
  distinct (`byName_perm_of_distinct_names`).
* `byNameFirst` — `depsOf` since fix 89d8011: among the keys with that name, the one that comes
  first in the source (smallest `id`). A function of the map whatever the names
  (`byNameFirst_perm`): identifiers are distinct nodes, so their positions are.

The first two are written as the fold of `Order.stepFirstMatch`, the third as the fold of
`Order.stepArgMin` — the class of the loop of `depsOf` in the site table. Core Lean only. -/
namespace ScriggoV.DeclOrder
open ScriggoV.Order

inductive Kind where
  | const | var | type | func
  deriving DecidableEq, Repr

/-- a declared identifier: `id` is its identity (the `*ast.Identifier`; its position in the
source), `name` what is written — `_` for every blank declaration -/
structure Decl where
  id : Nat
  kind : Kind
  name : String
  deriving DecidableEq, Repr

/-- the dependency map as the list of its entries in some enumeration order -/
abbrev Entries := List (Decl × List String)

/-- `deps[d]` -/
def byId (es : Entries) (d : Decl) : List String :=
  (es.foldl (stepFirstMatch (fun e => e.1.id == d.id) (fun e => e.2)) none).getD []

/-- `depsOf(d.Name, deps)` -/
def byName (es : Entries) (d : Decl) : List String :=
  (es.foldl (stepFirstMatch (fun e => e.1.name == d.name) (fun e => e.2)) none).getD []

/-- `depsOf(d.Name, deps)` since fix 89d8011: `first` = the key with that name and the smallest
start offset (strict `<`), `deps[first]` -/
def byNameFirst (es : Entries) (d : Decl) : List String :=
  ((es.foldl (stepArgMin (fun e => e.1.name == d.name) (fun e => e.1.id)) none).map (·.2)).getD []

/-- the first declaration of the pending list that is ready, and the list without it -/
def pickFirst (ok : Decl → Bool) : List Decl → Option (Decl × List Decl)
  | [] => none
  | d :: ds =>
    if ok d then some (d, ds)
    else match pickFirst ok ds with
      | some (x, rest) => some (x, d :: rest)
      | none => none

/-- is every name of `ds` the name of a declaration already sorted, or one of `extra` (the groups
sorted before)? — the `found` loops, which compare names -/
def resolved (sorted : List Decl) (extra : List String) (ds : List String) : Bool :=
  ds.all (fun x => sorted.any (fun s => s.name == x) || extra.contains x)

/-- one group: `typesLoop` / `constsLoop` / `varsLoop` (fuel = number of pending declarations) -/
def sortLoop (deps : Decl → List String) (extra : List String) :
    Nat → List Decl → List Decl → List Decl
  | 0, pending, sorted => sorted ++ pending
  | fuel + 1, pending, sorted =>
    match pickFirst (fun d => resolved sorted extra (deps d)) pending with
    | some (d, rest) => sortLoop deps extra fuel rest (sorted ++ [d])
    | none => sorted ++ pending

def names (l : List Decl) : List String := l.map (·.name)

/-- `sortDeclarations`: types (nothing else is resolved for them), constants (types are), variables
(constants, functions and types are), functions in source order -/
def sortDeclarations (deps : Decl → List String) (ds : List Decl) : List Decl :=
  let types := ds.filter (·.kind == .type)
  let consts := ds.filter (·.kind == .const)
  let vars := ds.filter (·.kind == .var)
  let funcs := ds.filter (·.kind == .func)
  let st := sortLoop deps [] types.length types []
  let sc := sortLoop deps (names st) consts.length consts []
  let sv := sortLoop deps (names sc ++ names funcs ++ names st) vars.length vars []
  st ++ sc ++ sv ++ funcs

/-- does the order type-check as far as names go: every type, constant and variable comes after
everything it uses (functions are declared before any body or initialiser is checked) -/
def resolvableFrom (deps : Decl → List String) (funcs : List String) : List String → List Decl → Bool
  | _, [] => true
  | seen, d :: rest =>
    (d.kind == .func || (deps d).all (fun x => seen.contains x || funcs.contains x))
      && resolvableFrom deps funcs (d.name :: seen) rest

def resolvable (deps : Decl → List String) (order : List Decl) : Bool :=
  resolvableFrom deps (names (order.filter (·.kind == .func))) [] order

/-! ## The ordering does not depend on the enumeration order of the map — when looked up by identifier -/

/-- in a list whose images under `f` are distinct, two members with the same image are equal -/
theorem eq_of_map_eq {α β : Type} (f : α → β) (l : List α) (nd : (l.map f).Nodup)
    (a b : α) (ha : a ∈ l) (hb : b ∈ l) (h : f a = f b) : a = b := by
  induction l with
  | nil => cases ha
  | cons x xs ih =>
    simp only [List.map_cons, List.nodup_cons, List.mem_map, not_exists, not_and] at nd
    rcases List.mem_cons.mp ha with rfl | ha' <;> rcases List.mem_cons.mp hb with rfl | hb'
    · rfl
    · exact absurd h.symm (nd.1 b hb')
    · exact absurd h (nd.1 a ha')
    · exact ih nd.2 ha' hb'

/-- **Lookup by identifier is a function of the map, not of its enumeration.** -/
theorem byId_perm {es es' : Entries} (nd : (es.map (·.1.id)).Nodup) (h : es.Perm es') (d : Decl) :
    byId es d = byId es' d := by
  unfold byId
  rw [foldl_firstMatch _ _ h ?_ none]
  intro a ha b hb pa pb
  have : a.1.id = b.1.id := by
    simp only [beq_iff_eq] at pa pb
    rw [pa, pb]
  rw [eq_of_map_eq (fun e : Decl × List String => e.1.id) es nd a b ha hb this]

/-- **The ordering is a function of the declaration list (and of the dependency map as a set of
entries) only**: any two enumerations of the same map give the same sorted package. -/
theorem sortDeclarations_perm_invariant {es es' : Entries} (nd : (es.map (·.1.id)).Nodup)
    (h : es.Perm es') (ds : List Decl) :
    sortDeclarations (byId es) ds = sortDeclarations (byId es') ds := by
  have : byId es = byId es' := funext (byId_perm nd h)
  rw [this]

/-- Lookup by name is as good *when the declared names are distinct* — what holds for the names
that can be used (a use is never `_`), and what the remaining call of `depsOf` relies on. -/
theorem byName_perm_of_distinct_names {es es' : Entries} (nd : (es.map (·.1.name)).Nodup)
    (h : es.Perm es') (d : Decl) : byName es d = byName es' d := by
  unfold byName
  rw [foldl_firstMatch _ _ h ?_ none]
  intro a ha b hb pa pb
  have : a.1.name = b.1.name := by
    simp only [beq_iff_eq] at pa pb
    rw [pa, pb]
  rw [eq_of_map_eq (fun e : Decl × List String => e.1.name) es nd a b ha hb this]

theorem sortDeclarations_byName_perm_of_distinct_names {es es' : Entries}
    (nd : (es.map (·.1.name)).Nodup) (h : es.Perm es') (ds : List Decl) :
    sortDeclarations (byName es) ds = sortDeclarations (byName es') ds := by
  have : byName es = byName es' := funext (byName_perm_of_distinct_names nd h)
  rw [this]

/-- **The repaired lookup by name is a function of the map, not of its enumeration, shared names
or not**: it selects by position, and the keys are distinct identifiers. -/
theorem byNameFirst_perm {es es' : Entries} (nd : (es.map (·.1.id)).Nodup) (h : es.Perm es')
    (d : Decl) : byNameFirst es d = byNameFirst es' d := by
  unfold byNameFirst
  rw [foldl_argMin _ _ h ?_ none]
  intro a ha b hb ne hm
  exact ne (eq_of_map_eq (fun e : Decl × List String => e.1.id) es nd a b ha hb hm)

theorem sortDeclarations_byNameFirst_perm_invariant {es es' : Entries}
    (nd : (es.map (·.1.id)).Nodup) (h : es.Perm es') (ds : List Decl) :
    sortDeclarations (byNameFirst es) ds = sortDeclarations (byNameFirst es') ds := by
  have : byNameFirst es = byNameFirst es' := funext (byNameFirst_perm nd h)
  rw [this]

/-! ## … and does when looked up by name as before fix 89d8011: the negative example -/

/-- `const _ = uint(limit - 3)`, `var _ = T{}`, `const limit = 10` (the two blank declarations
share the name `_`) -/
def witnessDecls : List Decl :=
  [⟨0, .const, "_"⟩, ⟨1, .var, "_"⟩, ⟨2, .const, "limit"⟩]

def witnessEntries : Entries :=
  [(⟨0, .const, "_"⟩, ["limit"]), (⟨1, .var, "_"⟩, []), (⟨2, .const, "limit"⟩, [])]

/-- the same map, enumerated from its second entry -/
def witnessEntries' : Entries :=
  [(⟨1, .var, "_"⟩, []), (⟨0, .const, "_"⟩, ["limit"]), (⟨2, .const, "limit"⟩, [])]

theorem witness_perm : witnessEntries.Perm witnessEntries' := List.Perm.swap _ _ _

theorem witness_ids_distinct : (witnessEntries.map (·.1.id)).Nodup := by decide

/-- enumerated one way the blank constant waits for `limit`; enumerated the other way it gets the
(empty) list of the blank variable, is sorted first, and `limit` is undefined where it is used -/
theorem witness_orders :
    (sortDeclarations (byName witnessEntries) witnessDecls).map (·.id) = [2, 0, 1] ∧
    (sortDeclarations (byName witnessEntries') witnessDecls).map (·.id) = [0, 2, 1] ∧
    resolvable (byId witnessEntries) (sortDeclarations (byName witnessEntries) witnessDecls) = true ∧
    resolvable (byId witnessEntries) (sortDeclarations (byName witnessEntries') witnessDecls) = false := by
  decide

/-- on the two enumerations of the witness the repaired lookup gives one answer: the list of the
blank declaration that comes first -/
theorem witness_byNameFirst :
    byNameFirst witnessEntries ⟨1, .var, "_"⟩ = ["limit"] ∧
    byNameFirst witnessEntries' ⟨1, .var, "_"⟩ = ["limit"] := by
  decide

/-- **Lookup by name over keys that share a name is not a function of the map**: the shape for
which permutation invariance fails. -/
theorem byName_not_perm_invariant :
    ¬ ∀ (es es' : Entries), (es.map (·.1.id)).Nodup → es.Perm es' → ∀ ds,
        sortDeclarations (byName es) ds = sortDeclarations (byName es') ds := by
  intro h
  have e := h witnessEntries witnessEntries' witness_ids_distinct witness_perm witnessDecls
  have w := witness_orders
  rw [e] at w
  exact absurd (w.1.symm.trans w.2.1) (by decide)

/-! ## Nothing is lost: each group comes out as a permutation of itself -/

theorem pickFirst_perm (ok : Decl → Bool) :
    ∀ (l : List Decl) (d : Decl) (rest : List Decl), pickFirst ok l = some (d, rest) → l.Perm (d :: rest)
  | [], _, _, h => by simp [pickFirst] at h
  | x :: xs, d, rest, h => by
    unfold pickFirst at h
    by_cases hx : ok x = true
    · simp only [hx, if_true, Option.some.injEq, Prod.mk.injEq] at h
      rw [h.1, h.2]
    · simp only [hx] at h
      cases hp : pickFirst ok xs with
      | none => simp [hp] at h
      | some p =>
        obtain ⟨y, r⟩ := p
        simp only [hp, Bool.false_eq_true, if_false, Option.some.injEq, Prod.mk.injEq] at h
        have ih := pickFirst_perm ok xs y r hp
        rw [← h.1, ← h.2]
        exact (List.Perm.cons x ih).trans (List.Perm.swap y x r)

theorem sortLoop_perm (deps : Decl → List String) (extra : List String) :
    ∀ (fuel : Nat) (pending sorted : List Decl),
      (sortLoop deps extra fuel pending sorted).Perm (sorted ++ pending)
  | 0, _, _ => List.Perm.refl _
  | fuel + 1, pending, sorted => by
    unfold sortLoop
    cases hp : pickFirst (fun d => resolved sorted extra (deps d)) pending with
    | none => exact List.Perm.refl _
    | some p =>
      obtain ⟨d, rest⟩ := p
      have ih := sortLoop_perm deps extra fuel rest (sorted ++ [d])
      have hp' := pickFirst_perm _ pending d rest hp
      refine ih.trans ?_
      rw [List.append_assoc]
      exact List.Perm.append_left sorted hp'.symm

end ScriggoV.DeclOrder
