import ScriggoV.Basic.Bytes
/-! Programs that write to an `io.Writer`, and the writer that fails on its k-th call (C13).

`Prog` is the free structure over one operation, `write`, whose continuation is told whether
the write failed — so a program *can* ignore a failed write and keep writing (that is what a
dropped `if err != nil { return err }` in the Go code would be), and "no write after the
failure" is a theorem about programs of the checked shape, not something true by construction. -/
namespace ScriggoV.WriterM

/-- how a writing function returns -/
inductive Ret
  | ok          -- `return nil`
  | writeErr    -- the error of the failed write, returned unchanged
  | otherErr    -- an error of its own (e.g. "cannot show type")
  deriving DecidableEq, Repr

inductive Prog where
  | ret (r : Ret)
  | write (chunk : Bytes) (onOk onErr : Prog)
  deriving Repr

/-- what the outside sees: chunks accepted by the writer, number of `Write` calls, result -/
structure Trace where
  accepted : List Bytes
  calls : Nat
  ret : Ret
  deriving DecidableEq, Repr

/-- run against the writer that fails on call number `k` (1-based; `k = 0` never fails) and
succeeds on every other call; `n` = calls made so far -/
def run (k : Nat) : Prog → Nat → Trace
  | .ret r, n => ⟨[], n, r⟩
  | .write c onOk onErr, n =>
    if n + 1 = k then run k onErr (n + 1)
    else
      let t := run k onOk (n + 1)
      ⟨c :: t.accepted, t.calls, t.ret⟩

/-- the chunk sequence of the all-writes-succeed path and its result -/
def chunks : Prog → List Bytes
  | .ret _ => []
  | .write c onOk _ => c :: chunks onOk
def okRet : Prog → Ret
  | .ret r => r
  | .write _ onOk _ => okRet onOk

/-- the shape of all the escapers and `showIn*` functions: every write is followed by
`if err != nil { return err }` -/
def Checked : Prog → Prop
  | .ret _ => True
  | .write _ onOk onErr => onErr = .ret .writeErr ∧ Checked onOk

/-- `for _, c := range cs { if _, err := w.Write(c); err != nil { return err } }; return nil` -/
def ofChunks : List Bytes → Prog
  | [] => .ret .ok
  | c :: cs => .write c (ofChunks cs) (.ret .writeErr)

/-- `if err := p(); err != nil { return err }; return q()` -/
def seq : Prog → Prog → Prog
  | .ret .ok, q => q
  | .ret r, _ => .ret r
  | .write c a b, q => .write c (seq a q) (seq b q)

/-- a rendered template body: the instruction sequence `Text`/`Show` as writing programs -/
def seqAll : List Prog → Prog
  | [] => .ret .ok
  | p :: ps => seq p (seqAll ps)

/-- a writing function that ignores the error of its first write (used for non-vacuity: the
theorems below are false for it) -/
def sloppy (a b : Bytes) : Prog := .write a (.write b (.ret .ok) (.ret .writeErr)) (.write b (.ret .ok) (.ret .writeErr))

end ScriggoV.WriterM
