/-! # Assignability into interface and defined types (C03, the matrix's universe)

A *specification*, written from the Go language specification's sections "Method sets",
"Implementing an interface", "Assignability" and (for untyped boolean values) "Assignment
statements" / "Constant expressions: default type". It covers the part of the assignability
matrix of `go/props/c03/assign_matrix.go` that decides whether a value may be used where an
interface type is expected: method sets of defined types (value and pointer receivers), of
interface types and of types defined over interface types, `implements`, assignability of a typed
value, of a non-constant untyped boolean (a comparison result) and of `nil`.

Methods are identified by their names (the matrix's methods have pairwise distinct names and one
signature each). Types whose structure plays no role (structs, functions, arrays, maps) are
opaque literals `lit n`; channels (direction rule) and constants (representability) are outside.
The harness validates `Val.assignableTo` against `go/types` on every run.

Core Lean only: the driver links this file. -/
namespace ScriggoV.Assignable

/-- Types. `named id u vms pms` is the defined type number `id` with underlying type (of) `u`,
methods `vms` declared with a value receiver and `pms` with a pointer receiver. -/
inductive ATy
  | bool | int | string
  | lit (n : Nat)
  | iface (ms : List String)
  | ptr (e : ATy)
  | slice (e : ATy)
  | named (id : Nat) (u : ATy) (vms pms : List String)
  deriving DecidableEq, Repr

namespace ATy

/-- "Each type T has an underlying type": predeclared types and type literals are their own. -/
def underlying : ATy → ATy
  | named _ u _ _ => u.underlying
  | t => t

/-- named types: predeclared types and defined types (no type parameters in the universe) -/
def isNamed : ATy → Bool
  | bool | int | string | named .. => true
  | _ => false

/-- The method set of a type ("Method sets"): an interface type has its methods; so has a type
defined over it; a defined type T has the methods declared with receiver T; *T those with
receiver *T or T; every other type has an empty method set. -/
def methods : ATy → List String
  | iface ms => ms
  | named _ u vms _ =>
    match u.underlying with
    | iface ms => ms
    | _ => vms
  | ptr (named _ u vms pms) =>
    match u.underlying with
    | iface _ => []
    | _ => vms ++ pms
  | _ => []

def isInterface (t : ATy) : Bool :=
  match t.underlying with
  | iface _ => true
  | _ => false

end ATy

/-- "A type T implements an interface I if … the type set of I": for the basic interfaces of the
universe, every method of I is in the method set of T. False when `i` is not an interface. -/
def implements (v i : ATy) : Bool :=
  match i.underlying with
  | .iface ms => ms.all (fun m => v.methods.contains m)
  | _ => false

/-- "Assignability" of a value of type `v` to `t` (the cases of the universe): identical types;
identical underlying types and at least one of them not a named type; `t` is an interface type
that `v` implements. -/
def assignable (v t : ATy) : Bool :=
  v == t || (v.underlying == t.underlying && !(v.isNamed && t.isNamed)) || implements v t

/-- Values by what matters to assignability. -/
inductive AVal
  | typed (t : ATy)
  /-- a non-constant untyped boolean value: the result of a comparison -/
  | untypedBool
  | nil
  deriving DecidableEq, Repr

/-- May the value be used where a `t` is expected? An untyped boolean value is converted to the
type of the context when that is a boolean type and to its default type `bool` when it is an
interface type, which `bool` must then implement. `nil` goes to pointer, slice and interface
types (and to the function, map and channel types, which the universe does not have). -/
def AVal.assignableTo : AVal → ATy → Bool
  | .typed s, t => assignable s t
  | .untypedBool, t =>
    match t.underlying with
    | .bool => true
    | .iface _ => implements .bool t
    | _ => false
  | .nil, t =>
    match t.underlying with
    | .ptr _ | .slice _ | .iface _ => true
    | _ => false

/-- The rule `internal/compiler/types.Implements` applies today (recorded finding
`defined-interface-type-methods-ignored`): a type declared in Scriggo source "has no methods",
and "everything implements" an interface type declared in Scriggo source. `scriggo x` says
whether the type is declared in the program's own source. Kept beside the specification for
the counterexamples of `Props/C03.lean`; not a definition extracted from the code. -/
def implementsAsCoded (scriggo : ATy → Bool) (v i : ATy) : Bool :=
  if scriggo v then (match i.underlying with | .iface ms => ms.isEmpty | _ => false)
  else if scriggo i then true
  else implements v i

end ScriggoV.Assignable
