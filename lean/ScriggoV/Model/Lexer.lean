import ScriggoV.Model.Lexer.Basic
import ScriggoV.Model.Lexer.Code
import ScriggoV.Model.Lexer.Template
/-! Model of internal/compiler/lexer.go (see the three files imported here). -/
