import ScriggoV.Gen.RunFuncExit
/-! What `VM.runFunc` returns when `runRecoverable` hands it an error that is not a `*PanicError`
(a `stopError` from `env.Stop`, a `*fatalError` from `env.Fatal`), evaluated over the exit path
regenerated from run.go (`Gen/RunFuncExit.lean`). Core Lean only. -/
namespace ScriggoV.RunFuncExit
open ScriggoV.Gen.RunFuncExit

/-- what runFunc returns -/
inductive Ret where
  | nil          -- no error
  | err          -- the error runRecoverable returned last, itself
  | panicChain   -- `vm.panic`: the chain of active panics
  | ctxErr       -- the context's error
  deriving DecidableEq, Repr

/-- the statements after the loop, with `vm.panic != nil` = `panicActive` and the context watcher
having fired = `ctxDone`; `none`: falls off the end -/
def evalTail : List Tail → (panicActive ctxDone : Bool) → Option Ret
  | [], _, _ => none
  | .ifDoneReturnCtxErr :: r, pa, cd => if cd then some .ctxErr else evalTail r pa cd
  | .ifPanicReturnPanic :: r, pa, cd => if pa then some .panicChain else evalTail r pa cd
  | .returnNil :: _, _, _ => some .nil
  | .returnErr :: _, _, _ => some .err

/-- runRecoverable returned an error that is not a `*PanicError` -/
def onNonPanicError (panicActive ctxDone : Bool) : Option Ret :=
  match nonPanicExit with
  | .returnsErr => some .err
  | .breaks => evalTail tail panicActive ctxDone

end ScriggoV.RunFuncExit
