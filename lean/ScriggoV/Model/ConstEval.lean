import ScriggoV.Spec.GoConst
import ScriggoV.Gen.ConstInt
/-! # Constant expressions: syntax, rejections, and the integer part of Scriggo's strategy (C02)

`Expr` — constant-expression trees over untyped integer, rune and floating-point literals,
conversions to every integer kind, unary `+ - ^`, the nine binary arithmetic/bitwise operators, the
six comparisons and the two shifts.

This file holds what the integer theorems (`Props/C02.lean`) are about: a constant is an
`int64Const` (`SC.small`) or an `intConst` (`SC.big`); operations on two small constants run the
generated int64 fast path `Gen.ConstInt.fastBinary` / `fastUnary` and fall back to math/big when it
says so; `representedBy` is the generated `repFast` / `repBig…`; the shift guard uses the generated
limits.  math/big itself (`Add … AndNot`, `Lsh`, `Rsh`, `BitLen`) is *trusted*: its methods are
interpreted by their documented exact meaning.  The evaluators (exact and Scriggo's strategy, over
all numeric constants) are in `Model/ConstEvalQ.lean`.

Core Lean only. -/
namespace ScriggoV.ConstEval
open ScriggoV.Spec.GoConst
open ScriggoV.Gen.ConstInt

inductive UnOp where
  | plus | neg | compl
  deriving DecidableEq, Repr

inductive Expr where
  | lit (n : Nat)
  | rlit (n : Nat)                  -- rune literal
  | flit (num : Int) (den : Nat)    -- floating-point literal with the exact value num/den
  | ilit (num : Int) (den : Nat)    -- imaginary literal `(num/den)i`
  | re (e : Expr)                   -- real(e)
  | im (e : Expr)                   -- imag(e)
  | cx (a b : Expr)                 -- complex(a, b)
  | conv (k : Kind) (e : Expr)
  | un (op : UnOp) (e : Expr)
  | bin (op : Arith) (a b : Expr)
  | cmp (op : Cmp) (a b : Expr)
  | shl (a b : Expr)
  | shr (a b : Expr)
  deriving Repr

/-- why a constant expression is rejected -/
inductive Reject where
  | overflow          -- a typed constant is not representable in its type
  | untypedOverflow   -- an untyped result exceeds the 512-bit limit
  | tooLarge          -- a literal exceeds the 512-bit limit
  | divZero
  | negShift          -- negative shift count
  | shiftTooLarge     -- shift count over the limit
  | shiftCountUint    -- shift count does not fit the count type
  | mismatched        -- operands of different types
  | notInteger        -- a boolean where an integer is needed
  | truncated         -- a non-integral constant where an integer is needed ("truncated to integer")
  | invalidOp         -- operator not defined on the operands (floating-point `%`, `&`, `^` …)
  | inexact           -- not a rejection: the model leaves its exact fragment (a 512-bit big.Float would round)
  | fault             -- the implementation would panic (index out of range, division by zero in Go code)
  deriving DecidableEq, Repr

abbrev R := Except Reject

/-- rule for a constant shift count: `isLeft`, count -/
abbrev ShiftRule := Bool → Int → R Unit

def goRule : ShiftRule := fun _ c =>
  if c < 0 then .error .negShift else if goShiftCountOk c then .ok () else .error .shiftTooLarge

/-! ## Scriggo's strategy -/

/-- a constant as `constant.go` holds it: `int64Const` or `intConst` (math/big) -/
inductive SC where
  | small (v : BitVec 64)
  | big (v : Int)
  deriving DecidableEq, Repr

def SC.val : SC → Int
  | .small v => v.toInt
  | .big v => v

/-- `reflect.Kind` of an integer kind, with the generated numbering -/
def kindCode : Kind → Nat
  | .int => kInt | .int8 => kInt8 | .int16 => kInt16 | .int32 => kInt32 | .int64 => kInt64
  | .uint => kUint | .uint8 => kUint8 | .uint16 => kUint16 | .uint32 => kUint32 | .uint64 => kUint64
  | .uintptr => kUintptr

def toOp : Arith → Op
  | .add => .add | .sub => .sub | .mul => .mul | .quo => .quo | .rem => .rem
  | .and => .and | .or => .or | .xor => .xor | .andNot => .andNot

def cmpToOp : Cmp → Op
  | .eq => .eq | .ne => .ne | .lt => .lt | .le => .le | .gt => .gt | .ge => .ge

def toUOp : UnOp → UOp
  | .plus => .plus | .neg => .neg | .compl => .xor

/-- `intConst.overflow()`: `BitLen(|v|) > overflowBits` -/
def bigOverflows (v : Int) : Bool := decide (2 ^ overflowBits ≤ v.natAbs)

/-- `parseBasicLiteral(IntLiteral)`: small when it fits an int64 -/
def sLit (n : Nat) : R SC :=
  if bigOverflows n then .error .tooLarge
  else if fitsInt64 n then .ok (.small (BitVec.ofInt 64 n)) else .ok (.big n)

/-- `int64Const.representedBy(kind)` -/
def sRepSmall (code : Nat) (n : BitVec 64) : R SC :=
  match repFast code n with
  | .ok => .ok (.small n)
  | .overflow => .error .overflow
  | .notInteger => .error .notInteger

/-- `constant.representedBy(kind)` for both implementations (`intConst.representedBy` normalises
to `int64Const` when the value fits) -/
def sRep (code : Nat) (c : SC) : R SC :=
  match c with
  | .small n => sRepSmall code n
  | .big v =>
    if fitsInt64 v then sRepSmall code (BitVec.ofInt 64 v)
    else if fitsUint64 v && repBigUint64 code then .ok (.big v)
    else if repBigIntKind code then .error .overflow
    else .error .notInteger

/-- the mathematical meaning of the math/big methods (trusted); `none` = the method panics or
does not return an integer -/
def bigSem : BigMethod → Int → Int → Option Int
  | .Add, a, b => some (a + b)
  | .Sub, a, b => some (a - b)
  | .Mul, a, b => some (a * b)
  | .Quo, a, b => if b = 0 then none else some (Int.tdiv a b)
  | .Rem, a, b => if b = 0 then none else some (Int.tmod a b)
  | .And, a, b => some (bitAnd a b)
  | .Or, a, b => some (bitOr a b)
  | .Xor, a, b => some (bitXor a b)
  | .AndNot, a, b => some (bitAndNot a b)
  | .Cmp, _, _ => none

/-- `intConst.binaryOp` for an arithmetic operator -/
def sBigArith (op : Op) (x y : Int) : R SC :=
  let info := bigBinary op
  if info.refusesZeroDivisor && y == 0 then .error .divZero
  else match bigSem info.method x y with
    | none => .error .fault
    | some r => if info.checksOverflow && bigOverflows r then .error .untypedOverflow else .ok (.big r)

/-- `c1.binaryOp(op, c2)` for an arithmetic operator: fast path on two `int64Const`, math/big otherwise -/
def sArith (op : Arith) (a b : SC) : R SC :=
  match a, b with
  | .small x, .small y =>
    match fastBinary (toOp op) x y with
    | .value r => .ok (.small r)
    | .useBig => sBigArith (toOp op) x.toInt y.toInt
    | .divZero => .error .divZero
    | _ => .error .fault
  | _, _ => sBigArith (toOp op) a.val b.val

def sCmp (op : Cmp) (a b : SC) : R Bool :=
  match a, b with
  | .small x, .small y =>
    match fastBinary (cmpToOp op) x y with
    | .bool r => .ok r
    | _ => .error .fault
  | _, _ => if (bigBinary (cmpToOp op)).method == .Cmp then .ok (cmp op a.val b.val) else .error .fault

/-- `intConst.unaryOp(^, typ)`: `i.Xor(m, i)` with the generated mask and overflow test -/
def sBigCompl (code : Nat) (v : Int) : R SC :=
  match bigXorMask code with
  | some m =>
    if bigComplChecksOverflow && bigOverflows (bitXor m v) then .error .untypedOverflow
    else .ok (.big (bitXor m v))
  | none => .error .fault

/-- `c.unaryOp(op, typ)`; `code` is the kind of `typ` (`int` for an untyped constant) -/
def sUnary (op : UnOp) (code : Nat) (c : SC) : R SC :=
  match c with
  | .small x =>
    match fastUnary (toUOp op) code x with
    | .value r => .ok (.small r)
    | .useBig =>
      match op with
      | .neg => .ok (.big (-x.toInt))
      | .compl => sBigCompl code x.toInt
      | .plus => .error .fault
    | _ => .error .fault
  | .big v =>
    match op with
    | .plus => .ok (.big v)
    | .neg => .ok (.big (-v))
    | .compl => sBigCompl code v

/-- `shiftConstError(op, c)` -/
def sShiftGuard (isLeft : Bool) (c : SC) : R Unit :=
  match sRep shiftCountKind c with
  | .ok _ => if isLeft && decide ((shiftLeftLimit : Int) ≤ c.val) then .error .shiftTooLarge else .ok ()
  | .error _ => if c.val < 0 then .error .negShift else .error .shiftCountUint

/-- Scriggo's shift-count rule as a rule on the count's value -/
def scriggoRule : ShiftRule := fun isLeft c =>
  if c < 0 then .error .negShift
  else if ¬ representable .uint c then .error .shiftCountUint
  else if isLeft && decide ((shiftLeftLimit : Int) ≤ c) then .error .shiftTooLarge
  else .ok ()

/-- the shifts of `int64Const.binaryOp` / `intConst.binaryOp` -/
def sShift (isLeft : Bool) (a c : SC) : R SC := do
  sShiftGuard isLeft c
  let sc := c.val.toNat        -- uint(c2.uint64()): the guard has made it a uint
  if isLeft then
    let r := shiftLeft a.val sc          -- big.Int.Lsh
    if bigOverflows r then .error .untypedOverflow else .ok (.big r)
  else match a with
    | .small x =>
      match fastShr x (BitVec.ofNat 64 sc) with
      | .value r => .ok (.small r)
      | _ => .error .fault
    | .big v => .ok (.big (shiftRight v sc))   -- big.Int.Rsh

/-! ## protocol: prefix notation -/

def kindName : Kind → String
  | .int => "int" | .int8 => "int8" | .int16 => "int16" | .int32 => "int32" | .int64 => "int64"
  | .uint => "uint" | .uint8 => "uint8" | .uint16 => "uint16" | .uint32 => "uint32" | .uint64 => "uint64"
  | .uintptr => "uintptr"

def parseKind (s : String) : Option Kind := Kind.all.find? (fun k => kindName k == s)

def parseArith : String → Option Arith
  | "add" => some .add | "sub" => some .sub | "mul" => some .mul | "quo" => some .quo | "rem" => some .rem
  | "and" => some .and | "or" => some .or | "xor" => some .xor | "andnot" => some .andNot
  | _ => none

def parseCmp : String → Option Cmp
  | "eq" => some .eq | "ne" => some .ne | "lt" => some .lt | "le" => some .le | "gt" => some .gt | "ge" => some .ge
  | _ => none

def parseUn : String → Option UnOp
  | "plus" => some .plus | "neg" => some .neg | "compl" => some .compl
  | _ => none

/-- `L n` | `R n` (rune) | `F num den` (float literal) | `I num den` (imaginary literal) | `RE e` | `IM e` | `CX a b` | `C kind e` | `U op e` | `B op a b` | `SHL a b` | `SHR a b`; fuel bounds the depth.
A comparison `Q op a b` is accepted at the root only (`parseWhole`): comparisons of booleans are
not modelled. -/
def parseExpr : Nat → List String → Option (Expr × List String)
  | 0, _ => none
  | fuel + 1, toks =>
    match toks with
    | "L" :: n :: rest => do pure (.lit (← n.toNat?), rest)
    | "R" :: n :: rest => do pure (.rlit (← n.toNat?), rest)
    | "F" :: n :: d :: rest => do
      let d ← d.toNat?
      if d == 0 then none else pure (.flit (← n.toInt?) d, rest)
    | "I" :: n :: d :: rest => do
      let d ← d.toNat?
      if d == 0 then none else pure (.ilit (← n.toInt?) d, rest)
    | "RE" :: rest => do
      let (e, rest) ← parseExpr fuel rest
      pure (.re e, rest)
    | "IM" :: rest => do
      let (e, rest) ← parseExpr fuel rest
      pure (.im e, rest)
    | "CX" :: rest => do
      let (a, rest) ← parseExpr fuel rest
      let (b, rest) ← parseExpr fuel rest
      pure (.cx a b, rest)
    | "C" :: k :: rest => do
      let (e, rest) ← parseExpr fuel rest
      pure (.conv (← parseKind k) e, rest)
    | "U" :: op :: rest => do
      let (e, rest) ← parseExpr fuel rest
      pure (.un (← parseUn op) e, rest)
    | "B" :: op :: rest => do
      let (a, rest) ← parseExpr fuel rest
      let (b, rest) ← parseExpr fuel rest
      pure (.bin (← parseArith op) a b, rest)
    | "SHL" :: rest => do
      let (a, rest) ← parseExpr fuel rest
      let (b, rest) ← parseExpr fuel rest
      pure (.shl a b, rest)
    | "SHR" :: rest => do
      let (a, rest) ← parseExpr fuel rest
      let (b, rest) ← parseExpr fuel rest
      pure (.shr a b, rest)
    | _ => none

def parseWhole (toks : List String) : Option Expr :=
  match toks with
  | "Q" :: op :: rest => do
    let (a, rest) ← parseExpr (toks.length + 1) rest
    let (b, rest) ← parseExpr (toks.length + 1) rest
    if rest.isEmpty then pure (.cmp (← parseCmp op) a b) else none
  | _ =>
    match parseExpr (toks.length + 1) toks with
    | some (e, []) => some e
    | _ => none

def Reject.name : Reject → String
  | .overflow => "overflow" | .untypedOverflow => "untyped-overflow" | .tooLarge => "too-large"
  | .divZero => "div-zero" | .negShift => "neg-shift" | .shiftTooLarge => "shift-too-large"
  | .shiftCountUint => "shift-count-uint" | .mismatched => "mismatched" | .notInteger => "not-integer"
  | .truncated => "truncated" | .invalidOp => "invalid-op" | .inexact => "inexact"
  | .fault => "fault"

def showFast : FastResult → String
  | .value r => s!"value {r.toInt}"
  | .bool b => s!"bool {b}"
  | .useBig => "usebig"
  | .divZero => "divzero"
  | .invalidOp => "invalidop"
  | .goPanic => "panic"

def showSC : R SC → String
  | .ok (.small v) => s!"ok {v.toInt} small"
  | .ok (.big v) => s!"ok {v} big"
  | .error r => "err " ++ r.name

end ScriggoV.ConstEval
