import ScriggoV.Gen.Encoding
/-! # C20 — implementation limits of the bytecode builder (hand-written model, core Lean only)

What is regenerated (Gen/Encoding.lean): the limit constants, every operand encoder/decoder, the
limits table (guard in front of each append, width of the operand the VM reads the index from).

What is hand-written here, and tied to the code by the harness go/props/c20:
* `appendAt`: the shape every guarded append of builder.go has
  (`r := len(T); if r == maxC { panic(newLimitExceededError(…)) }; T = append(T, v); return r`);
* `readBack`: which encoder writes a table index into an instruction and which decoder of the VM
  reads it (`emitLoad` → `OpLoad`, `emitText` → `OpText`, `emitGetVar`/`emitSetVar` → `vm.vars[…]`,
  `int8(r)` → `T[uint8(x)]`, a register operand `r > 0`). The encoders and decoders themselves are
  the regenerated terms. -/
namespace ScriggoV.Gen.Encoding

/-- number of entries an operand of this row can address -/
def Row.capacity (r : Row) : Option Nat := r.width.map (fun w => 2 ^ w - r.reserved)

/-- the row's guard keeps every index within what the operand can carry. A table that an operand
indexes but that is appended to without a check does not fit. -/
def Row.fits (r : Row) : Bool :=
  match r.width, r.guard with
  | none, _ => true
  | some w, some g => decide (g ≤ 2 ^ w - r.reserved)
  | some _, none => false

/-- bits of the index each codec carries -/
def Codec.bits : Codec → Nat
  | .u8 => 8 | .u16 => 16 | .i16 => 15 | .valueIndex => 14 | .u24 => 24 | .reg => 7 | .notOperand => 0

end ScriggoV.Gen.Encoding

namespace ScriggoV.Limits
open ScriggoV.Gen.Encoding

inductive Outcome where
  | ok (index : Nat)
  | limitExceeded
  deriving Repr, DecidableEq

/-- one append through a guarded site to a table that has `len` entries: the new entry's index,
or the limit error -/
def appendAt (guard : Option Nat) (len : Nat) : Outcome :=
  match guard with
  | some g => if len == g then .limitExceeded else .ok len
  | none => .ok len

/-- length of the table after `k` appends starting from the empty table; `none` as soon as one of
them raised the limit error (the build stops there) -/
def lenAfter (guard : Option Nat) : Nat → Option Nat
  | 0 => some 0
  | k + 1 =>
    match lenAfter guard k with
    | none => none
    | some len =>
      match appendAt guard len with
      | .ok _ => some (len + 1)
      | .limitExceeded => none

/-- a de-duplicating table function (`makeStringValue`, `addType`, …) called for a value that is
already in the table at index `found` (`none`: it is not). `guardFirst` = the limit test comes
before the lookup. The shape the code must have is `guardFirst = false`: lookup, then guarded append. -/
def intern (guardFirst : Bool) (guard : Option Nat) (len : Nat) (found : Option Nat) : Outcome :=
  if guardFirst then
    match appendAt guard len with
    | .limitExceeded => .limitExceeded
    | .ok i => match found with
      | some j => .ok j
      | none => .ok i
  else
    match found with
    | some j => .ok j
    | none => appendAt guard len

/-- a check of a whole count at once (`if len(cases) > maxC`) -/
def checkCount (guard : Option Nat) (count : Nat) : Outcome :=
  match guard with
  | some g => if count > g then .limitExceeded else .ok count
  | none => .ok count

def nonneg (x : Int) : Option Nat := if x < 0 then none else some x.toNat

/-- the index the VM reads from the instruction when the compiler wrote entry number `i` with the
row's codec (`t` = register type, only used by value indexes); `none` = the VM faults (negative
index) or no operand carries the index -/
def readBack (c : Codec) (t i : Nat) : Option Nat :=
  match c with
  | .u8 => nonneg (decodeIndex8 (encodeIndex8 (BitVec.ofNat 64 i))).toInt
  | .u16 =>   -- emitText: encodeUint16(uint16(len(fb.fn.Text))); OpText: vm.fn.Text[decodeUint16(a, b)]
    let ab := encodeUint16 (BitVec.setWidth 16 (BitVec.ofNat 64 i))
    some (VM.decodeUint16 ab.1 ab.2).toNat
  | .i16 =>   -- emitGetVar: encodeInt16(int16(v)); OpGetVar: vm.vars[decodeInt16(a, b)]
    let ab := encodeInt16 (BitVec.setWidth 16 (BitVec.ofNat 64 i))
    nonneg (VM.decodeInt16 ab.1 ab.2).toInt
  | .valueIndex =>   -- emitLoad: encodeValueIndex(kindToType(kind), index); OpLoad: decodeValueIndex(a, b)
    let ab := encodeValueIndex (BitVec.ofNat 8 t) (BitVec.ofNat 64 i)
    nonneg (VM.decodeValueIndex ab.1 ab.2).2.toInt
  | .u24 =>   -- emitGoto: encodeUint24(uint32(addr)); OpGoto: Addr(decodeUint24(a, b, c))
    let abc := encodeUint24 (BitVec.ofNat 32 i)
    some (VM.decodeUint24 abc.1 abc.2.1 abc.2.2).toNat
  | .reg =>   -- registers.go: r > 0 addresses register r of the frame
    let r := (BitVec.ofNat 8 i).toInt
    if r > 0 then some r.toNat else none
  | .notOperand => none

/-- the same index written by emitSetVar (operands B, C) and read by OpSetVar -/
def readBackSetVar (i : Nat) : Option Nat :=
  let bc := encodeSetVar (BitVec.ofNat 64 i)
  nonneg (VM.decodeInt16 bc.1 bc.2).toInt

/-- the register type the VM reads from a value index -/
def readBackType (t i : Nat) : Nat :=
  let ab := encodeValueIndex (BitVec.ofNat 8 t) (BitVec.ofNat 64 i)
  (VM.decodeValueIndex ab.1 ab.2).1.toNat

/-! ### limit errors and the position of the function being built

`newLimitExceededError(pos *runtime.Position, …)` copies `pos.Line`, `pos.Column`, `pos.Start`,
`pos.End`: with a nil `pos` that is a nil pointer dereference — a `runtime.Error` panic, which the
`recover` of `emitProgram`/`emitTemplate` does not recognise as a `*LimitExceededError` and raises
again: `scriggo.Build` panics in the host. Every limit check of the function builder passes
`fb.fn.Pos`, the position the function got where it was created (`newFunction`/`newMacro` copy a
non-nil position and leave `Pos` nil otherwise; a composite literal has the `Pos` it spells out). -/

/-- what the host sees when a limit check fires -/
inductive LimitOutcome
  | buildError   -- a `*LimitExceededError`, turned into the `*BuildError` of the limit
  | hostPanic    -- nil pointer dereference inside newLimitExceededError
  deriving Repr, DecidableEq

/-- does a function created with this position argument have a non-nil `Pos`? -/
def hasPos : PosArg → Bool
  | .emptyLit | .node => true
  | .nilLit | .absent | .other => false

/-- `newLimitExceededError` on the position of a function (`nilSafe`: it tests the position first) -/
def raiseLimit (nilSafe : Bool) (pos : Bool) : LimitOutcome :=
  if pos || nilSafe then .buildError else .hostPanic

/-- can a limit check fire while the function created at this site is built? Unknown use of the
builder counts as yes. -/
def canRaise (raising : List String) (s : BuilderSite) : Bool :=
  s.openBody || s.emits.any (fun m => raising.contains m)

/-- the obligation on one creation site -/
def siteSafe (nilSafe : Bool) (raising : List String) (s : BuilderSite) : Bool :=
  nilSafe || hasPos s.pos || !canRaise raising s

end ScriggoV.Limits
