import ScriggoV.Basic.Bytes
import ScriggoV.Basic.Utf8
import ScriggoV.Gen.EscapeTables
/-! Models of the escapers of internal/runtime/escapers.go (shared by C07, C06, C13).

Every escaper is the same loop: bytes that need no escaping accumulate in `s[last:i]`
(`pending` here) and are written in one `WriteString` just before the next escape sequence
or at the end (`if last != i` / `if last != len(s)`). The model of an escaper is the list of
chunks it passes to `Write`/`WriteString`, in order (`…Chunks`); its output is their
concatenation (`…Out`). The switch cases, tables and byte predicates are the generated
definitions of `ScriggoV.Gen.EscapeTables`; only the loops are hand-written. Core Lean only. -/
namespace ScriggoV.Escape
open ScriggoV ScriggoV.Gen.EscapeTables

/-- `if last != i { w.WriteString(s[last:i]) }` -/
def flush (pending : Bytes) : List Bytes := if pending.isEmpty then [] else [pending]

/-- The loop `last := 0; for i := 0; i < len(s); i++ { … }` shared by htmlEscape,
htmlNoEntitiesEscape, attributeEscape, cssStringEscape, pathEscape and queryEscape.
`f c rest` is the loop body's decision for `c = s[i]`, `rest = s[i+1:]`: `[]` = `continue`,
otherwise the chunks written for this byte (after which `last = i + 1`). -/
def escLoop (f : UInt8 → Bytes → List Bytes) : Bytes → Bytes → List Bytes
  | pending, [] => flush pending
  | pending, c :: rest =>
    match f c rest with
    | [] => escLoop f (pending ++ [c]) rest
    | w :: ws => flush pending ++ (w :: ws) ++ escLoop f [] rest

def ofCase (o : Option Bytes) : List Bytes :=
  match o with
  | some e => [e]
  | none => []

/-! ### HTML text and attribute values -/
def htmlEscapeChunks (s : Bytes) : List Bytes := escLoop (fun c _ => ofCase (htmlEscapeCase c)) [] s
def htmlEscapeOut (s : Bytes) : Bytes := (htmlEscapeChunks s).flatten

def htmlNoEntitiesEscapeChunks (s : Bytes) : List Bytes :=
  escLoop (fun c _ => ofCase (htmlNoEntitiesEscapeCase c)) [] s
def htmlNoEntitiesEscapeOut (s : Bytes) : Bytes := (htmlNoEntitiesEscapeChunks s).flatten

/-- `attributeEscape(w, s, escapeEntities, quoted)` -/
def attributeEscapeChunks (escapeEntities quoted : Bool) (s : Bytes) : List Bytes :=
  if quoted then
    if escapeEntities then htmlEscapeChunks s else htmlNoEntitiesEscapeChunks s
  else escLoop (fun c _ => ofCase (attributeEscapeCase escapeEntities c)) [] s
def attributeEscapeOut (escapeEntities quoted : Bool) (s : Bytes) : Bytes :=
  (attributeEscapeChunks escapeEntities quoted s).flatten

/-! ### CSS strings -/
/-- `if int(c) < len(cssStringEscapes) { esc = cssStringEscapes[c] }` (`[]` = `""`) -/
def cssEscOf (c : UInt8) : Bytes :=
  match cssStringEscapes[c.toNat]? with
  | some e => e
  | none => []

/-- `c != '\\' && (i == len(s)-1 || prefixWithSpace(s[i+1]))` -/
def cssNeedsSpace (c : UInt8) (rest : Bytes) : Bool :=
  c != 0x5C && (match rest with
    | [] => true
    | d :: _ => prefixWithSpace d)

def cssBody (c : UInt8) (rest : Bytes) : List Bytes :=
  match cssEscOf c with
  | [] => []
  | e :: es => if cssNeedsSpace c rest then [e :: es, [0x20]] else [e :: es]

def cssStringEscapeChunks (s : Bytes) : List Bytes := escLoop cssBody [] s
def cssStringEscapeOut (s : Bytes) : Bytes := (cssStringEscapeChunks s).flatten

/-! ### URLs -/
theorem hexchars_length : hexchars.length = 16 := by decide

/-- `buf[0] = '%'; buf[1] = hexchars[c>>4]; buf[2] = hexchars[c&0xF]` -/
def pctOf (c : UInt8) : Bytes :=
  [0x25,
   hexchars[c.toNat / 16]'(by have := c.toNat_lt; rw [hexchars_length]; omega),
   hexchars[c.toNat % 16]'(by rw [hexchars_length]; omega)]

def queryBody (c : UInt8) (_rest : Bytes) : List Bytes :=
  if queryUnreserved c then [] else [pctOf c]

def queryEscapeChunks (s : Bytes) : List Bytes := escLoop queryBody [] s
def queryEscapeOut (s : Bytes) : Bytes := (queryEscapeChunks s).flatten
/-- the byte count `queryEscape` returns -/
def queryEscapeN (s : Bytes) : Nat := ((queryEscapeChunks s).map List.length).sum

/-- `i+2 < len(s) && isHexDigit(s[i+1]) && isHexDigit(s[i+2])` -/
def pctFollows (rest : Bytes) : Bool :=
  match rest with
  | h1 :: h2 :: _ => isHexDigit h1 && isHexDigit h2
  | _ => false

def pathBody (quoted : Bool) (c : UInt8) (rest : Bytes) : List Bytes :=
  if pathAlnum c then []
  else if pathKeepCase c then []
  else match pathEscCase c with
    | some e => [e]
    | none =>
      if c == pathSpaceChar then (if quoted then [] else [pathSpaceEsc])
      else if c == pathPercentChar && pctFollows rest then []
      else [pctOf c]

def pathEscapeChunks (quoted : Bool) (s : Bytes) : List Bytes := escLoop (pathBody quoted) [] s
def pathEscapeOut (quoted : Bool) (s : Bytes) : Bytes := (pathEscapeChunks quoted s).flatten
def pathEscapeN (quoted : Bool) (s : Bytes) : Nat := ((pathEscapeChunks quoted s).map List.length).sum

/-! ### JavaScript / JSON strings
`for i, c := range s` decodes one rune per iteration (`Utf8.decodeRune`: an invalid byte is
U+FFFD of width 1 and is *not* escaped, so invalid UTF-8 passes through unchanged). -/

/-- the `switch` of jsStringEscape on the rune `c`; `[]` = `""` -/
def jsEscOf (r : Nat) : Bytes :=
  match jsStringEscapes[r]? with          -- `case int(c) < len(jsStringEscapes)`
  | some e => e
  | none =>
    if r = 0x2028 then [0x5C, 0x75, 0x32, 0x30, 0x32, 0x38]        -- the six ASCII bytes backslash u 2 0 2 8
    else if r = 0x2029 then [0x5C, 0x75, 0x32, 0x30, 0x32, 0x39]   -- backslash u 2 0 2 9
    else []

/-- `last = i + 3` for U+2028/U+2029, `last = i + 1` otherwise -/
def jsLastAdvance (r : Nat) : Nat := if r = 0x2028 ∨ r = 0x2029 then 3 else 1

/-- The range loop, byte by byte. `skip` = bytes left of the rune being stepped over (the next
iteration starts when it reaches 0), `drop` = bytes still in front of `last` (they were
replaced by an escape and are not written). `s[last:i]` / `s[last:]` with `last` beyond the
index is a slice fault. -/
def jsLoop : Nat → Nat → Bytes → Bytes → Except Fault (List Bytes)
  | _, drop, pending, [] => if drop = 0 then .ok (flush pending) else .error .slice
  | skip+1, drop, pending, c :: rest =>
    if drop = 0 then jsLoop skip 0 (pending ++ [c]) rest else jsLoop skip (drop - 1) pending rest
  | 0, drop, pending, c :: rest =>
    let (r, w) := Utf8.decodeRune (c :: rest)
    match jsEscOf r with
    | [] => if drop = 0 then jsLoop (w - 1) 0 (pending ++ [c]) rest
            else jsLoop (w - 1) (drop - 1) pending rest
    | e :: es =>
      if drop = 0 then
        match jsLoop (w - 1) (jsLastAdvance r - 1) [] rest with
        | .ok cs => .ok (flush pending ++ [e :: es] ++ cs)
        | .error f => .error f
      else .error .slice

def jsStringEscapeChunksE (s : Bytes) : Except Fault (List Bytes) := jsLoop 0 0 [] s
/-- chunk list (`[]` on a fault; `Lemmas/EscapeJs` proves there is none) -/
def jsStringEscapeChunks (s : Bytes) : List Bytes :=
  match jsStringEscapeChunksE s with
  | .ok cs => cs
  | .error _ => []
def jsStringEscapeOut (s : Bytes) : Bytes := (jsStringEscapeChunks s).flatten

end ScriggoV.Escape
