import ScriggoV.Model.LinkDest
import ScriggoV.Gen.LinkDestFence
/-! Model of the fence / indented-code detection of the Markdown link-destination scanner
(cmd/scriggo/linkdestination.go): `isFenceStart`, `isFenceClose`, `isIndentedCode`, `countRun`,
goldmark's `util.IndentWidth(line, 0)` and `util.IsBlank`, and the fence part of the line loop
of `collectReplacements` (`fenceScan`). The conditions the three functions test are
regenerated from the source (`Gen/LinkDestFence.lean`); the skeleton around them is matched
statement by statement by the generator and mirrored here. Hand-written, core Lean only; tied
to the code through cmd/scriggo/verif_c29_test.go (ops fence, fenceclose, indented, replace). -/
namespace ScriggoV.LinkDest
open ScriggoV.Gen.LinkDestFence

/-- goldmark `util.IndentWidth(bs, 0)`: `(width, pos)` — columns (a tab goes to the next
multiple of 4) and bytes of leading spaces and tabs -/
def indentWidthFrom : Nat → Nat → Bytes → Nat × Nat
  | w, p, [] => (w, p)
  | w, p, c :: rest =>
    if c == 32 then indentWidthFrom (w + 1) (p + 1) rest
    else if c == 9 then indentWidthFrom (w + (4 - w % 4)) (p + 1) rest
    else (w, p)

def indentWidth (line : Bytes) : Nat × Nat := indentWidthFrom 0 0 line

/-- goldmark `util.IsBlank` -/
def isBlank (bs : Bytes) : Bool := bs.all isSpace

/-- `countRun(line, pos, c)` on `line[pos:]` -/
def countRun (c : UInt8) : Bytes → Nat
  | [] => 0
  | x :: rest => if x == c then countRun c rest + 1 else 0

/-- `isFenceStart(line)`: `some (fenceChar, fenceLen)` or `none` for `ok == false`.
`c := line[pos]` cannot fault: the first condition (regenerated) is checked before it, and the
model returns `none` as well when there is no byte at `pos`. -/
def isFenceStart (line : Bytes) : Option (UInt8 × Nat) :=
  let (width, pos) := indentWidth line
  if startRejectIndent width pos line.length then none
  else
    match line.drop pos with
    | [] => none
    | c :: rest =>
      if startRejectChar c then none
      else
        let run := countRun c (c :: rest)
        if startRejectRun run then none
        else if startRejectInfo c ((c :: rest).drop run) then none
        else some (c, run)

/-- `isFenceClose(line, fenceChar, fenceLen)` -/
def isFenceClose (line : Bytes) (fenceChar : UInt8) (fenceLen : Nat) : Bool :=
  let (width, pos) := indentWidth line
  if closeRejectIndent width pos line.length then false
  else
    let run := countRun fenceChar (line.drop pos)
    if closeRejectRun run fenceLen then false
    else isBlank (line.drop (pos + run))

/-- `isIndentedCode(line)` -/
def isIndentedCode (line : Bytes) : Bool :=
  indentedCode (indentWidth line).1 (isBlank line)

/-- the fence part of the line loop of `collectReplacements`, outside HTML: per line, whether
it is skipped as (part of) a fenced block — `if inFence { if isFenceClose(…) { inFence = false };
continue }`, `if ok, fc, fl := isFenceStart(line); ok { inFence = true; …; continue }` -/
def fenceScan : Option (UInt8 × Nat) → List Bytes → List Bool
  | _, [] => []
  | some (ch, n), l :: ls =>
    true :: fenceScan (if isFenceClose l ch n then none else some (ch, n)) ls
  | none, l :: ls =>
    match isFenceStart l with
    | some f => true :: fenceScan (some f) ls
    | none => false :: fenceScan none ls

/-- the lines of a source as the loop sees them: split at LF (a final LF gives a last empty line) -/
def splitLines : Bytes → Bytes → List Bytes
  | acc, [] => [acc.reverse]
  | acc, c :: rest => if c == 10 then acc.reverse :: splitLines [] rest else splitLines (c :: acc) rest

end ScriggoV.LinkDest
