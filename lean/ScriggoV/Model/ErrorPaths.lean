import ScriggoV.Gen.ErrorPaths
/-! # Where the file name of a build error comes from (C21)

`Gen/ErrorPaths` lists every store of a file name that can end up in an error's `Path()`
(fields `path` of the checker, the scopes, the function builder and the error types; a tree's
`Path`; the arguments that flow into them) with the kind of expression that is stored.

Two readings of that table:

* `Site.fromLoader` — the stored name was produced by the loader (a tree's `Path`, the result of
  `rooted`, a parameter whose every argument is itself in the table, another stored name, a
  literal, a name computed from a directory listing), not the path AS WRITTEN in a statement;
* `swapLoop` — the loop of `typecheck()` that swaps a template with the file it extends, as a
  state machine over the chain of `Extends` nodes: each node has the path as written (`Path`)
  and the name of the tree that was read for it (`Tree.Path`); the loop stores one of the two in
  `tree.Path` and one of the two in `tc.path`, WHICH one being the extracted
  `typecheckTreePathSrc` / `typecheckTcPathSrc`.
-/
namespace ScriggoV.Model.ErrorPaths
open ScriggoV.Gen.ErrorPaths

/-- the stored expression is the path as written in a statement node -/
def Src.written : Src → Bool
  | .nodePath => true
  | _ => false

def Site.fromLoader (s : Site) : Bool := !Src.written s.src

/-- an `Extends` node: the path as written, and the name the loader gave the tree it read -/
structure Ext where
  written : String
  loaded : String

/-- what an expression of kind `s` over the node evaluates to (only the two kinds that name the
node make sense in the loop) -/
def pick (s : Src) (e : Ext) : Option String :=
  match s with
  | .treePath => some e.loaded
  | .nodePath => some e.written
  | _ => none

/-- the checker's state the loop changes: the path of the tree that will be checked, and the
path the checker reports its errors with -/
structure St where
  treePath : String
  tcPath : String

/-- `for { extends, ok := getExtends(tree.Nodes); if !ok { break }; …; tree.Path = ‹srcTree›;
tc.path = ‹srcTc› }` over the chain of extends nodes, innermost first -/
def swapLoop (srcTree srcTc : Src) : List Ext → St → Option St
  | [], st => some st
  | e :: es, _ =>
    match pick srcTree e, pick srcTc e with
    | some a, some b => swapLoop srcTree srcTc es ⟨a, b⟩
    | _, _ => none

end ScriggoV.Model.ErrorPaths
