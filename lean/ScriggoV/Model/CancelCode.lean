import ScriggoV.Model.Cancel
import ScriggoV.Gen.Blocking
/-! the cancellation facts of run.go as extracted (`Gen/Blocking.lean`), as a `Facts` record -/
namespace ScriggoV.Cancel
open ScriggoV.Gen.Blocking

def doneCaseOf (op : String) : Bool :=
  match blockingOps.find? (fun o => o.op == op) with
  | some o => o.doneCase
  | none => false

/-- the `Facts` of the code as extracted -/
def factsOfCode : Facts :=
  ⟨loopHeadCheck, doneCaseOf "OpReceive", doneCaseOf "OpSend", doneCaseOf "OpSelect",
   doneCaseOf "OpRange", stopSetsDone, epilogueForEveryVM⟩

end ScriggoV.Cancel
