import ScriggoV.Model.Cancel
import ScriggoV.Model.CancelDispatch
import ScriggoV.Model.CancelFastPath
import ScriggoV.Gen.Blocking
/-! the cancellation facts of run.go as extracted (`Gen/Blocking.lean`), as a `Facts` record, and
the placement of the flag test in the instruction loop as a `Dispatch` placement -/
namespace ScriggoV.Cancel
open ScriggoV.Gen.Blocking

def doneCaseOf (op : String) : Bool :=
  match blockingOps.find? (fun o => o.op == op) with
  | some o => o.doneCase
  | none => false

/-- the `Facts` of the code as extracted -/
def factsOfCode : Facts :=
  ⟨loopHeadCheck, doneCaseOf "OpReceive", doneCaseOf "OpSend", doneCaseOf "OpSelect",
   doneCaseOf "OpRange", stopSetsDone, epilogueForEveryVM⟩

/-- the class of an opcode, from what its clause in the instruction switch does (extracted
features): a nested activation of the loop; a change of function together with `nextCall`
(Return); a change of function (the calls); a `return` out of the activation (Continue, Break);
an assignment to `vm.pc` (Goto, Select); only `vm.pc++` / `vm.pc += k`; nothing -/
def flowOf (o : OpFlow) : Dispatch.Flow :=
  if o.nested then .iterate
  else if o.setsFn && o.nextCall then .ret
  else if o.setsFn then .call
  else if o.leaves then .leave
  else if o.setsPC then .jump
  else if o.nextCall then .ret
  else if o.bumpsPC then .skip
  else .next

/-- the flag test stands at the head of the instruction loop -/
def headCheck : Bool := doneCheckSites.contains "loop-head"

/-- the flag is read whenever this opcode is dispatched -/
def opChecked (o : OpFlow) : Bool := headCheck || o.checksDone

/-- the placement of the code: a class is observed iff every opcode of that class is -/
def placementOfCode (c : Dispatch.Flow) : Bool :=
  (opFlow.filter (fun o => flowOf o == c)).all opChecked

/-- the opcodes whose dispatch can go on without a look at the flag although they can move the
program counter backwards or to another function (none, for the code as it is) -/
def unobservedBackEdges : List String :=
  (opFlow.filter (fun o => !(flowOf o).forward && !opChecked o)).map (·.op)

/-- some direct (uncancellable) channel call of run.go is guarded by something read from the
channel or from anywhere but `done == nil` / the activation's own `hasDefaultCase` -/
def racyFastPathOfCode : Bool :=
  fastPathGuards.any (fun g => FastPath.guardOf g.2.2 == .observation)

end ScriggoV.Cancel
