import ScriggoV.Basic.Bytes
import ScriggoV.Gen.LexTables
/-! # Model of internal/compiler/lexer.go — state, checked accesses, `emit`

The Go lexer keeps `l.text` (whole file) and `l.src` (the suffix still to scan); the model
keeps `text` and `base = len(l.text) - len(l.src)`, so that `l.src[i]` is `text[base+i]`.
Every Go index expression is a *checked* access (`srcAt`, `Fault.index`), every Go slice
expression that moves `l.src` or takes a token text is a *checked* slice (`Fault.slice`).
Loops take fuel; running out of fuel is `Fault.other` (theorems show it cannot happen).
Core Lean only. -/
namespace ScriggoV.Lexer
open ScriggoV ScriggoV.Gen.LexTables

/-- the `unicode` package predicates the lexer calls, as parameters of the model -/
structure Unicode where
  isLetter : Nat → Bool
  isDigit : Nat → Bool
  isGraphic : Nat → Bool
  /-- `unicode.Is(unicode.Noncharacter_Code_Point, r)` -/
  isNonchar : Nat → Bool
  /-- `unicode.IsSpace` (reached through `bytes.TrimSpace`) -/
  isSpace : Nat → Bool
  /-- `unicode.ToLower` (reached through `bytes.ToLower`) -/
  toLower : Nat → Nat

structure Env where
  text : Bytes
  /-- `l.templateSyntax` -/
  tmpl : Bool
  noParseShow : Bool
  U : Unicode

structure Tok where
  typ : Nat
  start : Int
  stop : Int
  line : Nat
  col : Nat
  ctx : Nat
  tag : Bytes
  att : Bytes
  /-- `token.lin`: line of the lexer when the token was emitted -/
  lin : Nat
  txtLen : Nat
  deriving Repr, DecidableEq

/-- message classes of the lexer's syntax errors -/
inductive ErrKind
  | unexpectedHashBrace | commentNotTerminated | unexpectedEOF | bom
  | unexpectedEndStmt | unexpectedEndStmts | nul | identDigit | invalidChar
  | stringNotTerminated | newlineInString | invalidUTF8 | unknownEscape | hexEscapeChar
  | octEscapeChar | octTooBig | invalidCodePoint
  | runeNotTerminated | newlineInRune | emptyRune
  | underscoreSep | radixPoint | hexMantissaP | invalidDigit | expDecimalMantissa
  | expHexMantissa | noDigits | expNoDigits
  deriving Repr, DecidableEq

def ErrKind.name : ErrKind → String
  | .unexpectedHashBrace => "unexpectedHashBrace" | .commentNotTerminated => "commentNotTerminated"
  | .unexpectedEOF => "unexpectedEOF" | .bom => "bom" | .unexpectedEndStmt => "unexpectedEndStmt"
  | .unexpectedEndStmts => "unexpectedEndStmts" | .nul => "nul" | .identDigit => "identDigit"
  | .invalidChar => "invalidChar" | .stringNotTerminated => "stringNotTerminated"
  | .newlineInString => "newlineInString" | .invalidUTF8 => "invalidUTF8"
  | .unknownEscape => "unknownEscape" | .hexEscapeChar => "hexEscapeChar"
  | .octEscapeChar => "octEscapeChar" | .octTooBig => "octTooBig"
  | .invalidCodePoint => "invalidCodePoint" | .runeNotTerminated => "runeNotTerminated"
  | .newlineInRune => "newlineInRune" | .emptyRune => "emptyRune"
  | .underscoreSep => "underscoreSep" | .radixPoint => "radixPoint" | .hexMantissaP => "hexMantissaP"
  | .invalidDigit => "invalidDigit" | .expDecimalMantissa => "expDecimalMantissa"
  | .expHexMantissa => "expHexMantissa" | .noDigits => "noDigits" | .expNoDigits => "expNoDigits"

/-- a `*SyntaxError` of the lexer: `errorf` takes Start = End = `len(text)-len(src)` and the
current line and column -/
structure LexErr where
  kind : ErrKind
  start : Nat
  line : Nat
  col : Nat
  deriving Repr, DecidableEq

/-- the fields of Go's `lexer` struct that the scan reads and writes -/
structure St where
  /-- `len(l.text) - len(l.src)` -/
  base : Nat
  line : Nat
  col : Nat
  ctx : Nat
  contexts : List Nat
  /-- `l.bases`: base contexts, parallel to `contexts` -/
  bases : List Nat
  /-- `l.base`: context of the text outside tags, script and style (the file's, or the result
  format's in a macro or using body with an explicit type); `base` above is a byte offset -/
  lbase : Nat
  tagName : Bytes
  tagAttr : Bytes
  tagIndex : Nat
  tagCtx : Nat
  /-- `l.rawMarker`: `none` is Go's nil slice -/
  rawMarker : Option Bytes
  lastTok : Nat
  totals : Nat
  /-- emitted tokens, most recent first -/
  toks : List Tok
  deriving Repr

/-! ## checked accesses -/

/-- `len(l.src)` -/
@[inline] def srcLen (E : Env) (st : St) : Nat := E.text.length - st.base

/-- `l.src[i]` -/
@[inline] def srcAt (E : Env) (st : St) (i : Nat) : Except Fault UInt8 := getAt E.text (st.base + i)

/-- `l.src[i-1]` where Go computes `i-1` in `int` -/
@[inline] def srcAtPred (E : Env) (st : St) (i : Nat) : Except Fault UInt8 :=
  if i = 0 then .error .index else getAt E.text (st.base + (i - 1))

/-- `l.src[i:]` as a value (for the helpers that take a slice) -/
@[inline] def srcFrom (E : Env) (st : St) (i : Nat) : Except Fault Bytes :=
  if i ≤ srcLen E st then .ok (E.text.drop (st.base + i)) else .error .slice

/-- `l.src = l.src[k:]` -/
@[inline] def skip (E : Env) (st : St) (k : Nat) : Except Fault St :=
  if k ≤ srcLen E st then .ok { st with base := st.base + k } else .error .slice

/-- `l.newline()` -/
@[inline] def newline (st : St) : St := { st with line := st.line + 1, col := 1 }

@[inline] def addCol (st : St) (n : Nat) : St := { st with col := st.col + n }

/-- `l.errorf(...)` -/
@[inline] def errorf (st : St) (k : ErrKind) : LexErr := { kind := k, start := st.base, line := st.line, col := st.col }

/-! ## byte-string helpers (package bytes, utf8) -/

/-- `bytes.IndexByte(s, c)`; `none` is -1 -/
def indexByte (s : Bytes) (c : UInt8) : Option Nat :=
  match s with
  | [] => none
  | x :: rest => if x == c then some 0 else (indexByte rest c).map (· + 1)

/-- `bytes.HasPrefix(s, pre)` -/
def hasPrefix (s pre : Bytes) : Bool :=
  match pre, s with
  | [], _ => true
  | _ :: _, [] => false
  | a :: pre', b :: s' => a == b && hasPrefix s' pre'

/-- `bytes.Index(s, sep)` for non-empty `sep` -/
def indexSub (s sep : Bytes) : Option Nat :=
  match s with
  | [] => if sep.isEmpty then some 0 else none
  | x :: rest => if hasPrefix (x :: rest) sep then some 0 else (indexSub rest sep).map (· + 1)

/-- `utf8.DecodeRune`: (rune, size); (0xFFFD, 1) for an invalid encoding, (0xFFFD, 0) for empty input -/
def decodeRune : Bytes → Nat × Nat
  | [] => (0xFFFD, 0)
  | p0 :: rest =>
    if p0 < 0x80 then (p0.toNat, 1)
    else if p0 < 0xC2 then (0xFFFD, 1)
    else if p0 < 0xE0 then
      match rest with
      | b1 :: _ =>
        if 0x80 ≤ b1 ∧ b1 ≤ 0xBF then ((p0.toNat % 32) * 64 + b1.toNat % 64, 2) else (0xFFFD, 1)
      | _ => (0xFFFD, 1)
    else if p0 < 0xF0 then
      match rest with
      | b1 :: b2 :: _ =>
        let lo : UInt8 := if p0 == 0xE0 then 0xA0 else 0x80
        let hi : UInt8 := if p0 == 0xED then 0x9F else 0xBF
        if lo ≤ b1 ∧ b1 ≤ hi ∧ 0x80 ≤ b2 ∧ b2 ≤ 0xBF then
          ((p0.toNat % 16) * 4096 + (b1.toNat % 64) * 64 + b2.toNat % 64, 3)
        else (0xFFFD, 1)
      | _ => (0xFFFD, 1)
    else if p0 < 0xF5 then
      match rest with
      | b1 :: b2 :: b3 :: _ =>
        let lo : UInt8 := if p0 == 0xF0 then 0x90 else 0x80
        let hi : UInt8 := if p0 == 0xF4 then 0x8F else 0xBF
        if lo ≤ b1 ∧ b1 ≤ hi ∧ 0x80 ≤ b2 ∧ b2 ≤ 0xBF ∧ 0x80 ≤ b3 ∧ b3 ≤ 0xBF then
          ((p0.toNat % 8) * 262144 + (b1.toNat % 64) * 4096 + (b2.toNat % 64) * 64 + b3.toNat % 64, 4)
        else (0xFFFD, 1)
      | _ => (0xFFFD, 1)
    else (0xFFFD, 1)

def runeError : Nat := 0xFFFD

/-- `utf8.AppendRune` -/
def encodeRune (r : Nat) : Bytes :=
  if r < 0x80 then [r.toUInt8]
  else if r < 0x800 then [(0xC0 + r / 64).toUInt8, (0x80 + r % 64).toUInt8]
  else if r > 0x10FFFF ∨ (0xD800 ≤ r ∧ r ≤ 0xDFFF) then [0xEF, 0xBF, 0xBD]
  else if r < 0x10000 then [(0xE0 + r / 4096).toUInt8, (0x80 + (r / 64) % 64).toUInt8, (0x80 + r % 64).toUInt8]
  else [(0xF0 + r / 262144).toUInt8, (0x80 + (r / 4096) % 64).toUInt8, (0x80 + (r / 64) % 64).toUInt8,
        (0x80 + r % 64).toUInt8]

/-- `bytes.Map(f, s)` for a mapping that never returns a negative rune -/
def mapRunes (f : Nat → Nat) : Nat → Bytes → Bytes
  | 0, _ => []
  | _, [] => []
  | fuel + 1, c :: rest =>
    let (r, size) := decodeRune (c :: rest)
    encodeRune (f r) ++ mapRunes f fuel ((c :: rest).drop size)

/-- `bytes.ToLower` -/
def bytesToLower (U : Unicode) (s : Bytes) : Bytes :=
  if s.all (· < 0x80) then s.map fun c => if 0x41 ≤ c ∧ c ≤ 0x5A then c + 32 else c
  else mapRunes U.toLower (s.length + 1) s

/-- `utf8.DecodeLastRune` -/
def decodeLastRune (p : Bytes) : Nat × Nat :=
  let e := p.length
  match p[e - 1]? with
  | none => (runeError, 0)
  | some last =>
    if e = 0 then (runeError, 0)
    else if last < 0x80 then (last.toNat, 1)
    else
      let lim := e - 4
      -- `for start--; start >= lim; start-- { if RuneStart(p[start]) { break } }`
      let cands := (List.range (e - 1 - lim)).map fun k => e - 2 - k
      let start : Nat :=
        match cands.find? (fun i => match (p[i]? : Option UInt8) with | some b => (b &&& (0xC0 : UInt8)) != 0x80 | none => false) with
        | some i => i
        | none => lim - 1
      let (r, size) := decodeRune (p.drop start)
      if start + size ≠ e then (runeError, 1) else (r, size)

def trimLeftFunc (f : Nat → Bool) : Nat → Bytes → Bytes
  | 0, s => s
  | _, [] => []
  | fuel + 1, c :: rest =>
    let (r, size) := decodeRune (c :: rest)
    if f r then trimLeftFunc f fuel ((c :: rest).drop size) else c :: rest

def trimRightFunc (f : Nat → Bool) : Nat → Bytes → Bytes
  | 0, s => s
  | fuel + 1, s =>
    if s.isEmpty then s else
    let (r, size) := decodeLastRune s
    if f r then trimRightFunc f fuel (s.take (s.length - size)) else s

/-- `bytes.TrimSpace` -/
def trimSpace (U : Unicode) (s : Bytes) : Bytes :=
  let s := trimLeftFunc U.isSpace (s.length + 1) s
  trimRightFunc U.isSpace (s.length + 1) s

/-- `bytes.EqualFold(s, t)` for an ASCII lower-case `t` that is one of the MIME types: the
only non-ASCII runes whose simple-folding orbit meets ASCII are U+212A (k) and U+017F (s). -/
def equalFoldASCII : Nat → Bytes → Bytes → Bool
  | 0, _, _ => false
  | _, [], [] => true
  | _, [], _ :: _ => false
  | _, _ :: _, [] => false
  | fuel + 1, c :: s, d :: t =>
    if c < 0x80 then
      (c == d || (0x41 ≤ c && c ≤ 0x5A && d == c + 32) || (0x41 ≤ d && d ≤ 0x5A && c == d + 32))
        && equalFoldASCII fuel s t
    else
      let (r, size) := decodeRune (c :: s)
      ((r == 0x212A && (d == 0x6b || d == 0x4b)) || (r == 0x17F && (d == 0x73 || d == 0x53)))
        && equalFoldASCII fuel ((c :: s).drop size) t

def equalFold (s t : Bytes) : Bool := equalFoldASCII (s.length + t.length + 1) s t

/-! ## emit -/

/-- `l.emitAtLineColumn(line, column, typ, length)` -/
def emitAt (E : Env) (st : St) (line col typ length : Nat) : Except Fault St :=
  if srcLen E st < length then .error .slice   -- `l.src[0:length]`, `l.src[length:]`
  else
    let txt : Bytes := (E.text.drop st.base).take length
    let ctx := if typ = tokenText then ContextText else st.ctx
    let start : Int := st.base
    let (start, stop, totals) : Int × Int × Nat :=
      if length = 0 then
        if typ = tokenSemicolon then (start - 1, start - 1, st.totals) else (start, start, st.totals + 1)
      else (start, start + length - 1, st.totals + 1)
    let tok : Tok := { typ, start, stop, line, col, ctx, tag := st.tagName, att := st.tagAttr,
                       lin := st.line, txtLen := length }
    let rawMarker : Option Bytes :=
      if E.tmpl then
        if typ = tokenRaw then (if st.lastTok = tokenStartStatement then some [] else st.rawMarker)
        else if typ = tokenIdentifier then
          (if st.lastTok = tokenRaw ∧ st.rawMarker.isSome then some txt else st.rawMarker)
        else if typ = tokenEnd then none
        else st.rawMarker
      else st.rawMarker
    let lastTok := if length > 0 then typ else st.lastTok
    .ok { st with toks := tok :: st.toks, totals, rawMarker, lastTok, base := st.base + length }

/-- `l.emit(typ, length)` -/
@[inline] def emit (E : Env) (st : St) (typ length : Nat) : Except Fault St :=
  emitAt E st st.line st.col typ length

/-- `l.emit(typ, n); l.column += n` -/
@[inline] def emitAdv (E : Env) (st : St) (typ n : Nat) : Except Fault St := do
  let st ← emit E st typ n
  pure (addCol st n)

end ScriggoV.Lexer
