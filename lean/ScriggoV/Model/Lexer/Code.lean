import ScriggoV.Model.Lexer.Basic
/-! # Model of lexer.go `lexCode` and the literal lexers it calls

`lexCode` decides where `%}`, `%%}` and `}}` end a code region (it must see through string,
raw string, rune and comment literals and count braces) and it maintains the context stack
(`macro`/`using`/`end`…) and the raw marker. Everything the real lexer accepts or rejects in a
code region is mirrored: numbers, escapes, operators, identifiers and keywords.

A guarded access of the form `i < len(l.src) && l.src[i] …` (same `i`) cannot fault and is
written with `peek`; every other `l.src[…]` is a checked `srcAt`. Core Lean only. -/
namespace ScriggoV.Lexer
open ScriggoV ScriggoV.Gen.LexTables

/-- result of a sub-lexer: new state and the syntax error, if any -/
abbrev R := Except Fault (St × Option LexErr)

@[inline] def fail (st : St) (k : ErrKind) : R := .ok (st, some (errorf st k))

/-- `l.src = l.src[p:]; l.column += cols; return l.errorf(…)` -/
@[inline] def failAt (E : Env) (st : St) (p cols : Nat) (k : ErrKind) : R := do
  let st ← skip E st p
  fail (addCol st cols) k

/-- `l.src[i]` under the guard `i < len(l.src)` in the same condition -/
@[inline] def peek (E : Env) (st : St) (i : Nat) : Option UInt8 := E.text[st.base + i]?

@[inline] def peekIs (E : Env) (st : St) (i : Nat) (c : UInt8) : Bool := peek E st i == some c

def hexVal (c : UInt8) : Option Nat :=
  if 0x30 ≤ c ∧ c ≤ 0x39 then some (c.toNat - 0x30)
  else if 0x61 ≤ c ∧ c ≤ 0x66 then some (c.toNat - 0x61 + 10)
  else if 0x41 ≤ c ∧ c ≤ 0x46 then some (c.toNat - 0x41 + 10)
  else none

def isSimpleEscape (c : UInt8) (quote : UInt8) : Bool :=
  c == 0x61 || c == 0x62 || c == 0x66 || c == 0x6e || c == 0x72 || c == 0x74 || c == 0x76 ||
  c == 0x5c || c == quote

def badCodePoint (r : Nat) : Bool := (0xD800 ≤ r && r < 0xE000) || r > 0x10FFFF

/-- the same test on a Go `rune` (int32) accumulated from eight hexadecimal digits: a value of
2^31 or more has wrapped to a negative rune, which the test lets through (`lexInterpretedString`
declares `var r rune`; `lexRuneLiteral` uses `uint32` and has no such wrap) -/
def badCodePointRune (r : Nat) : Bool := r < 0x80000000 && badCodePoint r

/-! ## identifiers -/

/-- the loop of `lexIdentifierOrKeyword`: returns `(p, cols)` -/
def identLoop (E : Env) (st : St) : Nat → Nat → Nat → Nat × Nat
  | 0, p, cols => (p, cols)
  | fuel + 1, p, cols =>
    if p < srcLen E st then
      let (r, s) := decodeRune (E.text.drop (st.base + p))
      if r ≠ 0x5f ∧ !E.U.isLetter r ∧ !E.U.isDigit r then (p, cols)
      else identLoop E st fuel (p + s) (cols + 1)
    else (p, cols)

def lookupKw (tbl : List (Bytes × Nat)) (id : Bytes) : Option Nat :=
  (tbl.find? (fun kv => kv.1 == id)).map (·.2)

/-- the two keyword switches of `lexIdentifierOrKeyword` -/
def identType (E : Env) (id : Bytes) : Nat :=
  match lookupKw goKeywords id with
  | some t => t
  | none => if E.tmpl then (lookupKw templateKeywords id).getD tokenIdentifier else tokenIdentifier

/-- `l.lexIdentifierOrKeyword(s)`: returns the state, the token type and the identifier text -/
def lexIdent (E : Env) (st : St) (s : Nat) : Except Fault (St × Nat × Bytes) :=
  let (p, cols) := identLoop E st (srcLen E st + 1) s 1
  let id := (E.text.drop st.base).take p     -- `string(l.src[0:p])`, bounds checked by `emit`
  let typ := identType E id
  do
    let st ← emit E st typ p
    pure (addCol st cols, typ, id)

/-! ## numbers -/

structure NumSt where
  p : Nat
  base : Nat
  dot : Bool
  /-- 0, 'e' or 'p' -/
  exponent : UInt8
  is0o : Bool

inductive NumOut
  | cont (s : NumSt)
  | brk (s : NumSt)
  | err (k : ErrKind)

/-- the `e`/`p` switch at the end of a DIGITS iteration (`l.src[p]` is a checked access) -/
def numExp (E : Env) (st : St) (s : NumSt) : Except Fault NumOut := do
  let c ← srcAt E st s.p
  if c = 0x65 ∨ c = 0x45 then       -- 'e', 'E'
    if s.base = 16 then
      if s.dot then pure (.err .hexMantissaP) else pure (.cont s)
    else
      let s := if s.base = 8 ∧ !s.is0o then { s with base := 10 } else s
      if s.base ≠ 10 then pure (.err .expDecimalMantissa)
      else if s.exponent ≠ 0 then pure (.cont s)
      else
        let p := s.p + 1
        let p := if peekIs E st p 0x2b || peekIs E st p 0x2d then p + 1 else p
        pure (.cont { s with exponent := 0x65, p })
  else if c = 0x70 ∨ c = 0x50 then  -- 'p', 'P'
    if s.base ≠ 16 then pure (.err .expHexMantissa)
    else if s.exponent ≠ 0 then pure (.cont s)
    else
      let p := s.p + 1
      let p := if peekIs E st p 0x2b || peekIs E st p 0x2d then p + 1 else p
      pure (.cont { s with exponent := 0x70, p })
  else pure (.cont s)

/-- `switch base { … }`: the class of the digit `c` -/
def numDigit (c : UInt8) (s : NumSt) : NumOut :=
  if s.base = 10 then (if !isDecDigit c then .brk s else .cont s)
  else if s.base = 16 then
    (if (s.exponent = 0 ∧ !isHexDigit c) ∨ (s.exponent ≠ 0 ∧ !isDecDigit c) then
      (if s.dot ∧ s.exponent = 0 then .err .hexMantissaP else .brk s)
     else .cont s)
  else if s.base = 8 then
    (if !isOctDigit c then
      (if (c = 0x38 ∨ c = 0x39) ∧ !s.is0o then .cont { s with base := 10 }
       else if isDecDigit c then .err .invalidDigit
       else .brk s)
     else .cont s)
  else if s.base = 2 then
    (if !isBinDigit c then (if isDecDigit c then .err .invalidDigit else .brk s) else .cont s)
  else .cont s

/-- `case '.'` after a digit (`l.src[p] == '.'`) and the exponent switch that follows it -/
def numPoint (E : Env) (st : St) (s : NumSt) : Except Fault NumOut :=
  if s.dot ∨ s.exponent ≠ 0 then pure (.brk s)
  else
    let s := if s.base = 8 ∧ !s.is0o then { s with base := 10 } else s
    if s.base < 10 then pure (.err .radixPoint)
    else
      let s := { s with dot := true, p := s.p + 1 }
      if s.p = srcLen E st then pure (.brk s) else numExp E st s

/-- what follows a digit (`s.p` already incremented): `_`, `.`, exponent -/
def numAfter (E : Env) (st : St) (s : NumSt) : Except Fault NumOut :=
  if s.p < srcLen E st then do
    let d ← srcAt E st s.p
    if d = 0x5f then   -- '_'
      let s := { s with p := s.p + 1 }
      match peek E st s.p with
      | some x => if !isHexDigit x then pure (.brk s) else pure (.cont s)
      | none => pure (.cont s)
    else if d = 0x2e then numPoint E st s
    else numExp E st s
  else pure (.cont s)

/-- one iteration of the DIGITS loop, entered with `p < len(l.src)` -/
def numStep (E : Env) (st : St) (s : NumSt) : Except Fault NumOut := do
  let c ← srcAt E st s.p
  match numDigit c s with
  | .err k => pure (.err k)
  | .brk s => pure (.brk s)
  | .cont s => numAfter E st { s with p := s.p + 1 }

def numLoop (E : Env) (st : St) : Nat → NumSt → Except Fault (NumSt ⊕ ErrKind)
  | 0, _ => .error .other
  | fuel + 1, s =>
    if s.p < srcLen E st then do
      match ← numStep E st s with
      | .err k => pure (.inr k)
      | .brk s => pure (.inl s)
      | .cont s => numLoop E st fuel s
    else pure (.inl s)

/-- `for _, c := range l.src[1:p] { if c == '8' || c == '9' … }` -/
def has89 (s : Bytes) : Bool := s.any fun c => c == 0x38 || c == 0x39

/-- the `0x`, `0o`, `0b`, `0_` prefix of `lexNumber` (`c0` is `l.src[0]`) -/
def numPrefix (E : Env) (st : St) (c0 : UInt8) : Except Fault (NumSt ⊕ ErrKind) :=
  if c0 = 0x30 ∧ srcLen E st > 1 then do
    let c1 ← srcAt E st 1
    let s : NumSt :=
      if c1 = 0x78 ∨ c1 = 0x58 then { p := 2, base := 16, dot := false, exponent := 0, is0o := false }
      else if c1 = 0x6f ∨ c1 = 0x4f then { p := 2, base := 8, dot := false, exponent := 0, is0o := true }
      else if c1 = 0x5f ∨ isDecDigit c1 then { p := 1, base := 8, dot := false, exponent := 0, is0o := false }
      else if c1 = 0x62 ∨ c1 = 0x42 then { p := 2, base := 2, dot := false, exponent := 0, is0o := false }
      else { p := 0, base := 10, dot := false, exponent := 0, is0o := false }
    if peekIs E st s.p 0x5f then
      match peek E st (s.p + 1) with
      | some x => if !isHexDigit x then pure (.inr .underscoreSep) else pure (.inl { s with p := s.p + 1 })
      | none => pure (.inl { s with p := s.p + 1 })
    else pure (.inl s)
  else pure (.inl { p := 0, base := 10, dot := false, exponent := 0, is0o := false })

/-- the leading `.` of `lexNumber` -/
def numDot (E : Env) (st : St) (s : NumSt) : NumSt ⊕ ErrKind :=
  if peekIs E st s.p 0x2e then
    let s := if s.base = 8 ∧ !s.is0o then { s with base := 10 } else s
    if s.base < 10 then .inr .radixPoint else .inl { s with dot := true, p := s.p + 1 }
  else .inl s

/-- the `switch l.src[p-1]` after the DIGITS loop -/
def numLastCheck (last : UInt8) (s : NumSt) : Option ErrKind :=
  if last = 0x78 ∨ last = 0x58 ∨ last = 0x6f ∨ last = 0x4f ∨ last = 0x62 ∨ last = 0x42 then
    (if s.p = 2 then some .noDigits else none)
  else if last = 0x2e then (if s.p = 3 ∧ s.base = 16 then some .noDigits else none)
  else if last = 0x5f then some .underscoreSep
  else if last = 0x65 ∨ last = 0x45 then (if s.base ≠ 16 then some .expNoDigits else none)
  else if last = 0x70 ∨ last = 0x50 ∨ last = 0x2b ∨ last = 0x2d then some .expNoDigits
  else none

/-- what `lexNumber` does after the DIGITS loop -/
def numFinish (E : Env) (st : St) (c0 : UInt8) (s : NumSt) : R := do
  if peekIs E st s.p 0x5f then fail st .underscoreSep
  else
    let last ← srcAtPred E st s.p
    match numLastCheck last s with
    | some k => fail st k
    | none =>
      if s.base = 16 ∧ s.dot ∧ s.exponent ≠ 0x70 then fail st .hexMantissaP
      else if peekIs E st s.p 0x69 then
        let st ← emit E st tokenImaginary (s.p + 1)
        pure (addCol st (s.p + 1), none)
      else
        let bad ← (if s.p > 0 ∧ s.base = 10 ∧ c0 = 0x30 ∧ !s.dot ∧ s.exponent = 0 then do
            let body ← sliceOf (E.text.drop st.base) 1 s.p      -- `l.src[1:p]`
            pure (has89 body)
          else pure false : Except Fault Bool)
        if bad then fail st .invalidDigit
        else
          let typ := if s.dot ∨ s.exponent ≠ 0 then tokenFloat else tokenInt
          let st ← emit E st typ s.p
          pure (addCol st s.p, none)

/-- `l.lexNumber()` -/
def lexNumber (E : Env) (st : St) : R := do
  let c0 ← srcAt E st 0
  match ← numPrefix E st c0 with
  | .inr k => fail st k
  | .inl s =>
    match numDot E st s with
    | .inr k => fail st k
    | .inl s =>
      match ← numLoop E st (srcLen E st + 2) s with
      | .inr k => fail st k
      | .inl s => numFinish E st c0 s

/-! ## interpreted strings -/

inductive StrOut
  | cont (p cols : Nat)
  | done (p cols : Nat)
  /-- error; `some (p, cols)` when it is reported at the `p`-th byte (`errorAt`) -/
  | err (k : ErrKind) (at_ : Option (Nat × Nat))

/-- accumulate `n` hex digits at `l.src[q..]` (checked accesses): value or the offending digit -/
def hexRun (E : Env) (st : St) : Nat → Nat → Nat → Except Fault (Option Nat)
  | 0, _, acc => pure (some acc)
  | n + 1, q, acc => do
    let c ← srcAt E st q
    match hexVal c with
    | some v => hexRun E st n (q + 1) (acc * 16 + v)
    | none => pure none

/-- `case 'u', 'U'` of the escape switch (`e` is `l.src[p+1]`) -/
def strEscU (E : Env) (st : St) (p cols : Nat) (e : UInt8) : Except Fault StrOut := do
  let n := if e = 0x55 then 8 else 4
  if p + 1 + n ≥ srcLen E st then pure (.err .stringNotTerminated none)
  else
    match ← hexRun E st n (p + 2) 0 with
    | none => pure (.err .hexEscapeChar (some (p, cols)))
    | some r =>
      if badCodePointRune r then pure (.err .invalidCodePoint (some (p, cols)))
      else pure (.cont (p + 2 + n) (cols + 2 + n))

/-- `case 'x'`: `for i := range 2 { if p+2+i == len … ; if !isHexDigit(l.src[p+2+i]) … }` -/
def strEscX (E : Env) (st : St) (p cols : Nat) : Except Fault StrOut := do
  if p + 2 = srcLen E st then pure (.err .stringNotTerminated (some (p, cols)))
  else
    let h0 ← srcAt E st (p + 2)
    if !isHexDigit h0 then pure (.err .hexEscapeChar (some (p, cols)))
    else if p + 3 = srcLen E st then pure (.err .stringNotTerminated (some (p, cols)))
    else
      let h1 ← srcAt E st (p + 3)
      if !isHexDigit h1 then pure (.err .hexEscapeChar (some (p, cols)))
      else pure (.cont (p + 4) (cols + 4))

/-- `case '0', …, '7'` -/
def strEscOct (E : Env) (st : St) (p cols : Nat) (e : UInt8) : Except Fault StrOut := do
  if p + 2 = srcLen E st then pure (.err .stringNotTerminated (some (p, cols)))
  else
    let o0 ← srcAt E st (p + 2)
    if o0 < 0x30 ∨ o0 > 0x37 then pure (.err .octEscapeChar (some (p, cols)))
    else if p + 3 = srcLen E st then pure (.err .stringNotTerminated (some (p, cols)))
    else
      let o1 ← srcAt E st (p + 3)
      if o1 < 0x30 ∨ o1 > 0x37 then pure (.err .octEscapeChar (some (p, cols)))
      else
        let r := ((e.toNat - 0x30) * 8 + (o0.toNat - 0x30)) * 8 + (o1.toNat - 0x30)
        if r > 255 then pure (.err .octTooBig (some (p, cols)))
        else pure (.cont (p + 4) (cols + 4))

/-- `case '\\'` of the string loop -/
def strEscape (E : Env) (st : St) (p cols : Nat) : Except Fault StrOut := do
  if p + 1 = srcLen E st then pure (.err .stringNotTerminated none)
  else
    let e ← srcAt E st (p + 1)
    if e = 0x75 ∨ e = 0x55 then strEscU E st p cols e
    else if isSimpleEscape e 0x22 then pure (.cont (p + 2) (cols + 2))
    else if e = 0x78 then strEscX E st p cols
    else if 0x30 ≤ e ∧ e ≤ 0x37 then strEscOct E st p cols e
    else pure (.err .unknownEscape (some (p, cols)))

/-- one iteration of the loop of `lexInterpretedString` -/
def strStep (E : Env) (st : St) (p cols : Nat) : Except Fault StrOut := do
  if p = srcLen E st then pure (.err .stringNotTerminated none)
  else
    let c ← srcAt E st p
    if c = 0x22 then pure (.done p cols)
    else if c = 0x5c then strEscape E st p cols
    else if c = 0x0a then pure (.err .newlineInString (some (p, cols)))
    else
      let (r, s) := decodeRune (E.text.drop (st.base + p))
      if r = runeError ∧ s = 1 then pure (.err .invalidUTF8 (some (p, cols)))
      else if r = BOM then pure (.err .bom none)
      else pure (.cont (p + s) (cols + 1))

def strLoop (E : Env) (st : St) : Nat → Nat → Nat → Except Fault StrOut
  | 0, _, _ => .error .other
  | fuel + 1, p, cols => do
    match ← strStep E st p cols with
    | .cont p cols => strLoop E st fuel p cols
    | o => pure o

/-- `l.lexInterpretedString()` -/
def lexInterpretedString (E : Env) (st : St) : R := do
  match ← strLoop E st (srcLen E st + 2) 1 1 with
  | .err k none => fail st k
  | .err k (some (p, cols)) => failAt E st p cols k
  | .done p cols =>
    let st ← emit E st tokenInterpretedString (p + 1)
    pure (addCol st (cols + 1), none)
  | .cont _ _ => .error .other

/-! ## raw strings -/

inductive RawOut
  | cont (st : St) (p : Nat)
  | done (st : St) (p : Nat)
  | err (st : St) (k : ErrKind) (at_ : Option Nat)

def rawStep (E : Env) (st : St) (lin col p : Nat) : Except Fault RawOut := do
  if p = srcLen E st then pure (.err { st with line := lin, col := col } .stringNotTerminated none)
  else
    let c ← srcAt E st p
    if c = 0x60 then pure (.done (addCol st 1) p)
    else if c = 0x0a then pure (.cont (newline st) (p + 1))
    else
      let (r, s) := decodeRune (E.text.drop (st.base + p))
      if r = runeError ∧ s = 1 then pure (.err st .invalidUTF8 (some p))
      else if r = BOM then pure (.err st .bom (some p))
      else pure (.cont (addCol st 1) (p + s))

def rawLoop (E : Env) (lin col : Nat) : Nat → St → Nat → Except Fault RawOut
  | 0, _, _ => .error .other
  | fuel + 1, st, p => do
    match ← rawStep E st lin col p with
    | .cont st p => rawLoop E lin col fuel st p
    | o => pure o

/-- `l.lexRawString()` -/
def lexRawString (E : Env) (st : St) : R := do
  let lin := st.line
  let col := st.col
  match ← rawLoop E lin col (srcLen E st + 2) (addCol st 1) 1 with
  | .err st k none => fail st k
  | .err st k (some p) => failAt E st p 0 k
  | .done st p =>
    let st ← emitAt E st lin col tokenRawString (p + 1)
    pure (st, none)
  | .cont _ _ => .error .other

/-! ## rune literals -/

/-- the `case '\\'` of `lexRuneLiteral` (`n` is `len(l.src)`, at least 2): `(p, columns before
the closing quote)` or an error -/
def runeEscape (E : Env) (st : St) (n : Nat) : Except Fault ((Nat × Nat) ⊕ ErrKind) :=
  if n = 2 then pure (.inr .runeNotTerminated)
  else do
    let c ← srcAt E st 2
    if isSimpleEscape c 0x27 then
      (if n < 3 then pure (.inr .runeNotTerminated) else pure (.inl (3, 3)))
    else if c = 0x78 then
      if n < 5 then pure (.inr .runeNotTerminated)
      else do
        let h0 ← srcAt E st 3
        if !isHexDigit h0 then pure (.inr .hexEscapeChar)
        else
          let h1 ← srcAt E st 4
          if !isHexDigit h1 then pure (.inr .hexEscapeChar) else pure (.inl (5, 5))
    else if c = 0x75 ∨ c = 0x55 then
      let k := if c = 0x55 then 8 else 4
      if n < k + 3 then pure (.inr .runeNotTerminated)
      else do
        match ← hexRun E st k 3 0 with
        | none => pure (.inr .hexEscapeChar)
        | some r => if badCodePoint r then pure (.inr .invalidCodePoint) else pure (.inl (k + 3, k + 3))
    else if 0x30 ≤ c ∧ c ≤ 0x37 then
      if n < 5 then pure (.inr .runeNotTerminated)
      else do
        let o0 ← srcAt E st 3
        if o0 < 0x30 ∨ o0 > 0x37 then pure (.inr .octEscapeChar)
        else
          let o1 ← srcAt E st 4
          if o1 < 0x30 ∨ o1 > 0x37 then pure (.inr .octEscapeChar)
          else
            let r := ((c.toNat - 0x30) * 8 + (o0.toNat - 0x30)) * 8 + (o1.toNat - 0x30)
            if r > 255 then pure (.inr .octTooBig) else pure (.inl (5, 5))
    else pure (.inr .unknownEscape)

/-- `switch l.src[1]` of `lexRuneLiteral` -/
def runeBody (E : Env) (st : St) (n : Nat) (c1 : UInt8) : Except Fault ((Nat × Nat) ⊕ ErrKind) :=
  if c1 = 0x5c then runeEscape E st n
  else if c1 = 0x0a then pure (.inr .newlineInRune)
  else if c1 = 0x27 then pure (.inr .emptyRune)
  else do
    let tail ← srcFrom E st 1     -- `l.src[1:]`
    let (r, s) := decodeRune tail
    if r = runeError ∧ s = 1 then pure (.inr .invalidUTF8)
    else if r = BOM then pure (.inr .bom)
    else pure (.inl (s + 1, 2))

/-- `l.lexRuneLiteral()` -/
def lexRuneLiteral (E : Env) (st : St) : R := do
  let n := srcLen E st
  if n = 1 then fail st .runeNotTerminated
  else
    let c1 ← srcAt E st 1
    match ← runeBody E st n c1 with
    | .inr k => fail st k
    | .inl (p, cols) =>
      if !peekIs E st p 0x27 then fail st .runeNotTerminated
      else
        let st ← emit E st tokenRune (p + 1)
        pure (addCol st (cols + 1), none)

/-! ## comments inside code -/

/-- `bytes.IndexAny(s, "\n"+string(BOM))`: walks rune by rune as the real function does -/
def indexNLorBOM : Nat → Bytes → Option Nat
  | 0, _ => none
  | _, [] => none
  | fuel + 1, c :: rest =>
    if c < 0x80 then
      if c = 0x0a then some 0 else (indexNLorBOM fuel rest).map (· + 1)
    else
      let (r, w) := decodeRune (c :: rest)
      if r = BOM then some 0 else (indexNLorBOM fuel ((c :: rest).drop w)).map (· + w)

/-! ## lexCode -/

/-- local variables of `lexCode` -/
structure CodeLoc where
  first : Nat
  macroOrUsing : Bool
  identIndex : Nat
  identTxt : Bytes
  /-- `endLineAsSemicolon` -/
  elas : Bool
  unclosed : Nat

inductive CodeOut
  | cont (st : St) (loc : CodeLoc)
  /-- `return nil` / `return err` -/
  | ret (st : St) (err : Option LexErr)
  /-- `break LOOP` -/
  | brk (st : St) (loc : CodeLoc)

@[inline] def op (E : Env) (st : St) (loc : CodeLoc) (typ n : Nat) (elas : Bool) : Except Fault CodeOut := do
  let st ← emitAdv E st typ n
  pure (.cont st { loc with elas })

/-- lift a literal lexer: on success `endLineAsSemicolon = true` -/
@[inline] def lit (r : R) (loc : CodeLoc) : Except Fault CodeOut := do
  match ← r with
  | (st, some e) => pure (.ret st (some e))
  | (st, none) => pure (.cont st { loc with elas := true })

/-- index of `txt` in `formatTypeName` -/
def formatIndex (txt : Bytes) : Option Nat :=
  let rec go : List Bytes → Nat → Option Nat
    | [], _ => none
    | n :: rest, i => if n == txt then some i else go rest (i + 1)
  go formatTypeName 0

/-- `l.contexts = append(l.contexts, l.ctx); l.bases = append(l.bases, l.base)` -/
@[inline] def pushCtx (st : St) : St :=
  { st with contexts := st.contexts ++ [st.ctx], bases := st.bases ++ [st.lbase] }

/-- `case tokenEnd` with `last = len(l.contexts) - 1 >= 0`, `c = l.contexts[last]`: restore the
context and the base context (`l.bases[last]` is a checked access) and cut both stacks -/
def popCtx (st : St) (c : Nat) : Except Fault St :=
  let last := st.contexts.length - 1
  match st.bases[last]? with
  | none => .error .index
  | some b =>
    let st := { st with ctx := c, contexts := st.contexts.dropLast }
    let st := if st.lbase ≠ b then { st with lbase := b, tagCtx := b } else st
    .ok { st with bases := st.bases.take last }

/-- the bookkeeping after an identifier or keyword when `end == tokenEndStatement` -/
def afterIdent (st : St) (loc : CodeLoc) (typ : Nat) (txt : Bytes) : Except Fault (St × CodeLoc) :=
  if st.totals = loc.first then
    if typ = tokenMacro then
      .ok (pushCtx st, { loc with macroOrUsing := true })
    else if typ = tokenEnd then
      match st.contexts.getLast? with
      | some c => (popCtx st c).map fun st => (st, loc)
      | none => .ok (st, loc)
    else if typ = tokenIf ∨ typ = tokenFor ∨ typ = tokenSwitch ∨ typ = tokenSelect ∨ typ = tokenRaw then
      if st.contexts.length > 0 then .ok (pushCtx st, loc) else .ok (st, loc)
    else .ok (st, loc)
  else if typ = tokenUsing then
    .ok (pushCtx st, { loc with macroOrUsing := true })
  else if loc.macroOrUsing ∧ typ = tokenIdentifier ∧ st.totals ≠ loc.first + 1 then
    .ok (st, { loc with identIndex := st.totals, identTxt := txt })
  else .ok (st, loc)

/-- `for _, c := range l.src[i:i+n] { if c == '\n' { l.newline() } else if isStartChar(c) { l.column++ } }` -/
def walkCode (E : Env) : Nat → Nat → St → Except Fault St
  | 0, _, st => pure st
  | n + 1, i, st => do
    let c ← srcAt E st i
    let st := if c = 0x0a then newline st else if isStartChar c then addCol st 1 else st
    walkCode E n (i + 1) st

/-- one row of the operator table: first byte, required second and third byte (`none`: any),
token type, length, new `endLineAsSemicolon` -/
structure OpEntry where
  c : UInt8
  c1 : Option UInt8
  c2 : Option UInt8
  typ : Nat
  n : Nat
  elas : Bool

/-- the operators and punctuation that `lexCode` emits without further ado, in the order the
code tests them for each first byte (longest first) -/
def opTable : List OpEntry := [
  ⟨0x3d, some 0x3d, none, tokenEqual, 2, false⟩, ⟨0x3d, none, none, tokenSimpleAssignment, 1, false⟩,
  ⟨0x2b, some 0x2b, none, tokenIncrement, 2, true⟩, ⟨0x2b, some 0x3d, none, tokenAdditionAssignment, 2, false⟩,
  ⟨0x2b, none, none, tokenAddition, 1, false⟩,
  ⟨0x2d, some 0x2d, none, tokenDecrement, 2, true⟩, ⟨0x2d, some 0x3d, none, tokenSubtractionAssignment, 2, false⟩,
  ⟨0x2d, none, none, tokenSubtraction, 1, false⟩,
  ⟨0x2a, some 0x3d, none, tokenMultiplicationAssignment, 2, false⟩, ⟨0x2a, none, none, tokenMultiplication, 1, false⟩,
  ⟨0x26, some 0x26, none, tokenAnd, 2, false⟩, ⟨0x26, some 0x5e, some 0x3d, tokenAndNotAssignment, 3, false⟩,
  ⟨0x26, some 0x5e, none, tokenAndNot, 2, false⟩, ⟨0x26, some 0x3d, none, tokenAndAssignment, 2, false⟩,
  ⟨0x26, none, none, tokenAmpersand, 1, false⟩,
  ⟨0x7c, some 0x7c, none, tokenOr, 2, false⟩, ⟨0x7c, some 0x3d, none, tokenOrAssignment, 2, false⟩,
  ⟨0x7c, none, none, tokenVerticalBar, 1, false⟩,
  ⟨0x21, some 0x3d, none, tokenNotEqual, 2, false⟩, ⟨0x21, none, none, tokenNot, 1, false⟩,
  ⟨0x3c, some 0x3d, none, tokenLessOrEqual, 2, false⟩, ⟨0x3c, some 0x2d, none, tokenArrow, 2, false⟩,
  ⟨0x3c, some 0x3c, some 0x3d, tokenLeftShiftAssignment, 3, false⟩, ⟨0x3c, some 0x3c, none, tokenLeftShift, 2, false⟩,
  ⟨0x3c, none, none, tokenLess, 1, false⟩,
  ⟨0x3e, some 0x3d, none, tokenGreaterOrEqual, 2, false⟩,
  ⟨0x3e, some 0x3e, some 0x3d, tokenRightShiftAssignment, 3, false⟩, ⟨0x3e, some 0x3e, none, tokenRightShift, 2, false⟩,
  ⟨0x3e, none, none, tokenGreater, 1, false⟩,
  ⟨0x28, none, none, tokenLeftParenthesis, 1, false⟩, ⟨0x29, none, none, tokenRightParenthesis, 1, true⟩,
  ⟨0x5b, none, none, tokenLeftBracket, 1, false⟩, ⟨0x5d, none, none, tokenRightBracket, 1, true⟩,
  ⟨0x5e, some 0x3d, none, tokenXorAssignment, 2, false⟩, ⟨0x5e, none, none, tokenXor, 1, false⟩,
  ⟨0x3a, some 0x3d, none, tokenDeclaration, 2, false⟩, ⟨0x3a, none, none, tokenColon, 1, false⟩,
  ⟨0x2c, none, none, tokenComma, 1, false⟩, ⟨0x3b, none, none, tokenSemicolon, 1, false⟩]

def OpEntry.matches (e : OpEntry) (c : UInt8) (c1 c2 : Option UInt8) : Bool :=
  e.c == c && (e.c1.isNone || e.c1 == c1) && (e.c2.isNone || e.c2 == c2)

/-- the first row of `opTable` that matches (`c` is `l.src[0]`, `c1` and `c2` the next two
bytes if present): token type, length and the new `endLineAsSemicolon` -/
def plainOp (c : UInt8) (c1 c2 : Option UInt8) : Option (Nat × Nat × Bool) :=
  (opTable.find? (·.matches c c1 c2)).map fun e => (e.typ, e.n, e.elas)

/-- `if endLineAsSemicolon { l.emit(tokenSemicolon, 0); endLineAsSemicolon = false }` -/
def autoSemi (E : Env) (st : St) (loc : CodeLoc) (cond : Bool) : Except Fault (St × CodeLoc) :=
  if cond ∧ loc.elas then do
    let st ← emit E st tokenSemicolon 0
    pure (st, { loc with elas := false })
  else pure (st, loc)

/-- `case '/'` of `lexCode`: comments and the division operators -/
def codeSlash (E : Env) (st : St) (loc : CodeLoc) (c1 : Option UInt8) : Except Fault CodeOut := do
  if c1 = some 0x2f then
    -- line comment
    match indexNLorBOM (srcLen E st + 1) (E.text.drop st.base) with
    | none => pure (.brk st loc)
    | some p =>
      let x ← srcAt E st p
      if x ≠ 0x0a then pure (.ret st (some (errorf st .bom)))
      else
        let body ← sliceOf (E.text.drop st.base) 0 p      -- `for _, c := range l.src[:p]`
        let st := addCol st (body.countP isStartChar)
        let st ← skip E st p
        let (st, loc) ← autoSemi E st loc true
        let st := newline st
        let st ← skip E st 1
        pure (.cont st loc)
  else if c1 = some 0x2a then
    -- block comment
    let rest ← srcFrom E st 2                             -- `l.src[2:]`
    match indexSub rest [0x2a, 0x2f] with
    | none => pure (.ret st (some (errorf st .commentNotTerminated)))
    | some p =>
      let comment ← sliceOf (E.text.drop st.base) 0 (p + 4)     -- `l.src[:p+4]`
      let nl := indexNLorBOM (comment.length + 1) comment
      let bad ← (match nl with
        | some i => (getAt comment i).map (· ≠ 0x0a)
        | none => pure false : Except Fault Bool)
      if bad then pure (.ret st (some (errorf st .bom)))
      else
        let (st, loc) ← autoSemi E st loc nl.isSome
        let st ← walkCode E (p + 4) 0 st
        let st ← skip E st (p + 4)
        pure (.cont st loc)
  else if c1 = some 0x3d then op E st loc tokenDivisionAssignment 2 false
  else op E st loc tokenDivision 1 false

/-- `case '%'` of `lexCode`: `%}`, `%%}` and the modulo operators -/
def codePercent (E : Env) (endT : Nat) (st : St) (loc : CodeLoc) (c1 c2 : Option UInt8) : Except Fault CodeOut := do
  if c1 = some 0x7d ∧ endT = tokenEndStatement then
    -- a macro declaration with an explicit result type or a using statement with a type
    let st := if loc.identIndex = st.totals then
        (match formatIndex loc.identTxt with
         | some i => { st with ctx := i, lbase := i, tagCtx := i }
         | none => st)
      else st
    pure (.ret st none)
  else if c1 = some 0x7d ∧ (endT = tokenRightBraces ∨ endT = tokenEndStatements) then
    pure (.ret st (some (errorf st .unexpectedEndStmt)))
  else if c1 = some 0x25 ∧ c2 = some 0x7d ∧ endT = tokenEndStatements then do
    let (st, _) ← autoSemi E st loc true
    pure (.ret st none)
  else if c1 = some 0x25 ∧ c2 = some 0x7d ∧ (endT = tokenRightBraces ∨ endT = tokenEndStatement) then
    pure (.ret st (some (errorf st .unexpectedEndStmts)))
  else if c1 = some 0x3d then op E st loc tokenModuloAssignment 2 false
  else op E st loc tokenModulo 1 false

/-- `default:` of `lexCode`: keyword or identifier -/
def codeIdent (E : Env) (endT : Nat) (st : St) (loc : CodeLoc) (c : UInt8) : Except Fault CodeOut := do
  let sz : Except Fault (Nat ⊕ CodeOut) :=
    if c = 0x5f ∨ (c < 0x80 ∧ E.U.isLetter c.toNat) then pure (.inl 1)
    else
      let (r, s) := decodeRune (E.text.drop st.base)
      if !E.U.isLetter r then
        if r = BOM then
          if st.base = 0 then do
            let st ← skip E st 3
            pure (.inr (.cont st loc))
          else pure (.inr (.ret st (some (errorf st .bom))))
        else if E.U.isDigit r then pure (.inr (.ret st (some (errorf st .identDigit))))
        else pure (.inr (.ret st (some (errorf st .invalidChar))))
      else pure (.inl s)
  match ← sz with
  | .inr o => pure o
  | .inl s =>
    let (st, typ, txt) ← lexIdent E st s
    let (st, loc) ← (if endT = tokenEndStatement then afterIdent st loc typ txt else pure (st, loc)
                      : Except Fault (St × CodeLoc))
    let elas := typ = tokenBreak ∨ typ = tokenContinue ∨ typ = tokenFallthrough ∨ typ = tokenReturn ∨
                typ = tokenIdentifier
    pure (.cont st { loc with elas })

/-- one iteration of the loop of `lexCode`, entered with `len(l.src) > 0` -/
def codeStep (E : Env) (endT : Nat) (st : St) (loc : CodeLoc) : Except Fault CodeOut := do
  let c ← srcAt E st 0
  let c1 := peek E st 1
  let c2 := peek E st 2
  match plainOp c c1 c2 with
  | some (typ, n, elas) => op E st loc typ n elas
  | none =>
    if c = 0x22 then lit (lexInterpretedString E st) loc
    else if c = 0x60 then lit (lexRawString E st) loc
    else if c = 0x27 then lit (lexRuneLiteral E st) loc
    else if c = 0x2e then   -- '.'
      match c1 with
      | some d =>
        if 0x30 ≤ d ∧ d ≤ 0x39 then lit (lexNumber E st) loc
        else if d = 0x2e ∧ c2 = some 0x2e then op E st loc tokenEllipsis 3 false
        else op E st loc tokenPeriod 1 false
      | none => op E st loc tokenPeriod 1 false
    else if 0x30 ≤ c ∧ c ≤ 0x39 then lit (lexNumber E st) loc
    else if c = 0x2f then codeSlash E st loc c1
    else if c = 0x25 then codePercent E endT st loc c1 c2
    else if c = 0x7b then do   -- '{'
      let st ← emitAdv E st tokenLeftBrace 1
      pure (.cont st { loc with elas := false,
                                unclosed := if endT = tokenRightBraces then loc.unclosed + 1 else loc.unclosed })
    else if c = 0x7d then   -- '}'
      if endT = tokenRightBraces ∧ c1 = some 0x7d ∧
          (loc.unclosed = 0 ∨ (loc.unclosed = 1 ∧ ¬ (c2 = some 0x7d))) then
        pure (.ret st none)
      else do
        let unclosed := if endT = tokenRightBraces ∧ loc.unclosed > 0 then loc.unclosed - 1 else loc.unclosed
        let st ← emitAdv E st tokenRightBrace 1
        pure (.cont st { loc with elas := true, unclosed })
    else if c = 0x20 ∨ c = 0x09 ∨ c = 0x0d then do
      let st ← skip E st 1
      pure (.cont (addCol st 1) loc)
    else if c = 0x0a then do
      let (st, loc) ← autoSemi E st loc true
      let st := newline st
      let st ← skip E st 1
      pure (.cont st loc)
    else if c = 0x00 then pure (.ret st (some (errorf st .nul)))
    else codeIdent E endT st loc c

def codeLoop (E : Env) (endT : Nat) : Nat → St → CodeLoc → Except Fault CodeOut
  | 0, _, _ => .error .other
  | fuel + 1, st, loc =>
    if srcLen E st > 0 then do
      match ← codeStep E endT st loc with
      | .cont st loc => codeLoop E endT fuel st loc
      | o => pure o
    else pure (.brk st loc)

/-- `l.lexCode(end)` -/
def lexCode (E : Env) (endT : Nat) (st : St) : R := do
  if srcLen E st = 0 then
    if endT ≠ tokenEOF then fail st .unexpectedEOF else pure (st, none)
  else
    let loc : CodeLoc := { first := st.totals + 1, macroOrUsing := false, identIndex := 0, identTxt := [],
                           elas := false, unclosed := 0 }
    match ← codeLoop E endT (srcLen E st + 2) st loc with
    | .ret st e => pure (st, e)
    | .cont _ _ => .error .other
    | .brk st loc =>
      if endT ≠ tokenEOF then fail st .unexpectedEOF
      else if loc.elas then do
        let st ← emit E st tokenSemicolon 0
        pure (st, none)
      else pure (st, none)

end ScriggoV.Lexer
