import ScriggoV.Model.Lexer.Code
/-! # Model of lexer.go: the template layer

`scan`'s main loop with its contexts, `lexComment`, `skipRawContent`/`endRawIndex`/
`skipRawSpaces`, `scanTag`, `scanAttribute`, `scanCodeBlock`, `isMarkdownStartURL/EndURL`,
`isEndScript/Style`, `containsURL`, `lexShow`/`lexStatement`/`lexStatements`, the shebang line
and the final tokens. Core Lean only. -/
namespace ScriggoV.Lexer
open ScriggoV ScriggoV.Gen.LexTables

/-! ## small helpers -/

/-- conjunction with Go's short-circuit evaluation over checked accesses: a fault to the right
of the first `false` is never raised -/
def allM : List (Except Fault Bool) → Except Fault Bool
  | [] => .ok true
  | .ok true :: rest => allM rest
  | .ok false :: _ => .ok false
  | .error f :: _ => .error f

/-- `pred(s[i])` with a checked access -/
@[inline] def at_ (s : Bytes) (i : Nat) (pred : UInt8 → Bool) : Except Fault Bool :=
  (getAt s i).map pred

@[inline] def eqCI (lo : UInt8) (c : UInt8) : Bool := c == lo || c == lo - 32

/-- `isEndStyle(s)` -/
def isEndStyle (s : Bytes) : Except Fault Bool :=
  allM [.ok (s.length ≥ 8), at_ s 0 (· == 0x3c), at_ s 1 (· == 0x2f),
        at_ s 7 (fun c => c == 0x3e || isSpace c),
        at_ s 2 (eqCI 0x73), at_ s 3 (eqCI 0x74), at_ s 4 (eqCI 0x79), at_ s 5 (eqCI 0x6c), at_ s 6 (eqCI 0x65)]

/-- `isEndScript(s)` -/
def isEndScript (s : Bytes) : Except Fault Bool :=
  allM [.ok (s.length ≥ 9), at_ s 0 (· == 0x3c), at_ s 1 (· == 0x2f),
        at_ s 8 (fun c => c == 0x3e || isSpace c),
        at_ s 2 (eqCI 0x73), at_ s 3 (eqCI 0x63), at_ s 4 (eqCI 0x72), at_ s 5 (eqCI 0x69), at_ s 6 (eqCI 0x70),
        at_ s 7 (eqCI 0x74)]

/-- `isMarkdownStartURL(s)` -/
def isMarkdownStartURL (s : Bytes) : Bool := hasPrefix s https || hasPrefix s http

/-- `isMarkdownEndURL(s)` -/
def isMarkdownEndURL (s : Bytes) : Except Fault Bool := do
  if s.length = 0 then pure true
  else
    let c ← getAt s 0
    let c ← (if c = 0x2e ∨ c = 0x3f then
        (if s.length = 1 then pure none else (getAt s 1).map some)
      else pure (some c) : Except Fault (Option UInt8))
    match c with
    | none => pure true
    | some c =>
      pure (isASCIISpace c || c == 0x3c || c == 0x21 || c == 0x2c || c == 0x3b || c == 0x2e || c == 0x3a ||
            c == 0x29 || c == 0x27 || c == 0x22 || c == 0x7e)

/-- walk `n` bytes of `l.src` from `i` updating line and column
(`if c == '\n' { l.newline() } else if isStartChar(c) { l.column++ }`) -/
abbrev walk := walkCode

/-! ## containsURL -/

def bytesContains (s sub : Bytes) : Bool := (indexSub s sub).isSome

/-- `containsURL(tag, attr)` -/
def containsURL (tag attr : Bytes) : Bool :=
  let B := strBytes
  -- namespace / data- prefix
  let (early, attr) : Bool × Bytes :=
    match indexByte attr 0x3a with
    | some p => if attr.take p == B "xmlns" then (true, attr) else (false, attr.drop (p + 1))
    | none =>
      if hasPrefix attr (B "data-") then
        let a := attr.drop 5
        if bytesContains a (B "src") || bytesContains a (B "url") || bytesContains a (B "uri") then (true, a)
        else (false, a)
      else (false, attr)
  if early then true
  else if attr == B "action" then tag == B "form"
  else if attr == B "cite" then tag == B "blockquote" || tag == B "del" || tag == B "ins" || tag == B "q"
  else if attr == B "data" then tag == B "object"
  else if attr == B "formaction" then tag == B "button" || tag == B "input"
  else if attr == B "href" then tag == B "a" || tag == B "area" || tag == B "link" || tag == B "base"
  else if attr == B "longdesc" then tag == B "img"
  else if attr == B "manifest" then tag == B "html"
  else if attr == B "poster" then tag == B "video"
  else if attr == B "src" then
    tag == B "audio" || tag == B "embed" || tag == B "iframe" || tag == B "img" || tag == B "input" ||
    tag == B "script" || tag == B "source" || tag == B "track" || tag == B "video"
  else if attr == B "srcset" then tag == B "img" || tag == B "source"
  else if attr == B "xmlns" then true
  else false

/-! ## lexComment -/

/-- the first loop of `lexComment`: `some p` is the length of the comment, `none` "not terminated" -/
def commentLoop (E : Env) (st : St) : Nat → Nat → Nat → Except Fault (Option Nat)
  | 0, _, _ => .error .other
  | fuel + 1, nested, p => do
    let s ← srcFrom E st p                       -- `l.src[p:]`
    match indexByte s 0x23 with
    | none => pure none
    | some i =>
      let isOpen ← (if i > 0 then (srcAt E st (p + i - 1)).map (· == 0x7b) else pure false : Except Fault Bool)
      if isOpen then commentLoop E st fuel (nested + 1) (p + i + 1)
      else
        let isClose ← (if i + 1 < srcLen E st - p then (srcAt E st (p + i + 1)).map (· == 0x7d) else pure false
                        : Except Fault Bool)
        if isClose then
          if nested = 0 then pure (some (p + 1 + i + 1)) else commentLoop E st fuel (nested - 1) (p + 1 + i + 1)
        else commentLoop E st fuel nested (p + i + 1)

/-- `l.lexComment()` -/
def lexComment (E : Env) (st : St) : R := do
  match ← commentLoop E st (srcLen E st + 2) 0 2 with
  | none => fail st .commentNotTerminated
  | some p =>
    let line := st.line
    let col := st.col
    let st := addCol st 2
    let st ← walk E (p - 2 - 2) 2 st              -- `for i := 2; i < p-2; i++`
    let st := addCol st 2
    let st ← emitAt E st line col tokenComment p
    pure (st, none)

/-! ## raw content -/

/-- `skipRawSpaces(src, p)` -/
def skipRawSpaces (U : Unicode) (src : Bytes) : Nat → Nat → Nat
  | 0, p => p
  | fuel + 1, p =>
    if p < src.length then
      let (r, s) := decodeRune (src.drop p)
      if r = 0x20 ∨ (r = runeError ∧ s = 1) ∨ !U.isGraphic r then skipRawSpaces U src fuel (p + s) else p
    else p

/-- the body of `endRawIndex`'s loop after `'{'` was found at `p`: `true` if an end statement
starts at `p` -/
def isRawEnd (U : Unicode) (src marker : Bytes) (p : Nat) : Except Fault Bool := do
  let fuel := src.length + 1
  -- Read '{%'.
  if src.length < p + 2 then pure false
  else if (← getAt src (p + 1)) ≠ 0x25 then pure false
  else
    let i := skipRawSpaces U src fuel (p + 2)
    -- Read 'end'.
    if !(← allM [.ok (¬ src.length < i + 3), at_ src i (· == 0x65), at_ src (i + 1) (· == 0x6e),
                 at_ src (i + 2) (· == 0x64)]) then pure false
    else
      let i := skipRawSpaces U src fuel (i + 3)
      -- Read 'raw'.
      let prev ← (if i = 0 then .error .index else getAt src (i - 1) : Except Fault UInt8)
      let isRaw ← allM [.ok (isSpace prev), .ok (src.length ≥ i + 3), at_ src i (· == 0x72),
                        at_ src (i + 1) (· == 0x61), at_ src (i + 2) (· == 0x77)]
      let i := if isRaw then skipRawSpaces U src fuel (i + 3) else i
      -- Read the marker.
      let mi : Except Fault (Option Nat) :=
        if marker.length > 0 then
          if src.length < i + marker.length then pure none
          else do
            let m ← sliceOf src i (i + marker.length)
            if m ≠ marker then pure none else pure (some (skipRawSpaces U src fuel (i + marker.length)))
        else pure (some i)
      match ← mi with
      | none => pure false
      | some i =>
        -- Read '%}'.
        allM [.ok (¬ src.length < i + 2), at_ src i (· == 0x25), at_ src (i + 1) (· == 0x7d)]

/-- `endRawIndex(src, marker)`; `none` is -1 -/
def endRawIndex (U : Unicode) (src marker : Bytes) : Nat → Nat → Except Fault (Option Nat)
  | 0, _ => .error .other
  | fuel + 1, i =>
    if i < src.length then
      match indexByte (src.drop i) 0x7b with
      | none => pure none
      | some j => do
        let p := i + j
        if ← isRawEnd U src marker p then pure (some p) else endRawIndex U src marker fuel (p + 1)
    else pure none

/-- `l.skipRawContent()` -/
def skipRawContent (E : Env) (st : St) (marker : Bytes) : Except Fault (St × Nat) := do
  let src := E.text.drop st.base
  match ← endRawIndex E.U src marker (src.length + 2) 0 with
  | some 0 => pure (st, 0)
  | r =>
    let p := r.getD (srcLen E st)
    let st ← walk E p 0 st
    pure (st, p)

/-! ## tags and attributes -/

def scanTagLoop (E : Env) : Nat → St → Nat → Except Fault (St × Nat)
  | 0, _, _ => .error .other
  | fuel + 1, st, p =>
    if p < srcLen E st then do
      let c ← srcAt E st p
      if c = 0x3e ∨ c = 0x2f ∨ isASCIISpace c ∨ c = 0x7b then pure (st, p)
      else
        let st := addCol st 1
        if c < 0x80 then scanTagLoop E fuel st (p + 1)
        else
          let (_, size) := decodeRune (E.text.drop (st.base + p))
          scanTagLoop E fuel st (p + size)
    else pure (st, p)

/-- `l.scanTag(p)` -/
def scanTag (E : Env) (st : St) (p : Nat) : Except Fault (St × Bytes × Nat) := do
  if p = srcLen E st then pure (st, [], p)
  else
    let c ← srcAt E st p
    if !isAlpha c then pure (st, [], p)
    else
      let (st, q) ← scanTagLoop E (srcLen E st + 1) (addCol st 1) (p + 1)
      let name ← sliceOf (E.text.drop st.base) p q       -- `l.src[s:p]`
      pure (st, bytesToLower E.U name, q)

inductive AttrName
  | stop (st : St) (p : Nat)       -- `return "", p`
  | done (st : St) (p : Nat)       -- loop ended (by break or `p == len`)

/-- the name loop of `scanAttribute` -/
def attrNameLoop (E : Env) : Nat → St → Nat → Except Fault AttrName
  | 0, _, _ => .error .other
  | fuel + 1, st, p =>
    if p < srcLen E st then do
      let c ← srcAt E st p
      if c = 0x3d ∨ isASCIISpace c then pure (.done st p)
      else if c ≤ 0x1f ∨ c = 0x22 ∨ c = 0x27 ∨ c = 0x3e ∨ c = 0x2f ∨ c = 0x7f then pure (.stop st p)
      else
        let ns : Option Nat :=      -- `none`: return "", p;  `some p'`: p after `p += size - 1`
          if c ≥ 0x80 then
            let (r, size) := decodeRune (E.text.drop (st.base + p))
            if r = runeError ∧ size = 1 then none
            else if (0x7f ≤ r ∧ r ≤ 0x9f) ∨ E.U.isNonchar r then none
            else some (p + size - 1)
          else some p
        match ns with
        | none => pure (.stop st p)
        | some p =>
          -- `if c == '{' && p+1 < len(l.src) { switch l.src[p+1] { case '{', '%', '#': return "", p } }`
          let d := peek E st (p + 1)
          if c = 0x7b ∧ (d = some 0x7b ∨ d = some 0x25 ∨ d = some 0x23) then pure (.stop st p)
          else attrNameLoop E fuel (addCol st 1) (p + 1)
    else pure (.done st p)

inductive AttrEq
  | stop (st : St) (p : Nat)
  | done (st : St) (p : Nat)

/-- the `=` loop of `scanAttribute` -/
def attrEqLoop (E : Env) : Nat → St → Nat → Except Fault AttrEq
  | 0, _, _ => .error .other
  | fuel + 1, st, p =>
    if p < srcLen E st then do
      let c ← srcAt E st p
      if c = 0x3d then pure (.done (addCol st 1) (p + 1))
      else if isASCIISpace c then
        attrEqLoop E fuel (if c = 0x0a then newline st else addCol st 1) (p + 1)
      else pure (.stop st p)
    else pure (.done st p)

/-- the quote loop of `scanAttribute` -/
def attrQuoteLoop (E : Env) : Nat → St → Nat → Except Fault AttrEq
  | 0, _, _ => .error .other
  | fuel + 1, st, p =>
    if p < srcLen E st then do
      let c ← srcAt E st p
      if c = 0x3e then pure (.stop st p)
      else if isASCIISpace c then
        attrQuoteLoop E fuel (if c = 0x0a then newline st else addCol st 1) (p + 1)
      else pure (.done st p)
    else pure (.done st p)

/-- `l.scanAttribute(p)` -/
def scanAttribute (E : Env) (st : St) (p : Nat) : Except Fault (St × Bytes × Nat) := do
  let s := p
  let fuel := srcLen E st + 1
  match ← attrNameLoop E fuel st p with
  | .stop st p => pure (st, [], p)
  | .done st p =>
    if p = s ∨ p = srcLen E st then pure (st, [], p)
    else
      let name ← sliceOf (E.text.drop st.base) s p
      let name := bytesToLower E.U name
      match ← attrEqLoop E fuel st p with
      | .stop st p => pure (st, [], p)
      | .done st p =>
        match ← attrQuoteLoop E fuel st p with
        | .stop st p => pure (st, [], p)
        | .done st p =>
          if p = srcLen E st then pure (st, [], p) else pure (st, name, p)

/-- `l.scanCodeBlock(p)`: next position, next context, and the lexer with its column advanced -/
def scanCodeBlock (E : Env) (st : St) (p : Nat) : Nat × Nat × St :=
  match peek E st p with
  | some 0x09 => (p + 1, ContextTabCodeBlock, addCol st 1)
  | some 0x20 =>
    -- `p+3 < len(l.src) && l.src[p+1] == ' ' && l.src[p+2] == ' ' && l.src[p+3] == ' '`
    if p + 3 < srcLen E st ∧ peekIs E st (p + 1) 0x20 ∧ peekIs E st (p + 2) 0x20 ∧ peekIs E st (p + 3) 0x20 then
      (p + 4, ContextSpacesCodeBlock, addCol st 4)
    else (p, ContextMarkdown, st)
  | _ => (p, ContextMarkdown, st)

/-! ## lexShow / lexStatement / lexStatements -/

/-- `emit(open, n); column += n; lexCode(close); emit(close, n); column += n` -/
def lexBlock (E : Env) (st : St) (openT closeT n : Nat) : R := do
  let st ← emitAdv E st openT n
  match ← lexCode E closeT st with
  | (st, some e) => pure (st, some e)
  | (st, none) =>
    let st ← emitAdv E st closeT n
    pure (st, none)

def lexShow (E : Env) (st : St) : R := lexBlock E st tokenLeftBraces tokenRightBraces 2
def lexStatement (E : Env) (st : St) : R := lexBlock E st tokenStartStatement tokenEndStatement 2
def lexStatements (E : Env) (st : St) : R := lexBlock E st tokenStartStatements tokenEndStatements 3

/-! ## the main loop -/

/-- local variables of the template branch of `scan` -/
structure Loop where
  p : Nat
  lin : Nat
  tcol : Nat
  quote : UInt8
  emittedURL : Bool
  /-- 0 none, 1 line, 2 block -/
  jsComment : Nat
  spacesOnly : Bool
  deriving Repr

/-- what the cases of `switch l.ctx` read of `l.base`: `fileCtx` is `l.base` itself and `isHTML`
the value of the closure `isHTML()`. `l.base` changes only inside `lexCode`, so both are fixed
during one `switch`; `step` computes them anew at every iteration (`fixedOf`). -/
structure Fixed where
  fileCtx : Nat
  isHTML : Bool

/-- `l.base` and `isHTML()` at the current iteration -/
@[inline] def fixedOf (st : St) : Fixed :=
  { fileCtx := st.lbase, isHTML := st.lbase = ContextHTML ∨ st.lbase = ContextMarkdown }

inductive Out
  | cont (st : St) (lp : Loop)
  | stop (st : St) (lp : Loop) (err : LexErr)

/-- what a `case` of `switch l.ctx` does: Go `continue` (`next`) or run to the tail (`fall`) -/
inductive CaseOut
  | next (st : St) (lp : Loop)
  | fall (st : St) (lp : Loop)

/-- `if p > 0 { l.emitAtLineColumn(lin, col, tokenText, p) }` -/
@[inline] def flushText (E : Env) (st : St) (lp : Loop) : Except Fault St :=
  if lp.p > 0 then emitAt E st lp.lin lp.tcol tokenText lp.p else pure st

/-- `p = 0; lin = l.line; col = l.column` -/
@[inline] def resetTok (st : St) (lp : Loop) : Loop := { lp with p := 0, lin := st.line, tcol := st.col }

/-- `if i := bytes.Index(l.src[p:], cdataEnd); i < 0 { t = len(l.src) } else { t = p + i + 2 }` -/
def cdataEndAt (rest : Bytes) (p n : Nat) : Nat :=
  match indexSub rest cdataEnd with
  | none => n
  | some i => p + i + 2

/-- the `'<'` branch shared by the HTML and Markdown cases -/
def caseLT (E : Env) (st : St) (lp : Loop) : Except Fault CaseOut := do
  let p := lp.p
  -- <![CDATA[...]]>
  let cdata ← (if st.ctx = ContextHTML ∧ p + 8 < srcLen E st then do
      let d ← srcAt E st (p + 1)
      if d = 0x21 then pure (hasPrefix (E.text.drop (st.base + p)) cdataStart) else pure false
    else pure false : Except Fault Bool)
  if cdata then
    let p := p + 6
    let st := addCol st 6
    let rest ← srcFrom E st p
    let t := cdataEndAt rest p (srcLen E st)
    let st ← walk E (t - p) p st
    pure (.next st { lp with p := if p < t then t else p })
  else
    -- start tag
    let p := p + 1
    let st := addCol st 1
    let (st, name, p) ← scanTag E st p
    let st := { st with tagName := name }
    let st :=
      if name ≠ [] then
        let st := { st with ctx := ContextTag }
        if name = strBytes "script" then { st with tagCtx := ContextJS }
        else if name = strBytes "style" then { st with tagCtx := ContextCSS }
        else st
      else st
    pure (.next st { lp with p })

/-- `case ast.ContextMarkdown` up to its `fallthrough` -/
def caseMarkdown (E : Env) (st : St) (lp : Loop) : Except Fault CaseOut := do
  let rest ← srcFrom E st lp.p
  if lp.emittedURL then
    if ← isMarkdownEndURL rest then
      let st ← flushText E st lp
      let st ← emit E st tokenEndURL 0
      pure (.fall st { resetTok st lp with emittedURL := false })
    else pure (.fall st lp)
  else
    let okPrev ← (if lp.p = 0 then pure true else (srcAtPred E st lp.p).map (fun c => !isAlpha c)
                   : Except Fault Bool)
    if okPrev ∧ isMarkdownStartURL rest then
      let st ← flushText E st lp
      let st ← emit E st tokenStartURL 0
      let c4 ← srcAt E st 4
      let p := if c4 = 0x73 then 8 else 7
      pure (.next (addCol st p) { lp with emittedURL := true, p, lin := st.line, tcol := st.col })
    else pure (.fall st lp)

/-- `case ast.ContextTag` -/
def caseTag (E : Env) (F : Fixed) (st : St) (lp : Loop) (c : UInt8) : Except Fault CaseOut := do
  if c = 0x3e ∨ (c = 0x2f ∧ peekIs E st lp.p 0x3e) then
    -- end tag
    let st := { st with ctx := st.tagCtx, tagName := [], tagCtx := F.fileCtx }
    if c = 0x2f then pure (.fall (addCol st 1) { lp with p := lp.p + 1 }) else pure (.fall st lp)
  else if !isASCIISpace c then
    let (st, attr, next) ← scanAttribute E st lp.p
    let st := { st with tagAttr := attr }
    if next > lp.p then
      let lp := { lp with p := next }
      match (if attr ≠ [] then peek E st next else none) with
      | some q =>
        -- start attribute value
        let (st, lp) := if q = 0x22 ∨ q = 0x27 then (addCol st 1, { lp with quote := q, p := lp.p + 1 }) else (st, lp)
        let actx := if lp.quote = 0 then ContextUnquotedAttr else ContextQuotedAttr
        if containsURL st.tagName st.tagAttr then
          let st ← emitAt E st lp.lin lp.tcol tokenText lp.p
          let st := { st with ctx := actx }
          let st ← emit E st tokenStartURL 0
          pure (.next st { resetTok st lp with emittedURL := true })
        else
          pure (.next { st with tagIndex := st.base + lp.p, ctx := actx } lp)
      | none => pure (.next st lp)
    else pure (.fall st lp)
  else pure (.fall st lp)

/-- the `type` attribute of `script` and `style` -/
def typeAttr (E : Env) (F : Fixed) (st : St) (p : Nat) : Except Fault St := do
  if st.tagAttr = strBytes "type" then
    if st.tagName = strBytes "script" then
      let typ ← sliceOf E.text st.tagIndex (st.base + p)
      if typ = moduleType then pure st
      else
        let typ := trimSpace E.U typ
        if typ.length > 0 then
          if equalFold typ jsonLDMimeType then pure { st with tagCtx := ContextJSON }
          else if !equalFold typ jsMimeType then pure { st with tagCtx := F.fileCtx }
          else pure st
        else pure st
    else if st.tagName = strBytes "style" then
      let typ ← sliceOf E.text st.tagIndex (st.base + p)
      let typ := trimSpace E.U typ
      if typ.length > 0 ∧ !equalFold typ cssMimeType then pure { st with tagCtx := F.fileCtx } else pure st
    else pure st
  else pure st

/-- `case ast.ContextQuotedAttr, ast.ContextUnquotedAttr` -/
def caseAttr (E : Env) (F : Fixed) (st : St) (lp : Loop) (c : UInt8) : Except Fault CaseOut := do
  if (st.ctx = ContextQuotedAttr ∧ c = lp.quote) ∨
     (st.ctx = ContextUnquotedAttr ∧ (c = 0x3e ∨ isASCIISpace c)) then
    -- end attribute
    let lp := { lp with quote := 0 }
    let (st, lp) ← (if lp.emittedURL then do
        let st ← flushText E st lp
        let st ← emit E st tokenEndURL 0
        pure (st, { resetTok st lp with emittedURL := false })
      else do
        let st ← typeAttr E F st lp.p
        pure (st, lp) : Except Fault (St × Loop))
    let st := { st with ctx := ContextTag, tagAttr := [], tagIndex := 0 }
    if c = 0x3e then pure (.next st lp) else pure (.fall st lp)
  else pure (.fall st lp)

/-- `isHTML && c == '<' && isEndStyle(l.src[p:])` -/
def endStyleAt (E : Env) (F : Fixed) (st : St) (lp : Loop) (c : UInt8) : Except Fault Bool :=
  if F.isHTML ∧ c = 0x3c then do
    let rest ← srcFrom E st lp.p
    isEndStyle rest
  else pure false

/-- `case ast.ContextCSS` and `case ast.ContextCSSString` -/
def caseCSS (E : Env) (F : Fixed) (st : St) (lp : Loop) (c : UInt8) : Except Fault CaseOut := do
  if st.ctx = ContextCSS then
    if ← endStyleAt E F st lp c then
      pure (.fall (addCol { st with ctx := F.fileCtx } 6) { lp with p := lp.p + 6 })
    else if c = 0x22 ∨ c = 0x27 then pure (.fall { st with ctx := ContextCSSString } { lp with quote := c })
    else pure (.fall st lp)
  else
    -- `switch c { case '\\': …; case quote: …; case '<': … }`: the first matching case wins
    if c = 0x5c then
      if peek E st (lp.p + 1) = some lp.quote ∨ peek E st (lp.p + 1) = some 0x5c then
        pure (.fall (addCol st 1) { lp with p := lp.p + 1 })
      else pure (.fall st lp)
    else if c = lp.quote then pure (.fall { st with ctx := ContextCSS } { lp with quote := 0 })
    else if c = 0x3c then
      if ← endStyleAt E F st lp c then
        pure (.fall (addCol { st with ctx := F.fileCtx } 6) { lp with p := lp.p + 6, quote := 0 })
      else pure (.fall st lp)
    else pure (.fall st lp)

/-- `isHTML && c == '<' && isEndScript(l.src[p:])` -/
def endScriptAt (E : Env) (F : Fixed) (st : St) (lp : Loop) (c : UInt8) : Except Fault Bool :=
  if F.isHTML ∧ c = 0x3c then do
    let rest ← srcFrom E st lp.p
    isEndScript rest
  else pure false

/-- `case ast.ContextJS` -/
def caseJS (E : Env) (F : Fixed) (st : St) (lp : Loop) (c : UInt8) : Except Fault CaseOut := do
  if ← endScriptAt E F st lp c then
    pure (.fall (addCol { st with ctx := F.fileCtx } 7) { lp with p := lp.p + 7, jsComment := 0 })
  else if lp.jsComment = 1 then
    -- LF, CR, U+2028 and U+2029 terminate a line
    if c = 0x0a ∨ c = 0x0d ∨
        (c = 0xe2 ∧ lp.p + 2 < srcLen E st ∧ peekIs E st (lp.p + 1) 0x80 ∧
          (peekIs E st (lp.p + 2) 0xa8 ∨ peekIs E st (lp.p + 2) 0xa9)) then
      pure (.fall st { lp with jsComment := 0 })
    else pure (.fall st lp)
  else if lp.jsComment = 2 then
    if c = 0x2a ∧ peekIs E st (lp.p + 1) 0x2f then
      pure (.fall (addCol st 1) { lp with p := lp.p + 1, jsComment := 0 })
    else pure (.fall st lp)
  else if c = 0x2f ∧ lp.p + 1 < srcLen E st then
    match peek E st (lp.p + 1) with
    | some 0x2f => pure (.fall (addCol st 1) { lp with p := lp.p + 1, jsComment := 1 })
    | some 0x2a => pure (.fall (addCol st 1) { lp with p := lp.p + 1, jsComment := 2 })
    | _ => pure (.fall st lp)
  else if c = 0x22 ∨ c = 0x27 then pure (.fall { st with ctx := ContextJSString } { lp with quote := c })
  else pure (.fall st lp)

/-- `case ast.ContextJSString` (`back = ContextJS`, `q = quote`) and `case ast.ContextJSONString`
(`back = ContextJSON`, `q = '"'`) -/
def caseJSString (E : Env) (F : Fixed) (st : St) (lp : Loop) (c : UInt8) (back : Nat) (q : UInt8) :
    Except Fault CaseOut := do
  if c = 0x5c then
    if peek E st (lp.p + 1) = some q ∨ peek E st (lp.p + 1) = some 0x5c then
      pure (.fall (addCol st 1) { lp with p := lp.p + 1 })
    else pure (.fall st lp)
  else if c = q then pure (.fall { st with ctx := back } { lp with quote := 0 })
  else if c = 0x3c then
    if ← endScriptAt E F st lp c then
      pure (.fall (addCol { st with ctx := F.fileCtx } 7) { lp with p := lp.p + 7, quote := 0 })
    else pure (.fall st lp)
  else pure (.fall st lp)

/-- `case ast.ContextJSON` -/
def caseJSON (E : Env) (F : Fixed) (st : St) (lp : Loop) (c : UInt8) : Except Fault CaseOut := do
  if ← endScriptAt E F st lp c then
    pure (.fall (addCol { st with ctx := F.fileCtx } 7) { lp with p := lp.p + 7 })
  else if c = 0x22 then pure (.fall { st with ctx := ContextJSONString } { lp with quote := 0x22 })
  else pure (.fall st lp)

/-- `switch l.ctx { … }` -/
def ctxSwitch (E : Env) (F : Fixed) (st : St) (lp : Loop) (c : UInt8) : Except Fault CaseOut := do
  if st.ctx = ContextMarkdown then
    match ← caseMarkdown E st lp with
    | .next st lp => pure (.next st lp)
    | .fall st lp => if c = 0x3c then caseLT E st lp else pure (.fall st lp)
  else if st.ctx = ContextHTML then
    if c = 0x3c then caseLT E st lp else pure (.fall st lp)
  else if st.ctx = ContextTag then caseTag E F st lp c
  else if st.ctx = ContextQuotedAttr ∨ st.ctx = ContextUnquotedAttr then caseAttr E F st lp c
  else if st.ctx = ContextCSS ∨ st.ctx = ContextCSSString then caseCSS E F st lp c
  else if st.ctx = ContextJS then caseJS E F st lp c
  else if st.ctx = ContextJSString then caseJSString E F st lp c ContextJS lp.quote
  else if st.ctx = ContextJSON then caseJSON E F st lp c
  else if st.ctx = ContextJSONString then caseJSString E F st lp c ContextJSON 0x22
  else pure (.fall st lp)

/-- the tail of an iteration: `p++; if c == '\n' { … continue }; if isStartChar(c) { l.column++ }` -/
def tail (E : Env) (st : St) (lp : Loop) (c : UInt8) : St × Loop :=
  let p := lp.p + 1
  if c = 0x0a then
    let st := newline st
    let p := if peekIs E st p 0x0d then p + 1 else p
    if st.ctx = ContextTabCodeBlock ∨ st.ctx = ContextSpacesCodeBlock then
      let (p, ctx, st) := scanCodeBlock E st p
      ({ st with ctx }, { lp with p })
    else if st.ctx = ContextMarkdown then
      if lp.spacesOnly then
        let (p, ctx, st) := scanCodeBlock E st p
        ({ st with ctx }, { lp with p })
      else (st, { lp with p, spacesOnly := true })
    else (st, { lp with p })
  else if isStartChar c then (addCol st 1, { lp with p })
  else (st, { lp with p })

/-- a `{{`, `{%`, `{%%` or `{#` at `p`: flush the text, lex the block -/
def delim (E : Env) (st : St) (lp : Loop) (which : Nat) : Except Fault Out := do
  let st ← flushText E st lp
  let lp := { lp with p := 0 }
  let r ← (if which = 0 then lexShow E st
    else if which = 1 then
      (if peekIs E st 2 0x25 then lexStatements E st else lexStatement E st)
    else lexComment E st)
  match r with
  | (st, some e) => pure (.stop st lp e)
  | (st, none) =>
    let lp := resetTok st lp
    if which = 1 then
      match st.rawMarker with
      | some m =>
        let (st, p) ← skipRawContent E st m
        pure (.cont st { lp with p })
      | none => pure (.cont st lp)
    else pure (.cont st lp)

/-- one iteration of the main loop, entered with `p < len(l.src)` -/
def step (E : Env) (st : St) (lp : Loop) : Except Fault Out := do
  let c ← srcAt E st lp.p
  -- Markdown: spaces-only line and backslash escapes
  let lp := if st.ctx = ContextMarkdown then { lp with spacesOnly := lp.spacesOnly && isSpace c } else lp
  if st.ctx = ContextMarkdown ∧ c = 0x5c then
    let p := lp.p + 1
    let st := addCol st 1
    match peek E st p with
    | some d =>
      if d ≠ 0x0a ∧ d ≠ 0x68 then
        let (_, s) := decodeRune (E.text.drop (st.base + p))
        pure (.cont (addCol st 1) { lp with p := p + s })
      else pure (.cont st { lp with p })
    | none => pure (.cont st { lp with p })
  else
    let d := if lp.p + 1 < srcLen E st then peek E st (lp.p + 1) else none
    if c = 0x7b ∧ d = some 0x7b ∧ !E.noParseShow then delim E st lp 0
    else if c = 0x7b ∧ d = some 0x25 then delim E st lp 1
    else if c = 0x7b ∧ d = some 0x23 then delim E st lp 2
    else if c = 0x23 ∧ d = some 0x7d then
      let st ← skip E st lp.p
      pure (.stop st lp (errorf st .unexpectedHashBrace))
    else
      match ← ctxSwitch E (fixedOf st) st lp c with
      | .next st lp => pure (.cont st lp)
      | .fall st lp =>
        let (st, lp) := tail E st lp c
        pure (.cont st lp)

def mainLoop (E : Env) : Nat → St → Loop → Except Fault (St × Loop × Option LexErr)
  | 0, _, _ => .error .other
  | fuel + 1, st, lp =>
    if lp.p < srcLen E st then do
      match ← step E st lp with
      | .cont st lp => mainLoop E fuel st lp
      | .stop st lp e => pure (st, lp, some e)
    else pure (st, lp, none)

/-! ## scan -/

def initSt (ctx tagCtx : Nat) : St :=
  { base := 0, line := 1, col := 1, ctx, contexts := [], bases := [], lbase := ContextText, tagName := [], tagAttr := [], tagIndex := 0,
    tagCtx, rawMarker := none, lastTok := 0, totals := 0, toks := [] }

/-- the shebang line of `scan` -/
def shebang (E : Env) (st : St) : Except Fault St := do
  if E.tmpl ∧ srcLen E st > 1 then
    let c0 ← srcAt E st 0
    let isBang ← (if c0 = 0x23 then (srcAt E st 1).map (· == 0x21) else pure false : Except Fault Bool)
    if isBang then
      match indexByte (E.text.drop st.base) 0x0a with
      | some t =>
        let st ← emit E st tokenShebangLine (t + 1)
        pure { st with line := st.line + 1 }
      | none =>
        let col := st.col
        let st := addCol st ((E.text.drop st.base).countP isStartChar)
        emitAt E st st.line col tokenShebangLine (srcLen E st)
    else pure st
  else pure st

/-- fuel of the main loop: every iteration either moves `base + p` forward or leaves an
attribute context (which the next iteration cannot re-enter without moving) -/
def mainFuel (E : Env) : Nat := 2 * E.text.length + 4

/-- the template branch of `scan` after `l.base = l.ctx` -/
def scanTemplateFrom (E : Env) (st : St) : R := do
  let lin := st.line
  let tcol := st.col
  let (p0, st) := if st.ctx = ContextMarkdown then
      let (p, ctx, st) := scanCodeBlock E st 0
      (p, { st with ctx })
    else (0, st)
  let lp : Loop := { p := p0, lin, tcol, quote := 0, emittedURL := false, jsComment := 0, spacesOnly := true }
  match ← mainLoop E (mainFuel E) st lp with
  | (st, _, some e) => pure (st, some e)
  | (st, lp, none) =>
    let st ← (if srcLen E st > 0 then emitAt E st lp.lin lp.tcol tokenText lp.p else pure st)
    let st ← (if st.ctx = ContextMarkdown ∧ lp.emittedURL then emit E st tokenEndURL 0 else pure st)
    pure (st, none)

/-- the template branch of `scan`: `l.base = l.ctx`, then the loop -/
def scanTemplateBody (E : Env) (st : St) : R := scanTemplateFrom E { st with lbase := st.ctx }

/-- `l.scan()`: tokens in emission order and the lexer's error -/
def scanWith (E : Env) (ctx : Nat) : Except Fault (List Tok × Option LexErr) := do
  let st := initSt ctx (if !E.tmpl then ContextText else if ctx = ContextMarkdown then ContextMarkdown else ContextHTML)
  let st ← shebang E st
  let (st, err) ← (if E.tmpl then scanTemplateBody E st else lexCode E tokenEOF st)
  match err with
  | some e => pure (st.toks.reverse, some e)
  | none =>
    let st ← emit E st tokenEOF 0
    pure (st.toks.reverse, none)

/-- `scanTemplate(text, format, noParseShow)` -/
def scanTemplate (U : Unicode) (format : Nat) (noParseShow : Bool) (text : Bytes) :=
  scanWith { text, tmpl := true, noParseShow, U } format

/-- `scanProgram(text)` -/
def scanProgram (U : Unicode) (text : Bytes) :=
  scanWith { text, tmpl := false, noParseShow := false, U } ContextText

end ScriggoV.Lexer
