import ScriggoV.Basic.Bytes
import ScriggoV.Gen.LexTables
import ScriggoV.Spec.Position
/-! # Segments of the lexer's position bookkeeping (C21)

`Gen/LexAdvance.lean` (regenerated from lexer.go on every check) lists, for the main loop of
`scan`, for `scanCodeBlock`, `scanTag`, `scanAttribute` and for the byte walks of `lexComment`,
`skipRawContent` and CDATA sections, every *segment*: a run of statements that moves `p`, `l.column`
and `l.line` without handing the bookkeeping to other code, with the *guard* the conditions on
the path put on the bytes at fixed offsets from the `p` the segment started with.

This file gives the segments a meaning (`Lit.holds`, `run`) and a checker (`Seg.check`): under the
guard, the events must move line and column exactly as `Spec.Position.advance` does over the
bytes `[base, base + advanced)`. The checker classifies each byte the segment steps over from the
guard alone (all 256 byte values × the values `quote` can have, as natural numbers): a newline, a character start that
is not a newline, or a continuation byte; a byte the guard does not pin has no class and the check
fails. Soundness: `Lemmas/LexAdvance.lean`. Core Lean only. -/
namespace ScriggoV.Lexer.Advance
open ScriggoV ScriggoV.Spec.Position

/-- the byte predicates of lexer.go a guard may mention -/
inductive Pred
  | isSpace | isStartChar | isASCIISpace | isAlpha
  deriving DecidableEq, Repr

def Pred.eval : Pred → UInt8 → Bool
  | .isSpace, c => Gen.LexTables.isSpace c
  | .isStartChar, c => Gen.LexTables.isStartChar c
  | .isASCIISpace, c => Gen.LexTables.isASCIISpace c
  | .isAlpha, c => Gen.LexTables.isAlpha c

/-- the same predicates over byte values as natural numbers (the checker works on `Nat`, which the
kernel evaluates fast); tied to the generated definitions by `Pred.evalN_eq` (Lemmas/LexAdvance) -/
def Pred.evalN : Pred → Nat → Bool
  | .isSpace, n => n == 0x20 || n == 0x09 || n == 0x0a || n == 0x0d
  | .isStartChar, n => n < 128 || 191 < n
  | .isASCIISpace, n => n == 0x20 || n == 0x09 || n == 0x0a || n == 0x0d || n == 0x0c
  | .isAlpha, n => (0x61 ≤ n && n ≤ 0x7a) || (0x41 ≤ n && n ≤ 0x5a)

/-- what one alternative of a condition says about a byte: `c == 'x'` (the value of `'x'`),
`c == quote`, `isSpace(c)`, `c < 0x80` -/
inductive Atom
  | byte (b : Nat)
  | quote
  | pred (p : Pred)
  /-- `c < n` -/
  | lt (n : Nat)
  deriving DecidableEq, Repr

def Atom.eval (q : UInt8) (c : UInt8) : Atom → Bool
  | .byte b => c.toNat == b
  | .quote => c == q
  | .pred p => p.eval c
  | .lt n => decide (c.toNat < n)

def Atom.evalN (q : Nat) (c : Nat) : Atom → Bool
  | .byte b => c == b
  | .quote => c == q
  | .pred p => p.evalN c
  | .lt n => decide (c < n)

/-- a literal of a guard: the byte at `p + off` satisfies one of the alternatives (`pos`) or none
of them; `p + off < len(l.src)` -/
inductive Lit
  | is (off : Nat) (alts : List Atom) (pos : Bool)
  | inb (off : Nat)
  deriving DecidableEq, Repr

inductive Ev
  | adv (k : Nat)
  | col (k : Nat)
  | newline
  deriving DecidableEq, Repr

structure Seg where
  name : String
  /-- bytes `[0, base)` were settled by earlier segments of the same iteration -/
  base : Nat
  guard : List Lit
  evs : List Ev
  handOver : Bool
  deriving Repr

/-- `p += size` of the rune decoded at `p + off`, followed by `l.column++` -/
structure RuneStep where
  name : String
  off : Nat
  guard : List Lit
  deriving Repr

inductive QRhs
  | zero | dq | byte
  deriving DecidableEq, Repr

/-- an assignment to `quote`: `0`, `'"'` or the byte at `p + off` -/
structure QuoteAssign where
  name : String
  rhs : QRhs
  off : Nat
  guard : List Lit
  deriving Repr

/-! ## meaning -/

/-- the literal holds of the source at `p` when `quote` is `q`. A literal about a byte says that
the byte is there: Go evaluated `l.src[p+off]` without a fault -/
def Lit.holds (src : Bytes) (p : Nat) (q : UInt8) : Lit → Prop
  | .is off alts pos => ∃ c, src[p + off]? = some c ∧ alts.any (Atom.eval q c) = pos
  | .inb off => p + off < src.length

/-- line, column and bytes advanced -/
abbrev PosSt := (Nat × Nat) × Nat

def Ev.step : Ev → PosSt → PosSt
  | .adv k, (lc, d) => (lc, d + k)
  | .col k, ((l, c), d) => ((l, c + k), d)
  | .newline, ((l, _), d) => ((l + 1, 1), d)

/-- what the statements of a segment do to line, column and `p` -/
def run (evs : List Ev) (s : PosSt) : PosSt := evs.foldl (fun s e => e.step s) s

/-! ## checker -/

/-- the values `quote` takes in `scan` (`quoteAssigns`, `quote_values` in Props/C21) -/
def quotes : List UInt8 := [0, 0x22, 0x27]
def quotesN : List Nat := [0, 0x22, 0x27]

/-- a literal about another offset says nothing about the byte at `k` -/
def Lit.okByte (q : Nat) (k : Nat) (c : Nat) : Lit → Bool
  | .is off alts pos => off != k || (alts.any (Atom.evalN q c) == pos)
  | .inb _ => true

/-- the literal reads the byte at `k` -/
def Lit.reads (k : Nat) : Lit → Bool
  | .is off _ _ => off == k
  | .inb _ => false

/-- the value an alternative pins the byte to, if it does -/
def Atom.val? (q : Nat) : Atom → Option Nat
  | .byte b => some b
  | .quote => some q
  | .pred _ => none
  | .lt _ => none

def vals? (q : Nat) : List Atom → Option (List Nat)
  | [] => some []
  | a :: rest =>
    match a.val? q, vals? q rest with
    | some v, some vs => some (v :: vs)
    | _, _ => none

/-- the values of a positive literal about offset `k` whose alternatives are all values -/
def Lit.vals? (q k : Nat) : Lit → Option (List Nat)
  | .is off alts true => if off == k then Advance.vals? q alts else none
  | _ => none

/-- the byte values to consider at offset `k`: those a positive literal of the guard enumerates, else
all 256 -/
def candidates (guard : List Lit) (k q : Nat) : List Nat :=
  match guard.findSome? (Lit.vals? q k) with
  | some vs => vs
  | none => List.range 256

def Atom.isQuote : Atom → Bool
  | .quote => true
  | _ => false

def Lit.hasQuote : Lit → Bool
  | .is _ alts _ => alts.any Atom.isQuote
  | .inb _ => false

/-- the values of `quote` to consider: one is enough when the guard does not mention `quote` -/
def quotesFor (guard : List Lit) : List Nat := if guard.any Lit.hasQuote then quotesN else [0]

/-- every byte value the guard allows at offset `k` satisfies `f`, whatever `quote` is -/
def allSat (guard : List Lit) (k : Nat) (f : Nat → Bool) : Bool :=
  (quotesFor guard).all fun q => (candidates guard k q).all fun c => !(guard.all (Lit.okByte q k c)) || f c

inductive Cls
  | nl | good | cont
  deriving DecidableEq, Repr

def Cls.ok : Cls → Nat → Bool
  | .nl, c => c == 0x0a
  | .good, c => c != 0x0a && Pred.evalN .isStartChar c
  | .cont, c => !Pred.evalN .isStartChar c

/-- the class of the byte at offset `k` as far as the guard pins it -/
def classAt (guard : List Lit) (k : Nat) : Option Cls :=
  if !guard.any (Lit.reads k) then none
  else if allSat guard k (Cls.ok .good) then some .good
  else if allSat guard k (Cls.ok .nl) then some .nl
  else if allSat guard k (Cls.ok .cont) then some .cont
  else none

/-- an effect on (line, column): `nl` newlines; the column is `column + c` if `nl = 0`, else `c` -/
structure Eff where
  nl : Nat
  c : Nat
  deriving DecidableEq, Repr

def Eff.apply (e : Eff) (lc : Nat × Nat) : Nat × Nat :=
  if e.nl = 0 then (lc.1, lc.2 + e.c) else (lc.1 + e.nl, e.c)

def Eff.addCol (e : Eff) (k : Nat) : Eff := ⟨e.nl, e.c + k⟩
def Eff.newline (e : Eff) : Eff := ⟨e.nl + 1, 1⟩

def Ev.eff : Ev → Eff × Nat → Eff × Nat
  | .adv k, (e, d) => (e, d + k)
  | .col k, (e, d) => (e.addCol k, d)
  | .newline, (e, d) => (e.newline, d)

/-- the effect of the events, and the bytes advanced -/
def effOfEvs (evs : List Ev) (s : Eff × Nat) : Eff × Nat := evs.foldl (fun s e => e.eff s) s

/-- the effect `Spec.Position.advance` has over the `n` bytes from offset `base`, by their classes -/
def effOfBytes (guard : List Lit) (base : Nat) : Nat → Option Eff
  | 0 => some ⟨0, 0⟩
  | n + 1 =>
    match effOfBytes guard base n, classAt guard (base + n) with
    | some e, some .nl => some e.newline
    | some e, some .good => some (e.addCol 1)
    | some e, some .cont => some e
    | _, _ => none

/-- the segment's events do what the specification does over the bytes it advanced -/
def Seg.check (s : Seg) : Bool :=
  effOfBytes s.guard s.base ((effOfEvs s.evs (⟨0, 0⟩, s.base)).2 - s.base) == some (effOfEvs s.evs (⟨0, 0⟩, s.base)).1 ||
  -- or the guard allows no byte value at some offset: the path cannot be taken
  s.guard.any (fun lit => match lit with
    | .is off _ _ => allSat s.guard off (fun _ => false)
    | .inb _ => false)

/-- the first byte of the rune is read and is not a newline -/
def RuneStep.check (r : RuneStep) : Bool :=
  r.guard.any (Lit.reads r.off) && allSat r.guard r.off (fun c => c != 0x0a)

/-- the value assigned is one of `quotes` -/
def QuoteAssign.check (a : QuoteAssign) : Bool :=
  match a.rhs with
  | .zero => true
  | .dq => true
  | .byte => a.guard.any (Lit.reads a.off) && allSat a.guard a.off (fun c => quotesN.contains c)

/-- the one segment shape that is known not to follow the specification: after `'\n'` a `'\r'` is
stepped over without a column (known finding `lf-cr-column`) -/
def Seg.isLFCR (s : Seg) : Bool :=
  s.base == 0 && s.guard.contains (.is 0 [.byte 0x0a] true) && s.guard.contains (.is 1 [.byte 0x0d] true) &&
  s.evs == [.adv 1, .newline, .adv 1]

end ScriggoV.Lexer.Advance
