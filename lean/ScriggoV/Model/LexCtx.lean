import ScriggoV.Model.Lexer
/-! # The context machine of `lexer.go`, projected (C06 layer 2)

`Model/Lexer/Template.lean` (C04/C21) models the whole template lexer: tokens, lines, columns,
faults, fuel. For the question "which CONTEXT is the lexer in at a given offset" only a few fields
matter. This file is the projection of that model's main loop onto those fields, for an HTML file
whose delimiters are shows (`l.base = ContextHTML` throughout — `l.base` is written at the start of scan
and by the statements of a macro / using body only, Gen/LexCtxCases.baseWrites —, hence `isHTML() = true`
and `l.ctx = l.base`, `l.tag.ctx = l.base` are `ContextHTML`) and for positions at which no template delimiter
(`{{`, `{%`, `{#`, `#}`) starts: a pure, total function `cstep` that mirrors `step` branch by
branch (`ctxSwitch` and `tail`), with the same inner loops (`scanTag`, `scanAttribute`).

`Lemmas/LexCtxRefine.lean` proves that `mainLoop` of the full model, run over a delimiter-free
prefix, goes through exactly the states `crun` goes through (projection commutes with `step`).
Core Lean only. -/
namespace ScriggoV.LexCtx
open ScriggoV ScriggoV.Lexer ScriggoV.Gen.LexTables

/-- the fields of `St` / `Loop` that determine contexts; `pos = st.base + lp.p` -/
structure CSt where
  pos : Nat
  ctx : Nat
  tagCtx : Nat
  tagName : Bytes
  tagAttr : Bytes
  tagIndex : Nat
  quote : UInt8
  /-- `emittedURL` -/
  url : Bool
  jsComment : Nat
  deriving Repr, DecidableEq

def init : CSt :=
  { pos := 0, ctx := ContextHTML, tagCtx := ContextHTML, tagName := [], tagAttr := [], tagIndex := 0,
    quote := 0, url := false, jsComment := 0 }

/-- `l.src[p:]` at an absolute position -/
@[inline] def from_ (text : Bytes) (i : Nat) : Bytes := text.drop i

/-! ## scanTag -/

def scanTagLoopP (text : Bytes) : Nat → Nat → Nat
  | 0, p => p
  | fuel + 1, p =>
    match text[p]? with
    | none => p
    | some c =>
      if c = 0x3e ∨ c = 0x2f ∨ isASCIISpace c ∨ c = 0x7b then p
      else if c < 0x80 then scanTagLoopP text fuel (p + 1)
      else scanTagLoopP text fuel (p + (decodeRune (text.drop p)).2)

/-- `l.scanTag(p)`: (lower-cased name, next position) -/
def scanTagP (U : Unicode) (text : Bytes) (p : Nat) : Bytes × Nat :=
  match text[p]? with
  | none => ([], p)
  | some c =>
    if !isAlpha c then ([], p)
    else
      let q := scanTagLoopP text (text.length - p + 1) (p + 1)
      (bytesToLower U ((text.take q).drop p), q)

/-! ## scanAttribute -/

/-- the name loop: (`true` = `return "", p`, position) -/
def attrNameLoopP (U : Unicode) (text : Bytes) : Nat → Nat → Bool × Nat
  | 0, p => (true, p)
  | fuel + 1, p =>
    match text[p]? with
    | none => (false, p)
    | some c =>
      if c = 0x3d ∨ isASCIISpace c then (false, p)
      else if c ≤ 0x1f ∨ c = 0x22 ∨ c = 0x27 ∨ c = 0x3e ∨ c = 0x2f ∨ c = 0x7f then (true, p)
      else
        let ns : Option Nat :=
          if c ≥ 0x80 then
            let (r, size) := decodeRune (text.drop p)
            if r = runeError ∧ size = 1 then none
            else if (0x7f ≤ r ∧ r ≤ 0x9f) ∨ U.isNonchar r then none
            else some (p + size - 1)
          else some p
        match ns with
        | none => (true, p)
        | some p =>
          let d := text[p + 1]?
          if c = 0x7b ∧ (d = some 0x7b ∨ d = some 0x25 ∨ d = some 0x23) then (true, p)
          else attrNameLoopP U text fuel (p + 1)

/-- the `=` loop: (`true` = `return "", p`, position) -/
def attrEqLoopP (text : Bytes) : Nat → Nat → Bool × Nat
  | 0, p => (true, p)
  | fuel + 1, p =>
    match text[p]? with
    | none => (false, p)
    | some c =>
      if c = 0x3d then (false, p + 1)
      else if isASCIISpace c then attrEqLoopP text fuel (p + 1)
      else (true, p)

/-- the loop after `=`: (`true` = `return "", p`, position) -/
def attrQuoteLoopP (text : Bytes) : Nat → Nat → Bool × Nat
  | 0, p => (true, p)
  | fuel + 1, p =>
    match text[p]? with
    | none => (false, p)
    | some c =>
      if c = 0x3e then (true, p)
      else if isASCIISpace c then attrQuoteLoopP text fuel (p + 1)
      else (false, p)

/-- `l.scanAttribute(p)`: (lower-cased name or `[]`, next position) -/
def scanAttributeP (U : Unicode) (text : Bytes) (p : Nat) : Bytes × Nat :=
  let fuel := text.length - p + 1
  match attrNameLoopP U text fuel p with
  | (true, q) => ([], q)
  | (false, q) =>
    if q = p ∨ q = text.length then ([], q)
    else
      let name := bytesToLower U ((text.take q).drop p)
      match attrEqLoopP text (text.length - q + 1) q with
      | (true, r) => ([], r)
      | (false, r) =>
        match attrQuoteLoopP text (text.length - r + 1) r with
        | (true, t) => ([], t)
        | (false, t) => if t = text.length then ([], t) else (name, t)

/-! ## the cases of `switch l.ctx`; the Bool says whether the iteration runs to its tail
(`true` = fall, `false` = Go `continue`) -/

/-- `<![CDATA[` starts at `s.pos` (and at least 9 bytes follow the `<`) -/
def cdataAt (text : Bytes) (s : CSt) : Bool :=
  decide (s.pos + 8 < text.length) && text[s.pos + 1]? == some 0x21 && hasPrefix (text.drop s.pos) cdataStart

/-- the `'<'` branch of `case ast.ContextHTML` -/
def caseLTP (U : Unicode) (text : Bytes) (s : CSt) : CSt × Bool :=
  if cdataAt text s then
    -- skip the CDATA section
    let p := s.pos + 6
    let t := match indexSub (text.drop p) cdataEnd with
      | none => text.length
      | some i => p + i + 2
    ({ s with pos := if p < t then t else p }, false)
  else
  let (name, q) := scanTagP U text (s.pos + 1)
  let s := { s with pos := q, tagName := name }
  let s :=
    if name ≠ [] then
      let s := { s with ctx := ContextTag }
      if name = strBytes "script" then { s with tagCtx := ContextJS }
      else if name = strBytes "style" then { s with tagCtx := ContextCSS }
      else s
    else s
  (s, false)

def caseTagP (U : Unicode) (text : Bytes) (s : CSt) (c : UInt8) : CSt × Bool :=
  -- Go: `c == '>' || c == '/' && p < len(l.src) && l.src[p] == '>'` — `l.src[p]` is `c` itself
  if c = 0x3e ∨ (c = 0x2f ∧ text[s.pos]? = some 0x3e) then
    let s := { s with ctx := s.tagCtx, tagName := [], tagCtx := ContextHTML }
    if c = 0x2f then ({ s with pos := s.pos + 1 }, true) else (s, true)
  else if !isASCIISpace c then
    let (attr, next) := scanAttributeP U text s.pos
    let s0 := s
    let s := { s with tagAttr := attr }
    if next > s0.pos then
      let s := { s with pos := next }
      match (if attr ≠ [] then text[next]? else none) with
      | some q =>
        let s := if q = 0x22 ∨ q = 0x27 then { s with quote := q, pos := s.pos + 1 } else s
        let actx := if s.quote = 0 then ContextUnquotedAttr else ContextQuotedAttr
        if containsURL s.tagName s.tagAttr then ({ s with ctx := actx, url := true }, false)
        else ({ s with tagIndex := s.pos, ctx := actx }, false)
      | none => (s, false)
    else (s, true)
  else (s, true)

/-- `text[lo:hi]` when `lo ≤ hi ≤ len` -/
def sliceP (text : Bytes) (lo hi : Nat) : Option Bytes :=
  if lo ≤ hi ∧ hi ≤ text.length then some ((text.take hi).drop lo) else none

/-- the `type` attribute of `script` and `style`: the new `tagCtx` -/
def typeAttrP (U : Unicode) (text : Bytes) (s : CSt) : Nat :=
  if s.tagAttr = strBytes "type" then
    if s.tagName = strBytes "script" then
      match sliceP text s.tagIndex s.pos with
      | none => s.tagCtx
      | some typ =>
        if typ = moduleType then s.tagCtx
        else
          let typ := trimSpace U typ
          if typ.length > 0 then
            if equalFold typ jsonLDMimeType then ContextJSON
            else if !equalFold typ jsMimeType then ContextHTML
            else s.tagCtx
          else s.tagCtx
    else if s.tagName = strBytes "style" then
      match sliceP text s.tagIndex s.pos with
      | none => s.tagCtx
      | some typ =>
        let typ := trimSpace U typ
        if typ.length > 0 ∧ !equalFold typ cssMimeType then ContextHTML else s.tagCtx
    else s.tagCtx
  else s.tagCtx

def caseAttrP (U : Unicode) (text : Bytes) (s : CSt) (c : UInt8) : CSt × Bool :=
  if (s.ctx = ContextQuotedAttr ∧ c = s.quote) ∨
     (s.ctx = ContextUnquotedAttr ∧ (c = 0x3e ∨ isASCIISpace c)) then
    let s := { s with quote := 0 }
    let s := if s.url then { s with url := false } else { s with tagCtx := typeAttrP U text s }
    let s := { s with ctx := ContextTag, tagAttr := [], tagIndex := 0 }
    if c = 0x3e then (s, false) else (s, true)
  else (s, true)

def okBool (r : Except Fault Bool) : Bool :=
  match r with
  | .ok b => b
  | .error _ => false

def endStyleP (text : Bytes) (s : CSt) (c : UInt8) : Bool :=
  c = 0x3c && okBool (isEndStyle (text.drop s.pos))

def endScriptP (text : Bytes) (s : CSt) (c : UInt8) : Bool :=
  c = 0x3c && okBool (isEndScript (text.drop s.pos))

def caseCSSP (text : Bytes) (s : CSt) (c : UInt8) : CSt × Bool :=
  if s.ctx = ContextCSS then
    if endStyleP text s c then ({ s with ctx := ContextHTML, pos := s.pos + 6 }, true)
    else if c = 0x22 ∨ c = 0x27 then ({ s with ctx := ContextCSSString, quote := c }, true)
    else (s, true)
  else
    if c = 0x5c then
      if text[s.pos + 1]? = some s.quote ∨ text[s.pos + 1]? = some 0x5c then
        ({ s with pos := s.pos + 1 }, true)
      else (s, true)
    else if c = s.quote then ({ s with ctx := ContextCSS, quote := 0 }, true)
    else if c = 0x3c then
      if endStyleP text s c then ({ s with ctx := ContextHTML, pos := s.pos + 6, quote := 0 }, true)
      else (s, true)
    else (s, true)

def caseJSP (text : Bytes) (s : CSt) (c : UInt8) : CSt × Bool :=
  if endScriptP text s c then ({ s with ctx := ContextHTML, pos := s.pos + 7, jsComment := 0 }, true)
  else if s.jsComment = 1 then
    -- LF, CR, U+2028 and U+2029 terminate a line
    if c = 0x0a ∨ c = 0x0d ∨ c = 0xe2 ∧ text[s.pos + 1]? = some 0x80 ∧
        (text[s.pos + 2]? = some 0xa8 ∨ text[s.pos + 2]? = some 0xa9) then
      ({ s with jsComment := 0 }, true)
    else (s, true)
  else if s.jsComment = 2 then
    if c = 0x2a ∧ text[s.pos + 1]? = some 0x2f then ({ s with pos := s.pos + 1, jsComment := 0 }, true)
    else (s, true)
  else if c = 0x2f ∧ s.pos + 1 < text.length then
    match text[s.pos + 1]? with
    | some 0x2f => ({ s with pos := s.pos + 1, jsComment := 1 }, true)
    | some 0x2a => ({ s with pos := s.pos + 1, jsComment := 2 }, true)
    | _ => (s, true)
  else if c = 0x22 ∨ c = 0x27 then ({ s with ctx := ContextJSString, quote := c }, true)
  else (s, true)

def caseJSStringP (text : Bytes) (s : CSt) (c : UInt8) (back : Nat) (q : UInt8) : CSt × Bool :=
  if c = 0x5c then
    -- an escaped quote and an escaped backslash are skipped as a pair
    if text[s.pos + 1]? = some q ∨ text[s.pos + 1]? = some 0x5c then ({ s with pos := s.pos + 1 }, true)
    else (s, true)
  else if c = q then ({ s with ctx := back, quote := 0 }, true)
  else if c = 0x3c then
    if endScriptP text s c then ({ s with ctx := ContextHTML, pos := s.pos + 7, quote := 0 }, true)
    else (s, true)
  else (s, true)

def caseJSONP (text : Bytes) (s : CSt) (c : UInt8) : CSt × Bool :=
  if endScriptP text s c then ({ s with ctx := ContextHTML, pos := s.pos + 7 }, true)
  else if c = 0x22 then ({ s with ctx := ContextJSONString, quote := 0x22 }, true)
  else (s, true)

/-- `switch l.ctx { … }` for the contexts of an HTML file -/
def ctxSwitchP (U : Unicode) (text : Bytes) (s : CSt) (c : UInt8) : CSt × Bool :=
  if s.ctx = ContextHTML then
    if c = 0x3c then caseLTP U text s else (s, true)
  else if s.ctx = ContextTag then caseTagP U text s c
  else if s.ctx = ContextQuotedAttr ∨ s.ctx = ContextUnquotedAttr then caseAttrP U text s c
  else if s.ctx = ContextCSS ∨ s.ctx = ContextCSSString then caseCSSP text s c
  else if s.ctx = ContextJS then caseJSP text s c
  else if s.ctx = ContextJSString then caseJSStringP text s c ContextJS s.quote
  else if s.ctx = ContextJSON then caseJSONP text s c
  else if s.ctx = ContextJSONString then caseJSStringP text s c ContextJSON 0x22
  else (s, true)

/-- the tail of an iteration: `p++`, and a CR directly after LF is skipped -/
def tailP (text : Bytes) (s : CSt) (c : UInt8) : CSt :=
  let p := s.pos + 1
  if c = 0x0a then { s with pos := if text[p]? = some 0x0d then p + 1 else p }
  else { s with pos := p }

/-- a template delimiter or `#}` starts at `i` -/
def delimAt (text : Bytes) (i : Nat) : Bool :=
  match text[i]?, text[i + 1]? with
  | some 0x7b, some d => d == 0x7b || d == 0x25 || d == 0x23
  | some 0x23, some d => d == 0x7d
  | _, _ => false

/-- one iteration of the main loop at a position where no delimiter starts -/
def cstep (U : Unicode) (text : Bytes) (s : CSt) : CSt :=
  match text[s.pos]? with
  | none => s
  | some c =>
    match ctxSwitchP U text s c with
    | (s, false) => s
    | (s, true) => tailP text s c

/-- run until position `n` is reached or passed, or a delimiter starts, or fuel runs out -/
def crun (U : Unicode) (text : Bytes) (n : Nat) : Nat → CSt → CSt
  | 0, s => s
  | fuel + 1, s =>
    if s.pos < n ∧ !delimAt text s.pos then crun U text n fuel (cstep U text s) else s

/-- the lexer's context state at the end of the delimiter-free prefix of length `n` -/
def ctxAt (U : Unicode) (text : Bytes) (n : Nat) : CSt := crun U text n (2 * text.length + 4) init

end ScriggoV.LexCtx
