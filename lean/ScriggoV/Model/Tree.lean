/-! Generic syntax trees for C28: rose trees whose nodes carry a kind `κ` and an identity
(`Nat`, standing for the node's address) and whose children are tagged with the field `φ`
of the parent that holds them, in field order; schema-driven `clone` and `walk`.

The tables that drive them — which fields of which kind hold children (`schema`), which
fields `CloneNode/CloneExpression` deep-copy (`cloned`), which fields `Walk` descends into
(`walked`) — are parameters here; `Gen/AstSchema.lean` regenerates the real ones from
`ast/ast.go`, `ast/astutil/clone.go` and `ast/astutil/walk.go`. Core Lean only. -/
namespace ScriggoV.Tree

mutual
/-- a node: kind, identity, children -/
inductive T (κ φ : Type) where
  | node (kind : κ) (id : Nat) (children : F κ φ)
/-- the children of a node: (field, child) in field order -/
inductive F (κ φ : Type) where
  | nil
  | cons (field : φ) (child : T κ φ) (rest : F κ φ)
end

/-- one thing `Walk` does in the case of a node kind: `Walk(v, n.f)` (for a slice: on every
element) — or, for a pointer field `f`, `for _, c := range n.f.g { Walk(v, c) }`, which
descends into the children held by field `g` of the child `n.f` without visiting `n.f`. -/
inductive Step (φ : Type) where
  | field (f : φ)
  | through (f g : φ)
  deriving DecidableEq, Repr

variable {κ φ : Type}

def T.kind : T κ φ → κ | .node k _ _ => k
def T.id : T κ φ → Nat | .node _ i _ => i
def T.children : T κ φ → F κ φ | .node _ _ cs => cs

mutual
/-- identities of all nodes, in pre-order -/
def ids : T κ φ → List Nat
  | .node _ i cs => i :: idsF cs
def idsF : F κ φ → List Nat
  | .nil => []
  | .cons _ t rest => ids t ++ idsF rest
end

mutual
/-- the tree without identities (shape and labels only) -/
def erase : T κ φ → T κ φ
  | .node k _ cs => .node k 0 (eraseF cs)
def eraseF : F κ φ → F κ φ
  | .nil => .nil
  | .cons f t rest => .cons f (erase t) (eraseF rest)
end

mutual
def size : T κ φ → Nat
  | .node _ _ cs => 1 + sizeF cs
def sizeF : F κ φ → Nat
  | .nil => 0
  | .cons _ t rest => size t + sizeF rest
end

/-- every child sits in a field the table allows for the kind of its parent -/
def WF [DecidableEq φ] (S : κ → List φ) : T κ φ → Prop
  | .node k _ cs => WFF S k cs
where
  WFF (S : κ → List φ) (k : κ) : F κ φ → Prop
    | .nil => True
    | .cons f t rest => f ∈ S k ∧ WF S t ∧ WFF S k rest

/-! ### clone -/

section clone
variable [DecidableEq φ]

mutual
/-- `clone C off t`: the copy `CloneNode` builds when it deep-copies exactly the fields
`C k` of a node of kind `k` (children in any other field are dropped: the constructor gets
nothing for them). The copy of the node with identity `i` is allocated at `i + off`. -/
def clone (C : κ → List φ) (off : Nat) : T κ φ → T κ φ
  | .node k i cs => .node k (i + off) (cloneF C off (C k) cs)
def cloneF (C : κ → List φ) (off : Nat) (keep : List φ) : F κ φ → F κ φ
  | .nil => .nil
  | .cons f t rest =>
    if f ∈ keep then .cons f (clone C off t) (cloneF C off keep rest)
    else cloneF C off keep rest
end

end clone

/-! ### walk -/

section walk
variable [DecidableEq φ]

mutual
/-- identities in the order `Walk` calls `Visit` (children grouped per child, not per step:
the same multiset as the real order, which is per step). -/
def walk (W : κ → List (Step φ)) : T κ φ → List Nat
  | .node k i cs => i :: walkF W (W k) cs
/-- the visits caused by the children `cs` of a node whose case performs `steps` -/
def walkF (W : κ → List (Step φ)) (steps : List (Step φ)) : F κ φ → List Nat
  | .nil => []
  | .cons f t rest => walkChild W steps f t ++ walkF W steps rest
/-- the visits caused by one child `t` held in field `f`: once per step that names `f` -/
def walkChild (W : κ → List (Step φ)) (steps : List (Step φ)) (f : φ) : T κ φ → List Nat
  | .node k i cs =>
    -- (`if`: the driver evaluates strictly; without it every level would walk its subtree twice)
    (if steps.count (.field f) = 0 then []
     else (List.replicate (steps.count (.field f)) (i :: walkF W (W k) cs)).flatten)
      ++ walkThrough W steps f cs
/-- `through f g` steps: the children of `t` (held in `f`) that sit in field `g` of `t` -/
def walkThrough (W : κ → List (Step φ)) (steps : List (Step φ)) (f : φ) : F κ φ → List Nat
  | .nil => []
  | .cons g t rest =>
    (if steps.count (.through f g) = 0 then []
     else (List.replicate (steps.count (.through f g)) (walk W t)).flatten)
      ++ walkThrough W steps f rest
end

end walk

/-! ### a store, to say what "mutating the copy cannot reach the original" means -/

/-- a store maps identities (addresses) to contents -/
def write {α : Type} (σ : Nat → α) (a : Nat) (v : α) : Nat → α :=
  fun b => if b = a then v else σ b

end ScriggoV.Tree
