import ScriggoV.Gen.Universe
/-! C19 — model of what a program or template can name: the type checker's scope stack
(`internal/compiler/checker_scopes.go`: `newScopes`, `Enter`, `Exit`, `Declare`, `lookup`), the
import of a native package (`checker_statements.go`: `checkImport`, `checker.go`:
`declarePackageName`), the `go` gate, and the emitter's table of native functions
(`emitter_func_store.go`: a function is added when an identifier or package selector resolves to
a native function). Every declaration carries its *provenance*: the universe block, the globals
the embedder declared, the package the importer returned for a path, or the code itself.

The checker is seen as a state machine over the operations a check performs, in order:
`enter` / `exit` (blocks), `declare` (a declaration of the code), `importNative` (an import the
parser did not resolve to source of the program/template itself), `goStmt`, `useIdent` /
`useSelector` (an identifier / `pkg.Name` being resolved; when it resolves to a native function
the emitter records it in `NativeFunctions`). Core Lean only. -/
namespace ScriggoV.Scopes
open ScriggoV.Gen.Universe

inductive Prov
  | univ
  | global
  | importer (path : String)
  | code
  deriving DecidableEq, Repr

inductive Kind
  | builtin | type | const | var | func | nilValue | iota | pkg
  deriving DecidableEq, Repr

def Kind.ofU : UKind → Kind
  | .builtin => .builtin | .type => .type | .const => .const | .var => .var
  | .nilValue => .nilValue | .iota => .iota

/-- one declaration of a native package or of the globals -/
structure Decl where
  name : String
  kind : Kind
  deriving DecidableEq, Repr

/-- what a name of a scope stands for; `members` are the declarations of a package name -/
structure Entry where
  kind : Kind
  prov : Prov
  members : List Decl
  deriving DecidableEq, Repr

/-- a package the importer returns (`native.ImportablePackage`) -/
structure NativePkg where
  name : String
  decls : List Decl
  deriving DecidableEq, Repr

/-- a global the embedder declares; a package value is an auto-imported package -/
structure GlobalDecl where
  name : String
  kind : Kind
  members : List Decl
  deriving DecidableEq, Repr

/-- what the importer answers for a path -/
inductive ImportResult
  | pkg (p : NativePkg)
  | nilPkg          -- `nil, nil`
  | err             -- a non-nil error
  deriving DecidableEq, Repr

/-- the embedder's configuration -/
structure Cfg where
  /-- `nil` importer = `none` -/
  importer : Option (List (String × NativePkg))
  /-- paths for which the importer returns an error rather than nil -/
  failing : List String
  globals : List GlobalDecl
  allowGo : Bool
  deriving Repr

def Cfg.importPath (c : Cfg) (path : String) : Option ImportResult :=
  match c.importer with
  | none => none
  | some tbl =>
    if c.failing.contains path then some .err
    else match tbl.lookup path with
      | some p => some (.pkg p)
      | none => some .nilPkg

abbrev Scope := List (String × Entry)

/-- a native function the emitter recorded: where it comes from and its name -/
structure NativeFn where
  prov : Prov
  name : String
  deriving DecidableEq, Repr

structure State where
  /-- innermost first; the last four are file/package, global, formats, universe -/
  scopes : List Scope
  natives : List NativeFn
  deriving Repr

def universeScope : Scope := universeBlock.map fun (n, k) => (n, ⟨Kind.ofU k, .univ, []⟩)
def formatScope (template : Bool) : Scope :=
  if template then (formatTypeNames.drop 1).map fun n => (n, ⟨.type, .univ, []⟩) else []
def globalScope (c : Cfg) : Scope := c.globals.map fun g => (g.name, ⟨g.kind, .global, g.members⟩)

/-- `newScopes` -/
def State.init (c : Cfg) (template : Bool) : State :=
  { scopes := [[], globalScope c, formatScope template, universeScope], natives := [] }

inductive ImportForm
  | default
  | named (n : String)
  | dot
  | blank
  | forNames (ns : List String)
  deriving Repr

inductive Op
  | enter
  | exit
  | declare (name : String) (k : Kind)
  | importNative (path : String) (form : ImportForm)
  | goStmt
  | useIdent (name : String)
  | useSelector (pkg name : String)
  deriving Repr

inductive Err
  | internal
  | redeclared (name : String)
  | cannotFindPackage (path : String)
  | importerError (path : String)
  | notImportable (path : String)
  | importAsInit
  | undefined (name : String)
  | goNotAvailable
  | notAPackage (name : String)
  deriving DecidableEq, Repr

def Err.name : Err → String
  | .internal => "internal" | .redeclared _ => "redeclared" | .cannotFindPackage _ => "cannot-find-package"
  | .importerError _ => "importer-error" | .notImportable _ => "not-importable" | .importAsInit => "import-as-init"
  | .undefined _ => "undefined" | .goNotAvailable => "go-not-available" | .notAPackage _ => "not-a-package"

/-- `scopes.lookup(name, 0)`: innermost scope first -/
def lookup (scopes : List Scope) (name : String) : Option Entry :=
  match scopes with
  | [] => none
  | sc :: rest =>
    match sc.lookup name with
    | some e => some e
    | none => lookup rest name

/-- `scopes.Declare` in the current scope; `false` (and no change) when the name is there -/
def declareIn (scopes : List Scope) (name : String) (e : Entry) : List Scope × Bool :=
  match scopes with
  | [] => ([], false)
  | sc :: rest =>
    match sc.lookup name with
    | some _ => (sc :: rest, false)
    | none => (((name, e) :: sc) :: rest, true)

/-- `for ident, ti := range imported.Declarations { tc.scopes.Declare(ident, ti, nil, impor) }` -/
def declareAll (scopes : List Scope) (path : String) : List Decl → List Scope
  | [] => scopes
  | d :: ds => declareAll (declareIn scopes d.name ⟨d.kind, .importer path, []⟩).1 path ds

/-- `{% import "path" for N1, N2 %}` -/
def declareFor (scopes : List Scope) (path : String) (decls : List Decl) :
    List String → Except Err (List Scope)
  | [] => .ok scopes
  | n :: ns =>
    match decls.find? (fun d => d.name == n) with
    | none => .error (.undefined n)
    | some d => declareFor (declareIn scopes n ⟨d.kind, .importer path, []⟩).1 path decls ns

/-- `declarePackageName` after the `init` test of `checkImport` -/
def declarePackageName (st : State) (pkgName : String) (e : Entry) : Except Err State :=
  if pkgName = "init" then .error .importAsInit
  else
    match declareIn st.scopes pkgName e with
    | (sc, true) => .ok { st with scopes := sc }
    | (_, false) => .error (.redeclared pkgName)

/-- the name `import "path"` declares: the package's own, unless it starts with `$` -/
def defaultName (p : NativePkg) : String := if p.name.toList.head? == some (Char.ofNat 36) then "" else p.name

/-- the native branch of `checkImport` -/
def importNative (c : Cfg) (st : State) (path : String) (form : ImportForm) : Except Err State :=
  match c.importPath path with
  | none => .error (.cannotFindPackage path)            -- tc.importer == nil
  | some .err => .error (.importerError path)           -- err != nil
  | some .nilPkg => .error (.cannotFindPackage path)    -- pkg == nil
  | some (.pkg p) =>
    match form with
    | .blank => .ok st
    | .forNames ns =>
      match declareFor st.scopes path p.decls ns with
      | .error e => .error e
      | .ok sc => .ok { st with scopes := sc }
    | .dot => .ok { st with scopes := declareAll st.scopes path p.decls }
    | .default =>
      if p.name = "main" then .error (.notImportable path)
      else declarePackageName st (defaultName p) ⟨.pkg, .importer path, p.decls⟩
    | .named n => declarePackageName st n ⟨.pkg, .importer path, p.decls⟩

/-- the emitter's `NativeFunctions`: a resolved native function is recorded -/
def record (st : State) (prov : Prov) (kind : Kind) (name : String) : State :=
  match kind, prov with
  | .func, .code => st
  | .func, p => { st with natives := ⟨p, name⟩ :: st.natives }
  | _, _ => st

def step (c : Cfg) (st : State) : Op → Except Err State
  | .enter => .ok { st with scopes := [] :: st.scopes }
  | .exit =>
    match st.scopes with
    | _ :: rest => if rest.length < 4 then .error .internal else .ok { st with scopes := rest }
    | [] => .error .internal
  | .declare name k =>
    let r := declareIn st.scopes name ⟨k, .code, []⟩
    if r.2 then .ok { st with scopes := r.1 } else .error (.redeclared name)
  | .importNative path form => importNative c st path form
  | .goStmt => if c.allowGo then .ok st else .error .goNotAvailable
  | .useIdent name =>
    match lookup st.scopes name with
    | none => .error (.undefined name)
    | some e => .ok (record st e.prov e.kind name)
  | .useSelector pkg name =>
    match lookup st.scopes pkg with
    | none => .error (.undefined pkg)
    | some e =>
      if e.kind ≠ .pkg then .error (.notAPackage pkg)
      else
        match e.members.find? (fun d => d.name == name) with
        | none => .error (.undefined name)
        | some d => .ok (record st e.prov d.kind (pkg ++ "." ++ name))

def run (c : Cfg) : List Op → State → Except Err State
  | [], st => .ok st
  | op :: ops, st =>
    match step c st op with
    | .error e => .error e
    | .ok st' => run c ops st'

def check (c : Cfg) (template : Bool) (ops : List Op) : Except Err State :=
  run c ops (State.init c template)

/-! ### the builtins and the host -/

/-- function-builder instructions that leave the VM for the host: `Print` calls the print hook of
the environment (default: the standard error of the process); the call instructions call native
functions -/
def hostInstruction (emit : String) : Bool :=
  ["emitPrint", "emitCallNative", "emitCallIndirect", "emitCallFunc", "emitCallMacro", "emitLoadFunc",
   "emitCallNode"].contains emit

/-- builtins whose own emission contains a host instruction -/
def hostBuiltins : List String :=
  (builtinEmits.filter fun (_, emits) => emits.any hostInstruction).map Prod.fst

end ScriggoV.Scopes
