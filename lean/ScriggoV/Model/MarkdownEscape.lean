import ScriggoV.Basic.Bytes
import ScriggoV.Gen.MdTables
/-! Model of `markdownEscape` (both `allowHTML` modes) and `markdownCodeBlockEscape`
(internal/runtime/escapers.go), hand-written as functions from the input bytes to the bytes
written on `w`. The Go loops keep an index `i` and a flush index `last`; what they write is
the concatenation, per input byte, of the pieces below (`s[last:i]` flushes are the bytes passed
through). The punctuation table and the byte constants come from `Gen/MdTables.lean`; the
generator pins the source text of the functions outside that table. Core Lean only. -/
namespace ScriggoV.MarkdownEscape
open ScriggoV.Gen.MdTables

def isSpTab (c : UInt8) : Bool := c == 32 || c == 9

/-- the bytes that get `esc = slash` when `allowHTML` is false: `case '<'`, the punctuation
clause, `case '&'` -/
def escapedText (c : UInt8) : Bool := c == 60 || slashCase c || c == 38

/-- `case ' ', '\t'`: `0 < i && i < len(s)-1 && s[i+1] != ' ' && s[i+1] != '\t'` → `continue`
(the byte stays); `first` is `i == 0`, `rest` is `s[i+1:]` -/
def keepSpace (first : Bool) (rest : Bytes) : Bool :=
  !first && (match rest with
             | [] => false
             | d :: _ => !isSpTab d)

/-- what is written for the byte `c` at index `i` (`allowHTML == false`) -/
def pieceText (first : Bool) (c : UInt8) (rest : Bytes) : Bytes :=
  if escapedText c then slash ++ [c]
  else if isSpTab c then (if keepSpace first rest then [c] else nbsp)
  else [c]

/-- `markdownEscape(w, s, false)`; `first` = "`i == 0`" -/
def escText : Bool → Bytes → Bytes
  | _, [] => []
  | first, c :: rest => pieceText first c rest ++ escText false rest

def markdownEscapeText (s : Bytes) : Bytes := escText true s

/-! ### `allowHTML == true` -/

inductive MdErr
  | notClosedComment   -- errors.New("not closed HTML comment")
  | notClosedCDATA     -- errors.New("not closed CDATA section")
  deriving DecidableEq, Repr

def isPrefixB : Bytes → Bytes → Bool
  | [], _ => true
  | _ :: _, [] => false
  | a :: p, b :: l => a == b && isPrefixB p l

/-- `strings.Index(l, p)` for a non-empty `p` -/
def findSub (p : Bytes) : Bytes → Option Nat
  | [] => none
  | c :: l => if isPrefixB p (c :: l) then some 0 else (findSub p l).map (· + 1)

/-- the tag-skipping loop `for ; i < len(s); i++ { … }` with its `quote` variable, started on
the `<`: the bytes passed over including the closing `>` (kept verbatim), and what follows -/
def tagSkip : UInt8 → Bytes → Bytes × Bytes
  | _, [] => ([], [])
  | q, c :: l =>
    if q == 0 then
      if c == 62 then ([c], l)
      else
        let r := tagSkip (if c == 34 || c == 39 then c else 0) l
        (c :: r.1, r.2)
    else
      let r := tagSkip (if c == q then 0 else q) l
      (c :: r.1, r.2)

def commentOpen : Bytes := [60, 33, 45, 45]                         -- "<!--"
def commentClose : Bytes := [45, 45, 62]                            -- "-->"
def cdataOpen : Bytes := [60, 33, 91, 67, 68, 65, 84, 65, 91]       -- "<![CDATA["
def cdataClose : Bytes := [93, 93, 62]                              -- "]]>"

/-- `markdownEscape(w, s, true)`; `l` is `s[i:]`; fuel ≥ `len l` + 1. `esc` is the Go variable
`esc`, declared outside the loop: `case '&'` does not assign it when `allowHTML` is true, so
what is written before an `&` is whatever an earlier iteration left there (nothing, `\` or
U+00A0) — mirrored here, tied by the correspondence harness. -/
def escHTML : Nat → Bool → Bytes → Bytes → Except MdErr Bytes
  | 0, _, _, _ => .ok []
  | _, _, _, [] => .ok []
  | fuel + 1, first, esc, c :: rest =>
    if c == 60 then
      if isPrefixB commentOpen (c :: rest) then
        let body := (c :: rest).drop 4
        match findSub commentClose body with
        | none => .error .notClosedComment
        | some p =>
          match escHTML fuel false esc (body.drop (p + 3)) with
          | .error e => .error e
          | .ok t => .ok (commentOpen ++ body.take (p + 3) ++ t)
      else if isPrefixB cdataOpen (c :: rest) then
        let body := (c :: rest).drop 9
        match findSub cdataClose body with
        | none => .error .notClosedCDATA
        | some p =>
          match escHTML fuel false esc (body.drop (p + 3)) with
          | .error e => .error e
          | .ok t => .ok (escText true (body.take p) ++ t)
      else
        let r := tagSkip 0 (c :: rest)
        match escHTML fuel false esc r.2 with
        | .error e => .error e
        | .ok t => .ok (r.1 ++ t)
    else if slashCase c then
      match escHTML fuel false slash rest with
      | .error e => .error e
      | .ok t => .ok (slash ++ c :: t)
    else if c == 38 then
      match escHTML fuel false esc rest with
      | .error e => .error e
      | .ok t => .ok (esc ++ c :: t)
    else if isSpTab c then
      if keepSpace first rest then
        match escHTML fuel false esc rest with
        | .error e => .error e
        | .ok t => .ok (c :: t)
      else
        match escHTML fuel false nbsp rest with
        | .error e => .error e
        | .ok t => .ok (nbsp ++ t)
    else
      match escHTML fuel false esc rest with
      | .error e => .error e
      | .ok t => .ok (c :: t)

def markdownEscapeHTML (s : Bytes) : Except MdErr Bytes := escHTML (s.length + 1) true [] s

def markdownEscape (s : Bytes) (allowHTML : Bool) : Except MdErr Bytes :=
  if allowHTML then markdownEscapeHTML s else .ok (markdownEscapeText s)

/-! ### code block -/

def indentOf (spaces : Bool) : Bytes := if spaces then fourSpaces else tab

/-- `markdownCodeBlockEscape(w, s, spaces)`: after every `\n` — taken together with a directly
following `\r` (`if i+1 < len(s) && s[i+1] == '\r' { i++ }`) — the indentation is written.
`p` = "a `\n` has been passed and its indentation is still to be written". -/
def cbGo (spaces : Bool) : Bool → Bytes → Bytes
  | p, [] => if p then indentOf spaces else []
  | p, c :: rest =>
    if p && c == 13 then 13 :: (indentOf spaces ++ cbGo spaces false rest)
    else (if p then indentOf spaces else []) ++ (c :: cbGo spaces (c == 10) rest)

def cbEscape (spaces : Bool) (s : Bytes) : Bytes := cbGo spaces false s

end ScriggoV.MarkdownEscape
