/-! # The dispatch loop of one VM and where the cancellation flag is observed (C11)

`Model/Cancel.lean` treats "a running VM sees the flag at its next step" as one fact
(`Facts.loopHead`). This file opens that fact up: it models the instruction loop of `(*VM).run`
at the level of *how an instruction moves the program counter* and asks where in that loop
`env.done` is read.

* A program is a list of function bodies; a body is a list of instructions. The state of the VM
  is the current function, the program counter in it, and the stack of return addresses.
* Instructions are classified by what their clause in the instruction switch does to the program
  counter (`Flow`): fall through (`next`), skip forward (`skip`: If, operand words), set it
  (`jump`: Goto, and Select, which goes back to the chosen case), enter a function (`call`:
  CallFunc, CallIndirect, CallMacro, TailCall), return (`ret`), run the body of a range statement
  once more in a nested activation of the loop (`iterate`: Range, RangeString), end that
  activation (`leave`: Continue, Break). Everything data-dependent is the environment's choice
  (`ch`): the outcome of a condition, the selected case, whether the range has another element.
* A *placement* says on the dispatch of which classes the flag is read. The code as it is reads it
  at the head of the loop, i.e. on every dispatch, whatever the class.

The flag is set throughout (the question is only how long the VM goes on without looking at it).

Core Lean only (linked into the driver). -/
namespace ScriggoV.Cancel.Dispatch

inductive Flow
  | next | skip | jump | call | ret | iterate | leave
deriving Repr, DecidableEq

/-- the classes that can only move the program counter forward inside the current function -/
def Flow.forward : Flow → Bool
  | .next | .skip => true
  | _ => false

def Flow.all : List Flow := [.next, .skip, .jump, .call, .ret, .iterate, .leave]

inductive DInstr
  | plain                    -- any instruction that falls through
  | cond                     -- If…: the next instruction is executed or skipped
  | jump (ts : List Nat)     -- Goto (one target); Select (the addresses of its cases)
  | call (f : Nat)           -- pushes the return address, enters function f
  | tail (f : Nat)           -- TailCall: enters function f, nothing to come back to
  | ret                      -- Return
  | range                    -- Range: another element → the body (pc+2), none → pc+1
  | leave (t : Nat)          -- Continue / Break: ends the nested activation, control goes to t
deriving Repr, DecidableEq

def DInstr.cls : DInstr → Flow
  | .plain => .next
  | .cond => .skip
  | .jump _ => .jump
  | .call _ | .tail _ => .call
  | .ret => .ret
  | .range => .iterate
  | .leave _ => .leave

abbrev Prog := List (List DInstr)

structure DState where
  fn : Nat
  pc : Nat
  stack : List (Nat × Nat)
deriving Repr, DecidableEq

def fetch (prog : Prog) (s : DState) : Option DInstr :=
  match prog[s.fn]? with
  | none => none
  | some body => body[s.pc]?

def bodyLen (prog : Prog) (f : Nat) : Nat :=
  match prog[f]? with
  | none => 0
  | some body => body.length

inductive DRes
  | running (s : DState)
  | stopped            -- the flag was read: `return vm.stop()`
  | ended              -- the outermost function returned (or the code ran out)
deriving Repr, DecidableEq

def pick (ts : List Nat) (ch : Nat) : Nat :=
  match ts[ch % ts.length]? with
  | some t => t
  | none => 0

/-- the effect of an instruction; `ch` is the environment's choice -/
def exec (s : DState) (ch : Nat) : DInstr → DRes
  | .plain => .running { s with pc := s.pc + 1 }
  | .cond => .running { s with pc := s.pc + 1 + (if ch = 0 then 0 else 1) }
  | .jump ts => .running { s with pc := pick ts ch }
  | .call f => .running ⟨f, 0, (s.fn, s.pc + 1) :: s.stack⟩
  | .tail f => .running ⟨f, 0, s.stack⟩
  | .ret =>
    match s.stack with
    | [] => .ended
    | (f, p) :: rest => .running ⟨f, p, rest⟩
  | .range => .running { s with pc := s.pc + (if ch = 0 then 1 else 2) }
  | .leave t => .running { s with pc := t }

/-- one turn of the instruction loop with the flag set: the flag is read iff the placement `P`
says so for the class of the instruction being dispatched -/
def dispatch (P : Flow → Bool) (prog : Prog) (s : DState) (ch : Nat) : DRes :=
  match fetch prog s with
  | none => .ended
  | some i => if P i.cls then .stopped else exec s ch i

/-- the loop, one choice of the environment per turn -/
def runFlag (P : Flow → Bool) (prog : Prog) : DState → List Nat → DRes
  | s, [] => .running s
  | s, ch :: chs =>
    match dispatch P prog s ch with
    | .running s' => runFlag P prog s' chs
    | r => r

/-- number of instructions dispatched without a look at the flag (for the driver) -/
def unobserved (P : Flow → Bool) (prog : Prog) : DState → List Nat → Nat
  | _, [] => 0
  | s, ch :: chs =>
    match dispatch P prog s ch with
    | .running s' => unobserved P prog s' chs + 1
    | _ => 0

/-- the flag is read on every dispatch: the test at the head of the loop -/
def headPlacement : Flow → Bool := fun _ => true

/-- the flag is read on the dispatch of the given classes only -/
def onlyAt (cs : List Flow) : Flow → Bool := fun c => cs.contains c

/-! the smallest cycles of the four kinds (used as witnesses) -/

/-- `func f() { f() }` -/
def recLoop : Prog := [[.call 0]]
/-- `func f(n int) int { n++; return f(n) }` -/
def tailLoop : Prog := [[.plain, .tail 0]]
/-- `for range xs { x++ }`: Range; Goto end; body; Continue; end: Return -/
def rangeLoop : Prog := [[.range, .jump [4], .plain, .leave 0, .ret]]
/-- `for { x++ }` -/
def gotoLoop : Prog := [[.plain, .jump [0]]]

end ScriggoV.Cancel.Dispatch
