/-! # Channel operations of one goroutine, in sequence (C14)

One goroutine, its channels (buffered, possibly filled and closed beforehand — which is also how a
channel fed and closed by another goroutine looks to a goroutine that only receives from it —, or
nil), and a sequence of channel operations: send, receive (with and without `ok`), range until
closed, select (receive and send cases, with or without default), close, len/cap, setting a
channel variable to nil. What the operations deliver is recorded in a trace.

Two readings of the same operations:

* `ctx = false` — Go's: a receive is `ch.Recv()`, a send `ch.Send(v)`, a select statement is
  `reflect.Select` over its own cases. This is the specification (and the oracle of the harness).
* `ctx = true` — the VM's when the run has a context with a Done channel: every blocking
  operation is `reflect.Select(vm.cases)`, `vm.cases` being the VM's reusable buffer to which the
  operation appends its own cases and the Done case. `Policy` says on which ways out of an
  instruction the buffer is emptied (`Model/CaseBuf.lean` reads the code's policy off run.go). What
  stays in the buffer is selected again by the next operation.

The Done case is never ready (the context is not cancelled). `reflect.Select` picks the first
ready case here (Go picks any; the generated programs have at most one). Core Lean only. -/
namespace ScriggoV.ChanSeq

abbrev Val := Int

structure Ch where
  cap : Nat
  buf : List Val := []
  closed : Bool := false
  isNil : Bool := false
deriving DecidableEq, Repr

/-- a case of a select statement; `form`: 0 `case <-c`, 1 `case v := <-c`, 2 `case v, ok := <-c` -/
inductive SCase where
  | recv (ch : Nat) (form : Nat)
  | send (ch : Nat) (v : Val)
deriving DecidableEq, Repr

inductive Op where
  | send (ch : Nat) (v : Val)
  | recv (ch : Nat)                          -- traces the value
  | recvOk (ch : Nat)                        -- traces the value and ok (1/0)
  | range (ch : Nat) (body : List Op)        -- for v := range ch { trace v; body }
  | sel (cases : List SCase) (dflt : Bool)   -- traces the index of the chosen case (default: the number of cases), then value, ok as the form says
  | close (ch : Nat)
  | lenCap (ch : Nat)                        -- traces len(ch), cap(ch)
  | setNil (ch : Nat)                        -- ch = nil
deriving Repr

/-- an entry of `vm.cases` -/
inductive BCase where
  | recv (ch : Nat)
  | send (ch : Nat) (v : Val)
  | done
  | dflt
deriving DecidableEq, Repr

inductive Err where
  | blocked     -- the goroutine would block for ever
  | panic       -- send on / close of a closed channel, close of a nil channel
  | stopped     -- the VM took the Done case (`return vm.stop()`)
  | wrongJump   -- OpSelect computed its jump from a case that is not one of the statement's
  | nofuel
deriving DecidableEq, Repr

/-- where the buffer is emptied (`true` everywhere: empty between any two channel operations) -/
structure Policy where
  recv : Bool          -- OpReceive
  send : Bool          -- OpSend
  select : Bool        -- OpSelect
  rangeBody : Bool     -- OpRange: before the body of the loop runs
  rangeExit : Bool     -- OpRange: when the loop is left because the channel is closed
deriving DecidableEq, Repr

def Policy.good : Policy := ⟨true, true, true, true, true⟩

/-- the channel a variable holds (`none`: nil) -/
def getCh (chans : List Ch) (i : Nat) : Option Ch :=
  match chans[i]? with
  | some c => if c.isNil then none else some c
  | none => none

def ready (chans : List Ch) : BCase → Bool
  | .recv ch => match getCh chans ch with
    | some c => !c.buf.isEmpty || c.closed
    | none => false
  | .send ch _ => match getCh chans ch with
    | some c => c.closed || c.buf.length < c.cap
    | none => false
  | .done => false
  | .dflt => false

def isDflt : BCase → Bool
  | .dflt => true
  | _ => false

/-- `reflect.Select`'s choice: a ready case, else the default case, else it blocks -/
def choose (chans : List Ch) (l : List BCase) : Option Nat :=
  match l.findIdx? (ready chans) with
  | some i => some i
  | none => l.findIdx? isDflt

/-- what a chosen case does: the channels afterwards, the received value and ok -/
structure Fired where
  chans : List Ch
  val : Val
  ok : Bool
deriving DecidableEq, Repr

def fire (chans : List Ch) : BCase → Except Err Fired
  | .recv ch => match getCh chans ch with
    | none => .error .blocked
    | some c => match c.buf with
      | x :: rest => .ok ⟨chans.set ch { c with buf := rest }, x, true⟩
      | [] => if c.closed then .ok ⟨chans, 0, false⟩ else .error .blocked
  | .send ch v => match getCh chans ch with
    | none => .error .blocked
    | some c =>
      if c.closed then .error .panic
      else if c.buf.length < c.cap then .ok ⟨chans.set ch { c with buf := c.buf ++ [v] }, 0, false⟩
      else .error .blocked
  | .done => .error .stopped
  | .dflt => .ok ⟨chans, 0, false⟩

/-- `reflect.Select(buf)`: the index chosen and what that case did -/
def vmSelect (chans : List Ch) (buf : List BCase) : Except Err (Nat × Fired) :=
  match choose chans buf with
  | none => .error .blocked
  | some i => match buf[i]? with
    | none => .error .blocked
    | some b => match fire chans b with
      | .error e => .error e
      | .ok f => .ok (i, f)

/-- OpReceive / OpSend / one receive of OpRange with own case `x`: what happened, and the buffer
as the instruction has it before it (maybe) empties it. With a Done channel the instruction
appends `[x, done]` to the buffer and takes index 1 for the Done case. -/
def single (ctx : Bool) (chans : List Ch) (stale : List BCase) (x : BCase) :
    Except Err (Fired × List BCase) :=
  if ctx then
    match vmSelect chans (stale ++ [x, .done]) with
    | .error e => .error e
    | .ok (i, f) => if i = 1 then .error .stopped else .ok (f, stale ++ [x, .done])
  else
    match vmSelect chans [x] with
    | .error e => .error e
    | .ok (_, f) => .ok (f, stale)

def SCase.toB : SCase → BCase
  | .recv ch _ => .recv ch
  | .send ch v => .send ch v

/-- what the body of the chosen case of a select statement traces -/
def selTrace (cases : List SCase) (j : Nat) (f : Fired) : List Val :=
  match cases[j]? with
  | some (.recv _ 1) => [(j : Int), f.val]
  | some (.recv _ 2) => [(j : Int), f.val, if f.ok then 1 else 0]
  | _ => [(j : Int)]

/-- the OpCase instructions push the statement's cases, OpSelect selects (with a Done channel:
after appending the Done case, whose index is the number of cases before it) and computes its
jump from the distance of the chosen index to the end -/
def selectStmt (ctx : Bool) (chans : List Ch) (stale : List BCase) (cases : List SCase) (dflt : Bool) :
    Except Err (Fired × List Val × List BCase) :=
  let pushed := stale ++ (cases.map SCase.toB ++ if dflt then [.dflt] else [])
  let buf := if ctx then pushed ++ [.done] else pushed
  match vmSelect chans buf with
  | .error e => .error e
  | .ok (i, f) =>
    if ctx && i = pushed.length then .error .stopped
    else if i < stale.length then .error .wrongJump
    else .ok (f, selTrace cases (i - stale.length) f, buf)

structure Cfg where
  code : List Op
  chans : List Ch
  trace : List Val := []
  cases : List BCase := []     -- vm.cases
deriving Repr

def keep (emptied : Bool) (buf : List BCase) : List BCase := if emptied then [] else buf

/-- one operation (one iteration, for a range loop) -/
def step (ctx : Bool) (pol : Policy) (c : Cfg) : Except Err Cfg :=
  match c.code with
  | [] => .ok c
  | .send ch v :: rest =>
    match single ctx c.chans c.cases (.send ch v) with
    | .error e => .error e
    | .ok (f, buf) => .ok { c with code := rest, chans := f.chans, cases := keep pol.send buf }
  | .recv ch :: rest =>
    match single ctx c.chans c.cases (.recv ch) with
    | .error e => .error e
    | .ok (f, buf) =>
      .ok { code := rest, chans := f.chans, trace := c.trace ++ [f.val], cases := keep pol.recv buf }
  | .recvOk ch :: rest =>
    match single ctx c.chans c.cases (.recv ch) with
    | .error e => .error e
    | .ok (f, buf) =>
      .ok { code := rest, chans := f.chans, trace := c.trace ++ [f.val, if f.ok then 1 else 0],
            cases := keep pol.recv buf }
  | .range ch body :: rest =>
    match single ctx c.chans c.cases (.recv ch) with
    | .error e => .error e
    | .ok (f, buf) =>
      if f.ok then
        .ok { code := body ++ .range ch body :: rest, chans := f.chans, trace := c.trace ++ [f.val],
              cases := keep pol.rangeBody buf }
      else .ok { c with code := rest, chans := f.chans, cases := keep pol.rangeExit buf }
  | .sel cases dflt :: rest =>
    match selectStmt ctx c.chans c.cases cases dflt with
    | .error e => .error e
    | .ok (f, tr, buf) =>
      .ok { code := rest, chans := f.chans, trace := c.trace ++ tr, cases := keep pol.select buf }
  | .close ch :: rest =>
    match getCh c.chans ch with
    | none => .error .panic
    | some x =>
      if x.closed then .error .panic
      else .ok { c with code := rest, chans := c.chans.set ch { x with closed := true } }
  | .lenCap ch :: rest =>
    match getCh c.chans ch with
    | none => .ok { c with code := rest, trace := c.trace ++ [0, 0] }
    | some x => .ok { c with code := rest, trace := c.trace ++ [(x.buf.length : Int), (x.cap : Int)] }
  | .setNil ch :: rest =>
    match c.chans[ch]? with
    | none => .ok { c with code := rest }
    | some x => .ok { c with code := rest, chans := c.chans.set ch { x with isNil := true } }

/-- run to the end of the code, at most `fuel` operations -/
def run (ctx : Bool) (pol : Policy) : Nat → Cfg → Except Err Cfg
  | 0, c => if c.code.isEmpty then .ok c else .error .nofuel
  | fuel + 1, c =>
    if c.code.isEmpty then .ok c
    else match step ctx pol c with
      | .error e => .error e
      | .ok c' => run ctx pol fuel c'

/-- exactly `n` operations (fewer if the code ends) -/
def steps (ctx : Bool) (pol : Policy) : Nat → Cfg → Except Err Cfg
  | 0, c => .ok c
  | n + 1, c => match step ctx pol c with
    | .error e => .error e
    | .ok c' => steps ctx pol n c'

/-- what a run printed, if it came to its end -/
def traceOf (r : Except Err Cfg) : Option (List Val) :=
  match r with
  | .ok c => some c.trace
  | .error _ => none

end ScriggoV.ChanSeq
