import ScriggoV.Gen.NativeCalls
/-! The moment the virtual machine hands control to native code, as `convertPanic` sees it when
that code panics (property C12). Hand-written glue over two regenerated files:
`Gen/NativeCalls.lean` (where `vm.callNative` is called and what `vm.pc` is there) and
`Gen/ConvertPanic.lean` (`classify`: the switch over `vm.fn.Body[vm.pc-1].Op`). Core Lean only. -/
namespace ScriggoV.NativeDispatch
open ScriggoV.Gen.ConvertPanic ScriggoV.Gen.NativeCalls

/-- The `Op` field of a word of a function body (`Instruction{Op, A, B, C}`): an operation,
negative for the constant-operand form — or, in the operand word that follows a call
instruction, the shift of the int register stack, which can be any int8 value. -/
abbrev Word := Int

def encode (op : Op) (neg : Bool) : Word := if neg then -(op.code : Int) else (op.code : Int)

/-- which case label of `switch op := vm.fn.Body[vm.pc-1].Op` a word can match -/
def decode (w : Word) : Option (Op × Bool) :=
  (Op.all.find? (fun o => o.code == w.natAbs)).map (fun o => (o, decide (w < 0)))

/-- `convertPanic` for a panic recovered while the function with body `body` runs and the
program counter is `pc`: it classifies by the word at `pc - 1`. A word that is no operation
matches no case (written as `OpNone`, which has none). -/
def classifyAt (body : List Word) (pc : Nat) (nativeCallee : Bool) (p : Payload) : Outcome :=
  match body[pc - 1]? with
  | some w =>
    match decode w with
    | some (op, neg) => classify true op neg nativeCallee p
    | none => classify true .OpNone false nativeCallee p
  | none => .fatal    -- convertPanic itself indexes out of range: a host panic

/-- What the documentation promises when native code reached by a call ends with a Go panic
carrying `p`: `env.Stop(err)` stops the run with `err`, `env.Fatal(v)` leaves `Run` as a panic,
`panic(v)` with any other value — also a panic or run-time error of a Scriggo function the
native code called back — is a panic of the program (recoverable, reported as `*PanicError`).
A Go run-time error raised by the native code itself is not documented (fatal by design). -/
def documented : Payload → Option Outcome
  | .stopError => some .stop
  | .fatalError => some .fatal
  | .outError => some .panicError
  | .scriggoRuntimeError _ => some .panicError
  | .str _ => some .panicError
  | .err => some .panicError
  | .other => some .panicError
  | .goRuntimeError _ => none

/-- the operations (with sign, and for `OpCallIndirect` the callee test) whose case in
`convertPanic` treats the recovered value as coming from native code -/
def Recognised (op : Op) (neg nativeCallee : Bool) : Prop :=
  ∀ p o, documented p = some o → classify true op neg nativeCallee p = o

def recognisedB (op : Op) (neg nativeCallee : Bool) : Bool :=
  match op, neg with
  | .OpCallNative, false => true
  | .OpReturn, false => true
  | .OpCallIndirect, false => nativeCallee
  | _, _ => false

/-- a site of the instruction switch is sound when the call is made with `vm.pc` one past the
instruction (so that `Body[pc-1]` is the instruction itself) and every case label of its
clause is recognised -/
def siteOk (s : Site) : Bool :=
  s.pcAtCall == 1 && s.ops.all (fun on => recognisedB on.1 on.2 s.nativeCallee)

/-- after a native call the operand word is skipped: the next fetch is two words on -/
def skipsOperand (s : Site) : Bool := s.pcAtEnd == some 2

end ScriggoV.NativeDispatch
