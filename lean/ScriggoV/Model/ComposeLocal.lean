/-! C16 — block-local declarations against the names that come from other files: the model.

Hand-written, core Lean only. In a template file the names of the *package table* of the emitter
(`fnStore.availableScriggoFn`) are the macros the file imports and, in a layout, the macros of the
extending file; everything the file declares itself — file-level macros included — is a *local* of
some function (the main function, a macro body, a function literal). A call `Name(...)` whose callee is
a plain identifier is compiled by `emitCallNode` (internal/compiler/emitter.go):

  * "Scriggo-defined function (identifier)": under the branch's guard, when the package table has
    `Name`, a **direct call** of that function;
  * otherwise an indirect call of the value of the expression `Name`, which `emitExpr` finds as a local
    register, else as a closure variable, else in the package table.

What is modelled: the chain of blocks around the use with their local declarations and the function
boundaries, the lexical resolution (`resolve`: what the type checker does), `em.fb.declaredInFunc`,
`em.varStore.isClosureVar` and the emitter's choice (`emitCallee`) with the guard as a parameter (instantiated in Props/C16
with the regenerated one). -/
namespace ScriggoV.Compose.Local

/-- what a callee name stands for -/
inductive Target
  /-- a local declaration: macro parameter, macro nested in a block, variable of a block, for-range
  variable, file-level macro of the file itself; called through its register / closure variable -/
  | loc (id : Nat)
  /-- a function of the package table: an imported macro, a macro of the extending file; called directly -/
  | pkg (id : Nat)
  deriving DecidableEq, Repr

/-- a block around the use. `decls`: name ↦ declaration, the ones that precede the use, latest first.
`func`: the block is the outermost block of a function body (macro body, function literal — its
parameters are declared in it). -/
structure Frame where
  decls : List (Nat × Nat)
  func : Bool
  deriving Repr

/-- the blocks around a use, innermost first -/
abbrev Chain := List Frame
/-- the package table of the file: name ↦ function -/
abbrev Table := List (Nat × Nat)

def find : List (Nat × Nat) → Nat → Option Nat
  | [], _ => none
  | (k, d) :: rest, n => if k = n then some d else find rest n

/-- the innermost enclosing local declaration of `n` -/
def resolveLocal : Chain → Nat → Option Nat
  | [], _ => none
  | f :: rest, n =>
    match find f.decls n with
    | some d => some d
    | none => resolveLocal rest n

/-- **lexical scope** (the type checker's resolution): the innermost enclosing local declaration,
else the package table -/
def resolve (c : Chain) (t : Table) (n : Nat) : Option Target :=
  match resolveLocal c n with
  | some d => some (.loc d)
  | none =>
    match find t n with
    | some d => some (.pkg d)
    | none => none

/-- `em.fb.declaredInFunc(name)`: declared in a scope of the *current function builder* — the blocks
up to and including the body block of the innermost function -/
def declaredInFunc : Chain → Nat → Bool
  | [], _ => false
  | f :: rest, n => (find f.decls n).isSome || (!f.func && declaredInFunc rest n)

/-- `em.varStore.isClosureVar(em.fb.fn, name)` at a use of `name` in the current function: the type
checker records as upvars of a function literal / macro the names used in it that resolve to a local of
an *enclosing* function, and `setFunctionVarRefs` enters them in `closureVars[fn]` — so at this use the
name is a closure variable iff it is a local of the lexical scope that is not declared in the current
function. (`packageVarRef`, commit ccfaf1d, also enters package *variables* read in a closure; a name
cannot be a variable and a function of the package table at once — a redeclaration — so those entries
never meet `find t n = some _`.) -/
def isClosureVar (c : Chain) (n : Nat) : Bool :=
  !declaredInFunc c n && (resolveLocal c n).isSome

/-- `emitCallNode` on `n(...)`. `guard d cv` is the condition of the direct-call branch as a function
of `d` = "declared in the current function" (`em.fb.declaredInFunc`) and `cv` = "closure variable of the
current function" (`em.varStore.isClosureVar`); instantiated in Props/C16 with the regenerated one. The
indirect path evaluates the identifier as `emitExpr` does: locals and closure variables first —
`resolve`. -/
def emitCallee (guard : Bool → Bool → Bool) (c : Chain) (t : Table) (n : Nat) : Option Target :=
  if guard (declaredInFunc c n) (isClosureVar c n) then
    match find t n with
    | some d => some (.pkg d)
    | none => resolve c t n
  else resolve c t n

end ScriggoV.Compose.Local
