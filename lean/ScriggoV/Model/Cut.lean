import ScriggoV.Basic.Bytes
/-! C15 — what a template's text becomes: delimiter-level tokenizer, the line accounting and
`cutSpaces` of `ParseTemplateSource`, the emitter's `Text[Cut.Left : len-Cut.Right]`.

Mirrors (hand-written; tied to the code by go/props/c15):

* internal/compiler/lexer.go `scan` — only as far as it decides *where tokens start and end*:
  `{{ }}`, `{% %}`, `{%% %%}`, `{# #}` (`lexComment`, nesting included), raw content
  (`skipRawContent`/`endRawIndex`/`skipRawSpaces`), the shebang line, the Markdown back-slash
  escape and the tab/four-spaces code-block contexts (in which the back-slash is not an
  escape), the `#}` error.  The code between delimiters is not lexed: it is looked up, word by
  word, in a small fixed vocabulary (`classifyStmt`, `classifyStmts`, `classifyShow`); anything
  else is `TokErr.unsupported`.  URL tokens (`tokenStartURL`/`tokenEndURL`) are not produced: a
  text that the real lexer splits around a URL is one text here (see `Props/C15.lean` for why
  that is harmless after the fix `fixes/C15-cut-middle-text.md`).
* internal/compiler/parser.go `ParseTemplateSource` — `line`, `firstText`, `numTokenInLine`,
  `p.cutSpacesToken`, the `line < tok.lin || tok.pos.End == lastIndex` clause, `cutSpaces`.
* internal/compiler/emitter_statements.go — `node.Text[node.Cut.Left : len(node.Text)-node.Cut.Right]`
  as a *checked* slice (`Fault.slice`), builder.go `flushText` — concatenation.

Core Lean only. -/
namespace ScriggoV.Cut

inductive Format | text | html | css | js | json | markdown
  deriving DecidableEq, Repr

def Format.ofName? : String → Option Format
  | "text" => some .text | "html" => some .html | "css" => some .css
  | "js" => some .js | "json" => some .json | "markdown" => some .markdown
  | _ => none

/-! ## tokens as the main loop of `ParseTemplateSource` sees them -/

/-- a non-text token: `{% … %}`, `{%% … %%}`, `{{ … }}` or `{# … #}` -/
structure NT where
  /-- `{# … #}`: one token, emitted by the lexer *after* its newlines have been counted -/
  comment : Bool
  /-- `p.cutSpacesToken` is set to true while the token is parsed -/
  cuttable : Bool
  /-- what it prints when run (constant shows; statements of the vocabulary print nothing) -/
  out : Bytes
  /-- number of LF inside the token -/
  nl : Nat
  /-- length of the token the loop looks at: `{%`/`{{` 2, `{%%` 3, a comment its whole span -/
  head : Nat
  /-- length of the whole construct in the source -/
  span : Nat
  deriving DecidableEq, Repr

inductive Raw
  | text (bs : Bytes)
  | nt (t : NT)
  deriving DecidableEq, Repr

def Raw.isText : Raw → Bool
  | .text _ => true
  | .nt _ => false

def LF : UInt8 := 10

/-- `c == ' ' || c == '\t' || c == '\r'` (cutSpaces) -/
def isBlank (c : UInt8) : Bool := c == 32 || c == 9 || c == 13

def nlCount (bs : Bytes) : Nat := bs.count LF

def Raw.span : Raw → Nat
  | .text bs => bs.length
  | .nt t => t.span
def Raw.head : Raw → Nat
  | .text bs => bs.length
  | .nt t => t.head
def Raw.nl : Raw → Nat
  | .text bs => nlCount bs
  | .nt t => t.nl
/-- `token.lin - token.pos.Line`: `lin` is the lexer's line when the token is *emitted* — after
the text or the comment has been scanned, before the code of a statement or show is. -/
def Raw.linAdd : Raw → Nat
  | .text bs => nlCount bs
  | .nt t => if t.comment then t.nl else 0

/-- a token with the three position facts the parser's loop reads -/
structure Tok where
  raw : Raw
  /-- `tok.pos.Line` -/
  posLine : Nat
  /-- `tok.lin` -/
  lin : Nat
  /-- `tok.pos.End == lastIndex` -/
  atLast : Bool
  deriving DecidableEq, Repr

/-- positions: `line` is the lexer's line at the token's first byte, `off` its offset, `total`
the length of the whole source (`lastIndex + 1`) -/
def assignAux (total : Nat) : Nat → Nat → List Raw → List Tok
  | _, _, [] => []
  | line, off, r :: rs =>
    ⟨r, line, line + r.linAdd, off + r.head == total⟩
      :: assignAux total (line + r.nl) (off + r.span) rs

def spanSum : List Raw → Nat
  | [] => 0
  | r :: rs => r.span + spanSum rs

/-! ## `cutSpaces` -/

structure TextNode where
  bs : Bytes
  cutL : Nat
  cutR : Nat
  deriving DecidableEq, Repr

inductive Node
  | text (t : TextNode)
  | nt (t : NT)
  deriving DecidableEq, Repr

/-- the backward loop over `first.Text` on the reversed text: `none` = `return`,
`some firstCut` otherwise (`rest.length` is the index `i` of the byte looked at) -/
def scanFirstRev : Bytes → Option Nat
  | [] => some 0
  | c :: rest =>
    if c == LF then some (rest.length + 1)
    else if isBlank c then scanFirstRev rest
    else none

def scanFirst (txt : Bytes) : Option Nat := scanFirstRev txt.reverse

/-- the forward loop over `last.Text` from index `i`: `none` = `return`, `some lastCut` -/
def scanLastFrom : Bytes → Nat → Option Nat
  | [], i => some i
  | c :: rest, i =>
    if c == LF then some (i + 1)
    else if isBlank c then scanLastFrom rest (i + 1)
    else none

def scanLast (txt : Bytes) : Option Nat := scanLastFrom txt 0

def setCutR (firstCut : Nat) (t : TextNode) : TextNode := { t with cutR := t.bs.length - firstCut }
def setCutL (lastCut : Nat) (t : TextNode) : TextNode := { t with cutL := lastCut }

/-- `cutSpaces(first, last *ast.Text)`; a `nil` pointer is `none`. Nothing is assigned unless
both scans succeed (`first.Cut.Right` is assigned at the very end). -/
def cutSpaces (first last : Option TextNode) : Option TextNode × Option TextNode :=
  let firstCut : Option Nat :=
    match first with
    | none => some 0
    | some f => scanFirst f.bs
  match firstCut with
  | none => (first, last)
  | some fc =>
    match last with
    | none => (first.map (setCutR fc), none)
    | some l =>
      match scanLast l.bs with
      | none => (first, last)
      | some lc => (first.map (setCutR fc), some (setCutL lc l))

/-! ## the token loop of `ParseTemplateSource` -/

structure PSt where
  /-- `line` -/
  line : Nat
  /-- nodes of the lines already left, last first -/
  done : List Node
  /-- `firstText` (a pointer into the tree: the node can still get its `Cut.Right`) -/
  first : Option TextNode
  /-- the other nodes added since `firstText` was set, last first -/
  rest : List Node
  /-- `p.cutSpacesToken` -/
  cst : Bool
  /-- `numTokenInLine` -/
  num : Nat
  deriving Repr

def PSt.init : PSt := ⟨0, [], none, [], false, 0⟩

def optNode : Option TextNode → List Node
  | none => []
  | some t => [.text t]

/-- the body of `if line < tok.lin || tok.pos.End == lastIndex { … }` -/
def fire (st : PSt) (text : Option TextNode) (lin : Nat) : PSt :=
  let p := if st.cst && st.num == 1 then cutSpaces st.first text else (st.first, text)
  { line := lin, done := st.rest ++ (optNode p.1 ++ st.done), first := p.2, rest := [],
    cst := false, num := 0 }

def fires (st : PSt) (t : Tok) : Bool := st.line < t.lin || t.atLast

/-- one iteration, up to and including the `switch tok.typ`. A text that is not `firstText`
counts in `numTokenInLine` (fix C15-cut-middle-text). -/
def step (st : PSt) (t : Tok) : PSt :=
  match t.raw with
  | .text bs =>
    if fires st t then fire st (some ⟨bs, 0, 0⟩) t.lin
    else { st with rest := .text ⟨bs, 0, 0⟩ :: st.rest, num := st.num + 1 }
  | .nt x =>
    let st1 := if fires st t then fire st none t.lin else st
    { st1 with rest := .nt x :: st1.rest, num := st1.num + 1, cst := st1.cst || x.cuttable }

/-- `if line < tok.pos.Line { line = tok.pos.Line }` with the *next* token, at the end of the
iteration (fix C15-multiline-statement-cut). After the last token the next one is EOF and
`line` is not read again. -/
def catchUp (st : PSt) : List Tok → PSt
  | [] => st
  | n :: _ => if st.line < n.posLine then { st with line := n.posLine } else st

def run : PSt → List Tok → PSt
  | st, [] => st
  | st, t :: rest => run (catchUp (step st t) rest) rest

/-- the `Text`, show and statement nodes of the tree in source order -/
def PSt.nodes (st : PSt) : List Node := st.done.reverse ++ (optNode st.first ++ st.rest.reverse)

/-! ## emitter -/

/-- `txt := node.Text[node.Cut.Left : len(node.Text)-node.Cut.Right]` -/
def emitNode : Node → Except Fault Bytes
  | .text t =>
    if t.cutR ≤ t.bs.length then sliceOf t.bs t.cutL (t.bs.length - t.cutR) else .error .slice
  | .nt x => .ok x.out

/-- `emitText` appends, `flushText` concatenates -/
def emit : List Node → Except Fault Bytes
  | [] => .ok []
  | n :: ns =>
    match emitNode n with
    | .error f => .error f
    | .ok a =>
      match emit ns with
      | .error f => .error f
      | .ok b => .ok (a ++ b)

/-- tokens → output. `firstLine` is 1, or 2 after a shebang line; `skipped` the length of the
shebang line (it counts for `lastIndex`). -/
def renderRaws (firstLine skipped : Nat) (raws : List Raw) : Except Fault Bytes :=
  emit (run PSt.init (assignAux (skipped + spanSum raws) firstLine skipped raws)).nodes

/-! ## delimiter-level tokenizer -/

inductive TokErr
  | lex          -- the real lexer reports a syntax error here (or the parser: unterminated raw)
  | unsupported  -- outside the modelled class
  | fuel
  deriving DecidableEq, Repr

def TokErr.name : TokErr → String
  | .lex => "lex" | .unsupported => "unsupported" | .fuel => "fuel"

/-! what every token list of the real lexer satisfies at this level of detail: a text token is
never empty, two text tokens are never adjacent (URL tokens aside, see the header), the loop
looks at a proper prefix of a statement or show and at the whole of a comment -/

def NT.wf (t : NT) : Bool :=
  decide (0 < t.head) && (if t.comment then t.head == t.span else decide (t.head < t.span))

def Raw.wf : Raw → Bool
  | .text bs => !bs.isEmpty
  | .nt t => t.wf

/-- no two texts in a row (`prev`: the token before was a text) -/
def noAdj : Bool → List Raw → Bool
  | _, [] => true
  | prev, .text _ :: rs => !prev && noAdj true rs
  | _, .nt _ :: rs => noAdj false rs

def WF (raws : List Raw) : Bool := raws.all Raw.wf && noAdj false raws

def indexByte (s : Bytes) (c : UInt8) : Option Nat :=
  match s with
  | [] => none
  | b :: rest => if b == c then some 0 else (indexByte rest c).map (· + 1)

/-- index of the first occurrence of `p` in `s` -/
def findSub (p : Bytes) : Bytes → Option Nat
  | [] => if p.isEmpty then some 0 else none
  | b :: rest => if p.isPrefixOf (b :: rest) then some 0 else (findSub p rest).map (· + 1)

def isWS (c : UInt8) : Bool := c == 32 || c == 9 || c == 13 || c == 10

def wordsAux : Bytes → Bytes → List Bytes
  | [], cur => if cur.isEmpty then [] else [cur.reverse]
  | c :: cs, cur =>
    if isWS c then (if cur.isEmpty then wordsAux cs [] else cur.reverse :: wordsAux cs [])
    else wordsAux cs (c :: cur)

/-- the code between two delimiters, split at spaces, tabs, CR and LF -/
def words (bs : Bytes) : List Bytes := wordsAux bs []

/-! vocabulary (ASCII, spelled as numerals so that `decide`/`rfl` evaluate them) -/
def wIf : Bytes := [105, 102]            -- if
def wTrue : Bytes := [116, 114, 117, 101] -- true
def wEnd : Bytes := [101, 110, 100]      -- end
def wRaw : Bytes := [114, 97, 119]       -- raw
def wVar : Bytes := [118, 97, 114]       -- var
def wUs : Bytes := [95]                  -- _
def wEq : Bytes := [61]                  -- =
def w1 : Bytes := [49]
def w2 : Bytes := [50]
def w5 : Bytes := [53]
def w7 : Bytes := [55]
def w42 : Bytes := [52, 50]
def wPlus : Bytes := [43]
def wConstQ : Bytes := [34, 99, 111, 110, 115, 116, 34]  -- "const"
def wConst : Bytes := [99, 111, 110, 115, 116]           -- const

def isIdentByte (c : UInt8) : Bool :=
  (97 ≤ c && c ≤ 122) || (65 ≤ c && c ≤ 90) || (48 ≤ c && c ≤ 57) || c == 95

def isIdent (w : Bytes) : Bool :=
  match w with
  | [] => false
  | c :: _ => w.all isIdentByte && !(48 ≤ c && c ≤ 57) && w != wUs

inductive StmtKind
  | plain (cuttable : Bool)
  | rawStart (marker : Bytes)
  deriving DecidableEq, Repr

/-- `{% … %}`: which statements of the vocabulary set `p.cutSpacesToken` (parser.go `parse`:
`if`, `end`, `raw`, assignment do; `var` does not) -/
def classifyStmt (ws : List Bytes) : Option StmtKind :=
  if ws == [wIf, wTrue] then some (.plain true)
  else if ws == [wEnd] then some (.plain true)
  else if ws == [wEnd, wIf] then some (.plain true)
  else if ws == [wEnd, wRaw] then some (.plain true)
  else if ws == [wUs, wEq, w1] then some (.plain true)
  else if ws == [wVar, wUs, wEq, w1] then some (.plain false)
  else if ws == [wRaw] then some (.rawStart [])
  else match ws with
    | [a, b] => if a == wRaw && isIdent b then some (.rawStart b) else none
    | [a, b, c] => if a == wEnd && b == wRaw && isIdent c then some (.plain true) else none
    | _ => none

/-- `{%% … %%}`: a sequence of `_ = 1` and `var _ = 1`; cuttable when one assignment is there -/
def classifyStmts : List Bytes → Option Bool
  | [] => some false
  | a :: b :: c :: rest =>
    if a == wUs && b == wEq && c == w1 then (classifyStmts rest).map (fun _ => true)
    else match rest with
      | d :: rest' =>
        if a == wVar && b == wUs && c == wEq && d == w1 then classifyStmts rest' else none
      | [] => none
  | _ => none

/-- `{{ … }}`: the constant printed. An integer prints the same in every context; the string
constant is supported in the text format only (elsewhere its rendering depends on the context
the lexer is in, which this tokenizer does not track). -/
def classifyShow (f : Format) (ws : List Bytes) : Option Bytes :=
  if ws == [w5] then some w5
  else if ws == [w42] then some w42
  else if ws == [w5, wPlus, w2] then some w7
  else if ws == [wConstQ] && f == .text then some wConst
  else none

/-- `lexComment`: length of the comment that starts at `src[0:2] == "{#"`; `p` and `nested` as
in the Go loop (which exits when `nested` would become negative) -/
def commentLen (src : Bytes) : Nat → Nat → Nat → Option Nat
  | 0, _, _ => none
  | fuel + 1, p, nested =>
    match indexByte (src.drop p) 35 with
    | none => none
    | some i =>
      if i > 0 && src[p + i - 1]? == some 123 then commentLen src fuel (p + i + 1) (nested + 1)
      else if src[p + i + 1]? == some 125 then
        if nested == 0 then some (p + i + 2) else commentLen src fuel (p + i + 2) (nested - 1)
      else commentLen src fuel (p + i + 1) nested

/-- `skipRawSpaces` on ASCII: U+0020 and the non-graphic C0 controls and DEL; returns what is
left and the last byte skipped. A byte ≥ 0x80 would need `utf8.DecodeRune`/`unicode.IsGraphic`:
unsupported. -/
def skipRawSpaces : Bytes → Option UInt8 → Except TokErr (Bytes × Option UInt8)
  | [], last => .ok ([], last)
  | c :: rest, last =>
    if c ≥ 128 then .error .unsupported
    else if c == 32 || c < 32 || c == 127 then skipRawSpaces rest (some c)
    else .ok (c :: rest, last)

/-- `isSpace` of lexer.go -/
def isSpace (c : UInt8) : Bool := c == 32 || c == 9 || c == 10 || c == 13

/-- one iteration of `endRawIndex` at a `{`: does an end-raw statement with this marker start
here? `s` is the source after the `{`. -/
def matchEndRaw (marker : Bytes) (s : Bytes) : Except TokErr Bool :=
  match s with
  | 37 :: r =>
    match skipRawSpaces r none with
    | .error e => .error e
    | .ok (r1, _) =>
      if !wEnd.isPrefixOf r1 then .ok false
      else
        match skipRawSpaces (r1.drop 3) (some 100) with
        | .error e => .error e
        | .ok (r2, last) =>
          -- `isSpace(src[i-1]) && … "raw"`: the byte before is the last one skipped, or the `d`
          let afterRaw : Except TokErr Bytes :=
            if (match last with | some b => isSpace b | none => false) && wRaw.isPrefixOf r2 then
              (skipRawSpaces (r2.drop 3) none).map (·.1)
            else .ok r2
          match afterRaw with
          | .error e => .error e
          | .ok r3 =>
            let afterMarker : Except TokErr (Option Bytes) :=
              if marker.isEmpty then .ok (some r3)
              else if marker.isPrefixOf r3 then
                (skipRawSpaces (r3.drop marker.length) none).map (fun p => some p.1)
              else .ok none
            match afterMarker with
            | .error e => .error e
            | .ok none => .ok false
            | .ok (some r4) => .ok ([37, 125].isPrefixOf r4)
  | _ => .ok false

/-- `endRawIndex(src, marker)`: offset of the first `{` at which `matchEndRaw` succeeds -/
def endRawIndex (marker : Bytes) : Bytes → Nat → Except TokErr (Option Nat)
  | [], _ => .ok none
  | c :: rest, off =>
    if c == 123 then
      match matchEndRaw marker rest with
      | .error e => .error e
      | .ok true => .ok (some off)
      | .ok false => endRawIndex marker rest (off + 1)
    else endRawIndex marker rest (off + 1)

inductive MdCtx | off | md | tab | spaces
  deriving DecidableEq, Repr

/-- `scanCodeBlock(p)`: bytes consumed and the next context -/
def scanCodeBlock : Bytes → Nat × MdCtx
  | 9 :: _ => (1, .tab)
  | 32 :: 32 :: 32 :: 32 :: _ => (4, .spaces)
  | _ => (0, .md)

structure LSt where
  ctx : MdCtx
  /-- `spacesOnlyLine` -/
  spacesOnly : Bool
  /-- a `<` was seen in a Markdown source: from then on the real lexer may be in a tag,
  attribute or script context, where the back-slash is not an escape -/
  sawLt : Bool
  /-- pending text (`src[0:p]`), last byte first -/
  acc : Bytes
  /-- tokens emitted, last first -/
  out : List Raw
  deriving Repr

def LSt.flush (st : LSt) : LSt :=
  if st.acc.isEmpty then st else { st with acc := [], out := .text st.acc.reverse :: st.out }

def LSt.emit (st : LSt) (t : NT) : LSt := { st.flush with out := .nt t :: st.flush.out }

def cdataStart : Bytes := [60, 33, 91, 67, 68, 65, 84, 65, 91]  -- <![CDATA[

/-- one iteration of the loop of `scan`: an error, or the next state and what is left -/
inductive Step
  | err (e : TokErr)
  | next (st : LSt) (rest : Bytes)

/-- Markdown `\`: the next character, unless LF or `h`, is not looked at -/
def stepBackslash (st : LSt) (c : UInt8) (rest : Bytes) : Step :=
  match rest with
  | d :: rest' =>
    if d != 10 && d != 104 then
      (if d ≥ 128 then .err .unsupported else .next { st with acc := d :: c :: st.acc } rest')
    else .next { st with acc := c :: st.acc } rest
  | [] => .next { st with acc := c :: st.acc } rest

/-- `{{ … }}`; `inner` is the source after the `{{` -/
def stepShow (f : Format) (st : LSt) (inner : Bytes) : Step :=
  match findSub [125, 125] inner with
  | none => .err .lex
  | some i =>
    match classifyShow f (words (inner.take i)) with
    | none => .err .unsupported
    | some o => .next (st.emit ⟨false, false, o, nlCount (inner.take i), 2, i + 4⟩) (inner.drop (i + 2))

/-- `{%% … %%}`; `inner` is the source after the `{%%` -/
def stepStmts (st : LSt) (inner : Bytes) : Step :=
  match findSub [37, 37, 125] inner with
  | none => .err .lex
  | some i =>
    match classifyStmts (words (inner.take i)) with
    | none => .err .unsupported
    | some cut => .next (st.emit ⟨false, cut, [], nlCount (inner.take i), 3, i + 6⟩) (inner.drop (i + 3))

/-- after a `raw` statement the content is pending text that is not looked at
(`p = l.skipRawContent()`); `after` is the source after the statement -/
def stepRaw (st : LSt) (marker after : Bytes) : Step :=
  match endRawIndex marker after 0 with
  | .error e => .err e
  | .ok none => .err .lex
  | .ok (some k) => .next { st with acc := (after.take k).reverse } (after.drop k)

/-- `{% … %}`; `inner` is the source after the `{%` -/
def stepStmt (st : LSt) (inner : Bytes) : Step :=
  match findSub [37, 125] inner with
  | none => .err .lex
  | some i =>
    match classifyStmt (words (inner.take i)) with
    | none => .err .unsupported
    | some (.plain cut) =>
      .next (st.emit ⟨false, cut, [], nlCount (inner.take i), 2, i + 4⟩) (inner.drop (i + 2))
    | some (.rawStart marker) =>
      stepRaw (st.emit ⟨false, true, [], nlCount (inner.take i), 2, i + 4⟩) marker (inner.drop (i + 2))

/-- `{# … #}`; `src` starts with the `{#` -/
def stepComment (st : LSt) (src : Bytes) : Step :=
  match commentLen src src.length 2 0 with
  | none => .err .lex
  | some n => .next (st.emit ⟨true, true, [], nlCount (src.take n), n, n⟩) (src.drop n)

/-- `if p < len(l.src) && l.src[p] == '\r' { p++ }`: the CR taken and what is left -/
def skipCR : Bytes → Bytes × Bytes
  | 13 :: r => ([13], r)
  | rest => ([], rest)

/-- `p, l.ctx = l.scanCodeBlock(p)` -/
def enterCodeBlock (st : LSt) (rest : Bytes) : Step :=
  .next { st with ctx := (scanCodeBlock rest).2, acc := (rest.take (scanCodeBlock rest).1).reverse ++ st.acc }
    (rest.drop (scanCodeBlock rest).1)

/-- a LF: a following CR is skipped, then the Markdown code-block check -/
def stepNewline (st : LSt) (rest : Bytes) : Step :=
  match st.ctx with
  | .off => .next { st with acc := (skipCR rest).1 ++ (10 :: st.acc) } (skipCR rest).2
  | .md =>
    if st.spacesOnly then enterCodeBlock { st with acc := (skipCR rest).1 ++ (10 :: st.acc) } (skipCR rest).2
    else .next { st with acc := (skipCR rest).1 ++ (10 :: st.acc), spacesOnly := true } (skipCR rest).2
  | _ => enterCodeBlock { st with acc := (skipCR rest).1 ++ (10 :: st.acc) } (skipCR rest).2

def scanStep (f : Format) (st : LSt) (c : UInt8) (rest : Bytes) : Step :=
  let st := if st.ctx == .md then { st with spacesOnly := st.spacesOnly && isSpace c } else st
  if c == 92 && f == .markdown && st.sawLt then .err .unsupported
  else if c == 92 && st.ctx == .md then stepBackslash st c rest
  else if c == 123 && rest.head? == some 123 then stepShow f st (rest.drop 1)
  else if c == 123 && rest.head? == some 37 then
    (if (rest.drop 1).head? == some 37 then stepStmts st (rest.drop 2) else stepStmt st (rest.drop 1))
  else if c == 123 && rest.head? == some 35 then stepComment st (c :: rest)
  else if c == 35 && rest.head? == some 125 then .err .lex  -- unexpected #}
  else if f == .html && cdataStart.isPrefixOf (c :: rest) then .err .unsupported
  else
    let st := if c == 60 then { st with sawLt := true } else st
    if c == 10 then stepNewline st rest else .next { st with acc := c :: st.acc } rest

/-- the template branch of `scan`; `fuel` ≥ number of bytes left + 1 -/
def scan (f : Format) : Nat → LSt → Bytes → Except TokErr (List Raw)
  | 0, _, _ => .error .fuel
  | _ + 1, st, [] => .ok st.flush.out.reverse
  | fuel + 1, st, c :: rest =>
    match scanStep f st c rest with
    | .err e => .error e
    | .next st' rest' => scan f fuel st' rest'

/-- length of the shebang line: `#!` up to and including the first LF (the whole source when
there is none) -/
def shebangLen (src : Bytes) : Nat :=
  match src with
  | 35 :: 33 :: _ =>
    match indexByte src 10 with
    | some t => t + 1
    | none => src.length
  | _ => 0

def scanAll (f : Format) (body : Bytes) : Except TokErr (List Raw) :=
  if f == .markdown then
    let (n, ctx) := scanCodeBlock body
    scan f (body.length + 1) ⟨ctx, true, false, (body.take n).reverse, []⟩ (body.drop n)
  else scan f (body.length + 1) ⟨.off, true, false, [], []⟩ body

/-- the token list (`Props/C15.lean` `tokenize_invariant`: it always satisfies `WF`) -/
def tokenize (f : Format) (body : Bytes) : Except TokErr (List Raw) := scanAll f body

inductive RErr
  | tok (e : TokErr)
  | fault (f : Fault)
  deriving DecidableEq, Repr

/-- what `Template.Run` writes for a straight-line template of the vocabulary -/
def render (f : Format) (src : Bytes) : Except RErr Bytes :=
  let k := shebangLen src
  match tokenize f (src.drop k) with
  | .error e => .error (.tok e)
  | .ok raws =>
    match renderRaws (if k == 0 then 1 else 2) k raws with
    | .error e => .error (.fault e)
    | .ok b => .ok b

end ScriggoV.Cut
