/-! # The Go typing rules of an expression/statement fragment (C03)

A *specification*: what the Go language specification (and its reference implementation
`go/types`) says about a function body made of declarations and assignments over the fifteen
basic types `int … uintptr`, `float64`, `string`, `bool`: untyped constants (kinds int, rune,
float, bool, string) with exact arithmetic, typed constants, default types, operand
compatibility per operator, representability on conversion/assignment, shift operand rules,
comparison rules, `nil`, the unused-variable and redeclaration rules. Written from the
specification, independently of Scriggo's checker; the harness `go/props/c03` validates it
against `go/types` on every run and ties `scriggo.Build` to it.

Deliberate limits (the checker answers `outside …`, never a guess):
* a non-constant shift whose left operand is an untyped constant (`1 << s`): its type comes from
  the context (delayed typing), not modelled;
* a typed `float64` constant whose exact value is not a float64: `go/types` rounds it, the
  model has no IEEE rounding.
One point where the model follows the language specification and `go/types` does not: the count
of a shift must have integer type or be an untyped constant representable as `uint`; `go/types`
lets typed constants of other types through (`x << float64(2)`).

Core Lean only: the driver links this file. -/
namespace ScriggoV.TypeCheck

/-! ## Types -/

inductive IKind
  | int | int8 | int16 | int32 | int64
  | uint | uint8 | uint16 | uint32 | uint64 | uintptr
  deriving DecidableEq, Repr, Inhabited

namespace IKind
/-- width on amd64 -/
def bits : IKind → Nat
  | int8 | uint8 => 8
  | int16 | uint16 => 16
  | int32 | uint32 => 32
  | int | int64 | uint | uint64 | uintptr => 64

def signed : IKind → Bool
  | int | int8 | int16 | int32 | int64 => true
  | _ => false

def minVal (k : IKind) : Int := if k.signed then -(2 ^ (k.bits - 1) : Int) else 0
def maxVal (k : IKind) : Int := if k.signed then 2 ^ (k.bits - 1) - 1 else 2 ^ k.bits - 1

def name : IKind → String
  | int => "int" | int8 => "int8" | int16 => "int16" | int32 => "int32" | int64 => "int64"
  | uint => "uint" | uint8 => "uint8" | uint16 => "uint16" | uint32 => "uint32"
  | uint64 => "uint64" | uintptr => "uintptr"

def all : List IKind := [int, int8, int16, int32, int64, uint, uint8, uint16, uint32, uint64, uintptr]
end IKind

/-- the values of an integer type -/
def inRange (k : IKind) (n : Int) : Bool := decide (k.minVal ≤ n) && decide (n ≤ k.maxVal)

/-- the typed basic types of the fragment -/
inductive BType
  | int (k : IKind) | float64 | string | bool
  deriving DecidableEq, Repr, Inhabited

/-- kinds of untyped constants (and of untyped boolean values) -/
inductive UKind
  | int | rune | float | bool | string
  deriving DecidableEq, Repr, Inhabited

/-- the type of an operand -/
inductive Ty
  | typed (t : BType) | untyped (u : UKind) | nil
  deriving DecidableEq, Repr, Inhabited

def BType.name : BType → String
  | .int k => k.name | .float64 => "float64" | .string => "string" | .bool => "bool"

def UKind.name : UKind → String
  | .int => "uint" | .rune => "urune" | .float => "ufloat" | .bool => "ubool" | .string => "ustring"

def UKind.default : UKind → BType
  | .int => .int .int | .rune => .int .int32 | .float => .float64 | .bool => .bool | .string => .string

def UKind.isNumeric : UKind → Bool
  | .int | .rune | .float => true
  | _ => false

def UKind.rank : UKind → Nat
  | .int => 1 | .rune => 2 | .float => 3 | _ => 0

/-- the larger of two numeric kinds (int < rune < float) -/
def UKind.max (a b : UKind) : UKind := if a.rank ≥ b.rank then a else b

/-! ## Constant values, exact -/

inductive CVal
  | int (n : Int) | rat (q : Rat) | bool (b : Bool) | str (s : String)
  deriving DecidableEq, Repr, Inhabited

/-- what can be rejected, by rule; `outside…` = not in the modelled fragment -/
inductive Rej
  | undefined | redeclared | noNewVars | notConstant | notAssignable | unusedVar
  | mismatched | opUndefined | overflow | truncated | notRepresentable | divByZero
  | shiftOperand | shiftCount | negShiftCount | invalidShiftCount
  | nilUse | badConversion | nonNumeric
  | outsideDelayedShift | outsideInexactFloat
  deriving DecidableEq, Repr, Inhabited

def Rej.isOutside : Rej → Bool
  | .outsideDelayedShift | .outsideInexactFloat => true
  | _ => false

def Rej.name : Rej → String
  | .undefined => "undefined" | .redeclared => "redeclared" | .noNewVars => "no-new-variables"
  | .notConstant => "not-constant" | .notAssignable => "not-assignable" | .unusedVar => "unused-variable"
  | .mismatched => "mismatched-types" | .opUndefined => "operator-not-defined" | .overflow => "overflow"
  | .truncated => "truncated" | .notRepresentable => "not-representable" | .divByZero => "division-by-zero"
  | .shiftOperand => "shift-operand" | .shiftCount => "shift-count" | .negShiftCount => "negative-shift-count"
  | .invalidShiftCount => "invalid-shift-count" | .nilUse => "nil" | .badConversion => "bad-conversion"
  | .nonNumeric => "non-numeric" | .outsideDelayedShift => "delayed-shift" | .outsideInexactFloat => "inexact-float"

/-- `constant.BitLen`: bits of the absolute value -/
def bitLen (n : Int) : Nat := if n = 0 then 0 else Nat.log2 n.natAbs + 1

/-- `constant.ToInt`: the integer a numeric constant is, if it is one -/
def CVal.toInt? : CVal → Option Int
  | .int n => some n
  | .rat q => if q.den = 1 then some q.num else none
  | _ => none

def CVal.toRat? : CVal → Option Rat
  | .int n => some (n : Rat)
  | .rat q => some q
  | _ => none

def CVal.isNumeric : CVal → Bool
  | .int _ | .rat _ => true
  | _ => false

/-! ### float64 -/

/-- `q` is exactly a float64 (normal or subnormal) -/
def exactF64 (q : Rat) : Bool :=
  let n := q.num.natAbs
  let d := q.den
  if n = 0 then true
  else if d = 1 then
    -- an integer: at most 53 significant bits, below 2^1024
    let bl := Nat.log2 n + 1
    decide (bl ≤ 1024) && (decide (bl ≤ 53) || n % 2 ^ (bl - 53) == 0)
  else
    -- lowest terms: `n` is odd when `d` is a power of two
    let e := Nat.log2 d
    d == 2 ^ e && decide (e ≤ 1074) && decide (Nat.log2 n + 1 ≤ 53)

/-- values at or beyond this magnitude round to ±Inf: 2^1024 − 2^970 -/
def f64Overflow : Rat := ((2 ^ 1024 - 2 ^ 970 : Int) : Rat)

/-! ### integer bit operations on mathematical integers (two's complement, unbounded) -/

def natDiff (m n : Nat) : Nat := m ^^^ (m &&& n)   -- bits of m not in n

def bitAnd : Int → Int → Int
  | .ofNat m, .ofNat n => .ofNat (m &&& n)
  | .ofNat m, .negSucc n => .ofNat (natDiff m n)
  | .negSucc m, .ofNat n => .ofNat (natDiff n m)
  | .negSucc m, .negSucc n => .negSucc (m ||| n)

def bitOr : Int → Int → Int
  | .ofNat m, .ofNat n => .ofNat (m ||| n)
  | .ofNat m, .negSucc n => .negSucc (natDiff n m)
  | .negSucc m, .ofNat n => .negSucc (natDiff m n)
  | .negSucc m, .negSucc n => .negSucc (m &&& n)

def bitXor : Int → Int → Int
  | .ofNat m, .ofNat n => .ofNat (m ^^^ n)
  | .ofNat m, .negSucc n => .negSucc (m ^^^ n)
  | .negSucc m, .ofNat n => .negSucc (m ^^^ n)
  | .negSucc m, .negSucc n => .ofNat (m ^^^ n)

def bitNot (a : Int) : Int := -a - 1
def bitAndNot (a b : Int) : Int := bitAnd a (bitNot b)

/-- `^x` for a constant of unsigned type `k` complements within the width; otherwise `-x-1` -/
def complement (k : Option IKind) (x : Int) : Int :=
  match k with
  | some k => if k.signed then bitNot x else k.maxVal - x
  | none => bitNot x

/-- code point → UTF-8 string, U+FFFD for anything that is not a scalar value -/
def codePointString (n : Int) : String :=
  if 0 ≤ n ∧ n ≤ 0x10FFFF ∧ ¬ (0xD800 ≤ n ∧ n ≤ 0xDFFF) then String.singleton (Char.ofNat n.toNat)
  else "�"

/-! ## Syntax -/

inductive UnOp | plus | minus | xor | not
  deriving DecidableEq, Repr, Inhabited

inductive BinOp
  | add | sub | mul | quo | rem | and | or | xor | andnot | shl | shr
  | eq | ne | lt | le | gt | ge | land | lor
  deriving DecidableEq, Repr, Inhabited

inductive OpClass | arith | shift | cmp | logic
  deriving DecidableEq, Repr

def BinOp.cls : BinOp → OpClass
  | .shl | .shr => .shift
  | .eq | .ne | .lt | .le | .gt | .ge => .cmp
  | .land | .lor => .logic
  | _ => .arith

inductive Expr
  | intLit (n : Nat) | floatLit (q : Rat) | runeLit (n : Nat) | strLit (s : String)
  | boolLit (b : Bool) | nilLit
  | ident (x : Nat)
  | unary (op : UnOp) (e : Expr)
  | binary (op : BinOp) (a b : Expr)
  | conv (t : BType) (e : Expr)
  deriving Repr, Inhabited

inductive Stmt
  | varDecl (x : Nat) (t : Option BType) (e : Option Expr)   -- `var x T = e`, `var x = e`, `var x T`
  | shortDecl (x : Nat) (e : Expr)                           -- `x := e`
  | shortDecl2 (x y : Nat) (e₁ e₂ : Expr)                    -- `x, y := e₁, e₂` (at least one new name)
  | constDecl (x : Nat) (t : Option BType) (e : Expr)        -- `const x [T] = e`
  | assign (x : Nat) (e : Expr)                              -- `x = e`
  | assignBlank (e : Expr)                                   -- `_ = e`
  | opAssign (op : BinOp) (x : Nat) (e : Expr)               -- `x op= e`
  | incDec (inc : Bool) (x : Nat)                            -- `x++`, `x--`
  deriving Repr, Inhabited

/-! ## Operands and environments -/

/-- an operand: its type and, for a constant, its value -/
structure Operand where
  ty : Ty
  val : Option CVal
  deriving DecidableEq, Repr, Inhabited

inductive Entry
  | var (t : BType)
  | const (ty : Ty) (v : CVal)
  deriving DecidableEq, Repr, Inhabited

abbrev Env := List (Nat × Entry)

def lookup (Γ : Env) (x : Nat) : Option Entry :=
  match Γ with
  | [] => none
  | (y, e) :: rest => if x = y then some e else lookup rest x

def Entry.operand : Entry → Operand
  | .var t => ⟨.typed t, none⟩
  | .const ty v => ⟨ty, some v⟩

/-! ## Representability (spec: "a constant x is representable by a value of type T if …") -/

/-- the value of constant `c` in type `t`, or why it has none. `strict`: the result stays a
constant, so a float64 must be exact (otherwise the case is outside the model). -/
def representable (c : CVal) (t : BType) (strict : Bool) : Except Rej CVal :=
  match t with
  | .int k =>
    match c.toInt? with
    | some n => if inRange k n then .ok (.int n) else .error .overflow
    | none => if c.isNumeric then .error .truncated else .error .notRepresentable
  | .float64 =>
    match c.toRat? with
    | some q =>
      if q ≥ f64Overflow ∨ q ≤ -f64Overflow then .error .overflow
      else if strict && !exactF64 q then .error .outsideInexactFloat
      else .ok (.rat q)
    | none => .error .notRepresentable
  | .string => match c with | .str _ => .ok c | _ => .error .notRepresentable
  | .bool => match c with | .bool _ => .ok c | _ => .error .notRepresentable

/-- untyped integer constants must not grow beyond 512 bits -/
def untypedOverflow (c : CVal) : Bool :=
  match c with
  | .int n => decide (bitLen n > 512)
  | _ => false

/-- `check.overflow`: a typed constant result must be representable in its type, an untyped
integer must stay within 512 bits -/
def checkOverflow (ty : Ty) (c : CVal) : Except Rej Operand :=
  match ty with
  | .typed t => do let v ← representable c t true; pure ⟨ty, some v⟩
  | _ => if untypedOverflow c then .error .overflow else .ok ⟨ty, some c⟩

def Ty.isInteger : Ty → Bool
  | .typed (.int _) | .untyped .int | .untyped .rune => true
  | _ => false

def Ty.isNumeric : Ty → Bool
  | .typed (.int _) | .typed .float64 => true
  | .untyped u => u.isNumeric
  | _ => false

def Ty.isBoolean : Ty → Bool
  | .typed .bool | .untyped .bool => true
  | _ => false

def Ty.isString : Ty → Bool
  | .typed .string | .untyped .string => true
  | _ => false

def Ty.isTyped : Ty → Bool
  | .typed _ => true
  | _ => false

def Ty.intKind? : Ty → Option IKind
  | .typed (.int k) => some k
  | _ => none

/-! ## Unary operators -/

def unaryConst (op : UnOp) (ty : Ty) (c : CVal) : Option CVal :=
  match op, c with
  | .plus, .int n => some (.int n)
  | .plus, .rat q => some (.rat q)
  | .minus, .int n => some (.int (-n))
  | .minus, .rat q => some (.rat (-q))
  | .xor, .int n => some (.int (complement ty.intKind? n))
  | .not, .bool b => some (.bool (!b))
  | _, _ => none

def checkUnary (op : UnOp) (x : Operand) : Except Rej Operand :=
  let defined := match op with
    | .plus | .minus => x.ty.isNumeric
    | .xor => x.ty.isInteger
    | .not => x.ty.isBoolean
  if x.ty = .nil then .error .nilUse
  else if !defined then .error .opUndefined
  else match x.val with
    | none => .ok ⟨x.ty, none⟩
    | some c =>
      match unaryConst op x.ty c with
      | some v => checkOverflow x.ty v
      | none => .error .opUndefined

/-! ## Binary operators -/

/-- `convertUntyped`: the operand `x` (untyped) takes the type of the other operand.
`strict` = the other operand is a constant too. -/
def convertTo (x : Operand) (target : Ty) (strict : Bool) : Except Rej Operand :=
  match x.ty, target with
  | .untyped u, .untyped u' =>
    if u = u' then .ok x
    else if u.isNumeric && u'.isNumeric then
      let m := u.max u'
      match x.val, m with
      | some (.int n), .float => .ok ⟨.untyped m, some (.rat (n : Rat))⟩
      | _, _ => .ok ⟨.untyped m, x.val⟩
    else .error .mismatched
  | .untyped u, .typed t =>
    match x.val with
    | some c => do let v ← representable c t strict; pure ⟨.typed t, some v⟩
    | none =>   -- untyped boolean value
      if u = .bool ∧ t = .bool then .ok ⟨.typed t, none⟩ else .error .mismatched
  | _, _ => .ok x

/-- `matchTypes`: an untyped operand is converted to the type of the other one when that may
succeed (same class: boolean / string / numeric) -/
def matchTypes (x y : Operand) : Except Rej (Operand × Operand) :=
  if x.ty = .nil ∨ y.ty = .nil then .error .nilUse
  else if x.ty.isTyped && y.ty.isTyped then .ok (x, y)
  else if x.ty.isBoolean != y.ty.isBoolean then .ok (x, y)
  else if x.ty.isString != y.ty.isString then .ok (x, y)
  else do
    let x' ← convertTo x y.ty y.val.isSome
    let y' ← convertTo y x'.ty x'.val.isSome
    pure (x', y')

def cmpInt (op : BinOp) (a b : Int) : Bool :=
  match op with
  | .eq => a == b | .ne => a != b | .lt => decide (a < b) | .le => decide (a ≤ b)
  | .gt => decide (a > b) | .ge => decide (a ≥ b) | _ => false

def cmpRat (op : BinOp) (a b : Rat) : Bool :=
  match op with
  | .eq => a == b | .ne => a != b | .lt => decide (a < b) | .le => decide (a ≤ b)
  | .gt => decide (a > b) | .ge => decide (a ≥ b) | _ => false

def cmpStr (op : BinOp) (a b : String) : Bool :=
  match op with
  | .eq => a == b | .ne => a != b | .lt => decide (a < b) | .le => decide (a ≤ b)
  | .gt => decide (a > b) | .ge => decide (a ≥ b) | _ => false

def cmpBool (op : BinOp) (a b : Bool) : Option Bool :=
  match op with
  | .eq => some (a == b) | .ne => some (a != b) | _ => none

def cmpConst (op : BinOp) (a b : CVal) : Option Bool :=
  match a, b with
  | .int m, .int n => some (cmpInt op m n)
  | .rat p, .rat q => some (cmpRat op p q)
  | .str s, .str t => some (cmpStr op s t)
  | .bool p, .bool q => cmpBool op p q
  | _, _ => none

/-- the comparison operators: operands of identical type after `matchTypes`; ordering needs an
ordered type; the result is an untyped boolean -/
def checkComparison (op : BinOp) (x y : Operand) : Except Rej Operand :=
  if x.ty ≠ y.ty then .error .mismatched
  else if (op != .eq && op != .ne) && x.ty.isBoolean then .error .opUndefined
  else match x.val, y.val with
    | some a, some b =>
      match cmpConst op a b with
      | some r => .ok ⟨.untyped .bool, some (.bool r)⟩
      | none => .error .opUndefined
    | _, _ => .ok ⟨.untyped .bool, none⟩

/-- exact integer arithmetic (`/` truncates, `%` has the sign of the dividend) -/
def arithInt (op : BinOp) (a b : Int) : Option Int :=
  match op with
  | .add => some (a + b) | .sub => some (a - b) | .mul => some (a * b)
  | .quo => if b = 0 then none else some (Int.tdiv a b)
  | .rem => if b = 0 then none else some (Int.tmod a b)
  | .and => some (bitAnd a b) | .or => some (bitOr a b) | .xor => some (bitXor a b)
  | .andnot => some (bitAndNot a b)
  | _ => none

def arithRat (op : BinOp) (a b : Rat) : Option Rat :=
  match op with
  | .add => some (a + b) | .sub => some (a - b) | .mul => some (a * b)
  | .quo => if b = 0 then none else some (a / b)
  | _ => none

/-- constant folding of an arithmetic/logical operator on two constants of one type (values
of integer types and kinds are `.int`, of `float64` and the float kind `.rat`) -/
def arithConst (op : BinOp) (a b : CVal) : Option CVal :=
  match a, b with
  | .int m, .int n => (arithInt op m n).map .int
  | .rat p, .rat q => (arithRat op p q).map .rat
  | .str s, .str t => if op = .add then some (.str (s ++ t)) else none
  | .bool p, .bool q =>
    match op with
    | .land => some (.bool (p && q)) | .lor => some (.bool (p || q)) | _ => none
  | _, _ => none

def CVal.isZero : CVal → Bool
  | .int n => n == 0
  | .rat q => q == 0
  | _ => false

/-- is the operator defined on operands of this type? -/
def opDefined (op : BinOp) (ty : Ty) : Bool :=
  match op with
  | .add => ty.isNumeric || ty.isString
  | .sub | .mul | .quo => ty.isNumeric
  | .rem | .and | .or | .xor | .andnot => ty.isInteger
  | .land | .lor => ty.isBoolean
  | _ => false

/-- arithmetic and logical operators: identical operand types after `matchTypes` -/
def checkArith (op : BinOp) (x y : Operand) : Except Rej Operand :=
  if x.ty ≠ y.ty then .error .mismatched
  else if !opDefined op x.ty then .error .opUndefined
  else if (op = .quo ∨ op = .rem) ∧ (x.val.isSome ∨ x.ty.isInteger) ∧ (y.val.map CVal.isZero = some true) then
    .error .divByZero
  else match x.val, y.val with
    | some a, some b =>
      match arithConst op a b with
      | some v => checkOverflow x.ty v
      | none => .error .opUndefined
    | _, _ => .ok ⟨x.ty, none⟩

/-- go/types' bound on constant shift counts -/
def shiftBound : Int := 1074

def shiftInt (left : Bool) (x : Int) (s : Nat) : Int :=
  if left then x * 2 ^ s else x / 2 ^ s      -- `/` rounds down: arithmetic shift

/-- the count of a shift: integer type, or an untyped constant representable as `uint`; a
constant count is never negative. `some n` = constant count `n`, `none` = non-constant. -/
def shiftCountOf (y : Operand) : Except Rej (Option Int) :=
  match y.val with
  | some c =>
    match c.toInt? with
    | some n =>
      if n < 0 then .error .negShiftCount
      else if y.ty.isTyped then
        (if y.ty.isInteger then .ok (some n) else .error .shiftCount)
      else if inRange .uint n then .ok (some n) else .error .overflow
    | none =>
      if y.ty.isTyped then .error .shiftCount
      else if c.isNumeric then .error .truncated else .error .shiftCount
  | none => if y.ty.isTyped && y.ty.isInteger then .ok none else .error .shiftCount

/-- the shifted operand (already known to be an integer, or an untyped constant with integer
value `xInt`) and the count give the result -/
def shiftResult (left : Bool) (x : Operand) (xInt : Option Int) (cnt : Option Int) : Except Rej Operand :=
  match x.val, cnt with
  | some _, some s =>
    -- constant shift
    if s > shiftBound then .error .invalidShiftCount
    else match xInt with
      | some n =>
        let ty : Ty := if x.ty.isInteger then x.ty else .untyped .int
        checkOverflow ty (.int (shiftInt left n s.toNat))
      | none => .error .shiftOperand
  | some _, none =>
    if x.ty.isTyped then .ok ⟨x.ty, none⟩ else .error .outsideDelayedShift
  | none, _ => .ok ⟨x.ty, none⟩

/-- shifts: the left operand is an integer (or an untyped constant with an integer value), the
count has integer type or is an untyped constant representable as `uint`; constant counts are
never negative -/
def checkShift (op : BinOp) (x y : Operand) : Except Rej Operand :=
  let xInt : Option Int := x.val.bind CVal.toInt?
  if x.ty = .nil ∨ y.ty = .nil then .error .nilUse
  else if !(x.ty.isInteger || (!x.ty.isTyped && xInt.isSome)) then .error .shiftOperand
  else do
    let cnt ← shiftCountOf y
    shiftResult (op = .shl) x xInt cnt

def checkBinary (op : BinOp) (x y : Operand) : Except Rej Operand :=
  match op.cls with
  | .shift => checkShift op x y
  | .cmp => do let (x', y') ← matchTypes x y; checkComparison op x' y'
  | _ => do let (x', y') ← matchTypes x y; checkArith op x' y'

/-! ## Conversions `T(x)` -/

/-- a constant operand: representable in `T`, or an integer constant converted to `string` -/
def convConst (ty : Ty) (c : CVal) (t : BType) : Except Rej CVal :=
  match representable c t true with
  | .ok v => .ok v
  | .error .outsideInexactFloat => .error .outsideInexactFloat
  | .error r =>
    match t, c with
    | .string, .int n => if ty.isInteger then .ok (.str (codePointString n)) else .error r
    | _, _ => .error r

/-- a non-constant operand of type `src` converts to `dst` when both are numeric, when `dst` is
`string` and `src` is an integer or string type, or when they are equal -/
def convertible (src dst : BType) : Bool :=
  match src, dst with
  | .int _, .int _ | .int _, .float64 | .float64, .int _ | .float64, .float64 => true
  | .int _, .string | .string, .string => true
  | .bool, .bool => true
  | _, _ => false

def checkConv (t : BType) (x : Operand) : Except Rej Operand :=
  match x.ty, x.val with
  | .nil, _ => .error .nilUse
  | ty, some c => do let v ← convConst ty c t; pure ⟨.typed t, some v⟩
  | .typed s, none => if convertible s t then .ok ⟨.typed t, none⟩ else .error .badConversion
  | .untyped u, none => if u = .bool ∧ t = .bool then .ok ⟨.typed t, none⟩ else .error .badConversion

/-! ## Expressions -/

def checkExpr (Γ : Env) : Expr → Except Rej Operand
  | .intLit n => .ok ⟨.untyped .int, some (.int n)⟩
  | .floatLit q => .ok ⟨.untyped .float, some (.rat q)⟩
  | .runeLit n => .ok ⟨.untyped .rune, some (.int n)⟩
  | .strLit s => .ok ⟨.untyped .string, some (.str s)⟩
  | .boolLit b => .ok ⟨.untyped .bool, some (.bool b)⟩
  | .nilLit => .ok ⟨.nil, none⟩
  | .ident x =>
    match lookup Γ x with
    | some e => .ok e.operand
    | none => .error .undefined
  | .unary op e => do
    let x ← checkExpr Γ e
    checkUnary op x
  | .binary op a b => do
    let x ← checkExpr Γ a
    let y ← checkExpr Γ b
    checkBinary op x y
  | .conv t e => do
    let x ← checkExpr Γ e
    checkConv t x

/-! ## Statements -/

/-- assignability of an operand to a variable/constant of type `t` -/
def assignTo (x : Operand) (t : BType) (strict : Bool) : Except Rej Operand :=
  match x.ty with
  | .nil => .error .nilUse
  | .typed s => if s = t then .ok x else .error .notAssignable
  | .untyped u =>
    match x.val with
    | some c => do let v ← representable c t strict; pure ⟨.typed t, some v⟩
    | none => if u = .bool ∧ t = .bool then .ok ⟨.typed t, none⟩ else .error .notAssignable

/-- the type a variable declared without a type gets from its initialiser -/
def inferType (x : Operand) : Except Rej BType :=
  match x.ty with
  | .nil => .error .nilUse
  | .typed t => .ok t
  | .untyped u => .ok u.default

def declare (Γ : Env) (x : Nat) (e : Entry) : Except Rej Env :=
  match lookup Γ x with
  | some _ => .error .redeclared
  | none => .ok ((x, e) :: Γ)

/-- the operator of `x op= e` must be an arithmetic or shift operator -/
def BinOp.assignable (op : BinOp) : Bool :=
  match op.cls with
  | .arith | .shift => true
  | _ => false

/-- one name on the left of a multi-name `:=`: a name already declared in the scope is *assigned*
(it must be a variable and the value assignable to it), a new name is declared with the type of
its value. Answer: (is new, type). -/
def shortTarget (Γ : Env) (x : Nat) (o : Operand) : Except Rej (Bool × BType) :=
  match lookup Γ x with
  | some (.var t) => do let _ ← assignTo o t false; pure (false, t)
  | some (.const _ _) => .error .notAssignable
  | none => do let t ← inferType o; let _ ← assignTo o t false; pure (true, t)

def checkStmt (Γ : Env) : Stmt → Except Rej Env
  | .varDecl x (some t) (some e) => do
    let o ← checkExpr Γ e
    let _ ← assignTo o t false
    declare Γ x (.var t)
  | .varDecl x none (some e) => do
    let o ← checkExpr Γ e
    let t ← inferType o
    let _ ← assignTo o t false
    declare Γ x (.var t)
  | .varDecl x (some t) none => declare Γ x (.var t)
  | .varDecl _ none none => .error .undefined      -- not Go syntax
  | .shortDecl x e => do
    let o ← checkExpr Γ e
    let t ← inferType o
    let _ ← assignTo o t false
    match lookup Γ x with
    | some _ => .error .noNewVars
    | none => .ok ((x, .var t) :: Γ)
  | .shortDecl2 x y e₁ e₂ => do
    let o₁ ← checkExpr Γ e₁
    let o₂ ← checkExpr Γ e₂
    if x = y then .error .redeclared
    else do
      let a ← shortTarget Γ x o₁
      let b ← shortTarget Γ y o₂
      if !a.1 && !b.1 then .error .noNewVars
      else
        let Γ₁ := if a.1 then (x, .var a.2) :: Γ else Γ
        pure (if b.1 then (y, .var b.2) :: Γ₁ else Γ₁)
  | .constDecl x (some t) e => do
    let o ← checkExpr Γ e
    match o.val with
    | none => if o.ty = .nil then .error .nilUse else .error .notConstant
    | some _ =>
      let o' ← assignTo o t true
      match o'.val with
      | some v => declare Γ x (.const (.typed t) v)
      | none => .error .notConstant
  | .constDecl x none e => do
    let o ← checkExpr Γ e
    if o.ty = .nil then .error .nilUse
    else match o.val with
      | none => .error .notConstant
      | some v => declare Γ x (.const o.ty v)
  | .assign x e => do
    let o ← checkExpr Γ e
    match lookup Γ x with
    | some (.var t) => do let _ ← assignTo o t false; pure Γ
    | some (.const _ _) => .error .notAssignable
    | none => .error .undefined
  | .assignBlank e => do
    let o ← checkExpr Γ e
    let t ← inferType o
    let _ ← assignTo o t false
    pure Γ
  | .opAssign op x e =>
    if !op.assignable then .error .opUndefined
    else match lookup Γ x with
      | none => .error .undefined
      | some ent => do
        let y ← checkExpr Γ e
        let r ← checkBinary op ent.operand y
        match ent with
        | .var t => do let _ ← assignTo r t false; pure Γ
        | .const _ _ => .error .notAssignable
  | .incDec inc x =>
    match lookup Γ x with
    | none => .error .undefined
    | some ent =>
      if !ent.operand.ty.isNumeric then .error .nonNumeric
      else do
        let r ← checkBinary (if inc then .add else .sub) ent.operand ⟨.untyped .int, some (.int 1)⟩
        match ent with
        | .var t => do let _ ← assignTo r t false; pure Γ
        | .const _ _ => .error .notAssignable

def checkStmts (Γ : Env) : List Stmt → Except Rej Env
  | [] => .ok Γ
  | s :: rest => do
    let Γ' ← checkStmt Γ s
    checkStmts Γ' rest

/-! ### the unused-variable rule -/

def Expr.idents : Expr → List Nat
  | .ident x => [x]
  | .unary _ e => e.idents
  | .binary _ a b => a.idents ++ b.idents
  | .conv _ e => e.idents
  | _ => []

/-- identifiers a statement *uses* (reads); the left side of `=` is not a use -/
def Stmt.uses : Stmt → List Nat
  | .varDecl _ _ (some e) => e.idents
  | .varDecl _ _ none => []
  | .shortDecl _ e => e.idents
  | .shortDecl2 _ _ e₁ e₂ => e₁.idents ++ e₂.idents   -- a redeclared name is assigned, not used
  | .constDecl _ _ e => e.idents
  | .assign _ e => e.idents
  | .assignBlank e => e.idents
  | .opAssign _ x e => x :: e.idents
  | .incDec _ x => [x]

def unusedVars (Γ : Env) (ss : List Stmt) : List Nat :=
  let used := ss.flatMap Stmt.uses
  (Γ.filter (fun (x, e) => match e with | .var _ => !used.contains x | _ => false)).map Prod.fst

/-- a function body: every statement checks and every declared variable is used -/
def checkProgram (ss : List Stmt) : Except Rej Env := do
  let Γ ← checkStmts [] ss
  if (unusedVars Γ ss).isEmpty then pure Γ else .error .unusedVar

end ScriggoV.TypeCheck
