import ScriggoV.Gen.CaseBuf
import ScriggoV.Model.ChanSeq
/-! # The VM's buffer of select cases, clause by clause (C14)

`vm.cases` is one reusable `[]reflect.SelectCase` per VM (goroutine). With a context whose Done
channel is not nil every blocking channel operation goes through `reflect.Select(vm.cases)`:
OpReceive, OpSend and the channel case of OpRange append `[own case, Done case]`, OpSelect appends
the Done case to the cases that the preceding OpCase instructions pushed. A case that stays in
the buffer when the clause is left is selected again by the next channel operation of the
goroutine — a closed channel's receive case is always ready, so that operation returns at once
with the zero value.

`Gen/CaseBuf.lean` holds the control-flow skeleton (`S`) of each clause as extracted from run.go.
Here: its abstract execution over the *length* of the buffer, along every path (both branches of
every condition that is not about `done`), collecting

* the length `reflect.Select` sees at every call,
* the length at every start of a range loop's body (`vm.run()`: arbitrary instructions follow),
* the length at every way out of the clause, and how it is left.

Lengths are symbolic (`Len`): `n + k` where `n` is the length at the entry of the clause (the
number of cases pushed by OpCase, for OpSelect), or an absolute `k` after a reset. Core Lean only. -/
namespace ScriggoV.CaseBuf
open ScriggoV.Gen.CaseBuf

/-- a buffer length: `(if rel then n else 0) + k`, `n` = the length at the entry of the clause -/
structure Len where
  rel : Bool
  k : Nat
deriving DecidableEq, Repr

def Len.entry : Len := ⟨true, 0⟩
def Len.zero : Len := ⟨false, 0⟩
def Len.eval (l : Len) (n : Nat) : Nat := (if l.rel then n else 0) + l.k

/-- how a clause (or a statement list) is left -/
inductive Exit where
  | fall      -- the end of the clause is reached: the next instruction runs
  | brk | cont
  | ret       -- return of something else than vm.stop(): the VM goes on in the caller
  | stop      -- return vm.stop(): the VM ends
  | panic
  | unstable  -- a loop whose buffer length differs from one iteration to the next
  | nofuel
deriving DecidableEq, Repr

structure Res where
  outs : List (Exit × Len) := []
  sels : List Len := []      -- the buffer at each reflect.Select
  bodies : List Len := []    -- the buffer at each start of a range body
deriving DecidableEq, Repr

def Res.append (a b : Res) : Res := ⟨a.outs ++ b.outs, a.sels ++ b.sels, a.bodies ++ b.bodies⟩

/-- which branches of a condition are possible; `ctx` = the run has a Done channel -/
def branches (ctx : Bool) : Cond → Bool × Bool
  | .doneNil => (!ctx, ctx)
  | .doneNilOr _ => (true, ctx)
  | .casesNil => (true, true)
  | .panicking => (true, true)
  | .other _ => (true, true)

mutual
/-- all paths through a statement list from buffer length `l` -/
def execL (ctx : Bool) : Nat → List S → Len → Res
  | 0, _, l => { outs := [(.nofuel, l)] }
  | _ + 1, [], l => { outs := [(.fall, l)] }
  | fuel + 1, s :: rest, l =>
    let r := execS ctx fuel s l
    -- the paths that fall out of `s` go on with `rest`
    r.outs.foldl (fun acc o =>
        if o.1 = .fall then acc.append (execL ctx fuel rest o.2) else acc.append { outs := [o] })
      { sels := r.sels, bodies := r.bodies }
/-- all paths through one statement -/
def execS (ctx : Bool) : Nat → S → Len → Res
  | 0, _, l => { outs := [(.nofuel, l)] }
  | fuel + 1, s, l =>
    match s with
    | .app n => { outs := [(.fall, { l with k := l.k + n })] }
    | .sel => { outs := [(.fall, l)], sels := [l] }
    | .reset => { outs := [(.fall, .zero)] }
    | .stop => { outs := [(.stop, l)] }
    | .body => { outs := [(.fall, l)], bodies := [l] }
    | .ret => { outs := [(.ret, l)] }
    | .brk => { outs := [(.brk, l)] }
    | .cont => { outs := [(.cont, l)] }
    | .panic => { outs := [(.panic, l)] }
    | .ite c t e =>
      let (bt, be) := branches ctx c
      -- `vm.cases == nil`: the buffer is empty in the then-branch
      let lt := match c with | .casesNil => Len.zero | _ => l
      (if bt then execL ctx fuel t lt else {}).append (if be then execL ctx fuel e l else {})
    | .sw bs => bs.foldl (fun acc b =>
        let r := execL ctx fuel b l
        -- a break inside a switch leaves the switch
        acc.append { r with outs := r.outs.map (fun o => if o.1 = .brk then (.fall, o.2) else o) }) {}
    | .loop hasCond b =>
      let r := execL ctx fuel b l
      -- the end of the body and `continue` lead back to the head: the length there must be the
      -- length the loop was entered with (then one pass describes every iteration); break leaves
      let outs := r.outs.filterMap (fun o =>
        if o.1 = .fall || o.1 = .cont then (if o.2 = l then none else some (Exit.unstable, o.2))
        else if o.1 = .brk then some (Exit.fall, o.2)
        else some o)
      { r with outs := (if hasCond then [(Exit.fall, l)] else []) ++ outs }
end

/-- a clause run from the length `entry`; a `break` at clause level leaves the `switch op` -/
def summary (ctx : Bool) (clause : List S) (entry : Len) : Res :=
  let r := execL ctx 64 clause entry
  { r with outs := r.outs.map (fun o => if o.1 = .brk then (.fall, o.2) else o) }

/-- every way out on which the VM goes on leaves the buffer at length `final` -/
def exitsAt (r : Res) (final : Len) : Bool :=
  r.outs.all (fun o => o.1 = .stop || (o.2 = final && (o.1 = .fall || o.1 = .ret)))

/-- the clause is well-behaved: every reflect.Select sees one of `sees`, every range body starts
with an empty buffer, every way out leaves `final` -/
def wellBehaved (r : Res) (sees : List Len) (final : Len) : Bool :=
  r.sels.all (fun l => sees.contains l) && r.bodies.all (· = .zero) && exitsAt r final && !r.outs.isEmpty

/-! ## A panic that leaves an instruction, and is recovered

`reflect.Select` panics on a send case whose channel is closed: the clause is left at the call,
with the buffer as `reflect.Select` saw it (the lengths `sels`; likewise at a `panic(…)` statement
of the clause). If the program recovers the panic the goroutine goes on with its next channel
operation in the same VM. What stands between the two is the deferred function of
`runRecoverable` (`Gen.CaseBuf.recoverHandler`), run with `panicking` true. -/

/-- the handler on the way of a panic: the branches under `panicking` -/
def onPanic : List S → List S
  | [] => []
  | .ite .panicking t _ :: rest => t ++ onPanic rest
  | s :: rest => s :: onPanic rest

/-- the handler when no panic is under way -/
def onReturn : List S → List S
  | [] => []
  | .ite .panicking _ e :: rest => e ++ onReturn rest
  | s :: rest => s :: onReturn rest

/-- the buffer lengths with which a panic may leave the clause -/
def panicLens (r : Res) : List Len := r.sels ++ (r.outs.filter (fun o => o.1 = .panic)).map (·.2)

/-- `handler` run from `l` does nothing but leave the buffer at `final` -/
def handlerLeaves (ctx : Bool) (handler : List S) (l final : Len) : Bool :=
  let r := summary ctx handler l
  r.sels.isEmpty && r.bodies.isEmpty && !r.outs.isEmpty && r.outs.all (fun o => o.1 = .fall && o.2 = final)

/-- every panic that leaves `clause` (entered with `entry`) and meets `handler` ends with the
buffer at `final`; `some` panic point exists (the statement is about something) -/
def recoveredAt (ctx : Bool) (clause : List S) (entry : Len) (handler : List S) (final : Len) : Bool :=
  let ls := panicLens (summary ctx clause entry)
  !ls.isEmpty && ls.all (fun l => handlerLeaves ctx (onPanic handler) l final)

/-! ## The policy of the code: where the buffer is emptied

Read off the summaries; `Model/ChanSeq.lean` runs channel operations under such a policy. -/

open ScriggoV.ChanSeq (Policy)

def policyOf (recv send select range : List S) : Policy :=
  -- OpReceive, OpSend, OpRange start with an empty buffer; OpSelect with the cases OpCase pushed
  let ok := fun (c : List S) (entry : Len) =>
    exitsAt (summary true c entry) .zero && exitsAt (summary false c entry) .zero
  { recv := ok recv .zero, send := ok send .zero, select := ok select .entry,
    rangeBody := (summary true range .zero).bodies.all (· = .zero) &&
      (summary false range .zero).bodies.all (· = .zero),
    rangeExit := ok range .zero }

/-- the policy of run.go as extracted -/
def policyOfCode : Policy := policyOf opReceive opSend opSelect opRangeChan

end ScriggoV.CaseBuf
