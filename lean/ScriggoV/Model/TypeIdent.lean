/-! # Type identity, assignability and convertibility of composite types (C03)

A *specification*, written from the Go language specification's sections "Type identity",
"Underlying types", "Assignability" (typed values) and "Conversions" (non-constant values), over a
structural type syntax: predeclared types, defined types, pointers, slices, arrays, maps, channels
with a direction, function types with a variadic flag, struct types (field name, tag,
embedded-ness, order), interface types as method sets.

`identical ig` is the relation `internal/compiler/types.identical(x, y, false, ig)` has to
compute (`ig`: "ignoring struct tags", the flavour conversions use); `assignable` and
`convertible` are what `types.AssignableTo` / `types.ConvertibleTo` have to compute on typed
values. The harness (`go/props/c03/identity.go`) validates the three against `go/types`'
`Identical`, `AssignableTo` and `ConvertibleTo` on every pair of the type-identity matrix.

Representation: a defined type is `named id u` — `id` says which declaration, `u` is its
underlying type (two `named` with the same `id` are the same declaration); the predeclared types
are `basic`; `byte`/`rune`/`any` are spellings, not types. The methods of an interface are kept
sorted by name (the encoder sorts; `reflect` and `go/types` do the same), embedded interfaces are
already flattened. All field and method names belong to one package. Defined types have no
methods of their own in this universe (Scriggo source cannot declare any; the native types with
methods are judged by `Model/Assignable.lean`), so the method set of a type is that of its
underlying interface type, if it is one. No type parameters.

Core Lean only: the driver links this file. -/
namespace ScriggoV.TypeIdent

inductive BKind
  | bool | int | int8 | int16 | int32 | int64 | uint | uint8 | uint16 | uint32 | uint64 | uintptr
  | float32 | float64 | complex64 | complex128 | string
  deriving DecidableEq, Repr

namespace BKind
def isInteger : BKind → Bool
  | int | int8 | int16 | int32 | int64 | uint | uint8 | uint16 | uint32 | uint64 | uintptr => true
  | _ => false
def isFloat : BKind → Bool
  | float32 | float64 => true
  | _ => false
def isComplex : BKind → Bool
  | complex64 | complex128 => true
  | _ => false
end BKind

/-- channel directions: `chan T`, `<-chan T`, `chan<- T` -/
inductive Dir | both | recv | send
  deriving DecidableEq, Repr

mutual
inductive Ty
  | basic (k : BKind)
  | named (id : Nat) (u : Ty)
  | ptr (e : Ty)
  | slice (e : Ty)
  | array (n : Nat) (e : Ty)
  | map (k e : Ty)
  | chan (d : Dir) (e : Ty)
  /-- the last parameter of a variadic function `...T` is kept as the slice type `[]T` -/
  | func (ps rs : TyList) (variadic : Bool)
  | struct (fs : Fields)
  | iface (ms : Methods)
inductive TyList
  | nil | cons (t : Ty) (rest : TyList)
inductive Fields
  | nil | cons (name tag : String) (emb : Bool) (t : Ty) (rest : Fields)
inductive Methods
  | nil | cons (name : String) (sig : Ty) (rest : Methods)
end

/-! ## Type identity

"A named type is always different from any other type. Otherwise, two types are identical if
their underlying type literals are structurally equivalent": array — element types and length;
slice, pointer — element / base types; struct — same sequence of fields, corresponding fields with
the same names, identical types, the same tags, both embedded or not; function — the same number
of parameters and results, corresponding ones identical, both variadic or neither; interface —
the same method sets; map — key and element types; channel — element types and direction. -/

mutual
def identical (ig : Bool) : Ty → Ty → Bool
  | .basic a, .basic b => a == b
  | .named i _, .named j _ => i == j
  | .ptr a, .ptr b => identical ig a b
  | .slice a, .slice b => identical ig a b
  | .array n a, .array m b => n == m && identical ig a b
  | .map k a, .map l b => identical ig k l && identical ig a b
  | .chan d a, .chan e b => d == e && identical ig a b
  | .func ps rs v, .func qs ss w => v == w && identicalL ig ps qs && identicalL ig rs ss
  | .struct fs, .struct gs => identicalF ig fs gs
  | .iface ms, .iface ns => identicalM ig ms ns
  | _, _ => false
def identicalL (ig : Bool) : TyList → TyList → Bool
  | .nil, .nil => true
  | .cons a as, .cons b bs => identical ig a b && identicalL ig as bs
  | _, _ => false
def identicalF (ig : Bool) : Fields → Fields → Bool
  | .nil, .nil => true
  | .cons n t e a as, .cons m u f b bs =>
    n == m && (ig || t == u) && e == f && identical ig a b && identicalF ig as bs
  | _, _ => false
def identicalM (ig : Bool) : Methods → Methods → Bool
  | .nil, .nil => true
  | .cons n a as, .cons m b bs => n == m && identical ig a b && identicalM ig as bs
  | _, _ => false
end

/-! The normal form identity compares: a defined type is its declaration, tags are dropped when
ignored. `identical ig a b ↔ norm ig a = norm ig b` (`Lemmas/TypeIdent.lean`). -/
mutual
def norm (ig : Bool) : Ty → Ty
  | .basic k => .basic k
  | .named i _ => .named i (.basic .bool)
  | .ptr e => .ptr (norm ig e)
  | .slice e => .slice (norm ig e)
  | .array n e => .array n (norm ig e)
  | .map k e => .map (norm ig k) (norm ig e)
  | .chan d e => .chan d (norm ig e)
  | .func ps rs v => .func (normL ig ps) (normL ig rs) v
  | .struct fs => .struct (normF ig fs)
  | .iface ms => .iface (normM ig ms)
def normL (ig : Bool) : TyList → TyList
  | .nil => .nil
  | .cons t r => .cons (norm ig t) (normL ig r)
def normF (ig : Bool) : Fields → Fields
  | .nil => .nil
  | .cons n t e a r => .cons n (if ig then "" else t) e (norm ig a) (normF ig r)
def normM (ig : Bool) : Methods → Methods
  | .nil => .nil
  | .cons n a r => .cons n (norm ig a) (normM ig r)
end

/-! ## The structural features (each is a projection identity respects) -/

inductive Kind | basic | named | ptr | slice | array | map | chan | func | struct | iface
  deriving DecidableEq, Repr

namespace TyList
def length : TyList → Nat
  | nil => 0
  | cons _ r => r.length + 1
def get? : TyList → Nat → Option Ty
  | nil, _ => none
  | cons t _, 0 => some t
  | cons _ r, i + 1 => r.get? i
end TyList

namespace Fields
def names : Fields → List String
  | nil => []
  | cons n _ _ _ r => n :: r.names
def tags : Fields → List String
  | nil => []
  | cons _ t _ _ r => t :: r.tags
def embedded : Fields → List Bool
  | nil => []
  | cons _ _ e _ r => e :: r.embedded
def get? : Fields → Nat → Option Ty
  | nil, _ => none
  | cons _ _ _ t _, 0 => some t
  | cons _ _ _ _ r, i + 1 => r.get? i
end Fields

namespace Methods
def names : Methods → List String
  | nil => []
  | cons n _ r => n :: r.names
def lookup (name : String) : Methods → Option Ty
  | nil => none
  | cons n s r => if n == name then some s else r.lookup name
def isEmpty : Methods → Bool
  | nil => true
  | _ => false
end Methods

namespace Ty
def kind : Ty → Kind
  | basic _ => .basic | named .. => .named | ptr _ => .ptr | slice _ => .slice | array .. => .array
  | map .. => .map | chan .. => .chan | func .. => .func | struct _ => .struct | iface _ => .iface
def variadic? : Ty → Option Bool
  | func _ _ v => some v
  | _ => none
def numIn? : Ty → Option Nat
  | func ps _ _ => some ps.length
  | _ => none
def numOut? : Ty → Option Nat
  | func _ rs _ => some rs.length
  | _ => none
def chanDir? : Ty → Option Dir
  | chan d _ => some d
  | _ => none
def arrayLen? : Ty → Option Nat
  | array n _ => some n
  | _ => none
def fieldNames? : Ty → Option (List String)
  | struct fs => some fs.names
  | _ => none
def fieldTags? : Ty → Option (List String)
  | struct fs => some fs.tags
  | _ => none
def fieldEmbedded? : Ty → Option (List Bool)
  | struct fs => some fs.embedded
  | _ => none
def methodNames? : Ty → Option (List String)
  | iface ms => some ms.names
  | _ => none
def namedId? : Ty → Option Nat
  | named i _ => some i
  | _ => none
/-- how many pointer levels before something that is not a pointer type literal -/
def ptrDepth : Ty → Nat
  | ptr e => e.ptrDepth + 1
  | _ => 0

/-- "Each type T has an underlying type": predeclared types and type literals are their own. -/
def underlying : Ty → Ty
  | named _ u => u.underlying
  | t => t
/-- named types: predeclared types and defined types -/
def isNamed : Ty → Bool
  | basic _ | named .. => true
  | _ => false
def isInterface (t : Ty) : Bool :=
  match t.underlying with
  | iface _ => true
  | _ => false
/-- The method set, in this universe: that of the underlying interface type. -/
def methodSet (t : Ty) : Methods :=
  match t.underlying with
  | iface ms => ms
  | _ => .nil
end Ty

/-! ## Assignability and convertibility -/

/-- every method of the second set is in `got` with an identical signature -/
def covers (got : Methods) : Methods → Bool
  | .nil => true
  | .cons n sig r =>
    (match got.lookup n with
     | some s => identical false s sig
     | none => false) && covers got r

/-- "T is an interface type … and x implements T" -/
def implements (v t : Ty) : Bool :=
  match t.underlying with
  | .iface ms => covers v.methodSet ms
  | _ => false

/-- "V and T are channel types with identical element types, V is a bidirectional channel, and at
least one of V or T is not a named type." -/
def chanRule (v t : Ty) : Bool :=
  match v.underlying, t.underlying with
  | .chan .both a, .chan _ b => identical false a b && !(v.isNamed && t.isNamed)
  | _, _ => false

/-- "A value x of type V is assignable to a variable of type T" (typed, non-nil x). -/
def assignable (v t : Ty) : Bool :=
  identical false v t
  || (identical false v.underlying t.underlying && !(v.isNamed && t.isNamed))
  || implements v t
  || chanRule v t

def isBasicWith (p : BKind → Bool) (t : Ty) : Bool :=
  match t.underlying with
  | .basic k => p k
  | _ => false

/-- a slice whose element type's underlying type is `byte` or `rune` (as `go/types` reads
"slice of bytes or runes") -/
def isBytesOrRunes (t : Ty) : Bool :=
  match t.underlying with
  | .slice e => isBasicWith (fun k => k == .uint8 || k == .int32) e
  | _ => false

/-- "x is a slice, T is an array or a pointer to an array, and the slice and array types have
identical element types" -/
def sliceToArray (v t : Ty) : Bool :=
  match v.underlying, t.underlying with
  | .slice a, .array _ b => identical false a b
  | .slice a, .ptr p =>
    (match p.underlying with
     | .array _ b => identical false a b
     | _ => false)
  | _, _ => false

/-- unnamed pointer types whose base types have identical underlying types, ignoring tags -/
def ptrRule : Ty → Ty → Bool
  | .ptr a, .ptr b => identical true a.underlying b.underlying
  | _, _ => false

/-- "A non-constant value x can be converted to type T" -/
def convertible (v t : Ty) : Bool :=
  assignable v t
  || identical true v.underlying t.underlying
  || ptrRule v t
  || ((isBasicWith BKind.isInteger v || isBasicWith BKind.isFloat v)
      && (isBasicWith BKind.isInteger t || isBasicWith BKind.isFloat t))
  || (isBasicWith BKind.isComplex v && isBasicWith BKind.isComplex t)
  || ((isBasicWith BKind.isInteger v || isBytesOrRunes v) && isBasicWith (· == .string) t)
  || (isBasicWith (· == .string) v && isBytesOrRunes t)
  || sliceToArray v t

/-! ## What `types.identical` has to compare, kind by kind

The extractor (`go/cmd/extract/gen_typeidentical.go`) lists, per `reflect.Kind`, the comparisons
the `switch` of `types.identical` makes (`Gen/TypeIdentical.lean`); `Props/C03.lean` proves that
list covers `required`: every structural feature identity respects (the theorems
`identical_respects_*`) is compared by the code. The selectors are those of `reflect.Type`,
`reflect.StructField` and `reflect.Method`. -/

inductive RKind | Array | Slice | Pointer | Map | Chan | Func | Struct | Interface
  deriving DecidableEq, Repr

inductive Sel
  | Len | Elem | Key | ChanDir | NumIn | NumOut | IsVariadic | In | Out
  | NumField | Name | PkgPath | Type | Tag | Anonymous | Offset | NumMethod
  deriving DecidableEq, Repr

/-- `cmp s`: `x.s() != y.s()` makes the types differ; `idn s`: `identical(x.s(), y.s(), false,
ignoreTags)` must hold; `eachIdn s`: the same for `x.s(i)`, every `i` below a count compared
before; `field…` / `method…`: on corresponding `x.Field(i)` / `x.Method(i)`; a tag is compared
unless tags are ignored. -/
inductive Check
  | cmp (s : Sel) | idn (s : Sel) | eachIdn (s : Sel)
  | fieldCmp (s : Sel) | fieldIdn (s : Sel) | fieldCmpUnlessIgnoreTags (s : Sel)
  | methodCmp (s : Sel) | methodIdn (s : Sel)
  deriving DecidableEq, Repr

def required : List (RKind × List Check) := [
  (.Array, [.cmp .Len, .idn .Elem]),
  (.Slice, [.idn .Elem]),
  (.Pointer, [.idn .Elem]),
  (.Map, [.idn .Key, .idn .Elem]),
  (.Chan, [.cmp .ChanDir, .idn .Elem]),
  (.Func, [.cmp .NumIn, .cmp .NumOut, .cmp .IsVariadic, .eachIdn .In, .eachIdn .Out]),
  (.Struct, [.cmp .NumField, .fieldCmp .Name, .fieldCmp .PkgPath, .fieldIdn .Type,
             .fieldCmpUnlessIgnoreTags .Tag, .fieldCmp .Anonymous]),
  (.Interface, [.cmp .NumMethod, .methodCmp .Name, .methodCmp .PkgPath, .methodIdn .Type])]

/-- every required comparison of every kind is among those the code makes -/
def coversRequired (got : List (RKind × List Check)) : Bool :=
  required.all fun (k, cs) =>
    match got.lookup k with
    | some gs => cs.all (gs.contains ·)
    | none => false

end ScriggoV.TypeIdent
