/-! Order-independence of loops over Go maps (C30).

A `for k, v := range m { body }` visits the entries of `m` in an unspecified order: it is a
left fold of `step : σ → α → σ` (the loop body as a state transformer, `α` the entry) over
*some* permutation of the entry list. The build is deterministic at that loop iff the fold
gives the same state for every permutation.

This file has the generic theorem (`foldl_perm_of_commute`, `foldl_perm_of_keys`) and, for each
*class* of loop body met in /repo/internal/compiler, the abstract step with its commutation
proof — or, for order-sensitive emission, the refutation. `Props/C30.lean` assigns every map
range of the compiler (regenerated list `Gen/MapRanges.lean`) to a class. Core Lean only. -/
namespace ScriggoV.Order

variable {σ α κ ν : Type}

/-- `a` and `b` can be processed in either order, from every state -/
def Commute (step : σ → α → σ) (a b : α) : Prop := ∀ s, step (step s a) b = step (step s b) a

/-- any two entries of the list commute -/
def PairwiseCommute (step : σ → α → σ) (l : List α) : Prop :=
  ∀ a, a ∈ l → ∀ b, b ∈ l → Commute step a b

/-- **Generic theorem.** If the entries commute pairwise, the fold over any permutation of the
entry list ends in the same state. -/
theorem foldl_perm_of_commute (step : σ → α → σ) {l l' : List α} (h : l.Perm l')
    (pc : PairwiseCommute step l) : ∀ s, l.foldl step s = l'.foldl step s := by
  induction h with
  | nil => intro s; rfl
  | cons x _ ih =>
    intro s
    simp only [List.foldl_cons]
    exact ih (fun a ha b hb => pc a (List.mem_cons_of_mem _ ha) b (List.mem_cons_of_mem _ hb)) _
  | swap x y l =>
    intro s
    simp only [List.foldl_cons]
    rw [pc y (by simp) x (by simp) s]
  | trans h₁ _ ih₁ ih₂ =>
    intro s
    rw [ih₁ pc s]
    exact ih₂ (fun a ha b hb => pc a (h₁.mem_iff.mpr ha) b (h₁.mem_iff.mpr hb)) s

/-- in a list whose keys are distinct, two entries with the same key are the same entry -/
theorem eq_of_key_eq (l : List (κ × ν)) (nd : (l.map Prod.fst).Nodup)
    (a b : κ × ν) (ha : a ∈ l) (hb : b ∈ l) (hk : a.1 = b.1) : a = b := by
  induction l with
  | nil => cases ha
  | cons x xs ih =>
    simp only [List.map_cons, List.nodup_cons, List.mem_map, not_exists, not_and] at nd
    rcases List.mem_cons.mp ha with rfl | ha' <;> rcases List.mem_cons.mp hb with rfl | hb'
    · rfl
    · exact absurd hk.symm (nd.1 b hb')
    · exact absurd hk (nd.1 a ha')
    · exact ih nd.2 ha' hb'

/-- the form used for map entries: a Go map has each key once, so it is enough that entries
with *different keys* commute -/
theorem foldl_perm_of_keys (step : σ → κ × ν → σ)
    (comm : ∀ a b : κ × ν, a.1 ≠ b.1 → Commute step a b)
    {l l' : List (κ × ν)} (nd : (l.map Prod.fst).Nodup) (h : l.Perm l') :
    ∀ s, l.foldl step s = l'.foldl step s := by
  classical
  apply foldl_perm_of_commute step h
  intro a ha b hb
  by_cases hk : a.1 = b.1
  · have := eq_of_key_eq l nd a b ha hb hk
    subst this
    intro s; rfl
  · exact comm a b hk

/-! ## Classes of loop bodies -/

/-- point update of a map-like state -/
def upd [DecidableEq κ] {γ : Type} (s : κ → γ) (k : κ) (v : γ) : κ → γ :=
  fun k' => if k' = k then v else s k'

/-! ### 1. distinct-key update
`dst[k] = f(k, v, dst[k])` — inserting into / updating another map (or slice cell) at a key
that is an injective function of the iteration key; includes guarded inserts
(`if cond(k, v) { dst[k] = … }`) and insert-if-absent (`scopes.Declare`). -/
section distinctKey
variable [DecidableEq κ] {γ : Type}

def stepDistinctKey (f : κ → ν → γ → γ) (s : κ → γ) (e : κ × ν) : κ → γ :=
  upd s e.1 (f e.1 e.2 (s e.1))

theorem commute_distinctKey (f : κ → ν → γ → γ) (a b : κ × ν) (h : a.1 ≠ b.1) :
    Commute (stepDistinctKey f) a b := by
  intro s
  funext k
  simp only [stepDistinctKey, upd]
  by_cases ha : k = a.1 <;> by_cases hb : k = b.1 <;> simp_all

theorem foldl_distinctKey (f : κ → ν → γ → γ) {l l' : List (κ × ν)}
    (nd : (l.map Prod.fst).Nodup) (h : l.Perm l') (s : κ → γ) :
    l.foldl (stepDistinctKey f) s = l'.foldl (stepDistinctKey f) s :=
  foldl_perm_of_keys _ (commute_distinctKey f) nd h s
end distinctKey

/-! ### 2. existence test
`if p(k, v) { return true }` / `{ panic(<message not depending on the entry>) }` -/

def stepExists (p : α → Bool) (s : Bool) (e : α) : Bool := s || p e

theorem commute_exists (p : α → Bool) (a b : α) : Commute (stepExists p) a b := by
  intro s; simp only [stepExists]; cases s <;> cases p a <;> cases p b <;> rfl

theorem foldl_exists (p : α → Bool) {l l' : List α} (h : l.Perm l') (s : Bool) :
    l.foldl (stepExists p) s = l'.foldl (stepExists p) s :=
  foldl_perm_of_commute _ h (fun a _ b _ => commute_exists p a b) s

/-! ### 3. unique-match selection
`if p(k, v) { x = r(k, v) }` (last match wins) and `if p(k, v) { return r(k, v) }` / `break`
(first match wins): deterministic when at most one entry matches (or all matches give the same
result) — a data invariant stated per site. -/

def stepLastMatch {ρ : Type} (p : α → Bool) (r : α → ρ) (s : Option ρ) (e : α) : Option ρ :=
  if p e then some (r e) else s

def stepFirstMatch {ρ : Type} (p : α → Bool) (r : α → ρ) (s : Option ρ) (e : α) : Option ρ :=
  match s with
  | some x => some x
  | none => if p e then some (r e) else none

/-- at most one result among the matching entries -/
def UniqueResult {ρ : Type} (p : α → Bool) (r : α → ρ) (l : List α) : Prop :=
  ∀ a, a ∈ l → ∀ b, b ∈ l → p a = true → p b = true → r a = r b

theorem pairwise_lastMatch {ρ : Type} (p : α → Bool) (r : α → ρ) (l : List α)
    (u : UniqueResult p r l) : PairwiseCommute (stepLastMatch p r) l := by
  intro a ha b hb s
  simp only [stepLastMatch]
  by_cases pa : p a = true <;> by_cases pb : p b = true <;> simp_all
  · exact (u a ha b hb pa pb).symm

theorem pairwise_firstMatch {ρ : Type} (p : α → Bool) (r : α → ρ) (l : List α)
    (u : UniqueResult p r l) : PairwiseCommute (stepFirstMatch p r) l := by
  intro a ha b hb s
  cases s with
  | some x => simp [stepFirstMatch]
  | none =>
    simp only [stepFirstMatch]
    by_cases pa : p a = true <;> by_cases pb : p b = true <;> simp_all
    · exact u a ha b hb pa pb

theorem foldl_lastMatch {ρ : Type} (p : α → Bool) (r : α → ρ) {l l' : List α} (h : l.Perm l')
    (u : UniqueResult p r l) (s : Option ρ) :
    l.foldl (stepLastMatch p r) s = l'.foldl (stepLastMatch p r) s :=
  foldl_perm_of_commute _ h (pairwise_lastMatch p r l u) s

theorem foldl_firstMatch {ρ : Type} (p : α → Bool) (r : α → ρ) {l l' : List α} (h : l.Perm l')
    (u : UniqueResult p r l) (s : Option ρ) :
    l.foldl (stepFirstMatch p r) s = l'.foldl (stepFirstMatch p r) s :=
  foldl_perm_of_commute _ h (pairwise_firstMatch p r l u) s

/-! ### 4. min / max selection
`if ok(e) && (best == nil || m(e) < m(best)) { best = e }` with a strict comparison: the
entry with the smallest measure among the eligible ones; deterministic when the measures
(source positions) of different entries differ. And the plain maximum of values
(`if v > max { max = v }`), which needs nothing. -/

def stepArgMin (ok : α → Bool) (m : α → Nat) (s : Option α) (e : α) : Option α :=
  if ok e then
    match s with
    | none => some e
    | some c => if m e < m c then some e else some c
  else s

theorem commute_argMin (ok : α → Bool) (m : α → Nat) (a b : α) (h : m a ≠ m b) :
    Commute (stepArgMin ok m) a b := by
  intro s
  simp only [stepArgMin]
  cases s with
  | none =>
    by_cases oa : ok a = true <;> by_cases ob : ok b = true <;> simp_all
    · by_cases hlt : m b < m a
      · have : ¬ m a < m b := by omega
        simp [hlt, this]
      · have : m a < m b := by omega
        simp [hlt, this]
  | some c =>
    by_cases oa : ok a = true <;> by_cases ob : ok b = true <;> simp_all
    · by_cases h1 : m a < m c <;> by_cases h2 : m b < m c <;> simp [h1, h2]
      · by_cases h3 : m b < m a
        · have : ¬ m a < m b := by omega
          simp [h3, this]
        · have : m a < m b := by omega
          simp [h3, this]
      · have : ¬ m b < m a := by omega
        simp [this]
      · have : ¬ m a < m b := by omega
        simp [this]

theorem foldl_argMin (ok : α → Bool) (m : α → Nat) {l l' : List α} (h : l.Perm l')
    (inj : ∀ a, a ∈ l → ∀ b, b ∈ l → a ≠ b → m a ≠ m b) (s : Option α) :
    l.foldl (stepArgMin ok m) s = l'.foldl (stepArgMin ok m) s := by
  classical
  apply foldl_perm_of_commute _ h
  intro a ha b hb
  by_cases e : a = b
  · subst e; intro s; rfl
  · exact commute_argMin ok m a b (inj a ha b hb e)

/-- arg-max is arg-min of the mirrored measure; only the plain maximum is needed besides -/
def stepMax (v : α → Nat) (s : Nat) (e : α) : Nat := if v e > s then v e else s

theorem commute_max (v : α → Nat) (a b : α) : Commute (stepMax v) a b := by
  intro s
  simp only [stepMax]
  by_cases h1 : v a > s <;> by_cases h2 : v b > s <;> simp [h1, h2]
  · by_cases h3 : v b > v a
    · have : ¬ v a > v b := by omega
      simp [h3, this]
    · by_cases h4 : v a > v b
      · simp [h3, h4]
      · have : v a = v b := by omega
        simp [this]
  · intro h; omega
  · intro h; omega

theorem foldl_max (v : α → Nat) {l l' : List α} (h : l.Perm l') (s : Nat) :
    l.foldl (stepMax v) s = l'.foldl (stepMax v) s :=
  foldl_perm_of_commute _ h (fun a _ b _ => commute_max v a b) s

/-! ### 5. collect, then sort
`xs = append(xs, k)` in the loop, `sort(xs)` after it: the collected list depends on the order,
the sorted one does not — provided the sort key orders the collected entries *totally*
(antisymmetric on them). `sort` is any function returning a sorted permutation. -/

def stepCollect (s : List α) (e : α) : List α := s ++ [e]

theorem foldl_collect (l : List α) (s : List α) : l.foldl stepCollect s = s ++ l := by
  induction l generalizing s with
  | nil => simp
  | cons x xs ih => simp [stepCollect, ih]

theorem collect_then_sort (le : α → α → Prop) (sort : List α → List α)
    (sort_perm : ∀ l, (sort l).Perm l) (sort_sorted : ∀ l, (sort l).Pairwise le)
    {l l' : List α} (h : l.Perm l')
    (antisymm : ∀ a b, a ∈ l → b ∈ l → le a b → le b a → a = b) :
    sort (l.foldl stepCollect []) = sort (l'.foldl stepCollect []) := by
  simp only [foldl_collect, List.nil_append]
  have p : (sort l).Perm (sort l') := ((sort_perm l).trans h).trans (sort_perm l').symm
  refine List.Perm.eq_of_pairwise ?_ (sort_sorted l) (sort_sorted l') p
  intro a b ha hb
  exact antisymm a b ((sort_perm l).mem_iff.mp ha) (h.mem_iff.mpr ((sort_perm l').mem_iff.mp hb))

/-! ### 6. commutative accumulation per key
`scopes.UnusedImport`: `unused[imp]` becomes the conjunction of `!used` over the names of
the import `imp` (absent = not seen yet). Several entries hit the same key. -/
section accumulate
variable [DecidableEq κ]

def stepAndAcc (s : κ → Option Bool) (e : κ × Bool) : κ → Option Bool :=
  upd s e.1 (some (match s e.1 with | none => e.2 | some y => y && e.2))

theorem commute_andAcc (a b : κ × Bool) : Commute (stepAndAcc (κ := κ)) a b := by
  intro s
  funext k
  simp only [stepAndAcc, upd]
  by_cases hab : a.1 = b.1
  · by_cases hk : k = b.1
    · cases hs : s b.1 <;> simp [hab, hk, hs, Bool.and_comm, Bool.and_left_comm]
    · simp [hab, hk]
  · by_cases ha : k = a.1 <;> by_cases hb : k = b.1 <;> simp_all

theorem foldl_andAcc {l l' : List (κ × Bool)} (h : l.Perm l') (s : κ → Option Bool) :
    l.foldl stepAndAcc s = l'.foldl stepAndAcc s :=
  foldl_perm_of_commute _ h (fun a _ b _ => commute_andAcc a b) s
end accumulate

/-! ### 7. union of maps with disjoint key sets
`maps.Copy(dst, m)` for every `m` of a map of maps whose key sets are pairwise disjoint
(type infos keyed by the nodes of different packages). -/
section union
variable {γ : Type}

def stepUnion (s : κ → Option γ) (m : κ → Option γ) : κ → Option γ :=
  fun k => match m k with | some v => some v | none => s k

def Disjoint (a b : κ → Option γ) : Prop := ∀ k, a k = none ∨ b k = none

theorem commute_union (a b : κ → Option γ) (h : Disjoint a b) : Commute stepUnion a b := by
  intro s
  funext k
  simp only [stepUnion]
  rcases h k with h | h <;> simp [h] <;> cases a k <;> cases b k <;> simp_all

theorem foldl_union {l l' : List (κ → Option γ)} (h : l.Perm l')
    (d : ∀ a, a ∈ l → ∀ b, b ∈ l → a ≠ b → Disjoint a b) (s : κ → Option γ) :
    l.foldl stepUnion s = l'.foldl stepUnion s := by
  classical
  apply foldl_perm_of_commute _ h
  intro a ha b hb
  by_cases e : a = b
  · subst e; intro s; rfl
  · exact commute_union a b (d a ha b hb e)
end union

/-! ### 8. order-sensitive emission
`emit(instr(k, v))` in the loop body: the emitted sequence *is* the iteration order. -/

def stepEmit {ι : Type} (instr : α → ι) (s : List ι) (e : α) : List ι := s ++ [instr e]

/-- two entries with different instructions are enough: the two orders give different code -/
theorem emit_order_sensitive {ι : Type} (instr : α → ι) (a b : α) (h : instr a ≠ instr b) :
    [a, b].Perm [b, a] ∧ [a, b].foldl (stepEmit instr) [] ≠ [b, a].foldl (stepEmit instr) [] := by
  refine ⟨List.Perm.swap _ _ _, ?_⟩
  simp [stepEmit, h]

end ScriggoV.Order
