import ScriggoV.Model.Dispatch
import ScriggoV.Gen.ShowFastPath
/-! The `{{ M(…) }}` / `{{ render "f" }}` fast paths against the generic path (property C06, layer 3).

The emitter's Show case has three branches: a macro call accepted by `canOptimizeShowMacro` and a
`render` expression are compiled to a call whose callee writes straight to the page (the VM's
OpCallMacro / OpCallIndirect choose the callee's renderer from the pair (format passed = context,
format of the callee)); everything else collects the result in a value of the macro's result type
and hands it to `renderer.Show`, i.e. to the `showIn*` function of the context.

Everything here is evaluated over REGENERATED tables:
* `Gen/ShowFastPath.lean` (emitter_statements.go, run.go): `macroGuard`, `renderGuard`,
  `callMacroChoice`, `callIndirectChoice`, `returnAction`, the Format / Context constants;
* `Gen/ShowDispatch.lean` (renderer.go): `showSwitch` and the write sites of every `showIn*`.

`genericConv from ctx` is what the generic path does to the bytes of a result of format `from`
shown in context `ctx`: written as they are (`identity`), handed to the Markdown converter
(`converter`), or anything else (escaped, quoted, rejected: `other`). A fast path is sound at a
pair when the VM's renderer choice does the same. Core Lean only. -/
namespace ScriggoV.MacroFast
open ScriggoV.Gen ScriggoV.Gen.ShowDispatch ScriggoV.Dispatch

/-- the type-switch case of a macro result of each format (`formatTypes` of the compiler maps
Text to `string`, which has no case of its own: it takes the path of the kind String) -/
def resultCase : List (String × Option String) :=
  [("FormatText", none), ("FormatHTML", some "native.HTML"), ("FormatCSS", some "native.CSS"),
   ("FormatJS", some "native.JS"), ("FormatJSON", some "native.JSON"),
   ("FormatMarkdown", some "native.Markdown")]

/-- the label of each context in `renderer.Show`'s switch -/
def ctxLabel : List (String × String) :=
  [("ContextText", "Text"), ("ContextHTML", "HTML"), ("ContextCSS", "CSS"), ("ContextJS", "JS"),
   ("ContextJSON", "JSON"), ("ContextMarkdown", "Markdown"), ("ContextTag", "Tag"),
   ("ContextQuotedAttr", "QuotedAttr"), ("ContextUnquotedAttr", "UnquotedAttr"),
   ("ContextCSSString", "CSSString"), ("ContextJSString", "JSString"),
   ("ContextJSONString", "JSONString"), ("ContextTabCodeBlock", "TabCodeBlock"),
   ("ContextSpacesCodeBlock", "SpacesCodeBlock")]

def nameOfCode (tbl : List (String × Nat)) (code : Nat) : Option String :=
  (tbl.find? (·.2 == code)).map (·.1)

/-- the `showIn*` function `renderer.Show` dispatches to in the context with code `ctx` -/
def showFnOf (ctx : Nat) : Option Fn := do
  let cname ← nameOfCode ShowFastPath.contexts ctx
  let label ← ctxLabel.lookup cname
  let row ← showSwitch.find? (·.1 == label)
  fnNamed row.2.1

def hasTypeCase (f : Fn) (t : String) : Bool := f.typeCases.any (·.1.contains t)

/-- every sink that receives bytes of the value inside the type-switch clause of `t` -/
def sinksOfType (f : Fn) (t : String) : List Sink :=
  (f.sites.filterMap (fun st =>
    if (valPaths f st).any (fun p => match p.1 with | some tc => tc.contains t | none => false)
    then some st.sink else none)).eraseDups

inductive Conv
  | identity   -- the bytes are written as they are
  | converter  -- the bytes go to the embedder's Markdown → HTML converter
  | other      -- escaped / quoted / filtered
  deriving DecidableEq, Repr

def classify (ss : List Sink) : Conv :=
  if ss.isEmpty then .other
  else if ss.all (· == .raw) then .identity
  else if ss.all (· == .conv) then .converter
  else .other

/-- what the generic path (`renderer.Show` outside a URL, a converter being configured) does to a
result of format `from` in context `ctx`; `none` = a code that is no format / no context -/
def genericConv (from_ ctx : Nat) : Option Conv := do
  let f ← showFnOf ctx
  let fname ← nameOfCode ShowFastPath.formats from_
  let rc ← resultCase.lookup fname
  match rc with
  | some t =>
    if hasTypeCase f t then pure (classify (sinksOfType f t))
    else pure (classify (untrustedValSinks f))   -- no case of its own: the path of a plain string
  | none => pure (classify (untrustedValSinks f))

def formatCodes : List Nat := ShowFastPath.formats.map (·.2)
def contextCodes : List Nat := ShowFastPath.contexts.map (·.2)

/-- `ast.Format(ctx)` names a format only for the first contexts -/
def isFormatContext (ctx : Nat) : Bool := formatCodes.contains ctx

/-- the VM does at (callee format `from`, context `ctx`) what the generic path does: the callee
writes into the page's renderer or a fresh one on the same output (choices 0 and 3, nothing at
return) where the generic path writes the result as it is; it buffers and converts at return
(choice 2) where the generic path calls the converter. OpCallIndirect agrees with OpCallMacro. -/
def vmAgreesWithGeneric (from_ ctx : Nat) : Bool :=
  let b : Int := ctx
  isFormatContext ctx &&
  ShowFastPath.callIndirectChoice b from_ == ShowFastPath.callMacroChoice b from_ &&
  (match ShowFastPath.callMacroChoice b from_ with
   | 0 => genericConv from_ ctx == some .identity
   | 3 => genericConv from_ ctx == some .identity && ShowFastPath.returnAction b from_ == 0
   | 2 => genericConv from_ ctx == some .converter && ShowFastPath.returnAction b from_ == 2
   | _ => false)

/-- a guard is sound when it accepts only pairs at which the VM agrees with the generic path -/
def guardSound (guard : Nat → Nat → Bool) : Bool :=
  formatCodes.all (fun f => contextCodes.all (fun c => !guard f c || vmAgreesWithGeneric f c))

/-- the accepted pairs of a guard, by constant names (for the driver and for reading) -/
def acceptedPairs (guard : Nat → Nat → Bool) : List (String × String) :=
  ShowFastPath.formats.flatMap (fun f => ShowFastPath.contexts.filterMap (fun c =>
    if guard f.2 c.2 then some (f.1, c.1) else none))

def convName : Option Conv → String
  | some .identity => "identity"
  | some .converter => "converter"
  | some .other => "other"
  | none => "none"

end ScriggoV.MacroFast
