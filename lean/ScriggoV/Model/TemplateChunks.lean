import ScriggoV.Model.Escape
import ScriggoV.Model.WriterM
/-! Straight-line template bodies as sequences of writing instructions (C13): a literal text
(`OpText`: one `Write` of the whole text) or the show of a string in a context whose escaper is
modelled chunk by chunk in `Model/Escape.lean` (`OpShow` → `showIn*` → escaper loop). -/
namespace ScriggoV.TemplateChunks
open ScriggoV ScriggoV.Escape ScriggoV.WriterM

inductive Item where
  | text (t : Bytes)          -- OpText
  | showHtml (s : Bytes)      -- {{ s }} in HTML text
  | showAttrQ (s : Bytes)     -- in a quoted attribute value
  | showAttrU (s : Bytes)     -- in an unquoted attribute value
  | showJsStr (s : Bytes)     -- inside a JavaScript string literal
  | showCssStr (s : Bytes)    -- inside a CSS string
  deriving Repr

/-- the `Write` calls one instruction makes when no write fails -/
def Item.chunks : Item → List Bytes
  | .text t => [t]
  | .showHtml s => htmlEscapeChunks s
  | .showAttrQ s => attributeEscapeChunks true true s
  | .showAttrU s => attributeEscapeChunks true false s
  | .showJsStr s => jsStringEscapeChunks s
  | .showCssStr s => cssStringEscapeChunks s

/-- every instruction is a loop `write chunk; if err != nil { return err }` over its chunks -/
def Item.prog (i : Item) : Prog := ofChunks i.chunks

def body (items : List Item) : Prog := seqAll (items.map Item.prog)
def allChunks (items : List Item) : List Bytes := (items.map Item.chunks).flatten

end ScriggoV.TemplateChunks
