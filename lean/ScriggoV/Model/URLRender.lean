import ScriggoV.Model.URLState
import ScriggoV.Model.Escape
import ScriggoV.Spec.Decode
/-! C07 — what the renderer's URL state machine (`Model/URLState.lean`, C05's model of
`renderer.Text` / `showInURL` / `endURL`) writes, byte for byte: its output tokens rendered with
the escaper models of `Model/Escape.lean`. Core Lean only. -/
namespace ScriggoV.URLRender
open ScriggoV ScriggoV.URLState ScriggoV.Escape

def ampEntity : Bytes := [0x26, 0x61, 0x6D, 0x70, 0x3B]

/-- the bytes one output token stands for (`other`: the hook shows in ContextHTML) -/
def renderOut : Out → Bytes
  | .raw b => b
  | .amp => ampEntity
  | .path s quoted => pathEscapeOut quoted s
  | .query s => queryEscapeOut s
  | .other s => htmlEscapeOut s

def render (os : List Out) : Bytes := os.flatMap renderOut

/-- `showInURL` escapes what `html.UnescapeString` makes of the HTML rendering of the value -/
def shownString (v : Bytes) : Bytes := Decode.htmlDecode Decode.stdNamed (htmlEscapeOut v)

end ScriggoV.URLRender
