import ScriggoV.Model.URLState
import ScriggoV.Model.Escape
import ScriggoV.Spec.Decode
/-! C07 — what the renderer's URL state machine (`Model/URLState.lean`, C05's model of
`renderer.Text` / `showInURL` / `endURL`) writes, byte for byte: its output tokens rendered with
the escaper models of `Model/Escape.lean`. Core Lean only. -/
namespace ScriggoV.URLRender
open ScriggoV ScriggoV.URLState ScriggoV.Escape

def ampEntity : Bytes := [0x26, 0x61, 0x6D, 0x70, 0x3B]

/-- the bytes one output token stands for (`other`: the hook shows in ContextHTML) -/
def renderOut : Out → Bytes
  | .raw b => b
  | .amp => ampEntity
  | .path s quoted => pathEscapeOut quoted s
  | .query s => queryEscapeOut s
  | .other s => htmlEscapeOut s

def render (os : List Out) : Bytes := os.flatMap renderOut

/-- `showInURL` escapes what `html.UnescapeString` makes of the HTML rendering of the value -/
def shownString (v : Bytes) : Bytes := Decode.htmlDecode Decode.stdNamed (htmlEscapeOut v)

/-- The same pipeline by the names of its two stages (regenerated from the body of `showInURL`
into `Gen/ShowInURLPipe.lean`): what the escapers receive for a plain string `v`. `none` = a
stage this model does not know. -/
def shownStringVia (shownVia decodedBy : String) (v : Bytes) : Option Bytes :=
  let written : Option Bytes :=
    if shownVia = "showInHTML" then some (htmlEscapeOut v)   -- a plain string is HTML-escaped
    else if shownVia = "showInText" then some v               -- … is written as it is
    else none
  written.bind fun w =>
    if decodedBy = "html.UnescapeString" then some (Decode.htmlDecode Decode.stdNamed w)
    else if decodedBy = "" then some w
    else none

/-- A URL attribute value as the template and the renderer put it together, piece by piece:
static text without `&`, the entity `&amp;` (written by the author as a separator, or by the
renderer: `Out.amp`), and a plain string shown in a query position. -/
inductive Piece where
  | plain (b : Bytes)
  | amp
  | value (v : Bytes)
  deriving DecidableEq, Repr

/-- the bytes of the rendered document -/
def Piece.src : Piece → Bytes
  | .plain b => b
  | .amp => ampEntity
  | .value v => queryEscapeOut (shownString v)

/-- the bytes of the attribute value after the HTML tokenizer has decoded character references -/
def Piece.val : Piece → Bytes
  | .plain b => b
  | .amp => [0x26]
  | .value v => queryEscapeOut v

def Piece.ok : Piece → Bool
  | .plain b => !b.contains 0x26
  | _ => true

end ScriggoV.URLRender
