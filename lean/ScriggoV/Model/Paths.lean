import ScriggoV.Basic.Bytes
import ScriggoV.Spec.GoPath
import ScriggoV.Model.PathSites
/-! Model of template file loading (C18):

* `validTemplatePath` — `internal/compiler/path.go:ValidTemplatePath`, statement by statement
  (checked index / slices);
* `rooted` — `internal/compiler/parser_template.go:rooted` (stdlib calls are the
  specifications of `Spec/GoPath.lean`);
* `parseTemplate` / `parseSourceWith` / `expandWith` / `expandOne` / `parseNodeFile` — the
  recursion `ParseTemplate → parseSource → expand → parseNodeFile → parseSource …` over an
  abstract file map (file name ↦ the Extends/Import/Render references of the file in source
  order), with the `paths` stack, the `trees` cache, `canExtend`, and the trace of names
  passed to `fs.FS.Open`;
* `checkRefs` — what the parser does with the path of every reference, *per parse site*
  (`Model/PathSites.lean`): the recursion takes the table `Site → Guard` as a parameter, the
  real one is generated (`Gen/PathSites.lean`).

What a file map abstracts away: the template source text (a file is the list of its
references, i.e. what `ParseTemplateSource` returns in `unexpanded`), positions, formats.
Core Lean only. -/
namespace ScriggoV.Paths
open ScriggoV.GoPath

/-! ### ValidTemplatePath -/

/-- `"../"` -/
def dotdotSlash : Bytes := [46, 46, 47]

/-- `for strings.HasPrefix(path, "../") { path = path[3:] }` (fuel: the length) -/
def stripUps : Nat → Bytes → Except Fault Bytes
  | 0, p => if hasPrefix p dotdotSlash then .error .other else .ok p
  | fuel+1, p =>
    if hasPrefix p dotdotSlash then
      match sliceOf p 3 p.length with
      | .error f => .error f
      | .ok p' => stripUps fuel p'
    else .ok p

/-- the `if len(path) > 0 && path[0] == '/' { path = path[1:] } else { for … }` part -/
def vtpStrip (path : Bytes) : Except Fault Bytes :=
  if path.length > 0 then
    match getAt path 0 with
    | .error f => .error f
    | .ok c =>
      if c == 47 then sliceOf path 1 path.length
      else stripUps path.length path
  else stripUps path.length path

/-- `ValidTemplatePath` -/
def validTemplatePath (path : Bytes) : Except Fault Bool :=
  match vtpStrip path with
  | .error f => .error f
  | .ok p => if p == dotSeg then .ok false else .ok (validPath p)

/-! ### rooted -/

inductive PErr
  | notExist            -- os.ErrNotExist
  | fault (f : Fault)
  deriving DecidableEq, Repr

/-- `rooted(parent, name)` -/
def rooted (parent name : Bytes) : Except PErr Bytes :=
  if isAbs name then
    match sliceOf name 1 name.length with
    | .ok r => .ok r
    | .error f => .error (.fault f)
  else
    let r := join2 (dir parent) name
    if hasPrefix r dotdot then .error .notExist else .ok r

/-! ### the expansion -/

/-- kind of the node that references a file (`*ast.Extends`, `*ast.Import`, `*ast.Render`) -/
inductive Kind
  | ext | imp | ren
  deriving DecidableEq, Repr

/-- the node kind built at a site -/
def Site.kind : Site → Kind
  | .extStmt | .extStmts | .extEOF => .ext
  | .impStmt | .impStmts | .impEOF => .imp
  | .renShow | .renStmt | .renStmts | .renEOF => .ren

/-- a reference in a file; `special`: the render is the left operand of `default`;
`site`: where it is written (which guard of the parser its path went through) -/
structure Ref where
  kind : Kind
  special : Bool
  path : Bytes
  site : Site
  deriving DecidableEq, Repr

/-- the file system: name ↦ references of the file, in source order -/
abbrev FileMap := List (Bytes × List Ref)

inductive Syn
  | invalidRefPath (k : Kind)       -- parser: "invalid extends path" / "invalid import path" / "invalid file path"
  | extendsNotExist (p : Bytes)     -- "extends path %q does not exist"
  | renderNotExist (p : Bytes)      -- "render path %q does not exist"
  | cannotExtend                    -- "imported and rendered files can not have extends"
  | importOfExtended | renderOfExtended | renderOfImported | importOfRendered
  deriving DecidableEq, Repr

inductive Err
  | invalid                                            -- os.ErrInvalid (name "." or ending in "/")
  | notExist                                           -- fs.ErrNotExist / os.ErrNotExist, unwrapped
  | cycle (path : Bytes) (chain : List (Kind × Bytes)) -- *CycleError with the chain of its message
  | syntax (s : Syn)                                   -- *SyntaxError
  | fault (f : Fault)                                  -- run-time panic
  | outOfFuel                                          -- model artefact; `fuel_suffices`
  deriving DecidableEq, Repr

structure St where
  /-- `pp.trees`: rooted name ↦ kind of the node that loaded it (newest first) -/
  trees : List (Bytes × Kind)
  /-- `pp.canExtend` -/
  canExtend : Bool
  /-- names passed to `Open`, newest first -/
  opens : List Bytes
  /-- some `import` did not find a template file (`n.Tree == nil`, left to the type checker) -/
  missingImport : Bool
  deriving Repr

abbrev Res := St × Except Err Unit

/-- `"main"` -/
def mainPkg : Bytes := [109, 97, 105, 110]

/-- what a guard answers for a path: `true` = the node is built.  For `package` this is the
part of `validatePackagePath` that matters here — it returns at once for "main" and panics when
`ValidTemplatePath` is false; its further tests (character classes, canonical form) only reject
more (template files are never parsed with `end == tokenEOF` at the file level). -/
def guardCheck (g : Guard) (path : Bytes) : Except Fault Bool :=
  match g with
  | .none => .ok true
  | .template => validTemplatePath path
  | .package => if path == mainPkg then .ok true else validTemplatePath path

/-- the parser's check of every reference path, in source order: the guard of the site where
the reference is written -/
def checkRefs (tbl : SiteTable) : List Ref → Except Err Unit
  | [] => .ok ()
  | r :: rs =>
    match guardCheck (tbl r.site) r.path with
    | .error f => .error (.fault f)
    | .ok false => .error (.syntax (.invalidRefPath r.kind))
    | .ok true => checkRefs tbl rs

/-- the `switch` over the cached tree's parent node in `parseNodeFile` -/
def cacheCheck (cached node : Kind) : Except Err Unit :=
  match cached, node with
  | .ext, .imp => .error (.syntax .importOfExtended)
  | .ext, .ren => .error (.syntax .renderOfExtended)
  | .imp, .ren => .error (.syntax .renderOfImported)
  | .ren, .imp => .error (.syntax .importOfRendered)
  | _, _ => .ok ()

/-- `rootedPath, _ := rooted(parent, n.Path)` -/
def rootedOrEmpty (parent path : Bytes) : Bytes :=
  match rooted parent path with
  | .ok r => r
  | .error _ => []

/-- what `expand` does with a failed `parseNodeFile` of an Extends node -/
def decorate (k : Kind) (rootedPath : Bytes) (e : Err) : Err :=
  match e with
  | .cycle p chain => .cycle p ((k, rootedPath) :: chain)
  | e => e

/-- one iteration of the loop of `expand`; `paths` has the current file first
(`pp.paths[len(pp.paths)-1]` is `paths.head?`) -/
def expandOne (pnf : St → Ref → Res) (paths : List Bytes) (st : St) (r : Ref) : Res :=
  match paths.head? with
  | none => (st, .error (.fault .index))
  | some parent =>
    match r.kind with
    | .ext =>
      if !st.canExtend then (st, .error (.syntax .cannotExtend))
      else
        match pnf st r with
        | (st', .ok ()) => (st', .ok ())
        | (st', .error .notExist) => (st', .error (.syntax (.extendsNotExist (rootedOrEmpty parent r.path))))
        | (st', .error e) => (st', .error (decorate .ext (rootedOrEmpty parent r.path) e))
    | .imp =>
      match pnf { st with canExtend := false } r with
      | (st', .ok ()) => (st', .ok ())
      | (st', .error .notExist) => ({ st' with missingImport := true }, .ok ())
      | (st', .error e) => (st', .error (decorate .imp (rootedOrEmpty parent r.path) e))
    | .ren =>
      match pnf { st with canExtend := false } r with
      | (st', .ok ()) => (st', .ok ())
      | (st', .error .notExist) =>
        if r.special then (st', .ok ())
        else (st', .error (.syntax (.renderNotExist (rootedOrEmpty parent r.path))))
      | (st', .error e) => (st', .error (decorate .ren (rootedOrEmpty parent r.path) e))

/-- `expand` -/
def expandWith (pnf : St → Ref → Res) (paths : List Bytes) : St → List Ref → Res
  | st, [] => (st, .ok ())
  | st, r :: rs =>
    match expandOne pnf paths st r with
    | (st', .ok ()) => expandWith pnf paths st' rs
    | (st', .error e) => (st', .error e)

/-- `parseSource` for the file `name` whose references are `refs`: the parser's path check,
then `pp.paths = append(pp.paths, path); pp.expand(unexpanded); pp.paths = pp.paths[:len-1]`
(the stack is passed down instead of being pushed and popped) -/
def parseSourceWith (tbl : SiteTable) (pnfAt : List Bytes → St → Ref → Res) (paths : List Bytes) (st : St)
    (name : Bytes) (refs : List Ref) : Res :=
  match checkRefs tbl refs with
  | .error e => (st, .error e)
  | .ok () => expandWith (pnfAt (name :: paths)) (name :: paths) st refs

/-- `fs.ReadFile(fsys, name)`: records the name, answers from the file map -/
def openFile (st : St) (name : Bytes) : St := { st with opens := name :: st.opens }

/-- `parseNodeFile` -/
def parseNodeFile (tbl : SiteTable) (fm : FileMap) : Nat → List Bytes → St → Ref → Res
  | 0, _, st, _ => (st, .error .outOfFuel)
  | fuel+1, paths, st, ref =>
    match paths.head? with
    | none => (st, .error (.fault .index))
    | some parent =>
      match rooted parent ref.path with
      | .error .notExist => (st, .error .notExist)
      | .error (.fault f) => (st, .error (.fault f))
      | .ok name =>
        if paths.contains name then (st, .error (.cycle name []))
        else
          match st.trees.lookup name with
          | some cached =>
            match cacheCheck cached ref.kind with
            | .error e => (st, .error e)
            | .ok () => (st, .ok ())
          | none =>
            match fm.lookup name with
            | none => (openFile st name, .error .notExist)
            | some refs =>
              match parseSourceWith tbl (parseNodeFile tbl fm fuel) paths (openFile st name) name refs with
              | (st', .ok ()) => ({ st' with trees := (name, ref.kind) :: st'.trees }, .ok ())
              | (st', .error e) => (st', .error e)

def St.init : St := { trees := [], canExtend := true, opens := [], missingImport := false }

/-- `ParseTemplate(fsys, name, …)` with explicit fuel -/
def parseTemplateFuel (tbl : SiteTable) (fm : FileMap) (fuel : Nat) (name : Bytes) : Res :=
  if name == dotSeg || name.getLast? == some 47 then (St.init, .error .invalid)
  else
    match fm.lookup name with
    | none => (openFile St.init name, .error .notExist)
    | some refs => parseSourceWith tbl (parseNodeFile tbl fm fuel) [] (openFile St.init name) name refs

/-- `ParseTemplate`: the recursion depth is bounded by the number of files -/
def parseTemplate (tbl : SiteTable) (fm : FileMap) (name : Bytes) : Res :=
  parseTemplateFuel tbl fm (fm.length + 1) name

end ScriggoV.Paths
