import ScriggoV.Gen.CallableValue
/-! Function values as Go values (property C05).

A function value lives in a general register of the virtual machine as a `*callable`. Whenever it
is stored in a Go value of its func type — a variable captured by a closure, a package-level
variable, an element of a slice, array, map, struct or channel, an interface value, an argument of
a native function — `callable.Value` converts it to a `reflect.Value`, and `reflect.Value.Set`
panics (in the host) unless the type of that value is the static type of the location. The static
type is the one the type checker computed: for a native function, the Go type with the
`native.Env` parameter removed (`removeEnvArg`).

This model has only what matters for that agreement: parameter lists in which a parameter is
either the environment or something else. `removeEnvArg` mirrors
`internal/compiler/checker_util.go` (recognised as a whole by the generator); what
`callable.Value` does for each shape of callable is the regenerated `Gen.CallableValue`. -/
namespace ScriggoV.CallableValue
open ScriggoV.Gen.CallableValue

/-- a parameter type: `native.Env` or another type (numbered) -/
inductive Ty where
  | env
  | other (id : Nat)
  deriving DecidableEq, Repr

/-- `removeEnvArg(typ, hasReceiver)`: the parameter list the Scriggo code sees -/
def removeEnvArg : List Ty → Bool → List Ty
  | r :: .env :: rest, true => r :: rest
  | .env :: rest, false => rest
  | ins, _ => ins

/-- the three shapes of `runtime.callable` -/
inductive Callable where
  /-- `fn ≠ nil`: a Scriggo function (literal, declaration, macro) with its own type -/
  | scriggo (ins : List Ty)
  /-- `native ≠ nil`: a native function; `hasReceiver` for a method expression, whose function
  has the receiver as first parameter -/
  | native (ins : List Ty) (hasReceiver : Bool)
  /-- only `value`: a Go func value bound at run time (a method value: the receiver is bound) -/
  | value (ins : List Ty)
  deriving Repr

/-- the static type the type checker gives to the expression -/
def visible : Callable → List Ty
  | .scriggo ins => ins
  | .native ins r => removeEnvArg ins r
  | .value ins => removeEnvArg ins false

/-- adaptation of a Go function value to the type the Scriggo code sees -/
def adapt (cv : Conv) (ins : List Ty) (hasReceiver : Bool) : List Ty :=
  match cv with
  | .raw => ins
  | .adapted => removeEnvArg ins hasReceiver

/-- the type of the `reflect.Value` that `callable.Value` returns; `cv`, `cn`: what its two
branches for Go functions do -/
def valueType (cv cn : Conv) : Callable → List Ty
  | .scriggo ins => ins
  | .native ins r => adapt cn ins r
  | .value ins => adapt cv ins false

/-- the callable has an environment parameter that the Scriggo code does not see -/
def hasEnv (c : Callable) : Bool :=
  match c with
  | .scriggo _ => false
  | .native ins r => removeEnvArg ins r != ins
  | .value ins => removeEnvArg ins false != ins

/-- `reflect.Value.Set` accepts the converted value in a location of the static type -/
def storable (cv cn : Conv) (c : Callable) : Bool := valueType cv cn c == visible c

/-- the code as it is now -/
def codeStorable (c : Callable) : Bool := storable valueConv nativeConv c

/-- every store site converts function values with `callable.Value` -/
def sitesConvert (sites : List (String × Bool)) : Bool := sites.all (·.2)

end ScriggoV.CallableValue
