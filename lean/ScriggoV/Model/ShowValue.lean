import ScriggoV.Basic.Bytes
import ScriggoV.Gen.ShowJS
import ScriggoV.Gen.EscapeTables
/-! Hand-written executable model of `showInJS` / `showInJSON` (internal/runtime/renderer.go)
over an inductive description `GoVal` of what reflect shows of a Go value. The kind switches and
every literal come from `Gen/ShowJS.lean` (regenerated from the Go source on every check), the
escape table of string bodies from `Gen/EscapeTables.lean`. Core Lean only.

Parameters (not modelled, supplied with the value): `strconv.FormatFloat(f,'f',-1,bits)` (the
`digits` of a float), `time.Time.Format(time.RFC3339)` (re-implemented, tied), the strings
`String()` returns for Stringer keys, `reflect.StructTag.Get("json")`, the strings
returned by `JS()`/`JSON()`/`Error()` methods, the `%s` rendering of a type. -/
namespace ScriggoV.ShowValue
open ScriggoV ScriggoV.Gen.ShowJS

/-- which of the two functions -/
inductive Mode | js | json deriving DecidableEq, Repr

def Mode.isJS : Mode → Bool | .js => true | .json => false
def Mode.branch : Mode → RKind → Branch | .js => jsBranch | .json => jsonBranch
def Mode.lits : Mode → Lits | .js => jsLits | .json => jsonLits

/-- `math.IsNaN` / `math.IsInf` class of a float -/
inductive FClass | finite | nan | posInf | negInf deriving DecidableEq, Repr

/-- `reflect.StructField` as far as the code looks at it -/
structure Field where
  name : Bytes
  /-- `field.Tag.Get("json")` -/
  tag : Bytes
  /-- `field.PkgPath == ""` -/
  exported : Bool
  /-- `field.Anonymous`; the code never looks at it (an embedded struct is an ordinary field named
  after its type), encoding/json does -/
  embedded : Bool := false
  deriving Repr, DecidableEq

/-- what the code reads of a `time.Time`: the calendar fields, the nanoseconds, and `tt.Zone()`
(is the name `"UTC"`, seconds east of UTC) -/
structure TimeRec where
  year : Int
  month : Nat
  day : Nat
  hour : Nat
  min : Nat
  sec : Nat
  nsec : Nat
  /-- `name == "UTC"` -/
  utc : Bool
  /-- seconds east of UTC -/
  offset : Int
  deriving Repr, DecidableEq

/-- a map key as the key loop sees it: the `key.Interface().(type)` switch, then `toString` -/
inductive GoKey
  /-- implements `fmt.Stringer`: `String()` -/
  | stringer (s : Bytes)
  /-- implements `native.EnvStringer`: `String(env)` -/
  | envStringer (s : Bytes)
  | bool (b : Bool)
  | int (k : RKind) (i : Int)
  | uint (k : RKind) (n : Nat)
  /-- `strconv.FormatFloat(f, 'f', -1, bits)` -/
  | float (k : RKind) (digits : Bytes)
  | str (s : Bytes)
  /-- a complex key: what `toString` makes of it (not modelled) -/
  | complex (k : RKind) (text : Bytes)
  /-- any other key kind (arrays, structs, pointers, channels, interfaces …): `toString` fails -/
  | other (k : RKind)
  deriving Repr

/-- a Go value as `showInJS`/`showInJSON`/`isEmptyValue` see it through reflect -/
inductive GoVal
  /-- the nil interface -/
  | nil
  /-- a value whose type is `native.JS`/`native.JSON` or implements the `JS…`/`JSON…Stringer`
  interfaces: the string it yields for JS, for JSON (`none`: not such a type), the value itself -/
  | verb (js json : Option Bytes) (inner : GoVal)
  | time (t : TimeRec)
  /-- a value implementing `error` (and none of the above): `Error()`, the value itself -/
  | err (msg : Bytes) (inner : GoVal)
  | bool (b : Bool)
  | int (k : RKind) (i : Int)
  | uint (k : RKind) (n : Nat)
  /-- `zero`: `v.Float() == 0`; `digits`: `strconv.FormatFloat(v.Float(), 'f', -1, bits)` -/
  | float (k : RKind) (c : FClass) (zero : Bool) (digits : Bytes)
  | str (s : Bytes)
  /-- a value of type exactly `[]byte` -/
  | bytes (isNil : Bool) (b : Bytes)
  /-- any other slice -/
  | slice (isNil : Bool) (elems : List GoVal)
  | array (elems : List GoVal)
  /-- a slice whose element type has kind uint8 but whose type is not `[]byte` (`type NB []byte`,
  `[]U8`): the code shows it like any other slice, encoding/json as base64 -/
  | nbytes (isNil : Bool) (b : Bytes)
  /-- keys in iteration order; `keys.length = vals.length` -/
  | map (isNil : Bool) (keys : List GoKey) (vals : List GoVal)
  /-- `fields.length = vals.length` -/
  | struct (fields : List Field) (vals : List GoVal)
  /-- `isUnsafe`: kind UnsafePointer; when `isNil` the pointee is ignored -/
  | ptr (isUnsafe : Bool) (isNil : Bool) (elem : GoVal)
  /-- a struct field (or element) of interface type holding `v` (`.nil` when nil); only
  isEmptyValue sees the difference, `Interface()` unwraps it -/
  | iface (v : GoVal)
  /-- any other kind (complex, chan, func): its kind and the `%s` of its type -/
  | other (k : RKind) (typeName : Bytes)
  deriving Repr

/-- `v.Kind()` of the reflect value (for `.verb`/`.err`: of the value itself) -/
def kindOf : GoVal → RKind
  | .nil => .invalid
  | .verb _ _ inner => kindOf inner
  | .time _ => .struct
  | .err _ inner => kindOf inner
  | .bool _ => .bool
  | .int k _ => k
  | .uint k _ => k
  | .float k _ _ _ => k
  | .str _ => .string
  | .bytes _ _ => .slice
  | .slice _ _ => .slice
  | .nbytes _ _ => .slice
  | .array _ => .array
  | .map _ _ _ => .map
  | .struct _ _ => .struct
  | .ptr u _ _ => if u then .unsafePointer else .pointer
  | .iface _ => .interface
  | .other k _ => k

/-! ### leaves -/

def digitChar (n : Nat) : UInt8 := (48 + n % 10).toUInt8

/-- `strconv.FormatUint(n, 10)` -/
def natDigits (n : Nat) : Bytes :=
  if n < 10 then [digitChar n] else natDigits (n / 10) ++ [digitChar n]
termination_by n
decreasing_by omega

/-- `strconv.FormatInt(i, 10)` -/
def fmtInt (i : Int) : Bytes :=
  if i < 0 then 0x2D :: natDigits i.natAbs else natDigits i.natAbs

/-- one rune of jsStringEscape that is a single byte: `esc = jsStringEscapes[c]` when
`int(c) < len(jsStringEscapes)`, written instead of the byte unless empty -/
def esc1 (c : UInt8) : Bytes :=
  match Gen.EscapeTables.jsStringEscapes[c.toNat]? with
  | some e => if e.isEmpty then [c] else e
  | none => [c]

/-- ` ` / ` ` -/
def escLS (b2 : UInt8) : Bytes := [0x5C, 0x75, 0x32, 0x30, 0x32, b2 - 0xA8 + 0x38]

/-- `jsStringEscape` (= `jsonStringEscape`) as a function on bytes. The Go loop ranges over
runes; the only runes it rewrites are the ASCII ones below `len(jsStringEscapes)` (single bytes)
and U+2028/U+2029, whose encodings `E2 80 A8/A9` can only start at a rune boundary, so the
byte-level scan is the same function (tied by the harness, invalid UTF-8 included). -/
def jsStrEsc : Bytes → Bytes
  | [] => []
  | c :: r =>
    let plain := esc1 c ++ jsStrEsc r
    match r with
    | b1 :: b2 :: r2 =>
      if c == 0xE2 && b1 == 0x80 && (b2 == 0xA8 || b2 == 0xA9) then escLS b2 ++ jsStrEsc r2
      else plain
    | _ => plain

def b64Alphabet : Bytes :=
  [65,66,67,68,69,70,71,72,73,74,75,76,77,78,79,80,81,82,83,84,85,86,87,88,89,90,
   97,98,99,100,101,102,103,104,105,106,107,108,109,110,111,112,113,114,115,116,117,118,119,120,121,122,
   48,49,50,51,52,53,54,55,56,57,43,47]

def b64Char (n : Nat) : UInt8 := b64Alphabet.getD (n % 64) 0x3D

/-- `base64.StdEncoding` (with padding), what `escapeBytes` writes -/
def base64 : Bytes → Bytes
  | [] => []
  | [a] => [b64Char (a.toNat / 4), b64Char (a.toNat % 4 * 16), 0x3D, 0x3D]
  | [a, b] => [b64Char (a.toNat / 4), b64Char (a.toNat % 4 * 16 + b.toNat / 16),
               b64Char (b.toNat % 16 * 4), 0x3D]
  | a :: b :: c :: r =>
    [b64Char (a.toNat / 4), b64Char (a.toNat % 4 * 16 + b.toNat / 16),
     b64Char (b.toNat % 16 * 4 + c.toNat / 64), b64Char (c.toNat % 64)] ++ base64 r

/-! ### map keys -/

/-- the key loop: `fmt.Stringer`, `native.EnvStringer`, else `toString(env, k)` through the
regenerated `toStringBranch`; `error`: toString's "cannot show value of type" (returned, not a
panic) -/
def keyString : GoKey → Except Fault Bytes
  | .stringer s => .ok s
  | .envStringer s => .ok s
  | .bool b => match toStringBranch .bool with
    | .bool => .ok (if b then [0x74, 0x72, 0x75, 0x65] else [0x66, 0x61, 0x6C, 0x73, 0x65])
    | _ => .error .other
  | .int k i => match toStringBranch k with
    | .int => .ok (fmtInt i)
    | _ => .error .other
  | .uint k n => match toStringBranch k with
    | .uint => .ok (natDigits n)
    | _ => .error .other
  | .float k d => match toStringBranch k with
    | .float32 => .ok d
    | .float64 => .ok d
    | _ => .error .other
  | .str s => match toStringBranch .string with
    | .string => .ok s
    | _ => .error .other
  | .complex k t => match toStringBranch k with
    | .complex => .ok t
    | _ => .error .other
  | .other _ => .error .other

def keyStrings : List GoKey → Except Fault (List Bytes)
  | [] => .ok []
  | k :: ks => do
    let s ← keyString k
    let r ← keyStrings ks
    .ok (s :: r)

/-! ### time.Time -/

/-- exactly `w` decimal digits of `n` (the low ones) -/
def padDigits : Nat → Nat → Bytes
  | 0, _ => []
  | w+1, n => padDigits w (n / 10) ++ [digitChar n]

/-- `%0.Nd` of a non-negative number: at least `w` digits -/
def minDigits (w n : Nat) : Bytes := if n < 10 ^ w then padDigits w n else natDigits n

inductive FmtArg
  | int (i : Int)
  | chr (c : UInt8)

/-- `fmt.Sprintf` for the verbs showTimeInJS uses; a verb without a fitting argument is not a Go
state (`error`) -/
def sprintf : List FmtSeg → List FmtArg → Except Fault Bytes
  | [], [] => .ok []
  | .lit b :: segs, args => do
    let r ← sprintf segs args
    .ok (b ++ r)
  | .dec plus w :: segs, .int i :: args => do
    let r ← sprintf segs args
    let sign : Bytes := if i < 0 then [0x2D] else if plus then [0x2B] else []
    .ok (sign ++ minDigits w i.natAbs ++ r)
  | .chr :: segs, .chr c :: args => do
    let r ← sprintf segs args
    .ok (c :: r)
  | _, _ => .error .other

/-- `showTimeInJS(tt)`; `error`: the panic "not representable year in JavaScript" -/
def showTimeInJS (t : TimeRec) : Except Fault Bytes :=
  let y := t.year
  if y < jsYearMin || y > jsYearMax then .error .other else
  let ms : Int := (t.nsec / 1000000 : Nat)
  let common : List FmtArg := [.int y, .int t.month, .int t.day, .int t.hour, .int t.min, .int t.sec, .int ms]
  let expanded := y < jsYear4Min || y > jsYear4Max
  if t.utc then
    sprintf (if expanded then jsDateUTCExpanded else jsDateUTC) common
  else
    let zone := Int.tdiv t.offset 60
    let sign : UInt8 := if zone < 0 then 0x2D else 0x2B
    let zone := if zone < 0 then -zone else zone
    sprintf (if expanded then jsDateZoneExpanded else jsDateZone)
      (common ++ [.chr sign, .int (zone / 60), .int (zone % 60)])

/-- `tt.Format(time.RFC3339)` (standard library, hand-modelled for years 0..9999; a parameter
of the code, tied by the harness): `2006-01-02T15:04:05Z07:00` -/
def fmtRFC3339 (t : TimeRec) : Bytes :=
  let zone := Int.tdiv t.offset 60
  let tz : Bytes :=
    if t.offset == 0 then [0x5A]
    else
      let sign : UInt8 := if zone < 0 then 0x2D else 0x2B
      let z := zone.natAbs
      sign :: (minDigits 2 (z / 60) ++ [0x3A] ++ minDigits 2 (z % 60))
  minDigits 4 t.year.natAbs ++ [0x2D] ++ minDigits 2 t.month ++ [0x2D] ++ minDigits 2 t.day ++ [0x54]
    ++ minDigits 2 t.hour ++ [0x3A] ++ minDigits 2 t.min ++ [0x3A] ++ minDigits 2 t.sec ++ tz

/-! ### struct tags -/

/-- `strings.Index(s, ",")` -/
def indexComma : Bytes → Option Nat
  | [] => none
  | c :: r => if c == 0x2C then some 0 else (indexComma r).map (· + 1)

def omitemptyLit : Bytes := [0x6F, 0x6D, 0x69, 0x74, 0x65, 0x6D, 0x70, 0x74, 0x79]

/-- the `for tag != ""` loop of parseTagValue; fuel = an upper bound of the iterations -/
def tagOptionsLoop : Nat → Bytes → Except Fault Bool
  | 0, _ => .error .other
  | fuel+1, tag =>
    if tag.isEmpty then .ok false else
    match indexComma tag with
    | none => .ok (tag == omitemptyLit)
    | some i => do
      let opt ← sliceOf tag 0 i
      if opt == omitemptyLit then .ok true else do
      let rest ← sliceOf tag (i + 1) tag.length
      tagOptionsLoop fuel rest

/-- `parseTagValue(tag) (name, omitempty)` -/
def parseTagValue (tag : Bytes) : Except Fault (Bytes × Bool) :=
  match indexComma tag with
  | none => .ok (tag, false)
  | some i => do
    let name ← sliceOf tag 0 i
    let rest ← sliceOf tag (i + 1) tag.length
    let o ← tagOptionsLoop (rest.length + 1) rest
    .ok (name, o)

/-- reflect looks through the `.verb` / `.err` descriptions: they are the value itself -/
def strip : GoVal → GoVal
  | .verb _ _ inner => strip inner
  | .err _ inner => strip inner
  | v => v

/-- `isEmptyValue(v)` for the reflect value of a struct field -/
def isEmptyValue (v : GoVal) : Bool :=
  match emptyBranch (kindOf v), strip v with
  | .bool, .bool b => !b
  | .int, .int _ i => i == 0
  | .uint, .uint _ n => n == 0
  | .float, .float _ _ z _ => z
  | .len, .str s => s.isEmpty
  | .len, .bytes _ b => b.isEmpty
  | .len, .slice _ es => es.isEmpty
  | .len, .nbytes _ b => b.isEmpty
  | .len, .array es => es.isEmpty
  | .len, .map _ ks _ => ks.isEmpty
  | .nil, .iface w => match w with | .nil => true | _ => false
  | .nil, .ptr _ n _ => n
  | _, _ => false

/-- what the struct loop decides for one exported field: `none` = `continue`, `some name` -/
def fieldDecision (f : Field) (v : GoVal) : Except Fault (Option Bytes) :=
  if f.tag.isEmpty then .ok (some f.name)
  else if f.tag == [0x2D] then .ok none
  else do
    let (tagName, omitempty) ← parseTagValue f.tag
    if omitempty && isEmptyValue v then .ok none
    else .ok (some (if tagName.isEmpty then f.name else tagName))

/-! ### the recursive serialisation -/

/-- the array loop: `if i > 0 { "," }` then the element -/
def joinElems (sep : Bytes) : List Bytes → Bytes
  | [] => []
  | [x] => x
  | x :: y :: r => x ++ sep ++ joinElems sep (y :: r)

/-- the member loops (struct fields kept by the loop, sorted map pairs): `"` or `,"`, the
escaped key, `":`, the value -/
def joinKV (fst nxt colon : Bytes) : Bool → List (Bytes × Bytes) → Bytes
  | _, [] => []
  | first, (k, v) :: r =>
    (if first then fst else nxt) ++ jsStrEsc k ++ colon ++ v ++ joinKV fst nxt colon false r

/-- the map loop over the sorted pairs -/
def joinMembers (L : Lits) : Bool → List (Bytes × Bytes) → Bytes :=
  joinKV L.mapFirst L.mapNext L.mapColon

/-- `keyPairs[i].key < keyPairs[j].key` as `≤` (Go string comparison is bytewise) -/
def bytesLe : Bytes → Bytes → Bool
  | [], _ => true
  | _ :: _, [] => false
  | a :: as, b :: bs => if a.toNat < b.toNat then true else if b.toNat < a.toNat then false else bytesLe as bs

/-- insertion into a list sorted by key, after the last pair with a key `≤` -/
def insertByKey {α : Type} (p : Bytes × α) : List (Bytes × α) → List (Bytes × α)
  | [] => [p]
  | q :: r => if bytesLe p.1 q.1 then p :: q :: r else q :: insertByKey p r

/-- stable sort by key -/
def sortByKey {α : Type} : List (Bytes × α) → List (Bytes × α)
  | [] => []
  | p :: r => insertByKey p (sortByKey r)

/-- `sort.Slice` by key. Go's sort is not stable: pairs with equal keys may come out in any
order; the model keeps their input order (the harness compares such outputs up to that). -/
def sortPairs (l : List (Bytes × Bytes)) : List (Bytes × Bytes) := sortByKey l

def quoted (L : Lits) (s : Bytes) : Bytes := L.strOpen ++ jsStrEsc s ++ L.strClose

mutual
/-- `showInJS` (`m = .js`) / `showInJSON` (`m = .json`): what is written, or the panic -/
def showV (m : Mode) : GoVal → Except Fault Bytes
  -- the leading type switch
  | .nil => .ok m.lits.nilIface
  | .verb js json inner =>
    match (if m.isJS then js else json) with
    | some raw => .ok raw
    | none => showV m inner
  | .time t =>
    if m.isJS then showTimeInJS t
    else .ok (m.lits.timeOpen ++ fmtRFC3339 t ++ m.lits.timeClose)
  | .err msg _ =>                    -- value = v.Error(); then the kind switch on a string
    match m.branch .string with
    | .string => .ok (quoted m.lits msg)
    | _ => .error .other
  | .iface v => showV m v            -- Interface() unwraps
  -- switch v.Kind()
  | .bool b =>
    match m.branch .bool with
    | .bool => .ok (if b then m.lits.trueLit else m.lits.falseLit)
    | _ => .error .other
  | .int k i =>
    match m.branch k with
    | .int => .ok (fmtInt i)
    | _ => .error .other
  | .uint k n =>
    match m.branch k with
    | .uint => .ok (natDigits n)
    | _ => .error .other
  | .float k _ _ digits =>
    match m.branch k with
    | .float32 => .ok digits
    | .float64 => .ok digits
    | _ => .error .other
  | .str s =>
    match m.branch .string with
    | .string => .ok (quoted m.lits s)
    | _ => .error .other
  | .bytes _ b =>
    match m.branch .slice with
    | .slice => .ok ([0x22] ++ base64 b ++ [0x22])     -- escapeBytes(w, b, true)
    | _ => .error .other
  | .slice isNil es =>
    match m.branch .slice with
    | .slice =>
      if isNil then .ok m.lits.nilSlice
      else if es.isEmpty then .ok m.lits.emptyArray
      else do
        let rs ← showList m es
        .ok (m.lits.arrOpen ++ joinElems m.lits.arrSep rs ++ m.lits.arrClose)
    | _ => .error .other
  | .nbytes isNil b =>             -- not `[]byte` itself: the ordinary slice code, element by element
    match m.branch .slice with
    | .slice =>
      if isNil then .ok m.lits.nilSlice
      else if b.isEmpty then .ok m.lits.emptyArray
      else
        match m.branch .uint8 with
        | .uint =>
          .ok (m.lits.arrOpen ++ joinElems m.lits.arrSep (b.map (fun c => natDigits c.toNat)) ++ m.lits.arrClose)
        | _ => .error .other
    | _ => .error .other
  | .array es =>
    match m.branch .array with
    | .array =>
      if es.isEmpty then .ok m.lits.emptyArray
      else do
        let rs ← showList m es
        .ok (m.lits.arrOpen ++ joinElems m.lits.arrSep rs ++ m.lits.arrClose)
    | _ => .error .other
  | .ptr u isNil e =>
    match m.branch (if u then .unsafePointer else .pointer) with
    | .pointer =>
      if isNil then .ok m.lits.nilPtr
      else if u then .error .other    -- reflect: call of reflect.Value.Elem on unsafe.Pointer Value
      else showV m e
    | _ => .error .other
  | .struct fs vs =>
    match m.branch .struct with
    | .struct => do
      let body ← showFields m true fs vs
      .ok (m.lits.structOpen ++ body ++ m.lits.structClose)
    | _ => .error .other
  | .map isNil ks vs =>
    match m.branch .map with
    | .map =>
      if isNil then .ok m.lits.nilMap
      else if ks.length != vs.length then .error .other
      else do
        let keys ← keyStrings ks
        let rs ← showList m vs
        .ok (m.lits.mapOpen ++ joinMembers m.lits true (sortPairs (keys.zip rs)) ++ m.lits.mapClose)
    | _ => .error .other
  | .other k name =>
    match m.branch k with
    | .default =>
      if m.lits.defaultShowsType then .ok (m.lits.defaultPrefix ++ name ++ m.lits.defaultSuffix)
      else .ok m.lits.defaultPrefix
    | _ => .error .other

/-- every element of a slice / every value of a map -/
def showList (m : Mode) : List GoVal → Except Fault (List Bytes)
  | [] => .ok []
  | v :: vs => do
    let r ← showV m v
    let rs ← showList m vs
    .ok (r :: rs)

/-- the struct loop with its `first` flag -/
def showFields (m : Mode) : Bool → List Field → List GoVal → Except Fault Bytes
  | _, [], [] => .ok []
  | first, f :: fs, v :: vs =>
    if !f.exported then showFields m first fs vs
    else
      match fieldDecision f v with
      | .error e => .error e
      | .ok none => showFields m first fs vs
      | .ok (some name) => do
        let val ← showV m v
        let rest ← showFields m false fs vs
        .ok ((if first then m.lits.memberFirst else m.lits.memberNext) ++ jsStrEsc name
              ++ m.lits.memberColon ++ val ++ rest)
  | _, _, _ => .error .other
end

def showInJS (v : GoVal) : Except Fault Bytes := showV .js v
def showInJSON (v : GoVal) : Except Fault Bytes := showV .json v

end ScriggoV.ShowValue
