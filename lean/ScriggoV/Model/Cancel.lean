/-! # Cancellation of a run (C11)

The VM as a machine over instruction classes, the environment as an adversary.

* A run is a list of VMs (the main one at index 0 and one per started goroutine) over one
  program, one `env` with the atomic flag `env.done` (`flag`) and the context's `Done()` channel
  (`ctxClosed`).
* Events: `step i rdy` — VM `i` is scheduled; `rdy` is the environment's answer to "is the
  channel operation this VM attempts (or is blocked in) ready now?" (Go channel semantics
  reduced to: a blocked operation wakes when one of its cases becomes ready; which case wins when
  several are ready is the environment's choice, `rdy = true` meaning a proper case wins);
  `cancel` — the context is cancelled (its channel is closed); `watch` — the watcher goroutine
  of `runFunc` gets to run and stores the flag.
* What the code does is parameterised by the generated facts (`Facts`): whether the loop head
  tests the flag, and for each blocking opcode whether the done case is part of the select.

Core Lean only (linked into the driver). -/
namespace ScriggoV.Cancel

inductive Instr
  | compute                       -- any instruction that cannot block; falls through
  | jump (target : Nat)           -- OpGoto / loops / calls and returns: control transfer
  | recv                          -- OpReceive
  | send                          -- OpSend
  | select (hasDefault : Bool)    -- OpSelect
  | rangeChan                     -- OpRange over a channel (one receive per iteration)
  | native (ticks : Nat)          -- OpCallNative: host code, not interruptible, `ticks` steps
  | go (target : Nat)             -- OpGo: starts a VM at `target`
  | callback (target : Nat) (again : Bool)
      -- a native function that calls a Scriggo function value (`callable.Value`: a new VM made by
      -- `create(env)` runs `runFunc` at `target` on the same goroutine, the native code waits for it);
      -- `again`: the native code calls it again and again (a poll/retry helper whose condition
      -- never becomes true)
  | halt                          -- the function returns (the VM's code is finished)
deriving Repr, DecidableEq

/-- the cancellation facts of run.go (regenerated: `Gen/Blocking.lean`) -/
structure Facts where
  loopHead : Bool      -- the loop head tests env.done
  recvDone : Bool      -- OpReceive selects on the done case
  sendDone : Bool
  selectDone : Bool
  rangeDone : Bool
  stopSetsFlag : Bool  -- vm.stop stores env.done = 1
  epilogue : Bool      -- every runFunc (not only the main VM's) returns ctx.Err() when env.done is set
deriving Repr, DecidableEq

def Facts.all (F : Facts) : Bool :=
  F.loopHead && F.recvDone && F.sendDone && F.selectDone && F.rangeDone && F.epilogue

inductive Blocked | recv | send | select | rangeChan
deriving Repr, DecidableEq

def Facts.doneCase (F : Facts) : Blocked → Bool
  | .recv => F.recvDone
  | .send => F.sendDone
  | .select => F.selectDone
  | .rangeChan => F.rangeDone

inductive Status
  | running
  | blocked (b : Blocked)         -- inside reflect.Select / Recv / Send
  | inNative (ticks : Nat)        -- inside host code
  | finishing                     -- code finished; runFunc has not yet re-read env.done
  | stopped                       -- left the loop through vm.stop()
  | finished                      -- runFunc returned
deriving Repr, DecidableEq

/-- a native function waiting for the Scriggo function value it called -/
structure CbFrame where
  ret : Nat        -- the call instruction of the caller
  target : Nat     -- where the called function starts
  again : Bool
deriving Repr, DecidableEq

/-- a goroutine of the run: the VM executing instructions, and below it the VMs whose native
calls are waiting for it (innermost first) -/
structure VM where
  pc : Nat
  st : Status
  frames : List CbFrame := []
deriving Repr, DecidableEq

inductive Outcome | ctxErr | own
deriving Repr, DecidableEq

structure Sys where
  prog : List Instr
  vms : List VM
  ctxClosed : Bool
  flag : Bool
  result : Option Outcome      -- what Run (the main VM's runFunc) returned
deriving Repr, DecidableEq

inductive Ev
  | step (i : Nat) (rdy : Bool)
  | cancel
  | watch
deriving Repr, DecidableEq

def live (v : VM) : Bool :=
  match v.st with
  | .stopped | .finished => false
  | _ => true

/-- effect of one scheduled step of a VM: its new state, whether it called `vm.stop()`, and a VM
it started -/
structure StepResult where
  vm : VM
  stop : Bool := false
  spawn : Option VM := none

/-- the innermost `runFunc` returns without an error: the goroutine's own code is finished
(no frame), or the native caller goes on — calling the function again, or returning to its VM -/
def popFrame (pc : Nat) (frames : List CbFrame) : VM :=
  match frames with
  | [] => ⟨pc, .finishing, []⟩
  | f :: rest => if f.again then ⟨f.target, .running, f :: rest⟩ else ⟨f.ret + 1, .running, rest⟩

/-- `vm.stop()` in the innermost VM. Its `runFunc` returns `ctx.Err()` (fact `epilogue`); the
closure made by `callable.Value` panics with it, the panic crosses the native code and every
enclosing VM's `runFunc` ends the same way: the goroutine is out. Without the fact a called-back
VM returns nil and zero results, and its native caller goes on. -/
def stopVM (F : Facts) (v : VM) : StepResult :=
  if v.frames.isEmpty || F.epilogue then { vm := ⟨v.pc, .stopped, []⟩, stop := true }
  else { vm := popFrame v.pc v.frames, stop := true }

/-- a blocked (or just attempted) channel operation: it completes when ready; otherwise, with the
done case in the select and the context's channel closed, the VM stops; otherwise it stays blocked -/
def blockStep (F : Facts) (ctxClosed rdy : Bool) (v : VM) (b : Blocked) : StepResult :=
  if rdy then { vm := ⟨v.pc + 1, .running, v.frames⟩ }
  else if F.doneCase b && ctxClosed then stopVM F v
  else { vm := ⟨v.pc, .blocked b, v.frames⟩ }

def stepVM (F : Facts) (prog : List Instr) (ctxClosed flag rdy : Bool) (v : VM) : StepResult :=
  match v.st with
  | .stopped => { vm := v }
  | .finished => { vm := v }
  | .finishing => { vm := ⟨v.pc, .finished, v.frames⟩ }
  | .inNative 0 => { vm := ⟨v.pc + 1, .running, v.frames⟩ }
  | .inNative (k + 1) => { vm := ⟨v.pc, .inNative k, v.frames⟩ }
  | .blocked b => blockStep F ctxClosed rdy v b
  | .running =>
    if F.loopHead && flag then stopVM F v
    else match prog[v.pc]? with
      | none => { vm := popFrame v.pc v.frames }
      | some .halt => { vm := popFrame v.pc v.frames }
      | some .compute => { vm := ⟨v.pc + 1, .running, v.frames⟩ }
      | some (.jump t) => { vm := ⟨t, .running, v.frames⟩ }
      | some (.native k) => { vm := ⟨v.pc, .inNative k, v.frames⟩ }
      | some (.go t) => { vm := ⟨v.pc + 1, .running, v.frames⟩, spawn := some ⟨t, .running, []⟩ }
      | some (.callback t again) => { vm := ⟨t, .running, ⟨v.pc, t, again⟩ :: v.frames⟩ }
      | some .recv => blockStep F ctxClosed rdy v .recv
      | some .send => blockStep F ctxClosed rdy v .send
      | some .rangeChan => blockStep F ctxClosed rdy v .rangeChan
      | some (.select hasDefault) =>
        if hasDefault && !rdy then { vm := ⟨v.pc + 1, .running, v.frames⟩ }   -- default case: never blocks
        else blockStep F ctxClosed rdy v .select

/-- what `runFunc` of the main VM returns once its loop is over: it re-reads the flag -/
def resultOf (flag : Bool) : Outcome := if flag then .ctxErr else .own

/-- VM `i` (currently `v`) takes a step -/
def Sys.stepAt (F : Facts) (s : Sys) (i : Nat) (rdy : Bool) (v : VM) : Sys :=
  let r := stepVM F s.prog s.ctxClosed s.flag rdy v
  let flag' := s.flag || (r.stop && F.stopSetsFlag)
  -- Run returns when the main VM leaves runFunc: stopped (the re-read follows at once)
  -- or finishing → finished (the re-read)
  let res' :=
    if i == 0 && s.result.isNone then
      match r.vm.st with
      | .stopped => some (resultOf flag')
      | .finished => some (resultOf flag')
      | _ => none
    else s.result
  { s with vms := (s.vms.set i r.vm) ++ r.spawn.toList, flag := flag', result := res' }

def Sys.apply (F : Facts) (s : Sys) : Ev → Sys
  | .cancel => { s with ctxClosed := true }
  | .watch => if s.ctxClosed then { s with flag := true } else s
  | .step i rdy =>
    match s.vms[i]? with
    | none => s
    | some v => s.stepAt F i rdy v

def Sys.run (F : Facts) (s : Sys) (evs : List Ev) : Sys := evs.foldl (fun s e => s.apply F e) s

/-- a fresh run of `prog` -/
def init (prog : List Instr) : Sys := ⟨prog, [⟨0, .running, []⟩], false, false, none⟩

/-- own steps a VM needs, once the flag is set, until it is not live any more: a running VM
stops at its next loop head; a blocked one may first complete its operation (when a proper case
and the done case are both ready the choice is the scheduler's); host code is not interrupted -/
def budget (v : VM) : Nat :=
  match v.st with
  | .stopped | .finished => 0
  | .running | .finishing => 1
  | .blocked _ => 2
  | .inNative k => k + 2

def ownSteps (i : Nat) : List Ev → Nat
  | [] => 0
  | .step j _ :: es => (if j = i then 1 else 0) + ownSteps i es
  | _ :: es => ownSteps i es

end ScriggoV.Cancel
