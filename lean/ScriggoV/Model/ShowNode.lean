import ScriggoV.Model.Show
import ScriggoV.Gen.ShowOperands
/-! C09 — a whole show node: the checker's decision over the *list* of operand type infos.

`{% show a, b default c %}` has the expressions `a` and `b default c`; `checkExpr2` gives for each
the pair of type infos of its operands (`(nil, ti)` for an ordinary expression; for `x default y`
the type info of `x` — nil when `x` is not declared — and that of `y`). At run time the emitter
evaluates and shows the first operand that is there: `x` when it is declared, `y` otherwise. So
the property needs *every* operand of an accepted show to be showable. This file interprets the
regenerated statements of the Show case (`Gen/ShowOperands.lean`) over such lists. Core Lean only. -/
namespace ScriggoV.Show
open ScriggoV.Gen

/-- one member of the pair, as far as the Show case looks at it -/
inductive Opnd where
  /-- `ti == nil`: no operand there (ordinary expression; left of default not declared) -/
  | absent
  /-- the untyped `nil` -/
  | untypedNil
  /-- an operand of some type; `r` is what `checkShow` does with that type in the context at hand -/
  | typed (r : Res)
  deriving DecidableEq, Repr

/-- how the Show case ends -/
inductive Verdict where
  | accepted
  /-- `cannot show <expr> (cannot show type <t> as <context>)` -/
  | cannotShow
  /-- `use of untyped nil` -/
  | untypedNil
  /-- a Go panic inside the checker (`checkShow` itself panicked, a nil type info was used) -/
  | crash
  deriving DecidableEq, Repr

def Verdict.name : Verdict → String
  | .accepted => "accepted" | .cannotShow => "cannot-show" | .untypedNil => "untyped-nil" | .crash => "crash"

/-- the error variables that are not nil -/
abbrev ErrSt := List Nat

def ErrSt.set (σ : ErrSt) (s : Nat) (isErr : Bool) : ErrSt :=
  if isErr then (if σ.contains s then σ else s :: σ) else σ.filter (· != s)

inductive Flow where
  | next (σ : ErrSt)
  /-- `continue` of the loop over the pair -/
  | cont (σ : ErrSt)
  | abort (v : Verdict)
  deriving DecidableEq, Repr

/-- one statement; `o` is the loop variable `ti` (none outside the loop over the pair) -/
def execStmt (o : Option Opnd) (σ : ErrSt) : Stmt → Flow
  | .declErr s => .next (σ.set s false)
  | .check s =>
    match o with
    | some (.typed .ok) => .next (σ.set s false)
    | some (.typed .fail) => .next (σ.set s true)
    | _ => .abort .crash          -- checkShow panicked / `ti.Type` of a nil or untyped-nil type info
  | .report s => if σ.contains s then .abort .cannotShow else .next σ
  | .skipAbsent =>
    match o with
    | some .absent => .cont σ
    | _ => .next σ
  | .nilPanic =>
    match o with
    | some .untypedNil => .abort .untypedNil
    | some .absent => .abort .crash   -- method call on a nil *typeInfo reads a field
    | _ => .next σ
  | .skip => .next σ

def execList (o : Option Opnd) : List Stmt → ErrSt → Flow
  | [], σ => .next σ
  | s :: rest, σ =>
    match execStmt o σ s with
    | .next σ' => execList o rest σ'
    | f => f

/-- `for _, ti := range tis { body }` -/
def pairLoop (body : List Stmt) : List Opnd → ErrSt → Flow
  | [], σ => .next σ
  | o :: os, σ =>
    match execList (some o) body σ with
    | .next σ' | .cont σ' => pairLoop body os σ'
    | .abort v => .abort v

/-- the body of the loop over the expressions, for one expression with operand pair `ops` -/
def exprStep (L : ShowLoop) (ops : List Opnd) (σ : ErrSt) : Flow :=
  match execList none L.exprPre σ with
  | .next σ1 | .cont σ1 =>
    match pairLoop L.body ops σ1 with
    | .next σ2 | .cont σ2 => execList none L.exprPost σ2
    | .abort v => .abort v
  | .abort v => .abort v

/-- `for _, expr := range node.Expressions { … }` -/
def exprLoop (L : ShowLoop) : List (List Opnd) → ErrSt → Flow
  | [], σ => .next σ
  | ops :: rest, σ =>
    match exprStep L ops σ with
    | .next σ' | .cont σ' => exprLoop L rest σ'
    | .abort v => .abort v

/-- the Show case on a node whose expressions have the given operand lists -/
def runShow (L : ShowLoop) (exprs : List (List Opnd)) : Verdict :=
  match execList none L.pre [] with
  | .next σ0 | .cont σ0 =>
    match exprLoop L exprs σ0 with
    | .next σ1 | .cont σ1 =>
      match execList none L.post σ1 with
      | .abort v => v
      | _ => .accepted
    | .abort v => v
  | .abort v => v

/-! ### what the loops ought to compute: the first operand that is not fine decides -/

def Opnd.verdict : Opnd → Verdict
  | .absent | .typed .ok => .accepted
  | .untypedNil => .untypedNil
  | .typed .fail => .cannotShow
  | .typed .panic => .crash

def firstFailure : List Opnd → Verdict
  | [] => .accepted
  | o :: os => if o.verdict = .accepted then firstFailure os else o.verdict

def specShow (exprs : List (List Opnd)) : Verdict := firstFailure exprs.flatten

/-! ### a decidable condition on the statements under which the loops do compute that

From the state the loops are entered with, an operand that is fine leaves the error variables as
they were, an operand that is not ends the check with its own verdict *inside the loop over the
pair* — i.e. the loop returns on the first failing operand — and the statements around the loops
neither fail nor change the state. -/

def Flow.stays (σ : ErrSt) : Flow → Bool
  | .next σ' | .cont σ' => σ' == σ
  | .abort _ => false

def bodyOK (body : List Stmt) (σ : ErrSt) : Bool :=
  (execList (some .absent) body σ).stays σ &&
  (execList (some (.typed .ok)) body σ).stays σ &&
  (execList (some .untypedNil) body σ == .abort .untypedNil) &&
  (execList (some (.typed .fail)) body σ == .abort .cannotShow) &&
  (execList (some (.typed .panic)) body σ == .abort .crash)

def loopOK (L : ShowLoop) : Bool :=
  match execList none L.pre [] with
  | .next σ0 =>
    (match execList none L.exprPre σ0 with
     | .next σ1 => bodyOK L.body σ1 && (execList none L.exprPost σ1 == .next σ0)
     | _ => false) &&
    (match execList none L.post σ0 with
     | .next _ => true
     | _ => false)
  | _ => false

/-! ### the node over type descriptors -/

/-- an operand of a shown expression: nothing, the untyped nil, or an expression whose type (and,
for an interface type, the value it holds) is described by `t` -/
inductive Operand where
  | absent
  | untypedNil
  | typed (t : TDesc)

def Operand.classify (c : Ctx) : Operand → Opnd
  | .absent => .absent
  | .untypedNil => .untypedNil
  | .typed t => .typed (staticTop c t)

/-- the checker's verdict on a show node in context `c`: the regenerated Show case run on the
operand pairs of its expressions -/
def checkShowNode (c : Ctx) (exprs : List (List Operand)) : Verdict :=
  runShow ShowOperands.showLoop (exprs.map (·.map (Operand.classify c)))

/-- the operand the emitted code evaluates and shows: the first one that is there -/
def evaluated : List Operand → Option TDesc
  | [] => none
  | .typed t :: _ => some t
  | .untypedNil :: _ => none
  | .absent :: rest => evaluated rest

/-- the shape with the error test moved behind the loop over the pair (`var err error` before it,
`err = checkShow(…)` in it): the last operand alone decides -/
def lastOperandOnlyLoop : ShowLoop :=
  { pre := [], exprPre := [.skip, .declErr 0], body := [.skipAbsent, .nilPanic, .check 0],
    exprPost := [.report 0, .skip, .skip], post := [.skip] }

end ScriggoV.Show
