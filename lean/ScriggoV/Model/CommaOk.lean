import ScriggoV.Gen.CommaOk
/-! # The value result of a comma-ok / may-fail instruction (C01)

`s, ok := x.(T)`, `v, ok := m[k]`, `v, ok := <-ch` (and their one-result forms, the receive clause of
a select, the type switch) must leave the ZERO VALUE of the destination type in the destination
when the assertion fails / the key is absent / the channel is closed — whatever the destination
register held before. The VM's registers are reused (a temporary of an earlier statement, the same
statement in the previous iteration or call), so an instruction that writes its result register
only on the successful path hands out stale contents.

`Gen/CommaOk.lean` carries, regenerated from run.go on every check, the statements of
`OpAssert` (per `reflect.Kind` of the asserted type), `OpMapIndex` and `OpReceive` that decide what
reaches operand `c`, the bank `setFromReflectValue` writes per kind, and the bank the emitter
allocates per kind (`kindToType`). This file gives them a semantics:

* values are payloads in `Nat`, `0` being the zero value of every type (the theorems are about
  data flow, not representation); a local of a case body holds the zero value or the value `v` of
  the successful path — nothing else can be written into one (`Sym`);
* `writes` — the register writes a statement list performs, in order, for a given outcome `ok`;
  reading `v` on the failing path has no defined result (`none`: `v.String()` of a Value of
  another type is not the zero value);
* `run` — the writes applied to a register file (`Bank → register number → payload`) at operand `c`;
* `spec` / `vmRun` — a SITE executed several times: what Go says each execution yields, and what the
  VM model yields when the register file is kept from one execution to the next.

Core Lean only. -/
namespace ScriggoV.CommaOk
open ScriggoV.Gen.CommaOk

/-- the clause of a kind switch that applies to `k` (Go: the first clause listing it, else default) -/
def lookup {α : Type} (clauses : List (List RKind × α)) (dflt : α) (k : RKind) : α :=
  match clauses.find? (fun c => c.1.contains k) with
  | some c => c.2
  | none => dflt

/-- `kindToType`: the bank in which the emitter keeps (and reads) a value of a type of kind `k` -/
def emitterBank (k : RKind) : Bank := lookup emitterClauses emitterDefault k

/-- the bank `setFromReflectValue` writes for a value of kind `k` -/
def setterBank (k : RKind) : Bank := lookup setterClauses setterDefault k

/-- the destination code of OpAssert for an asserted type of kind `k` -/
def assertBranch (k : RKind) : List Stmt := lookup assertClauses assertDefault k

/-- what a local can hold -/
inductive Sym
  | zero | v
  deriving DecidableEq, Repr, Inhabited

def Sym.eval (v : Nat) : Sym → Nat
  | .zero => 0
  | .v => v

/-- the value of a source for outcome `ok` -/
def srcSym (ok : Bool) (loc : List (String × Sym)) : Src → Option Sym
  | .zero => some .zero
  | .v => if ok then some .v else none
  | .recv => some (if ok then .v else .zero)   -- reflect: the zero value when the channel is closed
  | .loc x => loc.lookup x

/-- one statement: the locals and the register writes (bank, value) so far, newest last -/
def step (k : RKind) (ok : Bool) (st : List (String × Sym) × List (Bank × Sym)) (s : Stmt) :
    Option (List (String × Sym) × List (Bank × Sym)) :=
  if s.guard && !ok then some st
  else
    match s.act with
    | .decl x => some ((x, .zero) :: st.1, st.2)
    | .assign x src =>
      match st.1.lookup x, srcSym ok st.1 src with
      | some _, some a => some ((x, a) :: st.1, st.2)
      | _, _ => none
    | .set b src => (srcSym ok st.1 src).map fun a => (st.1, st.2 ++ [(b, a)])
    | .setByKind src => (srcSym ok st.1 src).map fun a => (st.1, st.2 ++ [(setterBank k, a)])

def stepAll (k : RKind) (ok : Bool) : List Stmt → List (String × Sym) × List (Bank × Sym) →
    Option (List (String × Sym) × List (Bank × Sym))
  | [], st => some st
  | s :: rest, st =>
    match step k ok st s with
    | some st' => stepAll k ok rest st'
    | none => none

/-- the register writes of a case body, in order -/
def writes (body : List Stmt) (k : RKind) (ok : Bool) : Option (List (Bank × Sym)) :=
  (stepAll k ok body ([], [])).map (·.2)

/-- the registers of the current frame -/
abbrev RegFile := Bank → Nat → Nat

def setReg (rf : RegFile) (b : Bank) (r x : Nat) : RegFile :=
  fun b' r' => if b' = b ∧ r' = r then x else rf b' r'

def applyWrites (v c : Nat) : List (Bank × Sym) → RegFile → RegFile
  | [], rf => rf
  | (b, s) :: rest, rf => applyWrites v c rest (setReg rf b c (s.eval v))

/-- a case body executed with outcome `ok`, value `v` (meaningful when `ok`), destination operand `c` -/
def run (body : List Stmt) (k : RKind) (ok : Bool) (v c : Nat) (rf : RegFile) : Option RegFile :=
  (writes body k ok).map fun ws => applyWrites v c ws rf

/-- register `c` of bank `b` holds `x` afterwards and no other register changed -/
def Writes (rf rf' : RegFile) (b : Bank) (c x : Nat) : Prop :=
  rf' b c = x ∧ ∀ b' r, ¬(b' = b ∧ r = c) → rf' b' r = rf b' r

/-- static check of a list of writes: all of them go to bank `b`, the last one writes `s` -/
def goodWrites (ws : List (Bank × Sym)) (b : Bank) (s : Sym) : Bool :=
  ws.all (fun w => w.1 == b) && (ws.getLast?.map (·.2) == some s)

/-! ## a site executed several times -/

inductive Form
  | assert | mapIndex | receive
  deriving DecidableEq, Repr, Inhabited

def body (f : Form) (k : RKind) : List Stmt :=
  match f with
  | .assert => assertBranch k
  | .mapIndex => mapIndexBody
  | .receive => receiveBody

/-- one execution of the site: it succeeds with value `v`, or fails -/
structure Exec where
  ok : Bool
  v : Nat
  deriving DecidableEq, Repr, Inhabited

/-- Go: every execution yields the value and `true`, or the zero value and `false` -/
def spec (es : List Exec) : List (Nat × Bool) :=
  es.map fun e => (if e.ok then e.v else 0, e.ok)

/-- the VM model: the register file is kept from one execution to the next; after each execution
the destination is read from the bank in which the emitter keeps a value of kind `k` -/
def vmRun (f : Form) (k : RKind) (c : Nat) : List Exec → RegFile → Option (List (Nat × Bool))
  | [], _ => some []
  | e :: es, rf =>
    match run (body f k) k e.ok e.v c rf with
    | none => none
    | some rf' =>
      match vmRun f k c es rf' with
      | none => none
      | some rest => some ((rf' (emitterBank k) c, e.ok) :: rest)

def allKinds : List RKind :=
  [.invalid, .bool, .int, .int8, .int16, .int32, .int64, .uint, .uint8, .uint16, .uint32, .uint64, .uintptr,
   .float32, .float64, .complex64, .complex128, .array, .chan, .func, .interface, .map, .pointer, .slice,
   .string, .struct, .unsafePointer]

def RKind.name : RKind → String
  | .invalid => "invalid" | .bool => "bool" | .int => "int" | .int8 => "int8" | .int16 => "int16"
  | .int32 => "int32" | .int64 => "int64" | .uint => "uint" | .uint8 => "uint8" | .uint16 => "uint16"
  | .uint32 => "uint32" | .uint64 => "uint64" | .uintptr => "uintptr" | .float32 => "float32"
  | .float64 => "float64" | .complex64 => "complex64" | .complex128 => "complex128" | .array => "array"
  | .chan => "chan" | .func => "func" | .interface => "interface" | .map => "map" | .pointer => "ptr"
  | .slice => "slice" | .string => "string" | .struct => "struct" | .unsafePointer => "unsafeptr"

def kindOfName (s : String) : Option RKind := allKinds.find? (fun k => RKind.name k == s)

end ScriggoV.CommaOk
