import ScriggoV.Model.Compile
/-! # Conditions: `emitCondition` on the integer/bool fragment

The condition of an `if`, of a `for`, and the `tag != case` test of a `switch` are not compiled as
values: `emitCondition` (internal/compiler/emitter.go) ends in an `If` instruction that skips the
next instruction (the `Goto` over the body) when the condition holds, and it has fast paths. This
file models it for conditions over the expression language of `Model/Eval.lean`, string variables
(only their length is used) and bool variables:

* a boolean constant: `Move c r; If NotZero r`;
* `x == 0`, `0 == x`, `x != 0`, `0 != x` with `x` of integer kind (`comparisonWithZeroInteger`):
  `If Zero x` / `If NotZero x`;
* `len(s) op y` / `y op len(s)` with `s` a string: `If s Len<op'> y` on the string register, `op'`
  being `invertedOperatorType op` when `len(s)` is the right operand (`inverted`, `lenCond`:
  regenerated; the instruction body `vmIfLen`: regenerated from `OpIfString`);
* every other comparison of two integers: both operands, then `emitComparison`;
* `!x`: the operand as a value, `If Zero`; anything else: the value, `If NotZero`.

Not modelled (covered by the condition stream of the harness with gc as the oracle only):
comparison with `nil`, operands in float / string / general registers, `contains`, and the
operands of `&&` / `||` (compiled as values with jumps). `len(s) == 0` / `!= 0` takes the zero path
through an `OpLen` instruction: outside `inModel`.

Hand-written mirror of the control flow, tied by the `compileCond-vs-emitter` stream of the
harness. Core Lean only. -/
namespace ScriggoV.Compile
open ScriggoV ScriggoV.GoInt ScriggoV.Eval ScriggoV.Gen.VMInt ScriggoV.VM

local notation "Reg" => Nat

/-- a boolean operand that `emitCondition` compiles as a value -/
inductive BVal
  | cmp (op : CmpOp) (a b : Expr)     -- a comparison, as a value (`Move 1; If; Move 0`)
  | var (i : Nat)                     -- bool variable number `i`
  deriving Repr, Inhabited

inductive CondE
  | lit (b : Bool)                              -- `true` / `false`
  | cmp (op : CmpOp) (a b : Expr)               -- integer operands of the same kind
  | lenL (op : CmpOp) (s : Nat) (e : Expr)      -- `len(s) op e`, `s` string variable number `s`, `e` of type int
  | lenR (op : CmpOp) (e : Expr) (s : Nat)      -- `e op len(s)`
  | not (v : BVal)                              -- `!v`
  | val (v : BVal)                              -- `v`
  deriving Repr, Inhabited

/-! ## reference semantics -/

def boolOfVal : Except Fault Val → Except Fault Bool
  | .ok (.bool b) => .ok b
  | .ok _ => .error .other
  | .error f => .error f

def evalB (ρ : Env) (β : List Bool) : BVal → Except Fault Bool
  | .cmp op a b => boolOfVal (eval ρ (.cmp op a b))
  | .var i =>
    match β[i]? with
    | some b => .ok b
    | none => .error .other

/-- `σ`: the lengths of the string variables -/
def evalCond (ρ : Env) (β : List Bool) (σ : List Nat) : CondE → Except Fault Bool
  | .lit b => .ok b
  | .cmp op a b => evalB ρ β (.cmp op a b)
  | .lenL op s e =>
    match eval ρ e, σ[s]? with
    | .ok (.int _ z), some l => .ok (cmp op (l : Int) z)
    | .ok _, _ => .error .other
    | .error f, _ => .error f
  | .lenR op e s =>
    match eval ρ e, σ[s]? with
    | .ok (.int _ z), some l => .ok (cmp op z (l : Int))
    | .ok _, _ => .error .other
    | .error f, _ => .error f
  | .not v => (evalB ρ β v).map (!·)
  | .val v => evalB ρ β v

/-! ## the emitter -/

/-- the final `If` of `emitCondition` -/
inductive Test
  | int (a : Reg) (cond : Cond) (c : Src)        -- OpIfInt / -OpIfInt
  | len (s : Reg) (cond : LenCond) (c : Src)     -- OpIfString / -OpIfString with a `ConditionLen…`
  deriving DecidableEq, Repr, Inhabited

structure CondOut where
  code : List Instr
  test : Test
  st : St
  deriving Repr, Inhabited

def cmpOfSrc : SrcCmp → CmpOp
  | .eq => .eq | .ne => .ne | .lt => .lt | .le => .le | .gt => .gt | .ge => .ge

/-- `invertedOperatorType` on the operators of the specification -/
def invOp (op : CmpOp) : CmpOp := cmpOfSrc (inverted (srcCmpOf op))

def isLit : Expr → Bool
  | .lit _ _ => true
  | _ => false

def isZeroLit : Expr → Bool
  | .lit _ z => z == 0
  | _ => false

/-- `comparisonWithZeroInteger`: the non-constant operand when the other one is the constant 0
(the second operand is looked at first; a non-zero constant there ends the search) -/
def zeroCompared (op : CmpOp) (a b : Expr) : Option Expr :=
  if op = .eq ∨ op = .ne then
    if isLit b then (if isZeroLit b then some a else none)
    else if isLit a then (if isZeroLit a then some b else none)
    else none
  else none

/-- a boolean operand as a value: `em.emitExpr(operand, boolType)`; `vb` are the registers of the
bool variables -/
def bvalOperand (vr vb : Nat → Reg) (v : BVal) (st : St) : OperOut :=
  match v with
  | .cmp op a b => operand vr (.cmp op a b) false (emitInto vr (.cmp op a b)) st
  | .var i => ⟨[], .reg (vb i), st⟩

/-- `emitCondition`; `vs` are the (string) registers of the string variables -/
def compileCond (vr vb vs : Nat → Reg) (c : CondE) (st : St) : CondOut :=
  match c with
  | .lit b =>
    let r := st.numRegs + 1
    ⟨[.move (.imm (if b then 1 else 0)) r], .int r .notZero (.reg 0), { st with numRegs := r }⟩
  | .cmp op a b =>
    match zeroCompared op a b with
    | some x =>
      let o := operand vr x false (emitInto vr x) st
      ⟨o.code, .int o.src.toReg (if op = .ne then .notZero else .zero) (.reg 0), o.st⟩
    | none =>
      let oa := operand vr a false (emitInto vr a) st
      let ob := operand vr b true (emitInto vr b) oa.st
      ⟨oa.code ++ ob.code, .int oa.src.toReg (condOf op (kindOf a)) ob.src, ob.st⟩
  | .lenL op s e =>
    let o := operand vr e true (emitInto vr e) st
    ⟨o.code, .len (vs s) (lenCond (srcCmpOf op)) o.src, o.st⟩
  | .lenR op e s =>
    let o := operand vr e true (emitInto vr e) st
    ⟨o.code, .len (vs s) (lenCond (inverted (srcCmpOf op))) o.src, o.st⟩
  | .not v =>
    let o := bvalOperand vr vb v st
    ⟨o.code, .int o.src.toReg .zero (.reg 0), o.st⟩
  | .val v =>
    let o := bvalOperand vr vb v st
    ⟨o.code, .int o.src.toReg .notZero (.reg 0), o.st⟩

/-- the conditions for which `compileCond` claims to be `emitCondition`: operands without foldable
subtrees, not both constant; a comparison is never the plain-value fallback; `len(s) ==/!= 0` goes
through `OpLen` -/
def inModel : CondE → Bool
  | .lit _ => true
  | .cmp _ a b => foldless a && foldless b && !(isConst a && isConst b)
  | .lenL op _ e => foldless e && !((op = .eq || op = .ne) && isZeroLit e)
  | .lenR op e _ => foldless e && !((op = .eq || op = .ne) && isZeroLit e)
  | .not (.cmp _ a b) => foldless a && foldless b && !(isConst a && isConst b)
  | .not (.var _) => true
  | .val (.cmp _ _ _) => false
  | .val (.var _) => true

/-! ## the VM -/

/-- the final `If`: whether the next instruction (the jump over the body) is skipped, i.e. whether
the condition holds. `slen` gives the length of the string in a string register. -/
def testVal (slen : Nat → Nat) (rf : RegFile) : Test → Bool
  | .int a cond c => vmIfInt cond (rf a) (srcVal rf c)
  | .len s cond c => vmIfLen cond (slen s : Int) (srcVal rf c).toInt

/-- run the code of a condition: the registers afterwards and the outcome of the final `If` -/
def runCond (tbl : List (BitVec 64)) (slen : Nat → Nat) (o : CondOut) (rf : RegFile) : Except Fault (RegFile × Bool) :=
  match runS tbl o.code (rf, false) with
  | .ok (rf', _) => .ok (rf', testVal slen rf' o.test)
  | .error f => .error f

end ScriggoV.Compile
