/-! C09 — vocabulary shared by the generated show tables (`Gen/ShowTables.lean`), the
hand-written recursion skeleton (`Model/Show.lean`) and the theorems (`Props/C09.lean`).

Hand-written, core Lean only.  What is *decided* about a type — which kinds, which
`Implements` tests, which exact types (`t == byteSliceType`, `case native.HTML:`), in which
order — is never written here: it is regenerated from
`internal/compiler/checker_statements.go` and `internal/runtime/renderer.go`. -/
namespace ScriggoV.Show

/-- `reflect.Kind`, in the order of the constants of package reflect (`ord` gives the
numeric value; the harness ties `ord` to `reflect.Kind` on every run). -/
inductive Kind
  | invalid | bool | int | int8 | int16 | int32 | int64
  | uint | uint8 | uint16 | uint32 | uint64 | uintptr
  | float32 | float64 | complex64 | complex128
  | array | chan | func | interface | map | pointer | slice | string | struct | unsafePointer
  deriving DecidableEq, Repr, Inhabited

def Kind.ord : Kind → Nat
  | .invalid => 0 | .bool => 1 | .int => 2 | .int8 => 3 | .int16 => 4 | .int32 => 5 | .int64 => 6
  | .uint => 7 | .uint8 => 8 | .uint16 => 9 | .uint32 => 10 | .uint64 => 11 | .uintptr => 12
  | .float32 => 13 | .float64 => 14 | .complex64 => 15 | .complex128 => 16
  | .array => 17 | .chan => 18 | .func => 19 | .interface => 20 | .map => 21 | .pointer => 22
  | .slice => 23 | .string => 24 | .struct => 25 | .unsafePointer => 26

def Kind.all : List Kind :=
  [.invalid, .bool, .int, .int8, .int16, .int32, .int64, .uint, .uint8, .uint16, .uint32, .uint64,
   .uintptr, .float32, .float64, .complex64, .complex128, .array, .chan, .func, .interface, .map,
   .pointer, .slice, .string, .struct, .unsafePointer]

/-- Go's `a <= b` on two `reflect.Kind` values. -/
def Kind.le (a b : Kind) : Bool := a.ord ≤ b.ord

def Kind.name : Kind → String
  | .invalid => "invalid" | .bool => "bool" | .int => "int" | .int8 => "int8" | .int16 => "int16"
  | .int32 => "int32" | .int64 => "int64" | .uint => "uint" | .uint8 => "uint8" | .uint16 => "uint16"
  | .uint32 => "uint32" | .uint64 => "uint64" | .uintptr => "uintptr" | .float32 => "float32"
  | .float64 => "float64" | .complex64 => "complex64" | .complex128 => "complex128"
  | .array => "array" | .chan => "chan" | .func => "func" | .interface => "interface" | .map => "map"
  | .pointer => "pointer" | .slice => "slice" | .string => "string" | .struct => "struct"
  | .unsafePointer => "unsafePointer"

/-- The interfaces whose implementation the checker tests with `t.Implements(xType)` and the
renderer with `case X:` in a type switch. -/
inductive Iface
  | stringer | envStringer | error
  | htmlStringer | htmlEnvStringer | cssStringer | cssEnvStringer
  | jsStringer | jsEnvStringer | jsonStringer | jsonEnvStringer | mdStringer | mdEnvStringer
  deriving DecidableEq, Repr, Inhabited

def Iface.all : List Iface :=
  [.stringer, .envStringer, .error, .htmlStringer, .htmlEnvStringer, .cssStringer, .cssEnvStringer,
   .jsStringer, .jsEnvStringer, .jsonStringer, .jsonEnvStringer, .mdStringer, .mdEnvStringer]

def Iface.name : Iface → String
  | .stringer => "stringer" | .envStringer => "envStringer" | .error => "error"
  | .htmlStringer => "htmlStringer" | .htmlEnvStringer => "htmlEnvStringer"
  | .cssStringer => "cssStringer" | .cssEnvStringer => "cssEnvStringer"
  | .jsStringer => "jsStringer" | .jsEnvStringer => "jsEnvStringer"
  | .jsonStringer => "jsonStringer" | .jsonEnvStringer => "jsonEnvStringer"
  | .mdStringer => "mdStringer" | .mdEnvStringer => "mdEnvStringer"

/-- The exact types the code compares with (`t == byteSliceType`, `case time.Time:`,
`case native.HTML:` …); `none` for every other type. -/
inductive Ident
  | none | emptyInterface | byteSlice | time | html | css | js | json | markdown
  deriving DecidableEq, Repr, Inhabited

def Ident.all : List Ident :=
  [.none, .emptyInterface, .byteSlice, .time, .html, .css, .js, .json, .markdown]

def Ident.name : Ident → String
  | .none => "none" | .emptyInterface => "emptyInterface" | .byteSlice => "byteSlice" | .time => "time"
  | .html => "html" | .css => "css" | .js => "js" | .json => "json" | .markdown => "markdown"

/-- `ast.Context`, in the order of its constants. -/
inductive ACtx
  | text | html | css | js | json | markdown | tag | quotedAttr | unquotedAttr
  | cssString | jsString | jsonString | tabCodeBlock | spacesCodeBlock
  deriving DecidableEq, Repr, Inhabited

def ACtx.all : List ACtx :=
  [.text, .html, .css, .js, .json, .markdown, .tag, .quotedAttr, .unquotedAttr,
   .cssString, .jsString, .jsonString, .tabCodeBlock, .spacesCodeBlock]

def ACtx.name : ACtx → String
  | .text => "text" | .html => "html" | .css => "css" | .js => "js" | .json => "json"
  | .markdown => "markdown" | .tag => "tag" | .quotedAttr => "quotedAttr"
  | .unquotedAttr => "unquotedAttr" | .cssString => "cssString" | .jsString => "jsString"
  | .jsonString => "jsonString" | .tabCodeBlock => "tabCodeBlock" | .spacesCodeBlock => "spacesCodeBlock"

/-- Where a show stands: the `ast.Context` the parser gave it and whether it is inside an
`ast.URL` node (the emitter's `inURL`, which `renderer.Show` tests first). -/
structure Ctx where
  ast : ACtx
  inURL : Bool
  deriving DecidableEq, Repr

/-- The lexer opens a URL only in an attribute value (quoted or not) and in Markdown text
(`lexer.go`: `containsURL`, `isMarkdownStartURL`): the other combinations never reach
`checkShow`/`renderer.Show`. (Hand-written fact about the lexer; the harness places shows in
each of the seventeen positions.) -/
def Ctx.valid (c : Ctx) : Bool :=
  !c.inURL || c.ast == .quotedAttr || c.ast == .unquotedAttr || c.ast == .markdown

def Ctx.all : List Ctx :=
  ACtx.all.map (⟨·, false⟩) ++ [⟨.quotedAttr, true⟩, ⟨.unquotedAttr, true⟩, ⟨.markdown, true⟩]

/-- What the code can ask about one type, apart from its components. -/
structure TInfo where
  kind : Kind
  ident : Ident
  impl : Iface → Bool

/-- the value `nil` of an interface type, as the renderer sees it (`reflect.Invalid`) -/
def TInfo.nil : TInfo := ⟨.invalid, .none, fun _ => false⟩
/-- a value of type `string` (what `value = v.String()` rebinds the shown value to) -/
def TInfo.str : TInfo := ⟨.string, .none, fun _ => false⟩
/-- a value of the string type `native.Markdown`, `native.HTML`, … -/
def TInfo.ofIdent (i : Ident) : TInfo := ⟨.string, i, fun _ => false⟩

/-- Outcome of a static check or of a dynamic show, as far as types are concerned:
accepted / "cannot show …" error / Go panic (`reflect: Elem of invalid type`, …). -/
inductive Res
  | ok | fail | panic
  deriving DecidableEq, Repr, Inhabited

def Res.name : Res → String
  | .ok => "ok" | .fail => "fail" | .panic => "panic"

def Res.all : List Res := [.ok, .fail, .panic]

/-- What one call of a check/show function does with a value of a given type: return an
outcome, or go on into the components (`elem`: `t.Elem()`, `v.Index(i)`, `v.Elem()`, map values;
`fields`: the exported fields; `key`: the key decision of a map), in sequence. -/
inductive Act
  | ret (r : Res)
  | elem
  | fields
  | key
  | seq (a b : Act)
  deriving Repr, Inhabited

/-- outcome of an action given the outcomes for the components -/
def Act.eval (rE rF rK : Res) : Act → Res
  | .ret r => r
  | .elem => rE
  | .fields => rF
  | .key => rK
  | .seq a b => match a.eval rE rF rK with
    | .ok => b.eval rE rF rK
    | r => r

/-- which type a question is about: the shown value's, or (in a decision about a map key) the key's -/
inductive Subj
  | self | key
  deriving DecidableEq, Repr, Inhabited

/-- What a check/show function does, as a decision tree over the questions the code asks about
types: a comparison or range test on the kind, a comparison with an exact type, `Implements` /
a `case` of a type switch. The generated tables are values of this type (so that the theorem
about them can be checked symbolically, see `Model/ShowFacts.lean`), and are *run* on a `TInfo`
to give the action. -/
inductive DTree
  | leaf (a : Act)
  | askK (s : Subj) (p : Kind → Bool) (yes no : DTree)
  | askI (s : Subj) (p : Ident → Bool) (yes no : DTree)
  | askF (s : Subj) (x : Iface) (yes no : DTree)
  deriving Inhabited

def Subj.pick (s : Subj) (t k : TInfo) : TInfo :=
  match s with
  | .self => t
  | .key => k

/-- the action on a value of type `t` (and, in a key decision, a key of type `k`) -/
def DTree.run (t k : TInfo) : DTree → Act
  | .leaf a => a
  | .askK s p y n => if p (s.pick t k).kind then y.run t k else n.run t k
  | .askI s p y n => if p (s.pick t k).ident then y.run t k else n.run t k
  | .askF s x y n => if (s.pick t k).impl x then y.run t k else n.run t k

def DTree.mapLeaf (f : Act → Act) : DTree → DTree
  | .leaf a => .leaf (f a)
  | .askK s p y n => .askK s p (y.mapLeaf f) (n.mapLeaf f)
  | .askI s p y n => .askI s p (y.mapLeaf f) (n.mapLeaf f)
  | .askF s x y n => .askF s x (y.mapLeaf f) (n.mapLeaf f)

/-- `a` and then, if it ends well, `b` (Go: `if err := a(); err != nil { return err }; b()`) -/
def DTree.andThen : DTree → DTree → DTree
  | .leaf a, b => b.mapLeaf (Act.seq a)
  | .askK s p y n, b => .askK s p (y.andThen b) (n.andThen b)
  | .askI s p y n, b => .askI s p (y.andThen b) (n.andThen b)
  | .askF s x y n, b => .askF s x (y.andThen b) (n.andThen b)

/-- the tree of a function called on the key (`toString(env, k)`) -/
def DTree.onKey : DTree → DTree
  | .leaf a => .leaf a
  | .askK _ p y n => .askK .key p y.onKey n.onKey
  | .askI _ p y n => .askI .key p y.onKey n.onKey
  | .askF _ x y n => .askF .key x y.onKey n.onKey

/-- a context whose functions never go into components: reaching one is `t.Elem()` on a type
without elements -/
def DTree.none : DTree := .leaf (.ret .panic)

mutual
/-- Type descriptor: a Go type as a finite tree. `seen i` stands for a recursive occurrence of
an enclosing type, whose own description is `i` (the only types for which `slices.Contains(types, t)` holds, as every recursive
call of `checkShowJS/JSON` passes `append(types, t)` — the generator checks that). An
interface node may carry the descriptor of the dynamic type of the value it holds
(`ifaceVal`), so that a descriptor also describes the values the renderer meets. -/
inductive TDesc
  | basic (i : TInfo)
  | seen (i : TInfo)
  | ifaceNil (i : TInfo)
  | ifaceVal (i : TInfo) (dyn : TDesc)
  | elem (i : TInfo) (e : TDesc)                 -- array, slice, pointer (chan)
  | map (i : TInfo) (k v : TDesc)
  | struct (i : TInfo) (fs : TFields)
inductive TFields
  | nil
  | cons (exported : Bool) (t : TDesc) (rest : TFields)
end

end ScriggoV.Show
