import ScriggoV.Lemmas.ComposeInline
import ScriggoV.Lemmas.ComposeScope
import ScriggoV.Lemmas.ComposeLocal
import ScriggoV.Model.ComposeEngine
import ScriggoV.Gen.ExportGuard
/-! C16 — render, import and extends compose like their documented expansions.
Property theorems only (helper lemmas: Lemmas/Compose*.lean). Everything that mentions
`ShowFastPath.*`, `genMacroGuard`, `genRenderGuard` is stated over the definitions that are
regenerated from /repo on every check. -/
namespace ScriggoV.Compose
open ScriggoV.Gen

/-! ## a concrete escaper satisfying the hypotheses (non-vacuity, and the witness below) -/

/-- marks (with a 0 byte) whatever a real escaper would have to change -/
def toyEsc (f : Format) (ctx : Ctx) (c : Bytes) : Bytes :=
  if compatible f ctx then c else 0 :: c

theorem toyEsc_facts : EscFacts toyEsc id where
  same := by intro f c; cases f <;> rfl
  text := by intro f c; cases f <;> rfl
  mdhtml := by intro c; rfl
  differ := by
    intro f ctx h
    refine ⟨[], ?_⟩
    simp [toyEsc, h]

/-! ## the tables are the ones in the code -/

/-- the model's numbering of formats and contexts is ast.go's -/
theorem codes_regenerated :
    Format.all.map (fun f => (f.goName, f.code)) = ShowFastPath.formats ∧
    Ctx.all.map (fun c => (c.goName, c.code)) = ShowFastPath.contexts := by
  constructor <;> decide

/-- `choice` is the renderer switch of `OpCallMacro` and of `OpCallIndirect`, for every
(macro format, context passed as format) -/
theorem choice_regenerated (f : Format) (c : Ctx) :
    ShowFastPath.callMacroChoice c.code f.code = (choice f c).code ∧
    ShowFastPath.callIndirectChoice c.code f.code = (choice f c).code := by
  cases f <;> cases c <;> decide

/-- `OpReturn` converts exactly what `OpCallMacro` buffered, and otherwise leaves the caller's
out as the callee wrote it -/
theorem return_regenerated (f : Format) (c : Ctx) :
    ShowFastPath.returnAction c.code f.code = (if choice f c = .mdBuffer then 2 else 0) := by
  cases f <;> cases c <;> decide

/-- with `ReturnString` (the generic path) the body is collected in a builder and becomes the result -/
theorem return_string_regenerated (f : Format) :
    ShowFastPath.callMacroChoice ShowFastPath.returnString f.code = Choice.builder.code ∧
    ShowFastPath.callIndirectChoice ShowFastPath.returnString f.code = Choice.builder.code ∧
    ShowFastPath.returnAction ShowFastPath.returnString f.code = 1 := by
  cases f <;> decide

/-! ## fast path against generic path at one site -/

/-- **The fast path is right exactly under `compatible`**: under it fast and generic agree on every
content, and for every other (format, context) there is a content on which they differ. -/
theorem fast_eq_generic_iff_compatible {esc : Format → Ctx → Bytes → Bytes} {conv : Bytes → Bytes}
    (h : EscFacts esc conv) (f : Format) (ctx : Ctx) :
    compatible f ctx = true ↔ ∀ c, fast conv f ctx c = generic esc f ctx c := by
  constructor
  · exact fun hc c => fast_eq_generic_of_compatible h hc c
  · intro hall
    cases hc : compatible f ctx with
    | true => rfl
    | false =>
      obtain ⟨c, hne⟩ := fast_ne_generic_of_incompatible (conv := conv) h hc
      exact absurd (hall c) hne

example : ∃ esc conv, EscFacts esc conv := ⟨toyEsc, id, toyEsc_facts⟩

/-- `canOptimizeShowMacro`'s format test is `from == to || from == Markdown && to == HTML`
(and never in a context beyond Markdown) -/
theorem macro_guard_exact (f : Format) (c : Ctx) : genMacroGuard f c = sameOrMdHtml f c := by
  cases f <;> cases c <;> decide

/-- **`macro_guard_sound`**: whenever the emitter takes the `{{ M() }}` fast path, fast = generic.
By evaluation of the regenerated guard over the whole 6 × 14 table. -/
theorem macro_guard_sound : GuardSound genMacroGuard := by
  intro f c
  cases f <;> cases c <;> decide

example : genMacroGuard .markdown .html = true := by decide

/-- **Inside a URL the fast path is never taken** (commit 173b2b7, `|| em.inURL` in
`canOptimizeShowMacro`): with the emitter's `inURL` flag set the regenerated condition refuses every
(result format, context), so `{{ M() }}` in `href`/`src`… goes through the generic branch — the one
that hands `em.inURL` to `emitShow` — exactly like `{% var v = M() %}{{ v }}`. The model's contexts
are the non-URL ones (`macroGuard = macroGuardU false`). -/
theorem macro_guard_refuses_in_url (f : Format) (c : Ctx) :
    ShowFastPath.macroGuardU true f.code c.code = false ∧ ShowFastPath.macroGuardReadsInURL = true := by
  cases f <;> cases c <;> decide

/-- full statement for `{{ render }}`: the regenerated guard of the `*ast.Render` branch implies
`compatible`. **False of the code today** (known finding `render-fastpath-format`, DESIGN §8 row 14):
the branch has no format test. -/
def RenderGuardSound : Prop := GuardSound genRenderGuard

/-- **`render_guard_sound`, as far as it holds.** Either the branch is unguarded, and then the full
statement is refuted by the witness (text partial, HTML context) and in fact the fast path is taken
for every pair; or a guard has been added, and then it is sound. The check stays green across the
repair and turns red for a guard that is present but unsound. -/
theorem render_guard_sound_partial :
    (ShowFastPath.renderGuarded = false ∧ ¬ RenderGuardSound ∧ ∀ f c, genRenderGuard f c = true) ∨
    (ShowFastPath.renderGuarded = true ∧ RenderGuardSound) := by
  first
  | (left
     refine ⟨by decide, ?_, ?_⟩
     · intro h
       exact absurd (h .text .html (by decide)) (by decide)
     · intro f c; cases f <;> cases c <;> decide)
  | (right
     refine ⟨by decide, ?_⟩
     intro f c
     cases f <;> cases c <;> decide)

/-! ## `{{ X }}` against `{% var x = X %}{{ x }}` -/

/-- **Clause 1 for macros, full strength, for the code as it is**: showing a macro call gives what
assigning it to a variable and showing the variable gives — for every environment, arguments, fuel,
renderer of other files, package scopes, escaper with `EscFacts`, and whatever the render guard is. -/
theorem macro_show_eq_var {E : Engine} {esc : Format → Ctx → Bytes → Bytes}
    (hE : E.esc = liftEsc esc) (hf : EscFacts esc E.conv) (hg : E.macroGuard = genMacroGuard)
    (R : Nat → Except Err (Format × Bytes)) (S : Nat → Except Err Env) (k : Nat) (env : Env)
    (args : List (Format × Bytes)) (ctx : Ctx) (m : Nat) (cargs : List Bytes) :
    evalAtom E R S k env args (.call ctx m false cargs) = evalAtom E R S k env args (.call ctx m true cargs) := by
  cases k with
  | zero => rfl
  | succ n =>
    rw [evalAtom_call_eq, evalAtom_call_eq]
    cases lookup env m with
    | none => rfl
    | some mv =>
      simp only
      split
      · rfl
      · cases bodyEval E R S n mv cargs with
        | error e => rfl
        | ok content =>
          simp only
          rw [showSite_generic_of_sound hE hf (by rw [hg]; exact macro_guard_sound mv.fmt ctx),
            showSite_generic_of_sound hE hf (f := mv.fmt) (ctx := ctx) (guard := E.macroGuard mv.fmt ctx)
              (by rw [hg]; exact macro_guard_sound mv.fmt ctx)]

/-- Clause 1 for `render` under a sound guard. -/
theorem render_show_eq_var_of_sound {E : Engine} {esc : Format → Ctx → Bytes → Bytes}
    (hE : E.esc = liftEsc esc) (hf : EscFacts esc E.conv) (hg : GuardSound E.renderGuard)
    (R : Nat → Except Err (Format × Bytes)) (S : Nat → Except Err Env) (k : Nat) (env : Env)
    (args : List (Format × Bytes)) (ctx : Ctx) (p : Nat) :
    evalAtom E R S k env args (.render ctx p false) = evalAtom E R S k env args (.render ctx p true) := by
  cases k <;>
  · simp only [evalAtom]
    cases R p with
    | error e => rfl
    | ok fc =>
      obtain ⟨f, content⟩ := fc
      simp only
      rw [showSite_generic_of_sound hE hf (hg f ctx),
        showSite_generic_of_sound hE hf (f := f) (ctx := ctx) (guard := E.renderGuard f ctx) (hg f ctx)]

/-- Clause 1 for `render`, full statement over the regenerated guard. -/
def RenderShowEqVar : Prop :=
  ∀ (esc : Format → Ctx → Bytes → Bytes) (conv : Bytes → Bytes), EscFacts esc conv →
  ∀ (R : Nat → Except Err (Format × Bytes)) (S : Nat → Except Err Env) (k : Nat) (env : Env)
    (args : List (Format × Bytes)) (ctx : Ctx) (p : Nat),
    evalAtom (genEngine conv (liftEsc esc)) R S k env args (.render ctx p false)
      = evalAtom (genEngine conv (liftEsc esc)) R S k env args (.render ctx p true)

/-- **Clause 1 for `render`, as far as it holds** (`…_partial`): for the code as it is,
`{{ render "p" }}` and the variable form agree whenever the format of `p` is `compatible` with the
context (whatever the guard); the unrestricted statement holds iff the branch is guarded, and is
refuted today by a text partial containing `<` (byte 60) shown in HTML. -/
theorem render_show_eq_var_partial :
    (∀ (esc : Format → Ctx → Bytes → Bytes) (conv : Bytes → Bytes), EscFacts esc conv →
      ∀ (R : Nat → Except Err (Format × Bytes)) (S : Nat → Except Err Env) (k : Nat) (env : Env)
        (args : List (Format × Bytes)) (ctx : Ctx) (p : Nat)
        (f : Format) (content : Bytes), R p = .ok (f, content) → compatible f ctx = true →
        evalAtom (genEngine conv (liftEsc esc)) R S k env args (.render ctx p false)
          = evalAtom (genEngine conv (liftEsc esc)) R S k env args (.render ctx p true)) ∧
    ((ShowFastPath.renderGuarded = false ∧ ¬ RenderShowEqVar) ∨
     (ShowFastPath.renderGuarded = true ∧ RenderShowEqVar)) := by
  constructor
  · intro esc conv hf R S k env args ctx p f content hR hc
    have hE : (genEngine conv (liftEsc esc)).esc = liftEsc esc := rfl
    cases k <;>
    · simp only [evalAtom, hR]
      rw [showSite_generic_of_sound hE hf (fun _ => hc),
        showSite_generic_of_sound hE hf (f := f) (ctx := ctx)
          (guard := (genEngine conv (liftEsc esc)).renderGuard f ctx) (fun _ => hc)]
  · first
    | (left
       refine ⟨by decide, ?_⟩
       intro h
       have := h toyEsc id toyEsc_facts (fun _ => .ok (.text, [60])) (fun _ => .ok []) 0 [] [] .html 0
       simp [evalAtom, genEngine, showSite, genRenderGuard, ShowFastPath.renderGuard, liftEsc, fast,
         choice, toyEsc, compatible, Format.code, Ctx.code, Format.ctx] at this)
    | (right
       refine ⟨by decide, ?_⟩
       intro esc conv hf R S k env args ctx p
       have hs : GuardSound genRenderGuard := by
         intro f c; cases f <;> cases c <;> decide
       exact render_show_eq_var_of_sound (E := genEngine conv (liftEsc esc)) rfl hf hs R S k env args ctx p)

/-! ## whole file sets -/

/-- **With sound guards the two fast paths are invisible**: any file of any file set renders as it
does with every shown call going through `emitShow`. (For the code today the macro guard is sound —
`macro_guard_sound` — and the render guard is not: `render_guard_sound_partial`.) -/
theorem engine_eq_allGeneric {E : Engine} {esc : Format → Ctx → Bytes → Bytes}
    (hE : E.esc = liftEsc esc) (hf : EscFacts esc E.conv) (hm : E.macroGuard = genMacroGuard)
    (hr : GuardSound E.renderGuard) (files : List File) (n : Nat) (main : Bool) (p : Nat) :
    runFile E files n main p = runFile E.allGeneric files n main p :=
  runFile_allGeneric hE hf (by rw [hm]; exact macro_guard_sound) hr files n main p

/-- **`render_eq_standalone`**: when the context of `{{ render "p" }}` (or of the variable form) is
the top-level context of `p`'s format, what is written is exactly the output of `p` run on its
own — whatever the guards. -/
theorem render_eq_standalone {E : Engine} {esc : Format → Ctx → Bytes → Bytes}
    (hE : E.esc = liftEsc esc) (hf : EscFacts esc E.conv)
    (R : Nat → Except Err (Format × Bytes)) (S : Nat → Except Err Env) (k : Nat) (env : Env)
    (args : List (Format × Bytes)) (p : Nat) (viaVar : Bool)
    (f : Format) (content : Bytes) (hR : R p = .ok (f, content)) :
    evalAtom E R S k env args (.render f.ctx p viaVar) = .ok content := by
  have hc : compatible f f.ctx = true := by cases f <;> rfl
  cases k <;>
  · simp only [evalAtom, hR]
    rw [showSite_generic_of_sound hE hf (fun _ => hc)]
    exact congrArg Except.ok (hf.same f content)

/-- the same inside a file set, with any fuel that is enough for `p` on its own -/
theorem render_eq_standalone_file {E : Engine} {esc : Format → Ctx → Bytes → Bytes}
    (hE : E.esc = liftEsc esc) (hf : EscFacts esc E.conv) (files : List File)
    (n n' k : Nat) (hn : n ≤ n') (S : Nat → Except Err Env) (env : Env) (args : List (Format × Bytes))
    (p : Nat) (viaVar : Bool) (f : Format) (content : Bytes)
    (hp : runFile E files n false p = .ok (f, content)) :
    evalAtom E (fun q => runFile E files n' false q) S k env args (.render f.ctx p viaVar) = .ok content :=
  render_eq_standalone hE hf _ S k env args p viaVar f content
    (runFile_mono_le E files hn false p (f, content) hp)

/-- **fuel sufficiency**: two successful runs of the same file agree, whatever fuel each had -/
theorem runFile_fuel_irrelevant (E : Engine) (files : List File) (n n' : Nat) (main : Bool) (p : Nat)
    (r r' : Format × Bytes) (h : runFile E files n main p = .ok r)
    (h' : runFile E files n' main p = .ok r') : r = r' := by
  rcases Nat.le_total n n' with hle | hle
  · have := runFile_mono_le E files hle main p r h
    rw [h'] at this; cases this; rfl
  · have := runFile_mono_le E files hle main p r' h'
    rw [h] at this; cases this; rfl

/-- fuel sufficiency for the import DAG: the pass over an imported file (its package scope and its
exports, through transitive and diamond imports) does not depend on the fuel that was enough -/
theorem passOf_fuel_irrelevant (files : List File) (n n' q : Nat) (st st' : ISt)
    (h : passOf files n q = .ok st) (h' : passOf files n' q = .ok st') : st = st' := by
  have mono : ∀ a b, a ≤ b → ∀ s, passOf files a q = .ok s → passOf files b q = .ok s := by
    intro a b hab
    induction hab with
    | refl => exact fun s hs => hs
    | step _ ih => exact fun s hs => passOf_mono files _ q s (ih s hs)
  rcases Nat.le_total n n' with hle | hle
  · have := mono n n' hle st h
    rw [h'] at this; cases this; rfl
  · have := mono n' n hle st' h'
    rw [h] at this; cases this; rfl

/-- **import = the imported file's items in the importing file**: replacing `import q` by `q`'s
imports and declarations (result formats written out: a macro without one keeps the format of the
file it comes from) preserves every successful run — for any item lists around the import, any
renderer `R`, package scopes `S` and importer `X` consistent with the pass `r` over `q`; `q` may
import other files itself (transitively, diamonds included). Hypotheses that the statement needs
and the engine enforces or makes unavoidable: `q` has no forward references (`hNoFwd`; the
importing file is sequentially scoped, so a forward reference could not be written there) and there
are no name clashes (`hOwn`, `hHidden`; the engine reports a redeclaration at build time). -/
theorem import_eq_inline (E : Engine) (R : Nat → Except Err (Format × Bytes))
    (S X X' : Nat → Except Err Env) (hXX : OkLe X' X) (n : Nat) (fmt : Format) (q : Nat) (fq : File)
    (r : ISt) (hX : X q = .ok r.exp) (hS : S q = .ok r.loc)
    (hfold : foldE (passStep X' q fq.format) ⟨[], []⟩ fq.items = .ok r)
    (hNoFwd : NoFwd X' q fq.format r.loc ⟨[], []⟩ fq.items)
    (hOwn : ∀ m v, lookup r.exp m = some v → lookup r.loc m = some v)
    (pre post : List Item)
    (hHidden : ∀ s1, foldE (stepItem E R S X n fmt) ⟨[], []⟩ pre = .ok s1 →
      ∀ m, lookup r.exp m = none → lookup r.loc m ≠ none → lookup s1.env m = none)
    (out : Bytes)
    (h : runItems E R S X n fmt (pre ++ .import_ q :: post) = .ok out) :
    runItems E R S X n fmt (pre ++ inlineDecls fq ++ post) = .ok out :=
  runItems_import_inline E R S X X' hXX n fmt q fq r hX hS hfold hNoFwd hOwn pre post hHidden out h

/-- `hOwn` holds whenever the imports of the file come before its declarations -/
theorem own_of_imports_first (X' : Nat → Except Err Env) (q : Nat) (fq : File) (r : ISt)
    (hif : importsFirst false fq.items = true)
    (hfold : foldE (passStep X' q fq.format) ⟨[], []⟩ fq.items = .ok r) :
    ∀ m v, lookup r.exp m = some v → lookup r.loc m = some v :=
  own_of_importsFirst X' q fq.format fq.items false ⟨[], []⟩ r hif (fun _ => rfl)
    (fun m v h => by simp [lookup] at h) (fun m v h => by simp [lookup] at h) hfold

/-- **extends = the layout with the child's imports and macros**: a successful run of a file that
extends `l` has the layout's format and is the run of `child's imports and declarations ++ layout's
items` in the same file set; the child may import other files. In particular nothing of the child's
top-level text is evaluated. Hypotheses: the child has no forward references and none of its macros
is shadowed by one of its imports (`own_of_imports_first`). -/
theorem extends_eq_layout_with_child_macros (E : Engine) (files : List File) (n p l : Nat)
    (child lay : File) (rest : List Item) (r : Format × Bytes) (st : ISt)
    (hc : files[p]? = some child) (hi : child.items = .extends_ l :: rest)
    (hl : files[l]? = some lay)
    (hpass : passOf files (n+1) p = .ok st)
    (hNoFwd : NoFwd (exportsOf files n) p child.format st.loc ⟨[], []⟩ child.items)
    (hOwn : ∀ m v, lookup st.exp m = some v → lookup st.loc m = some v)
    (h : runFile E files (n+2) true p = .ok r) :
    r.1 = lay.format ∧
    runItems E (fun q => runFile E files (n+1) false q) (scopeOf files (n+1)) (exportsOf files (n+1)) (n+1)
      lay.format (inlineDecls child ++ lay.items) = .ok r.2 :=
  runFile_extends_substituted E files n p l child lay rest r st hc hi hl hpass hNoFwd hOwn h

/-! ## names: a reference resolves in the file it is written in, other files give exported names only -/

/-- **emitter fact** (regenerated from `emitPackage`): a function enters the map that `emitPackage`
returns to `emitImport` exactly when its name is exported or it is the dummy macro of a `render`. -/
theorem emitter_exports_guarded (e d : Bool) : ExportGuard.funcsGuard e d = (e || d) := by
  cases e <;> cases d <;> decide

/-- **emitter fact** (regenerated from `emitImport`): the importer's function table is filled from
nothing but that map. -/
theorem emitter_import_table_from_exports :
    ExportGuard.importInsertSources = ["funcs"] ∧
    ExportGuard.importFuncsFrom = "em.emitPackage(pkg, false, node.Tree.Path)" := by
  constructor <;> decide

/-- the model's `exported` is Go's `isExported` on the names of the wire (`M…` / `m…`) -/
theorem exported_regenerated (m : Nat) : ExportGuard.isExportedAscii (nameInitial m) = exported m := by
  unfold nameInitial exported
  cases h : m % 2 == 0 <;> simp [ExportGuard.isExportedAscii]

/-- what a file hands to its importers (and an extending file to its layout): exported names only,
every one declared in that very file — for every file set, import DAG and fuel -/
theorem exports_are_exported (files : List File) (n q : Nat) (ex : Env)
    (h : exportsOf files n q = .ok ex) :
    ∀ m v, (m, v) ∈ ex → exported m = true ∧ v.home = some q :=
  exportsOf_exports files n q ex h

/-- the package scope of an imported / extending file `q` is a scope of `q`: its own declarations
and exported names of the files it imports -/
theorem package_scope_is_scope (files : List File) (n q : Nat) (loc : Env)
    (h : scopeOf files n q = .ok loc) : ScopeOK (some q) loc :=
  scopeOf_scope files n q loc h

/-- the environment of a file that is run (main file, rendered file, layout with the child in
front) is, after any number of its items, a scope of that file -/
theorem run_scope_is_scope (E : Engine) (files : List File) (R : Nat → Except Err (Format × Bytes))
    (S : Nat → Except Err Env) (k n : Nat) (fmt : Format) (items : List Item) (st : St)
    (h : foldE (stepItem E R S (exportsOf files k) n fmt) ⟨[], []⟩ items = .ok st) :
    ScopeOK none st.env :=
  foldE_inv (P := fun s => ScopeOK none s.env) items
    (fun s a s' hs hstep => stepItem_scope E R S _ (exportsOf_exports files k) n fmt s a s' hs hstep)
    ⟨[], []⟩ st .nil h

/-- **Resolution never returns a declaration of another file unless it is exported**: in a scope of
file `cur`, a name that resolves to a declaration made in a different file is an exported name. -/
theorem resolve_other_file_only_exported {cur : Option Nat} {env : Env} (h : ScopeOK cur env)
    (m : Nat) (v : MacroVal) (hl : lookup env m = some v) (hne : v.home ≠ cur) : exported m = true := by
  rcases (h.lookup m v hl).1 with h1 | h1
  · exact absurd h1 hne
  · exact h1

/-- … and the invariant travels with the evaluation: the scope in which the body of the resolved
macro is evaluated (`scopeEnv`: the environment it closed over, or the package scope of its home
file) is a scope of the file that macro was declared in. By induction every `lookup` that `evalAtom`
performs, at any call depth, happens in a scope of the file the call is written in. -/
theorem callee_scope_is_scope (files : List File) (n : Nat) {cur : Option Nat} {env : Env}
    (h : ScopeOK cur env) (m : Nat) (v : MacroVal) (hl : lookup env m = some v) (senv : Env)
    (hs : scopeEnv (scopeOf files n) v.cenv v.home = .ok senv) : ScopeOK v.home senv := by
  cases hh : v.home with
  | none =>
    rw [hh] at hs
    simp only [scopeEnv] at hs
    cases hs
    exact (h.lookup m v hl).2 hh
  | some q =>
    rw [hh] at hs
    exact scopeOf_scope files n q senv hs

/-- non-vacuity, and the shape the theorems are about: file 0 imports file 1; both declare the
unexported name 1 (`m0`); file 1's exported 2 (`M1`) uses its own `m0`; file 0's macro 4 (`M2`) calls
*its* `m0` from inside a macro body. Every reference resolves in its own file: `[i]|i|l`. -/
def collideFiles : List File :=
  [ ⟨.text, [.import_ 1, .macroDecl 1 none [] [.text [105]],
             .macroDecl 4 none [] [.text [91], .call .text 1 false [], .text [93]],
             .atom (.call .text 4 false []), .atom (.text [124]), .atom (.call .text 1 false []),
             .atom (.text [124]), .atom (.call .text 2 false [])]⟩,
    ⟨.text, [.macroDecl 1 none [] [.text [108]], .macroDecl 2 none [] [.call .text 1 false []]]⟩ ]

example : runFile (genEngine id (liftEsc toyEsc)) collideFiles 5 true 0
    = .ok (.text, [91, 105, 93, 124, 105, 124, 108]) := by rfl
example : ∃ ex, exportsOf collideFiles 3 1 = .ok ex ∧ lookup ex 1 = none ∧ (lookup ex 2).isSome := by
  exact ⟨_, rfl, rfl, rfl⟩
example : exported 1 = false ∧ exported 2 = true := by decide

/-! ## local declarations shadow the names of other files -/

open Local in
/-- **`innermost_wins`**: the lexical resolution returns the innermost enclosing declaration — for
every nesting: whatever blocks lie inside the declaring block (as long as they do not declare the
name themselves), whatever blocks and function boundaries lie outside it, and whatever the package
table (imported macros, macros of the extending file) holds under that name. -/
theorem innermost_wins (pre : Chain) (f : Frame) (rest : Chain) (t : Table) (n d : Nat)
    (hpre : ∀ g ∈ pre, find g.decls n = none) (hf : find f.decls n = some d) :
    resolve (pre ++ f :: rest) t n = some (.loc d) := by
  unfold resolve
  rw [resolveLocal_append_of_none pre (f :: rest) n hpre]
  simp [resolveLocal, hf]

open Local in
/-- inside one block the latest declaration that precedes the use wins -/
theorem latest_in_block_wins (ds : List (Nat × Nat)) (fn : Bool) (rest : Chain) (t : Table) (n d : Nat) :
    resolve (⟨(n, d) :: ds, fn⟩ :: rest) t n = some (.loc d) := by
  simp [resolve, resolveLocal, find]

open Local in
/-- with no local declaration around the use, the name is the other file's: the package table -/
theorem no_local_resolves_to_table (c : Chain) (t : Table) (n d : Nat)
    (hc : ∀ g ∈ c, find g.decls n = none) (ht : find t n = some d) : resolve c t n = some (.pkg d) := by
  have := resolveLocal_append_of_none c [] n hc
  simp only [List.append_nil] at this
  simp [resolve, this, resolveLocal, ht]

/-- **emitter fact** (regenerated from `emitCallNode`): the direct call of the package table's function
is taken for a callee that is a plain identifier *not declared in the current function and not a
closure variable of it* (commit d12f88d added the second test). -/
theorem emitter_direct_call_guarded (i d cv : Bool) :
    ExportGuard.directCallGuard i d cv = (i && !d && !cv) := by
  cases i <;> cases d <;> cases cv <;> decide

open Local in
/-- **The first test is exactly what makes a local of the current function win**: for an arbitrary
condition `g` of the direct-call branch, "every call of a name declared in the current function goes
to the lexically resolved declaration" holds iff `g` refuses the branch for such names. -/
theorem direct_call_guard_needed (g : Bool → Bool → Bool) :
    (∀ (c : Chain) (t : Table) (n : Nat), declaredInFunc c n = true →
      emitCallee g c t n = resolve c t n) ↔ g true false = false := by
  constructor
  · intro h
    have := h [⟨[(0, 1)], true⟩] [(0, 9)] 0 (by decide)
    cases hg : g true false with
    | false => rfl
    | true => simp [emitCallee, isClosureVar, declaredInFunc, find, resolve, resolveLocal, hg] at this
  · intro hg c t n hd
    exact emitCallee_of_declaredInFunc g hg c t n hd

open Local in
/-- … and the regenerated guard does: a macro parameter, a macro nested in a block, a variable of a
block named like an imported macro is what `Name(...)` calls in the function that declares it. -/
theorem local_of_current_function_wins (c : Chain) (t : Table) (n : Nat)
    (hd : declaredInFunc c n = true) :
    emitCallee (ExportGuard.directCallGuard true) c t n = resolve c t n :=
  (direct_call_guard_needed (ExportGuard.directCallGuard true)).2 (by decide) c t n hd

open Local in
/-- full statement: the emitter's callee is the lexical one for every chain of blocks -/
def EmitEqResolve (g : Bool → Bool → Bool) : Prop :=
  ∀ (c : Chain) (t : Table) (n : Nat), emitCallee g c t n = resolve c t n

open Local in
/-- **The defect of finding `local-shadow-of-imported-macro-in-closure`** (repaired by d12f88d): a guard
that takes the direct call for a closure variable — as `ok && !declaredInFunc` did, which ignores the
closure variables — does not satisfy the full statement: a local of an *enclosing* function is not
"declared in the current function"; inside a closure the direct call wins over it. Witness: a closure
body inside a block that declares name 0, table with name 0. -/
theorem emit_ne_resolve_witness (g : Bool → Bool → Bool) (hg : g false true = true) :
    ¬ EmitEqResolve g := by
  intro h
  have := h [⟨[], true⟩, ⟨[(0, 1)], false⟩] [(0, 9)] 0
  simp [emitCallee, isClosureVar, declaredInFunc, find, resolve, resolveLocal, hg] at this

open Local in
/-- **Both tests are exactly what the full statement needs**: an arbitrary condition `g` of the
direct-call branch gives the lexical callee for every chain of blocks, table and name iff it refuses
the branch for names declared in the current function and for closure variables. (What `g` answers
for a name that is neither does not matter: then the table's function is the lexical callee; the
pair (declared, closure variable) = (true, true) does not occur.) -/
theorem emit_eq_resolve_iff (g : Bool → Bool → Bool) :
    EmitEqResolve g ↔ (g true false = false ∧ g false true = false) := by
  constructor
  · intro h
    refine ⟨(direct_call_guard_needed g).1 (fun c t n _ => h c t n), ?_⟩
    cases hg : g false true with
    | false => rfl
    | true => exact absurd h (emit_ne_resolve_witness g hg)
  · intro ⟨h1, h2⟩ c t n
    cases hd : declaredInFunc c n with
    | true => exact emitCallee_of_declaredInFunc g h1 c t n hd
    | false =>
      cases hl : resolveLocal c n with
      | none => exact emitCallee_of_not_local g c t n hl
      | some d => exact emitCallee_of_closureVar g h2 c t n hd (by rw [hl]; rfl)

open Local in
/-- **Full strength** (was `emit_eq_resolve_partial` before d12f88d): with the regenerated guard the
emitter's callee of `Name(...)` is the lexically resolved declaration for every chain of blocks and
function boundaries, every package table and every name — a local of the current function, a local of
an enclosing function seen from a closure, or, with no local around the use, the function of the
package table. -/
theorem emit_eq_resolve : EmitEqResolve (ExportGuard.directCallGuard true) :=
  (emit_eq_resolve_iff _).2 (by decide)

open Local in
/-- non-vacuity: a macro parameter named like an imported macro, called in the macro's body inside
an `if` block; the closure of the former finding: today the local, with the old guard the table's -/
example : declaredInFunc [⟨[], false⟩, ⟨[(0, 1)], true⟩, ⟨[], true⟩] 0 = true ∧
    resolve [⟨[], false⟩, ⟨[(0, 1)], true⟩, ⟨[], true⟩] [(0, 9)] 0 = some (.loc 1) ∧
    emitCallee (ExportGuard.directCallGuard true) [⟨[], false⟩, ⟨[(0, 1)], true⟩, ⟨[], true⟩] [(0, 9)] 0
      = some (.loc 1) := by decide
open Local in
example : isClosureVar [⟨[], true⟩, ⟨[(0, 1)], false⟩] 0 = true ∧
    emitCallee (ExportGuard.directCallGuard true) [⟨[], true⟩, ⟨[(0, 1)], false⟩] [(0, 9)] 0 = some (.loc 1) ∧
    emitCallee (fun d _ => !d) [⟨[], true⟩, ⟨[(0, 1)], false⟩] [(0, 9)] 0 = some (.pkg 9) := by decide
example : ¬ EmitEqResolve (fun d _ => !d) := emit_ne_resolve_witness _ (by decide)

/-! ## the way a macro is reached does not matter -/

/-- **A shown macro call depends on the callee only through the declaration it resolves to**: two
call sites — in any two environments, under any two names (inline declaration, `import "f"`,
`import p "f"` + `p.M()`, `import . "f"`, `import "f" for M`, the child's macro seen from a layout) —
that resolve to the same declaration write the same bytes, in every context, directly shown or
through a variable, for every engine (whatever its guards: they are functions of the result format
and the context alone, `Engine.macroGuard : Format → Ctx → Bool`). The harness measures the same on
the real engine (reach.go: reach form × result format × context × call form against the inline
twin). -/
theorem call_depends_on_resolved_macro_only (E : Engine) (R : Nat → Except Err (Format × Bytes))
    (S : Nat → Except Err Env) (k : Nat) (env env' : Env) (args args' : List (Format × Bytes))
    (ctx : Ctx) (m m' : Nat) (v : Bool) (cargs : List Bytes) (mv : MacroVal)
    (h : lookup env m = some mv) (h' : lookup env' m' = some mv) :
    evalAtom E R S k env args (.call ctx m v cargs) = evalAtom E R S k env' args' (.call ctx m' v cargs) := by
  cases k with
  | zero => rfl
  | succ n => rw [evalAtom_call_eq, evalAtom_call_eq, h, h']

/-! ## non-vacuity: a concrete file set on which the hypotheses hold and every construct is used -/

/-- files: 0 child.html (extends 1, imports 4, declares macro 14 = `M7` (text format, one string
parameter) and macro 8 = `M4` which calls 14 and the imported 18 = `M9`), 1 layout.html (calls 14 in
HTML, calls 8, renders 2 and 3), 2 part.html, 3 part.txt, 4 lib.txt (imports 5; macro 18 calls the
later, unexported macro 13 = `m6` — a forward reference — and 22 = `M11` of file 5), 5 lib2.txt -/
def demoFiles : List File :=
  [ ⟨.html, [.extends_ 1, .import_ 4, .atom (.text [32]),
             .macroDecl 14 (some .text) [.text] [.text [60], .showParam .text 0],
             .macroDecl 8 none [] [.text [98], .call .html 14 false [[38]], .call .html 18 true []]]⟩,
    ⟨.html, [.atom (.text [91]), .atom (.call .html 14 false [[39]]), .atom (.call .html 8 true []),
             .atom (.render .html 2 false), .atom (.render .html 3 true), .atom (.text [93])]⟩,
    ⟨.html, [.atom (.text [38])]⟩,
    ⟨.text, [.atom (.text [62])]⟩,
    ⟨.text, [.import_ 5, .macroDecl 18 none [] [.call .text 13 false [], .call .text 22 false []],
             .macroDecl 13 none [] [.text [120]]]⟩,
    ⟨.text, [.macroDecl 22 none [] [.text [121]]]⟩ ]

def demoEngine : Engine := genEngine id (liftEsc toyEsc)

def demoOut : Bytes := [91, 0, 60, 39, 98, 0, 60, 38, 0, 120, 121, 38, 0, 62, 93]

example : runFile demoEngine demoFiles 5 true 0 = .ok (.html, demoOut) := by rfl
/-- the child (file 0) satisfies the hypotheses of `extends_eq_layout_with_child_macros` -/
example : ∃ st, passOf demoFiles 4 0 = .ok st ∧
    NoFwd (exportsOf demoFiles 3) 0 .html st.loc ⟨[], []⟩ [.extends_ 1, .import_ 4, .atom (.text [32]),
             .macroDecl 14 (some .text) [.text] [.text [60], .showParam .text 0],
             .macroDecl 8 none [] [.text [98], .call .html 14 false [[38]], .call .html 18 true []]] ∧
    importsFirst false [.extends_ 1, .import_ 4, .atom (.text [32]),
             .macroDecl 14 (some .text) [.text] [.text [60], .showParam .text 0],
             .macroDecl 8 none [] [.text [98], .call .html 14 false [[38]], .call .html 18 true []]] = true := by
  refine ⟨_, rfl, ?_, rfl⟩
  simp [NoFwd, passStep, exportsOf, expOf, passOf, demoFiles, foldE, lookup, Atom.callee]
example : runItems demoEngine (fun q => runFile demoEngine demoFiles 4 false q) (scopeOf demoFiles 4)
    (exportsOf demoFiles 4) 4 .html
    (inlineDecls ⟨.html, [.extends_ 1, .import_ 4, .atom (.text [32]),
             .macroDecl 14 (some .text) [.text] [.text [60], .showParam .text 0],
             .macroDecl 8 none [] [.text [98], .call .html 14 false [[38]], .call .html 18 true []]]⟩ ++
      [.atom (.text [91]), .atom (.call .html 14 false [[39]]), .atom (.call .html 8 true []),
             .atom (.render .html 2 false), .atom (.render .html 3 true), .atom (.text [93])])
    = .ok demoOut := by
  rfl

end ScriggoV.Compose
