import ScriggoV.Lemmas.WriterM
import ScriggoV.Model.TemplateChunks
import ScriggoV.Gen.WriteSites
/-! C13 — a failing output writer aborts rendering with the writer's error.

Property theorems only. `Gen/WriteSites.lean` is regenerated from
internal/runtime/{escapers,renderer,run,errors,vm}.go on every check. -/
namespace ScriggoV.WriterM
open ScriggoV.Gen

/-- **Failure at call k.** For every writing program of the checked shape and every failure
position `1 ≤ k ≤ number of chunks`: exactly the first `k-1` chunks are accepted, `Write` is
called exactly `k` times (so nothing is written after the failure), and the function returns
the writer's error. -/
theorem fail_at_k (p : Prog) (hc : Checked p) (k : Nat) (h1 : 1 ≤ k) (h2 : k ≤ (chunks p).length) :
    run k p 0 = ⟨(chunks p).take (k - 1), k, .writeErr⟩ := by
  have := (run_checked_aux k p hc 0 (by omega)).1 (by omega)
  simpa using this

/-- a failure position past the last write (or `k = 0`, never) leaves the render unchanged -/
theorem no_failure (p : Prog) (hc : Checked p) (k : Nat) (h : k = 0 ∨ (chunks p).length < k) :
    run k p 0 = ⟨chunks p, (chunks p).length, okRet p⟩ := by
  rcases h with h | h
  · subst h; simpa using run_never_fails p 0
  · have := (run_checked_aux k p hc 0 (by omega)).2 (by omega)
    simpa using this

/-- **Lifted to instruction sequences.** A template body is a sequence of `Text`/`Show`
instructions, each a checked program; the VM stops at the first one that returns an error.
For every such sequence and every `k`, the bytes accepted are the first `k-1` chunks of the
whole successful render. -/
theorem template_fail_at_k (items : List Prog) (hc : ∀ p ∈ items, Checked p)
    (hok : ∀ p ∈ items, okRet p = .ok) (k : Nat) (h1 : 1 ≤ k)
    (h2 : k ≤ ((items.map chunks).flatten).length) :
    run k (seqAll items) 0 = ⟨((items.map chunks).flatten).take (k - 1), k, .writeErr⟩ := by
  have hch := (chunks_seqAll items hok).1
  have := fail_at_k (seqAll items) (checked_seqAll items hc) k h1 (by rw [hch]; exact h2)
  rw [hch] at this
  exact this

/-- escapers are loops `write chunk; if err != nil return err` over their chunk list -/
theorem escaper_shape (cs : List Bytes) :
    Checked (ofChunks cs) ∧ chunks (ofChunks cs) = cs ∧ okRet (ofChunks cs) = .ok :=
  ⟨checked_ofChunks cs, chunks_ofChunks cs, okRet_ofChunks cs⟩


/-! ### straight-line templates with the escapers' own chunking -/
open ScriggoV.TemplateChunks in
/-- **A straight-line template body** (literal texts and shows of strings in HTML text,
quoted/unquoted attribute, JS-string and CSS-string contexts, with the chunk sequences of the
escaper models of C07): for every such body, every value and every failure position `k` within
the render, exactly the first `k-1` writes of the successful render are accepted, `Write` is
called `k` times and the writer's error comes back. The chunk lists of this model are compared
with the real engine's `Write` sequence by the harness (tie "template-chunks"). -/
theorem straightline_fail_at_k (items : List Item) (k : Nat) (h1 : 1 ≤ k)
    (h2 : k ≤ (allChunks items).length) :
    run k (body items) 0 = ⟨(allChunks items).take (k - 1), k, .writeErr⟩ := by
  have h := template_fail_at_k (items.map Item.prog)
    (by intro p hp; obtain ⟨i, _, rfl⟩ := List.mem_map.1 hp; exact checked_ofChunks _)
    (by intro p hp; obtain ⟨i, _, rfl⟩ := List.mem_map.1 hp; exact okRet_ofChunks _) k h1
  have hc : ((items.map Item.prog).map chunks) = items.map Item.chunks := by
    simp [List.map_map, Function.comp_def, Item.prog, chunks_ofChunks]
  rw [hc] at h
  exact h h2

/-! ### the shape hypothesis, checked against the code that exists now -/

/-- the one write whose error result is discarded in today's code: `escapeBytes` feeds a
`base64.Encoder`, which latches the first error of the underlying writer, stops writing and
reports it from `Close` (recorded as an assumption of this property). -/
def allowedIgnored : List WriteSites.Site :=
  [⟨"escapeBytes", "encoder.Write", 1, "ignored", "clean"⟩]

def siteOK (s : WriteSites.Site) : Bool :=
  ((s.kind == "write" || s.kind == "call") && s.state == "clean") || allowedIgnored.contains s

/-- **Every write site of escapers.go and renderer.go has the checked shape**: it is entered
only when no earlier error is pending, its error is neither discarded nor dropped on the way
out, and no function without an error result writes to the output. -/
theorem sites_checked : WriteSites.sites.all siteOK = true := by decide +kernel

theorem sites_nonempty : 100 ≤ WriteSites.sites.length := by decide +kernel

/-- **From the renderer to Run's caller**: both VM instructions that write wrap a returned
error in `outError`; `convertPanic` turns an `outError` into a `*PanicError` (never a
`fatalError`); `VM.Run` unwraps it and returns the writer's error itself. -/
theorem writer_error_reaches_caller :
    WriteSites.rendererCalls.all (·.2) = true ∧
    WriteSites.rendererCalls.map (·.1) = ["vm.renderer.Show", "vm.renderer.Text"] ∧
    WriteSites.convertPanicOutError = "return vm.newPanic(err)" ∧
    WriteSites.runUnwrapPanicError = "if outErr, ok := e.message.(outError); ok { err = outErr.err }" := by
  decide


/-- **Markdown conversion.** The converter supplied by the embedder writes through a
`convWriter` that records the first failed `Write`; the statement right after the converter
call raises that error as `outError` whether or not the converter itself reports it (a
converter that swallows the error of its writer — a `bufio.Writer` whose `Flush` result is
ignored — must not make `Run` return nil). The other call of the converter writes into a local
`strings.Builder`, which cannot fail. -/
theorem converter_write_error_raised :
    WriteSites.converterCall =
      "conv(&b) next=vm.setString(c, b.String()) | conv(w) writer=&convWriter{w: call.renderer.out} next=if w.err != nil { panic(outError{w.err}) }" := by
  decide +kernel

/-- **Deferred native calls while the writer's error unwinds the stack.** `VM.Run` clears `vm.fn`
before `nextCall` runs the pending deferred calls, and a deferred *native* function is called
through `callNative` with `vm.fn` still nil (`nextCallCallsNative`); a panic raised there comes
back through `convertPanic` and `newPanic`. None of the three dereferences `vm.fn` outside a nil
guard — otherwise the writer's error E would be replaced by a nil-pointer fault that `convertPanic`
classifies as fatal and `Run` would panic in the host instead of returning E. -/
def nilFnReachable : List String := ["callNative", "convertPanic", "newPanic"]

theorem unwind_no_nil_fn_deref :
    WriteSites.nextCallCallsNative = true ∧
    nilFnReachable.all (fun f =>
      (WriteSites.fnDerefs.filter (·.1 == f)).length == 1 &&
      (WriteSites.fnDerefs.filter (·.1 == f)).all (fun r => r.2.2 == 0 && 0 < r.2.1)) = true := by
  decide +kernel

/-- **recover() hands back the raised value itself.** A deferred function that recovers and
panics again with what it recovered (`if e := recover(); e != nil { cleanup; panic(e) }`) must
re-raise the very `outError` that `convertPanic` and `VM.Run` recognise
(`writer_error_reaches_caller`); the only value `OpRecover` gives to the interpreted code is the
message of the active panic, untransformed, so the re-raised panic is classified as the first was
and `Run` still returns E. -/
theorem recover_returns_raised_value :
    WriteSites.recoverValue = ["reflect.ValueOf(vm.panic.message)", "setGeneral:msg"] := by
  decide +kernel

/-! ### non-vacuity and the negative case -/

-- a concrete three-chunk render, failing at the second write
example : run 2 (ofChunks [[97], [38, 97, 109, 112, 59], [98]]) 0 = ⟨[[97]], 2, .writeErr⟩ := by rfl

-- a program that ignores a failed write is NOT of the checked shape, and does write after the failure
example : ¬ Checked (sloppy [1] [2]) := by simp [sloppy, Checked]
example : (run 1 (sloppy [1] [2]) 0).calls = 2 := by rfl

end ScriggoV.WriterM
