import ScriggoV.Lemmas.Tree
import ScriggoV.Gen.AstSchema
import ScriggoV.Spec.AstAssumptions
import ScriggoV.Model.CloneAttrs
/-! C28 — cloning a tree gives an independent equal copy; walking visits every node exactly
once.

Two layers. *Table facts* about the regenerated tables of `Gen/AstSchema.lean` (`schema`
from ast/ast.go, `cloned` from ast/astutil/clone.go, `walked` from walk.go), each proved by
`decide` over the whole table — they are re-checked whenever a node struct, a clone case or
a walk case changes. *Generic theorems* (by induction on trees, `Lemmas/Tree.lean`)
instantiated with those tables.

`Walk` is known to be incomplete for two kinds (`Spec.AstAssumptions.walkIncomplete`): the
full statement is kept as `WalkVisitsAll`, refuted by a two-node witness, next to the
`…_partial` theorems. -/
namespace ScriggoV.C28
open ScriggoV.Tree ScriggoV.Gen.AstSchema ScriggoV.Spec.AstAssumptions ScriggoV.CloneAttrs

/-- trees over the real node kinds and fields -/
abbrev Tr := T Kind Field

/-- the fields `Walk` is meant to descend into: all children except the references to other,
expanded trees (walk.go: "visiting the expanded tree is done by the Visit function") -/
def walkSchema (k : Kind) : List Field := (schema k).filter (fun f => !(xref k).contains f)

/-! ### lifting `decide` over the whole table -/

theorem forall_kind {P : Kind → Prop} [DecidablePred P]
    (h : Kind.all.all (fun k => decide (P k)) = true) : ∀ k, P k := by
  intro k
  have := List.all_eq_true.mp h k (Kind.mem_all k)
  simpa using this

/-- boolean form of `StepsOK`: no step twice, and no field both walked and looked through -/
def stepsOKb (steps : List (Step Field)) : Bool :=
  decide steps.Nodup &&
  steps.all (fun s => match s with
    | .through f _ => !steps.contains (.field f)
    | .field _ => true)

theorem stepsOK_of_b (steps : List (Step Field)) (h : stepsOKb steps = true) : StepsOK steps := by
  simp only [stepsOKb, Bool.and_eq_true, decide_eq_true_eq, List.all_eq_true] at h
  obtain ⟨nd, thr⟩ := h
  have le1 : ∀ s, steps.count s ≤ 1 := fun s => List.nodup_iff_count.mp nd s
  intro f
  by_cases hf : Step.field f ∈ steps
  · right
    refine ⟨?_, ?_⟩
    · have := List.count_pos_iff.mpr hf
      have := le1 (.field f)
      omega
    · intro g
      apply List.count_eq_zero.mpr
      intro hg
      have := thr _ hg
      simp at this
      exact this hf
  · left
    exact ⟨List.count_eq_zero.mpr hf, fun g => le1 _⟩

/-! ### table facts: clone -/

/-- CloneNode / CloneExpression have a reachable case for every node kind of ast.go -/
theorem clone_handles_every_kind : ∀ k, cloneHandled k = true :=
  forall_kind (by decide)

/-- **every field that holds a child is deep-copied by the kind's clone case** -/
theorem schema_complete_clone : ∀ k, ∀ f ∈ schema k, f ∈ cloned k :=
  forall_kind (by decide)

/-- and a clone case clones nothing but children of its own node -/
theorem cloned_within_schema : ∀ k, ∀ f ∈ cloned k, f ∈ schema k :=
  forall_kind (by decide)

/-- a clone case dereferences a single child without a nil guard only where the parser never
leaves it nil (assumption `neverNil`, checked on every parsed tree by the harness) -/
theorem clone_unguarded_never_nil : ∀ k, ∀ f ∈ cloneUnguarded k, f ∈ neverNil k :=
  forall_kind (by decide)

/-! ### table facts: the attributes every node shares (parenthesis count, position)

`cloneExits` / `cloneEpilogueParen` / `clonePos` are the control-flow skeleton of the arms of
CloneExpression and CloneNode, regenerated from clone.go: an arm either reaches its end with
the shared result variable assigned — then the epilogue `expr2.SetParenthesis(expr.Parenthesis())`
runs — or returns by itself, and then has to set the count itself. -/

/-- every expression kind is cloned by CloneExpression also when it is reached through
CloneNode / CloneTree (no arm of CloneNode shadows `case ast.Expression`) -/
theorem clone_node_delegates_expressions : ∀ k, isExpr k = true → cloneNodeDelegates k = true :=
  forall_kind (by decide)

/-- every arm has a way out -/
theorem clone_arm_has_exit : ∀ k, cloneExits k ≠ [] :=
  forall_kind (by decide)

/-- **Cloning preserves the parenthesis count of every expression kind, through every exit of
its arm**: an arm that returns early without copying the count (or never assigns the result
variable, or an epilogue that no longer copies it) breaks this. -/
theorem clone_preserves_parenthesis :
    ∀ k, isExpr k = true → ∀ e ∈ cloneExits k, ∀ p, parenOut cloneEpilogueParen p e = some p := by
  have h : ∀ k, isExpr k = true → ∀ e ∈ cloneExits k, exitKeeps cloneEpilogueParen e = true :=
    forall_kind (by decide)
  exact fun k hk e he p => parenOut_of_keeps _ e (h k hk e he) p

/-- a child is copied by hand (name and position, not the parenthesis count) only where the
parser never parenthesises (assumption `neverParenthesised`, checked on every parsed tree by
the harness); every other child goes through CloneExpression / CloneNode / CloneTree -/
theorem hand_copied_never_parenthesised : ∀ k, ∀ f ∈ handCopied k, f ∈ neverParenthesised k :=
  forall_kind (by decide)

/-- **Cloning gives every node a position of its own equal to the original's**: the arm's
constructor call receives `ClonePosition` of the position of the node being cloned — except
for the kinds whose constructor takes no position (`ctorPosition`: it makes the same position
every time). -/
theorem clone_copies_position :
    ∀ k, clonePos k = .cloned ∨ (clonePos k = .ctor ∧ k ∈ ctorPosition) :=
  forall_kind (by decide)

/-! ### table facts: walk -/

/-- Walk has a case for every node kind of ast.go (its default case panics) -/
theorem walk_handles_every_kind : ∀ k, walkHandled k = true :=
  forall_kind (by decide)

/-- no walk case can reach the same child twice -/
theorem walk_steps_ok : ∀ k, StepsOK (walked k) := by
  have h : ∀ k, stepsOKb (walked k) = true := forall_kind (by decide)
  exact fun k => stepsOK_of_b _ (h k)

/-- a walk case descends only into children of its own node that belong to the same tree -/
theorem walked_within_schema : ∀ k, ∀ s ∈ walked k,
    (match s with | .field f => f | .through f _ => f) ∈ walkSchema k :=
  forall_kind (by decide)

theorem walkSchema_nodup : ∀ k, (walkSchema k).Nodup :=
  forall_kind (by decide)

/-- Walk hands a pointer-typed child to Visit without a nil guard only where the parser never
leaves it nil -/
theorem walk_unguarded_never_nil : ∀ k, ∀ f ∈ walkUnguarded k, f ∈ neverNil k :=
  forall_kind (by decide)

/-- **Full statement of the table fact for Walk**: every kind's case descends into exactly
the fields that hold children. False of the code today, see `not_schemaCompleteWalk`. -/
def SchemaCompleteWalk : Prop := ∀ k, walked k = (walkSchema k).map Step.field

/-- today `Walk` on a `*ast.Call` does not descend into `Func` (finding `walk-call-func`) -/
theorem not_schemaCompleteWalk : ¬ SchemaCompleteWalk := by
  intro h
  exact absurd (h .kCall) (by decide)

/-- **`schema k = walked k` for every kind outside the two recorded exceptions.** -/
theorem schema_complete_walk_partial :
    ∀ k, k ∉ walkIncomplete → walked k = (walkSchema k).map Step.field :=
  forall_kind (by decide)

/-- the two exceptional rows, exactly as they are today (a change of either is noticed):
`Call` walks its arguments but not `Func`; `Func` walks the nodes of its body block without
visiting the block, and neither `Ident` nor `Type`. -/
theorem walk_incomplete_rows :
    walked .kCall = [.field .fArgs] ∧ walked .kFunc = [.through .fBody .fNodes] := by
  decide

theorem complete_of_not_incomplete (k : Kind) (h : k ∉ walkIncomplete) :
    Complete walked walkSchema k :=
  ⟨schema_complete_walk_partial k h, walkSchema_nodup k⟩

/-! ### generic theorems on the real tables: clone -/

/-- **The copy is structurally equal to the original** (same kinds, same children in the same
fields; identities erased). -/
theorem clone_equal_copy (off : Nat) (t : Tr) (wf : WF schema t) :
    erase (clone cloned off t) = erase t :=
  erase_clone schema cloned off schema_complete_clone t wf

/-- the copy has one fresh node per node of the original -/
theorem clone_ids (off : Nat) (t : Tr) (wf : WF schema t) :
    ids (clone cloned off t) = (ids t).map (· + off) :=
  ids_clone_eq schema cloned off schema_complete_clone t wf

/-- **The copy shares no node with the original**: allocated above every identity of the
original, no identity of the copy is an identity of the original. -/
theorem clone_disjoint (off : Nat) (t : Tr) (fresh : ∀ i ∈ ids t, i < off) :
    ∀ i ∈ ids (clone cloned off t), i ∉ ids t := by
  intro i hi hmem
  have := (ids_clone_sublist cloned off t).subset hi
  simp only [List.mem_map] at this
  obtain ⟨j, _, rfl⟩ := this
  have := fresh _ hmem
  omega

/-- the copy does not alias itself either -/
theorem clone_nodup (off : Nat) (t : Tr) (nd : (ids t).Nodup) :
    (ids (clone cloned off t)).Nodup := by
  exact List.Nodup.sublist (ids_clone_sublist cloned off t) (nodup_map_add _ off nd)

/-- **Mutating the copy never changes the original**: a write to the cell of any node of the
copy leaves the cell of every node of the original as it was. -/
theorem mutate_copy_frame {α : Type} (σ : Nat → α) (v : α) (off : Nat) (t : Tr)
    (fresh : ∀ i ∈ ids t, i < off) (a : Nat) (ha : a ∈ ids (clone cloned off t)) :
    ∀ b ∈ ids t, write σ a v b = σ b := by
  intro b hb
  apply write_other
  intro h
  subst h
  exact clone_disjoint off t fresh _ ha hb

/-! ### generic theorems on the real tables: walk -/

/-- **Walk never visits anything but nodes of the tree, and no node twice** (for every tree,
unconditionally): its visit list is a sublist of the pre-order list of the tree's nodes. -/
theorem walk_visits_only_nodes_once (t : Tr) : List.Sublist (walk walked t) (ids t) :=
  walk_sublist walked walk_steps_ok t

theorem walk_nodup (t : Tr) (nd : (ids t).Nodup) : (walk walked t).Nodup :=
  List.Nodup.sublist (walk_visits_only_nodes_once t) nd

/-- **Full statement**: Walk visits every node of every tree exactly once. -/
def WalkVisitsAll : Prop := ∀ t : Tr, WF walkSchema t → List.Perm (walk walked t) (ids t)

/-- the smallest tree that refutes it: a call `f()`, whose `Func` identifier is not visited -/
def callWitness : Tr :=
  .node .kCall 0 (.cons .fFunc (.node .kIdentifier 1 .nil) .nil)

theorem not_walkVisitsAll : ¬ WalkVisitsAll := by
  intro h
  have wf : WF walkSchema callWitness := by
    simp only [callWitness, WF, WF.WFF, and_true]
    decide
  have := (h callWitness wf).length_eq
  revert this
  decide

/-- **Walk visits every node exactly once, in pre-order, on every tree that contains no
`Call` and no `Func` node** (`_partial`: for those two kinds `Walk` skips `Call.Func`,
`Func.Ident`, `Func.Type` and the `Func.Body` block itself — recorded findings; with them
only `walk_visits_only_nodes_once` holds). -/
theorem walk_visits_all_partial (t : Tr) (wf : WF walkSchema t)
    (h : AllKinds (fun k => k ∉ walkIncomplete) t) : walk walked t = ids t := by
  apply walk_eq_ids walked walkSchema t wf
  exact (T.rec (motive_1 := fun t => AllKinds (fun k => k ∉ walkIncomplete) t →
        AllKinds (Complete walked walkSchema) t)
      (motive_2 := fun cs => AllKinds.AllKindsF (fun k => k ∉ walkIncomplete) cs →
        AllKinds.AllKindsF (Complete walked walkSchema) cs)
      (fun k _ _ ih h => ⟨complete_of_not_incomplete k h.1, ih h.2⟩)
      (fun _ => trivial)
      (fun _ _ _ iht ihr h => ⟨iht h.1, ihr h.2⟩) t) h

/-! ### non-vacuity -/

/-- `x = f(1)` : Assignment[Lhs: x, Rhs: Call[Func: f, Args: 1]] -/
def sample : Tr :=
  .node .kAssignment 0
    (.cons .fLhs (.node .kIdentifier 1 .nil)
    (.cons .fRhs (.node .kCall 2
        (.cons .fFunc (.node .kIdentifier 3 .nil)
        (.cons .fArgs (.node .kBasicLiteral 4 .nil) .nil))) .nil))

/-- `x[i]` : no Call, no Func — the hypotheses of `walk_visits_all_partial` are satisfiable -/
def sampleIndex : Tr :=
  .node .kIndex 0 (.cons .fExpr (.node .kIdentifier 1 .nil) (.cons .fIndex (.node .kIdentifier 2 .nil) .nil))

example : WF schema sample := by simp only [sample, WF, WF.WFF, and_true]; decide
example : ids (clone cloned 5 sample) = [5, 6, 7, 8, 9] := by decide
example : ∀ i ∈ ids sample, i < 5 := by decide
example : walk walked sample = [0, 1, 2, 4] := by decide     -- node 3 (`f`) is skipped today
example : WF walkSchema sampleIndex ∧ AllKinds (fun k => k ∉ walkIncomplete) sampleIndex := by
  simp only [sampleIndex, WF, WF.WFF, AllKinds, AllKinds.AllKindsF, and_true]; decide
example : walk walked sampleIndex = [0, 1, 2] := by decide
-- the hypotheses of `clone_preserves_parenthesis` are met by a kind with a real arm, and the
-- model tells a kept count from a lost one
example : isExpr .kRender = true ∧ cloneExits .kRender ≠ [] := by decide
example : parenOut true 2 (.ret false) = some 0 ∧ parenOut true 2 (.fall true) = some 2 := by decide

end ScriggoV.C28
