import ScriggoV.Model.Lexer
/-! # C04 — building never crashes, hangs or leaks (placeholder; theorems follow) -/
namespace ScriggoV.Props.C04
open ScriggoV ScriggoV.Lexer

theorem placeholder : True := trivial

end ScriggoV.Props.C04
