import ScriggoV.Lemmas.Lexer
/-! # C04 — building never crashes, hangs or leaks, whatever the source bytes

The part of the property that lives in the lexer (the producer goroutine whose panic kills the
host process and whose termination decides whether `Stop()` returns): for every byte string,
every format, every classification of runes,

* `scan_no_fault`     no checked index or slice of the model faults (`Fault.index`, `Fault.slice`);
* `scan_terminates`   the fuel of every loop suffices (`Fault.other` is never returned): each
                      loop has a strictly decreasing measure, so the goroutine reaches
                      `close(tokens)`;
* `spans_partition`   the emitted tokens lie one after the other inside the source: in bounds,
                      non-overlapping, in increasing order (empty tokens sit on a boundary).

All three hold at full strength for the whole model (template layer and `lexCode` with all its
literal lexers). The model is the *repaired* lexer: the unrepaired one faults, see
`unfixed_*` below. Parser, type checker, emitter and disassembler are not modelled: the
end-to-end harness (go/props/c04) is their only coverage. -/
namespace ScriggoV.Props.C04
open ScriggoV ScriggoV.Lexer ScriggoV.Gen.LexTables

/-- `scan` returns tokens (and possibly a syntax error), never a fault, for every input -/
theorem scanWith_total (E : Env) (ctx : Nat) : ∃ toks e, scanWith E ctx = .ok (toks, e) := by
  obtain ⟨toks, e, h, _⟩ := scanWith_ok (codeSpec E) ctx
  exact ⟨toks, e, h⟩

/-- index and slice safety of the template lexer, all formats -/
theorem scan_no_fault (U : Unicode) (format : Nat) (noParseShow : Bool) (src : Bytes) (f : Fault) :
    scanTemplate U format noParseShow src ≠ .error f := by
  unfold scanTemplate
  obtain ⟨toks, e, h⟩ := scanWith_total { text := src, tmpl := true, noParseShow, U } format
  rw [h]; intro hh; cases hh

/-- index and slice safety of the program lexer -/
theorem scanProgram_no_fault (U : Unicode) (src : Bytes) (f : Fault) : scanProgram U src ≠ .error f := by
  unfold scanProgram
  obtain ⟨toks, e, h⟩ := scanWith_total { text := src, tmpl := false, noParseShow := false, U } ContextText
  rw [h]; intro hh; cases hh

/-- termination: no loop of the model runs out of fuel (`Fault.other`); the fuel of each loop
is the bound of its strictly decreasing measure (`mu` for the main loop, the remaining length
for the others), see Lemmas/Lexer -/
theorem scan_terminates (U : Unicode) (format : Nat) (noParseShow : Bool) (src : Bytes) :
    scanTemplate U format noParseShow src ≠ .error .other ∧ scanProgram U src ≠ .error .other :=
  ⟨scan_no_fault U format noParseShow src .other, scanProgram_no_fault U src .other⟩

/-! ## spans -/

/-- tokens in emission order: every non-empty token covers `start..end` inside the source,
every empty token sits at a position of the source (or one byte before it: the inserted
semicolon), and non-empty tokens come in increasing order without overlap -/
def SpansOK (len : Nat) (toks : List Tok) : Prop :=
  (∀ t ∈ toks, 0 < t.txtLen → 0 ≤ t.start ∧ t.stop = t.start + t.txtLen - 1 ∧ t.stop < len) ∧
  (∀ t ∈ toks, t.txtLen = 0 → t.stop = t.start ∧ -1 ≤ t.start ∧ t.start ≤ len) ∧
  toks.Pairwise (fun a b => 0 < a.txtLen → 0 < b.txtLen → a.stop < b.start)

theorem tokensIn_bounds {ts : List Tok} {lo hi : Nat} (h : TokensIn ts lo hi) :
    (∀ t ∈ ts, 0 < t.txtLen → (lo : Int) ≤ t.start ∧ t.stop = t.start + t.txtLen - 1 ∧ t.stop < hi) ∧
    (∀ t ∈ ts, t.txtLen = 0 → t.stop = t.start ∧ (lo : Int) - 1 ≤ t.start ∧ t.start ≤ hi) := by
  induction ts generalizing hi with
  | nil => exact ⟨by simp, by simp⟩
  | cons t ts ih =>
    obtain ⟨b, h1, h2, h3⟩ := h
    have hle := h1.le
    obtain ⟨i1, i2⟩ := ih h1
    constructor
    · intro x hx hpos
      rcases List.mem_cons.mp hx with rfl | hm
      · obtain ⟨s1, s2⟩ := h3.1 hpos
        refine ⟨by rw [s1]; exact_mod_cast hle, by rw [s2, s1], ?_⟩
        rw [s2]; have : (b : Int) + x.txtLen ≤ hi := by exact_mod_cast h2
        omega
      · obtain ⟨a1, a2, a3⟩ := i1 x hm hpos
        exact ⟨a1, a2, by have : (b : Int) ≤ hi := by exact_mod_cast (by omega : b ≤ hi)
                          omega⟩
    · intro x hx hz
      rcases List.mem_cons.mp hx with rfl | hm
      · obtain ⟨s1, s2⟩ := h3.2 hz
        have hb1 : (lo : Int) ≤ b := by exact_mod_cast hle
        have hb2 : (b : Int) ≤ hi := by exact_mod_cast (by omega : b ≤ hi)
        refine ⟨s1, ?_, ?_⟩ <;> rcases s2 with s2 | s2 <;> rw [s2] <;> omega
      · obtain ⟨a1, a2, a3⟩ := i2 x hm hz
        exact ⟨a1, a2, by have : (b : Int) ≤ hi := by exact_mod_cast (by omega : b ≤ hi)
                          omega⟩

theorem tokensIn_pairwise {ts : List Tok} {lo hi : Nat} (h : TokensIn ts lo hi) :
    ts.Pairwise (fun newer older => 0 < older.txtLen → 0 < newer.txtLen → older.stop < newer.start) := by
  induction ts generalizing hi with
  | nil => exact List.Pairwise.nil
  | cons t ts ih =>
    obtain ⟨b, h1, h2, h3⟩ := h
    refine List.Pairwise.cons ?_ (ih h1)
    intro older hm ho hn
    obtain ⟨_, _, a3⟩ := (tokensIn_bounds h1).1 older hm ho
    obtain ⟨s1, _⟩ := h3.1 hn
    rw [s1]; exact a3

/-- `spans_partition`: the token spans of any scan are in bounds, ordered and non-overlapping -/
theorem spans_of_tokensIn {toks : List Tok} {len : Nat} (h : TokensIn toks.reverse 0 len) : SpansOK len toks := by
  obtain ⟨b1, b2⟩ := tokensIn_bounds h
  refine ⟨?_, ?_, ?_⟩
  · intro t ht hp
    obtain ⟨a1, a2, a3⟩ := b1 t (List.mem_reverse.mpr ht) hp
    exact ⟨by simpa using a1, a2, a3⟩
  · intro t ht hz
    obtain ⟨a1, a2, a3⟩ := b2 t (List.mem_reverse.mpr ht) hz
    exact ⟨a1, by simpa using a2, a3⟩
  · have := tokensIn_pairwise h
    rw [List.pairwise_reverse] at this
    exact this

theorem spans_partition (U : Unicode) (format : Nat) (noParseShow : Bool) (src : Bytes) :
    ∃ toks e, scanTemplate U format noParseShow src = .ok (toks, e) ∧ SpansOK src.length toks := by
  unfold scanTemplate
  obtain ⟨toks, e, h, hin⟩ := scanWith_ok (codeSpec { text := src, tmpl := true, noParseShow, U }) format
  exact ⟨toks, e, h, spans_of_tokensIn hin⟩

theorem spans_partition_program (U : Unicode) (src : Bytes) :
    ∃ toks e, scanProgram U src = .ok (toks, e) ∧ SpansOK src.length toks := by
  unfold scanProgram
  obtain ⟨toks, e, h, hin⟩ := scanWith_ok (codeSpec { text := src, tmpl := false, noParseShow := false, U }) ContextText
  exact ⟨toks, e, h, spans_of_tokensIn hin⟩

/-! ## the unrepaired code faults: the theorems above are about the repaired lexer

`lexComment` tested `i < len(l.src)-p` before reading `l.src[p+i+1]` (row 1 of DESIGN §8,
fixes/C04-lexcomment-bounds.md). With that guard the model's first loop faults on `{##`. -/

/-- `commentLoop` with the guard of the unrepaired code -/
def commentLoopUnfixed (E : Env) (st : St) : Nat → Nat → Nat → Except Fault (Option Nat)
  | 0, _, _ => .error .other
  | fuel + 1, nested, p => do
    let s ← srcFrom E st p
    match indexByte s 0x23 with
    | none => pure none
    | some i =>
      let isOpen ← (if i > 0 then (srcAt E st (p + i - 1)).map (· == 0x7b) else pure false : Except Fault Bool)
      if isOpen then commentLoopUnfixed E st fuel (nested + 1) (p + i + 1)
      else
        let isClose ← (if i < srcLen E st - p then (srcAt E st (p + i + 1)).map (· == 0x7d) else pure false
                        : Except Fault Bool)
        if isClose then
          if nested = 0 then pure (some (p + 1 + i + 1)) else commentLoopUnfixed E st fuel (nested - 1) (p + 1 + i + 1)
        else commentLoopUnfixed E st fuel nested (p + i + 1)

def asciiUnicode : Unicode where
  isLetter r := (0x41 ≤ r && r ≤ 0x5a) || (0x61 ≤ r && r ≤ 0x7a)
  isDigit r := 0x30 ≤ r && r ≤ 0x39
  isGraphic r := 0x20 ≤ r && r ≤ 0x7e
  isNonchar _ := false
  isSpace r := r == 0x20 || (0x09 ≤ r && r ≤ 0x0d)
  toLower r := if 0x41 ≤ r && r ≤ 0x5a then r + 32 else r

/-- the three bytes `{##` -/
def witness : Bytes := [0x7b, 0x23, 0x23]

/-- projection with decidable equality: `none` for a fault -/
def faultName : Except Fault (Option Nat) → String
  | .ok _ => "ok"
  | .error f => f.name

theorem unfixed_lexComment_faults :
    faultName (commentLoopUnfixed { text := witness, tmpl := true, noParseShow := false, U := asciiUnicode }
      (initSt ContextHTML ContextHTML) 5 0 2) = "index" := by decide +kernel

/-- spans (type, start, end) of a scan and its error kind; `none` for a fault -/
def summary (r : Except Fault (List Tok × Option LexErr)) : Option (List (Nat × Int × Int) × Option (ErrKind × Nat × Nat × Nat)) :=
  match r with
  | .ok (toks, e) => some (toks.map (fun t => (t.typ, t.start, t.stop)), e.map (fun e => (e.kind, e.start, e.line, e.col)))
  | .error _ => none

/-- the repaired model on the same bytes: a syntax error, no fault -/
example : summary (scanTemplate asciiUnicode FormatHTML false witness) =
    some ([], some (.commentNotTerminated, 0, 1, 1)) := by decide +kernel

/-- non-vacuity: a template with a tag, a URL attribute, a show and a comment scans to tokens
with these spans -/
example : summary (scanTemplate asciiUnicode FormatHTML false (strBytes "<a href=\"{{ u }}\">{# c #}")) =
    some ([(tokenText, 0, 8), (tokenStartURL, 9, 9), (tokenLeftBraces, 9, 10), (tokenIdentifier, 12, 12),
           (tokenRightBraces, 14, 15), (tokenEndURL, 16, 16), (tokenText, 16, 17), (tokenComment, 18, 24),
           (tokenEOF, 25, 25)], none) := by decide +kernel

end ScriggoV.Props.C04
