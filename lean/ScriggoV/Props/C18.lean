import ScriggoV.Lemmas.PathsExpand
import ScriggoV.Lemmas.PathsFuel
import ScriggoV.Gen.PathSites
/-! C18 — template file loading stays inside the file system and terminates.

Property theorems only, over the models of `Model/Paths.lean` (`validTemplatePath`, `rooted`,
`parseTemplate`) and the specifications of `Spec/GoPath.lean` (`path.Clean/Join/Dir`,
`fs.ValidPath`, and the element walk `resolve`).  The invariants are in
`Lemmas/PathsSegs.lean`, `Lemmas/PathsRooted.lean`, `Lemmas/PathsExpand.lean`. -/
namespace ScriggoV.Paths
open ScriggoV.GoPath

/-! ## `ValidTemplatePath` and `rooted` -/

/-- `ValidTemplatePath` never faults (its index `path[0]` and its slices `path[1:]`,
`path[3:]` are always in range and the loop ends) and computes: strip one leading `/` or all
leading `../`, then `fs.ValidPath` of the rest, the rest not being `.`. -/
theorem validTemplatePath_total (name : Bytes) :
    validTemplatePath name = .ok (vtpSpec name) := validTemplatePath_eq name

/-- `rooted` never faults (the slice `name[1:]`). -/
theorem rooted_never_faults (parent name : Bytes) (f : Fault) :
    rooted parent name ≠ .error (.fault f) := rooted_no_fault parent name f

/-- **rooted_valid.** For a rooted parent (a valid file system path other than `.`) and a
reference the parser accepts, `rooted` either fails as not found or returns a valid file
system path other than `.` whose elements are exactly the resolution of the reference against
the directory of the parent (or against the root for an absolute reference). -/
theorem rooted_valid (parent name : Bytes) (hp : ValidRooted parent)
    (hn : validTemplatePath name = .ok true) :
    rooted parent name = .error .notExist ∨
    ∃ r, rooted parent name = .ok r ∧ ValidRooted r ∧ resolve parent name = some (splitSlash r) := by
  rcases vtp_cases name hn with ⟨v, rfl, hv⟩ | ⟨hrel, hv⟩
  · right
    obtain ⟨h1, h2⟩ := rooted_abs parent v
    exact ⟨v, h1, hv, h2⟩
  · obtain ⟨hnone, hsome⟩ := rooted_rel parent name hp hrel hv
    cases hres : resolve parent name with
    | none => left; exact hnone hres
    | some res =>
      obtain ⟨hvr, hsp, hr⟩ := hsome res hres
      by_cases hpre : hasPrefix (joinSlash res) dotdot = true
      · left; rw [hr]; simp [hpre]
      · right
        refine ⟨joinSlash res, ?_, hvr, by rw [hsp]⟩
        rw [hr]; simp [hpre]

example : ValidRooted [97, 47, 98, 47, 99] ∧ validTemplatePath [46, 46, 47, 100, 47, 101] = .ok true ∧
    rooted [97, 47, 98, 47, 99] [46, 46, 47, 100, 47, 101] = .ok [97, 47, 100, 47, 101] := by
  refine ⟨⟨by decide, by decide⟩, by rfl, by rfl⟩

/-- What "valid rooted" excludes: such a path is not absolute, none of its elements is empty,
`.` or `..`, and it is clean (`path.Clean` leaves it unchanged) — it cannot name anything
outside the root of the file system. -/
theorem validRooted_inside (r : Bytes) (h : ValidRooted r) :
    isAbs r = false ∧ (∀ s ∈ splitSlash r, s ≠ [] ∧ s ≠ dotSeg ∧ s ≠ dotdot) ∧ clean r = r := by
  obtain ⟨hn, _⟩ := validRooted_segs r h
  have hne := splitSlash_ne_nil r
  cases hs : splitSlash r with
  | nil => exact absurd hs hne
  | cons s ss =>
    have hj : joinSlash (s :: ss) = r := by rw [← hs, joinSlash_splitSlash]
    have hsn : Normal s := hn s (by rw [hs]; simp)
    have hnos : NoSlash s := noSlash_of_mem_splitSlash r s (by rw [hs]; simp)
    have habs : isAbs r = false := by rw [← hj]; exact isAbs_joinSlash s ss hsn.1 hnos
    have hrne : r ≠ [] := by rw [← hj]; exact joinSlash_ne_nil s ss hsn.1
    refine ⟨habs, ?_, ?_⟩
    · intro x hx; exact hn x (by rw [hs]; exact hx)
    · unfold clean
      simp only [hrne, habs, if_false, Bool.false_eq_true]
      rw [hs, cleanSegs_normal false (s :: ss) (by intro x hx; exact hn x (by rw [hs]; exact hx))]
      simp only [List.append_nil, List.reverse_reverse]
      have : (s :: ss).reverse ≠ [] := by simp
      simp only [this, if_false]
      exact hj

/-- **escaping_fails.** A reference whose walk leaves the root fails as not found. -/
theorem escaping_fails (parent name : Bytes) (hp : ValidRooted parent)
    (hn : validTemplatePath name = .ok true) (hesc : resolve parent name = none) :
    rooted parent name = .error .notExist := by
  rcases vtp_cases name hn with ⟨v, rfl, _⟩ | ⟨hrel, hv⟩
  · rw [(rooted_abs parent v).2] at hesc; cases hesc
  · exact (rooted_rel parent name hp hrel hv).1 hesc

example : ValidRooted [97, 47, 99] ∧ validTemplatePath [46, 46, 47, 46, 46, 47, 100] = .ok true ∧
    resolve [97, 47, 99] [46, 46, 47, 46, 46, 47, 100] = none := by
  refine ⟨⟨by decide, by decide⟩, by rfl, by rfl⟩

/-- The converse: a reference that stays inside the root resolves to the walk's result — except
that `rooted` also refuses, as not found, a relative reference whose result merely *begins with
the two bytes* `..` (a first element such as `..a`; `strings.HasPrefix(r, "..")`).  That
over-rejection is harmless for the property (nothing outside the root is named). -/
theorem rooted_complete (parent name : Bytes) (res : List Bytes) (hp : ValidRooted parent)
    (hn : validTemplatePath name = .ok true) (hres : resolve parent name = some res) :
    rooted parent name =
      if isAbs name = false ∧ hasPrefix (joinSlash res) dotdot = true then .error .notExist
      else .ok (joinSlash res) := by
  rcases vtp_cases name hn with ⟨v, rfl, _⟩ | ⟨hrel, hv⟩
  · obtain ⟨h1, h2⟩ := rooted_abs parent v
    rw [h2] at hres
    cases hres
    rw [h1, joinSlash_splitSlash]
    simp [isAbs]
  · obtain ⟨_, _, hr⟩ := (rooted_rel parent name hp hrel hv).2 res hres
    rw [hr]
    simp [hrel]

/-! ## the recursion `ParseTemplate → parseSource → expand → parseNodeFile` -/

/-- the trivial predicate on names (instantiates the invariant for the clauses that do not
need the names to be valid) -/
theorem rooted_preserves_true : ∀ parent n r : Bytes, True → validTemplatePath n = .ok true →
    rooted parent n = .ok r → True := fun _ _ _ _ _ _ => trivial

/-- `rooted` maps a rooted parent and an accepted reference to a rooted path -/
theorem rooted_preserves_valid : ∀ parent n r : Bytes, ValidRooted parent → validTemplatePath n = .ok true →
    rooted parent n = .ok r → ValidRooted r := by
  intro parent n r hp hn hr
  rcases rooted_valid parent n hp hn with h | ⟨r', h, hv, _⟩
  · rw [h] at hr; cases hr
  · rw [h] at hr; cases hr; exact hv

/-- **expand_terminates.** The recursion is bounded by the number of files: with fuel
`|files| + 1` the model never runs out of fuel (the `paths` stack holds distinct existing
files, so `|files| − |paths|` decreases at every nested `parseSource`), and no checked index
faults — for every file map and every root name. -/
theorem expand_terminates {tbl : SiteTable} (htbl : Guarded tbl) (fm : FileMap) (root : Bytes) :
    (parseTemplate tbl fm root).2 ≠ .error .outOfFuel ∧
    ∀ f, (parseTemplate tbl fm root).2 ≠ .error (.fault f) := by
  have := parseTemplateFuel_post htbl (P := fun _ => True) rooted_preserves_true root trivial (fm.length + 1) (by omega)
    (parseTemplate tbl fm root).1 (parseTemplate tbl fm root).2 rfl
  exact ⟨this.noFuel, this.noFault⟩

/-- any larger amount of fuel is not exhausted either -/
theorem fuel_suffices {tbl : SiteTable} (htbl : Guarded tbl) (fm : FileMap) (root : Bytes) (fuel : Nat) (h : fm.length ≤ fuel) :
    (parseTemplateFuel tbl fm fuel root).2 ≠ .error .outOfFuel :=
  (parseTemplateFuel_post htbl (P := fun _ => True) rooted_preserves_true root trivial fuel h _ _ rfl).noFuel

/-- the answer does not depend on the fuel: every amount of at least `|files|` gives the answer
of `parseTemplate` (so the bound is not what makes the model stop) -/
theorem fuel_irrelevant {tbl : SiteTable} (htbl : Guarded tbl) (fm : FileMap) (root : Bytes) (fuel : Nat) (h : fm.length ≤ fuel) :
    parseTemplateFuel tbl fm fuel root = parseTemplate tbl fm root := by
  have h1 := parseTemplateFuel_mono tbl fm fm.length (fuel - fm.length) root (fuel_suffices htbl fm root _ (by omega))
  have h2 := parseTemplateFuel_mono tbl fm fm.length 1 root (fuel_suffices htbl fm root _ (by omega))
  have e : fm.length + (fuel - fm.length) = fuel := by omega
  rw [e] at h1
  unfold parseTemplate
  rw [h1, h2]

/-- **opened_valid.** If the root name is a valid rooted path, every name passed to `Open` is
a valid file system path other than `.` (hence inside the root, see `validRooted_inside`) —
whatever the outcome of the build. -/
theorem opened_valid {tbl : SiteTable} (htbl : Guarded tbl) (fm : FileMap) (root : Bytes) (hroot : ValidRooted root) :
    ∀ n ∈ (parseTemplate tbl fm root).1.opens, ValidRooted n :=
  (parseTemplateFuel_post htbl (P := ValidRooted) rooted_preserves_valid root hroot (fm.length + 1) (by omega)
    _ _ rfl).weak.1

/-- **opened_at_most_once.** In the trace of `Open` calls every existing file appears at most
once (the `trees` cache and the `paths` stack), whatever the outcome of the build. -/
theorem opened_at_most_once {tbl : SiteTable} (htbl : Guarded tbl) (fm : FileMap) (root : Bytes) :
    ∀ n, fm.lookup n ≠ none → (parseTemplate tbl fm root).1.opens.count n ≤ 1 :=
  (parseTemplateFuel_post htbl (P := fun _ => True) rooted_preserves_true root trivial (fm.length + 1) (by omega)
    _ _ rfl).weak.2

/-! ### cycles -/

-- `Edge fm a b`: the file `a` has a reference that `rooted` resolves to the existing file `b`;
-- `Reach fm a b`: a non-empty chain of such references (Lemmas/PathsExpand.lean).

/-- **cycle detection is immediate**: a reference that resolves to a file on the `paths`
stack is answered with a `CycleError` for that file, without calling `Open`. -/
theorem cycle_detected (tbl : SiteTable) (fm : FileMap) (fuel : Nat) (parent name : Bytes) (paths : List Bytes)
    (st : St) (ref : Ref) (hr : rooted parent ref.path = .ok name) (hin : name ∈ parent :: paths) :
    parseNodeFile tbl fm (fuel + 1) (parent :: paths) st ref = (st, .error (.cycle name [])) := by
  have : (parent :: paths).contains name = true := by simpa using hin
  unfold parseNodeFile
  simp only [List.head?_cons, hr, this, if_true]

/-- **ok_acyclic.** After a successful build the files that were loaded are ordered: there is
a rank that every reference between loaded existing files strictly decreases, and the target of
every such reference was loaded. -/
theorem ok_acyclic {tbl : SiteTable} (htbl : Guarded tbl) (fm : FileMap) (root : Bytes) (st : St)
    (h : parseTemplate tbl fm root = (st, .ok ())) :
    ∃ rank : Bytes → Nat, ∀ a b, (a = root ∨ a ∈ tkeys st.trees) → Edge fm a b →
      b ∈ tkeys st.trees ∧ rank b < rank a := by
  have post := parseTemplateFuel_post htbl (P := fun _ => True) rooted_preserves_true root trivial (fm.length + 1)
    (by omega) st (.ok ()) h
  obtain ⟨hst, htgt⟩ := post.ok rfl
  have hrootnot : root ∉ tkeys st.trees := hst.disj root (by simp)
  refine ⟨fun a => if a = root then st.trees.length + 1 else rankOf a st.trees, ?_⟩
  intro a b ha he
  have hb : b ∈ tkeys st.trees ∧ (a ≠ root → rankOf b st.trees < rankOf a st.trees) := by
    rcases ha with rfl | ha
    · obtain ⟨refs, r, hl, hr, hrt, hk⟩ := he
      exact ⟨htgt refs hl r hr b hrt hk, fun hne => absurd rfl hne⟩
    · obtain ⟨h1, h2⟩ := closed_rank fm st.trees hst.closed a b ha he
      exact ⟨h1, fun _ => h2⟩
  refine ⟨hb.1, ?_⟩
  have hbr : b ≠ root := by rintro rfl; exact hrootnot hb.1
  simp only [hbr, if_false]
  by_cases har : a = root
  · simp only [har, if_true]
    have := rankOf_le b st.trees
    omega
  · simp only [har, if_false]
    exact hb.2 har

/-- **cycle_reported.** If a cycle of references between existing files can be reached from
the root file (or goes through it), the build does not succeed: together with
`expand_terminates` — the recursion is bounded, no fault — the outcome is an error.  (Which
error: the `CycleError` of `cycle_detected`, unless another error of the same traversal —
a missing file, an invalid path, an extends in a rendered file, … — comes first; see
`cycle_reported_pure` for the case where nothing else can go wrong.) -/
theorem cycle_reported {tbl : SiteTable} (htbl : Guarded tbl) (fm : FileMap) (root a : Bytes) (hreach : a = root ∨ Reach fm root a)
    (hcycle : Reach fm a a) : ∀ st, parseTemplate tbl fm root ≠ (st, .ok ()) := by
  intro st h
  obtain ⟨rank, hrank⟩ := ok_acyclic htbl fm root st h
  have hstep : ∀ x y, Reach fm x y → (x = root ∨ x ∈ tkeys st.trees) →
      y ∈ tkeys st.trees ∧ rank y < rank x := by
    intro x y hxy
    induction hxy with
    | step he => intro hx; exact hrank _ _ hx he
    | trans he _ ih =>
      intro hx
      obtain ⟨h1, h2⟩ := hrank _ _ hx he
      obtain ⟨h3, h4⟩ := ih (Or.inr h1)
      exact ⟨h3, by omega⟩
  have ha : a = root ∨ a ∈ tkeys st.trees := by
    rcases hreach with h | h
    · exact Or.inl h
    · exact Or.inr (hstep root a h (Or.inl rfl)).1
  have := (hstep a a hcycle ha).2
  omega

/-- **a reported cycle is real**: the file named by a `CycleError` lies on a cycle of
references between existing files. -/
theorem cycle_error_sound {tbl : SiteTable} (htbl : Guarded tbl) (fm : FileMap) (root : Bytes) (st : St) (p : Bytes)
    (c : List (Kind × Bytes)) (h : parseTemplate tbl fm root = (st, .error (.cycle p c))) :
    Reach fm p p :=
  (parseTemplateFuel_post htbl (P := fun _ => True) rooted_preserves_true root trivial (fm.length + 1)
    (by omega) st _ h).cyc p c rfl

/-- **cycle_reported, when nothing else can go wrong.** In a file map where every reference is
a plain render with an accepted path that resolves to an existing file, a build from an
existing root with a cycle in reach ends in a `CycleError` (and that error names a file on a
cycle); without a cycle in reach it succeeds or — never — anything else. -/
theorem cycle_reported_pure {tbl : SiteTable} (htbl : Guarded tbl) (fm : FileMap) (root a : Bytes) (hpure : Pure fm)
    (hkey : fm.lookup root ≠ none)
    (hname : (root == dotSeg || root.getLast? == some 47) = false)
    (hreach : a = root ∨ Reach fm root a) (hcycle : Reach fm a a) :
    ∃ st p c, parseTemplate tbl fm root = (st, .error (.cycle p c)) ∧ Reach fm p p := by
  have post := parseTemplateFuel_post htbl (P := fun _ => True) rooted_preserves_true root trivial
    (fm.length + 1) (by omega) (parseTemplate tbl fm root).1 (parseTemplate tbl fm root).2 rfl
  rcases post.pure hpure with (hok | ⟨p, c, hc⟩) | hinv | hne
  · exact absurd (show parseTemplate tbl fm root = ((parseTemplate tbl fm root).1, .ok ()) by rw [← hok])
      (cycle_reported htbl fm root a hreach hcycle _)
  · exact ⟨(parseTemplate tbl fm root).1, p, c, by rw [← hc], post.cyc p c hc⟩
  · have := post.invalid hinv
    rw [hname] at this; cases this
  · exact absurd (post.notExist hne) hkey

/-- in a pure file map the only outcomes are success and `CycleError` -/
theorem pure_ok_or_cycle {tbl : SiteTable} (htbl : Guarded tbl) (fm : FileMap) (root : Bytes) (hpure : Pure fm)
    (hkey : fm.lookup root ≠ none)
    (hname : (root == dotSeg || root.getLast? == some 47) = false) :
    OkOrCycle (parseTemplate tbl fm root).2 := by
  have post := parseTemplateFuel_post htbl (P := fun _ => True) rooted_preserves_true root trivial
    (fm.length + 1) (by omega) (parseTemplate tbl fm root).1 (parseTemplate tbl fm root).2 rfl
  rcases post.pure hpure with h | hinv | hne
  · exact h
  · have := post.invalid hinv
    rw [hname] at this; cases this
  · exact absurd (post.notExist hne) hkey

/-! ## the parse sites

The theorems above hold for every table `tbl : Site → Guard` that does something at every site
(`Guarded tbl`).  The table of the real parser is **generated** (`Gen/PathSites.lean`): one entry
per path-taking statement (extends / import / render) and per value of `end` the statement
parser can be entered with — `{% … %}`, a statement of a `{%% … %%}` block (plain or grouped
import), end of file — computed from the `if end == …`/`switch end` that leads to the node
constructor.  A case that is forgotten there is an entry `Guard.none` and `sites_guarded` fails. -/

/-- **sites_guarded** (fact about the source, by a look at the whole generated table): every
case of the end-token switch / if in `parse` (extends), `parseImport` and `parseExpr` (render)
that yields a path node calls `ValidTemplatePath` (or `validatePackagePath`, for programs). -/
theorem sites_guarded : Guarded Gen.PathSites.guard :=
  guarded_of_check _ (by decide)

/-- in a template file every site checks with `ValidTemplatePath` itself; `validatePackagePath`
is what the import of a program or script goes through -/
theorem template_sites_validate :
    ∀ s ∈ [Site.extStmt, .extStmts, .impStmt, .impStmts, .renShow, .renStmt, .renStmts, .renEOF],
      Gen.PathSites.guard s = .template := by decide

theorem program_import_site : Gen.PathSites.guard .impEOF = .package := by decide

/-- the statement parser is entered with exactly the three end tokens the sites are made of -/
theorem parse_ends_known :
    Gen.PathSites.parseEnds = ["tokenEOF", "tokenEndStatement", "tokenEndStatements"] := by decide

/-- whatever passes the guard of a site of the real parser is a valid template path — for
every site, i.e. wherever and however the statement is written -/
theorem site_accepts_only_valid (s : Site) (path : Bytes)
    (h : guardCheck (Gen.PathSites.guard s) path = .ok true) : validTemplatePath path = .ok true :=
  guardCheck_ok (sites_guarded s) h

/-- … and an invalid path is a syntax error of the file that contains it, naming the kind of
statement: the parser's check of a file fails exactly when some reference has an invalid path,
independently of the sites the references are written at -/
theorem invalid_path_is_error (refs : List Ref) :
    checkRefs Gen.PathSites.guard refs = .ok () ↔ ∀ r ∈ refs, validTemplatePath r.path = .ok true :=
  checkRefs_guarded_iff sites_guarded refs

theorem invalid_path_error_kind (refs : List Ref) (e : Err)
    (h : checkRefs Gen.PathSites.guard refs = .error e) : ∃ k, e = .syntax (.invalidRefPath k) :=
  checkRefs_error _ refs e h

/-- **only_valid_paths_reach_open.** With the parser as it is in /repo (the generated table of
its parse sites), for every file map — every statement kind at every syntactic position in
every file — and every valid root name: every name passed to `Open` is a valid file system path
other than `.`, hence inside the root (`validRooted_inside`); every existing file is opened at
most once; and the build terminates without fault. -/
theorem only_valid_paths_reach_open (fm : FileMap) (root : Bytes) (hroot : ValidRooted root) :
    (∀ n ∈ (parseTemplate Gen.PathSites.guard fm root).1.opens, ValidRooted n) ∧
    (∀ n, fm.lookup n ≠ none → (parseTemplate Gen.PathSites.guard fm root).1.opens.count n ≤ 1) ∧
    (parseTemplate Gen.PathSites.guard fm root).2 ≠ .error .outOfFuel ∧
    ∀ f, (parseTemplate Gen.PathSites.guard fm root).2 ≠ .error (.fault f) :=
  ⟨opened_valid sites_guarded fm root hroot, opened_at_most_once sites_guarded fm root,
    (expand_terminates sites_guarded fm root).1, (expand_terminates sites_guarded fm root).2⟩

/-- the table a parser would have that forgot the `{%% … %%}` case of the import: used only to
show that the hypothesis `Guarded` carries weight -/
def forgetfulTable : SiteTable
  | .impStmts => .none
  | s => SiteTable.ideal s

/-- **the hypothesis is needed**: with one unguarded site the model itself passes a name outside
the root to `Open` — `{%% import "/../s" %%}` in the file `a` opens `../s`. -/
theorem unguarded_site_escapes :
    ∃ (fm : FileMap) (root : Bytes), ValidRooted root ∧
      ¬ ∀ n ∈ (parseTemplate forgetfulTable fm root).1.opens, ValidRooted n := by
  refine ⟨[([97], [⟨.imp, false, [47, 46, 46, 47, 115], .impStmts⟩])], [97], ⟨by decide, by decide⟩, ?_⟩
  intro h
  have h1 : [46, 46, 47, 115] ∈ (parseTemplate forgetfulTable
      [([97], [⟨.imp, false, [47, 46, 46, 47, 115], .impStmts⟩])] [97]).1.opens := by decide
  have := (h _ h1).1
  revert this
  decide

-- the same file with the guarded table: a syntax error, and only the root is opened
example : parseTemplate Gen.PathSites.guard [([97], [⟨.imp, false, [47, 46, 46, 47, 115], .impStmts⟩])] [97]
    = ({ trees := [], canExtend := true, opens := [[97]], missingImport := false },
       .error (.syntax (.invalidRefPath .imp))) := by rfl

-- non-vacuity: a three-file cycle a → b/c → a reported as a cycle with its chain, each file
-- opened once; and a shared partial opened once
example : parseTemplate .ideal
    [([97], [⟨.ren, false, [98, 47, 99], .renShow⟩]), ([98, 47, 99], [⟨.imp, false, [46, 46, 47, 97], .impStmt⟩])] [97]
    = ({ trees := [], canExtend := false, opens := [[98, 47, 99], [97]], missingImport := false },
       .error (.cycle [97] [(.ren, [98, 47, 99]), (.imp, [97])])) := by rfl

example : (parseTemplate .ideal
    [([97], [⟨.ren, false, [98], .renShow⟩, ⟨.ren, false, [99], .renShow⟩, ⟨.ren, false, [47, 98], .renShow⟩]),
     ([98], [⟨.ren, false, [99], .renShow⟩]), ([99], [])] [97]).1.opens = [[99], [98], [97]] ∧
    (parseTemplate .ideal
    [([97], [⟨.ren, false, [98], .renShow⟩, ⟨.ren, false, [99], .renShow⟩, ⟨.ren, false, [47, 98], .renShow⟩]),
     ([98], [⟨.ren, false, [99], .renShow⟩]), ([99], [])] [97]).2 = .ok () := ⟨by rfl, by rfl⟩

-- an escaping render is a syntax error of the referencing file and nothing is opened for it;
-- an escaping `render … default` and an escaping import are skipped (the import is then left
-- to the type checker, which does not find a package of that name)
example : parseTemplate .ideal
    [([97, 47, 102], [⟨.imp, false, [46, 46, 47, 46, 46, 47, 103], .impStmt⟩, ⟨.ren, true, [46, 46, 47, 46, 46, 47, 103], .renShow⟩,
      ⟨.ren, false, [46, 46, 47, 46, 46, 47, 103], .renShow⟩]), ([103], [])] [97, 47, 102]
    = ({ trees := [], canExtend := false, opens := [[97, 47, 102]], missingImport := true },
       .error (.syntax (.renderNotExist []))) := by rfl

-- non-vacuity of `cycle_reported_pure`: a pure file map with a two-file cycle in reach
example : Pure [([97], [⟨.ren, false, [98], .renShow⟩]), ([98], [⟨.ren, false, [47, 97], .renShow⟩])] ∧
    Reach [([97], [⟨.ren, false, [98], .renShow⟩]), ([98], [⟨.ren, false, [47, 97], .renShow⟩])] [97] [97] := by
  have e1 : Edge [([97], [⟨.ren, false, [98], .renShow⟩]), ([98], [⟨.ren, false, [47, 97], .renShow⟩])] [97] [98] :=
    ⟨[⟨.ren, false, [98], .renShow⟩], ⟨.ren, false, [98], .renShow⟩, by rfl, by simp, by rfl, by simp [IsKey, List.lookup]⟩
  have e2 : Edge [([97], [⟨.ren, false, [98], .renShow⟩]), ([98], [⟨.ren, false, [47, 97], .renShow⟩])] [98] [97] :=
    ⟨[⟨.ren, false, [47, 97], .renShow⟩], ⟨.ren, false, [47, 97], .renShow⟩, by rfl, by simp, by rfl,
      by simp [IsKey, List.lookup]⟩
  refine ⟨?_, .trans e1 (.step e2)⟩
  intro a refs hl r hr
  simp only [List.lookup] at hl
  by_cases h1 : a = [97]
  · subst h1
    simp at hl
    subst hl
    simp at hr
    subst hr
    exact ⟨rfl, by rfl, [98], by rfl, by simp [IsKey, List.lookup]⟩
  · by_cases h2 : a = [98]
    · subst h2
      simp at hl
      subst hl
      simp at hr
      subst hr
      exact ⟨rfl, by rfl, [97], by rfl, by simp [IsKey, List.lookup]⟩
    · have b1 : (a == [97]) = false := by simpa using h1
      have b2 : (a == [98]) = false := by simpa using h2
      simp [b1, b2] at hl

end ScriggoV.Paths
