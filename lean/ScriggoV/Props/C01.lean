import ScriggoV.Lemmas.BvInt
import ScriggoV.Lemmas.Compile
import ScriggoV.Lemmas.CompileCond
import ScriggoV.Model.Eval
import ScriggoV.Lemmas.Struct
import ScriggoV.Lemmas.FieldIndex
import ScriggoV.Lemmas.CommaOk
/-! # C01, stage one — the integer core of "interpreted programs behave like gc"

`Gen/VMInt.lean` holds, regenerated from /repo on every check, the integer opcode bodies of
`internal/runtime/run.go` as closed `BitVec 64` terms (one per opcode and kind operand) and the
opcode/kind the emitter's `emit…` functions choose (`builder_instructions.go`, `flattenIntegerKind`).
`Model/VMInt.lean` composes them into `vmOp`, `vmShift`, `vmUn`, `vmConv`, `vmCmp`: what the VM
computes for a source-level operator on register contents. `Spec/GoInt.lean` is the Go
specification on mathematical integers.

The theorems say: for every operator, every integer kind and **all** register contents that
satisfy the representation invariant `Canon` (the register holds the sign- or zero-extension of a
value of the kind), VM and specification agree — same fault, or a canonical result register whose
value is the specified one. Property theorems only; helper lemmas are in `Lemmas/BvInt.lean`. -/
set_option linter.unusedSimpArgs false
namespace ScriggoV.C01
open ScriggoV ScriggoV.GoInt ScriggoV.VM ScriggoV.Gen.VMInt ScriggoV.Eval ScriggoV.Compile

/-! ## binary arithmetic and bitwise operators: full strength -/

/-- **`+ - * / % & | ^ &^` at every integer kind.** `junk` is the previous content of the
destination register when the emitter does not make it coincide with `x` (the `…Int` opcodes):
the result does not depend on it. Division by zero is the same fault on both sides;
`MinInt / -1` wraps on both sides. -/
theorem vmOp_refines_spec (op : BinOp) (k : Kind) (x y junk : BitVec 64)
    (hx : Canon k x) (hy : Canon k y) :
    Refines k (vmOp op k x y junk) (binop op k (val k x) (val k y)) := by
  rw [vmOp_eq_ref]
  cases op
  · exact add_refines k x y
  · exact sub_refines k x y
  · exact mul_refines k x y
  · exact div_refines k x y hx hy
  · exact rem_refines k x y hx hy
  · exact and_refines k x y hx hy
  · exact or_refines k x y hx hy
  · exact xor_refines k x y hx hy
  · exact andNot_refines k x y hx hy

-- the hypotheses are satisfiable by non-trivial objects, and the statement is not vacuous there
example : Canon .int8 (reg (-128)) ∧ Canon .int8 (reg (-1)) ∧ Canon .uint16 (reg 65535) := by decide
example : ¬ Canon .int8 (reg 128) ∧ ¬ Canon .uint8 (reg (-1)) := by decide
example : vmOp .add .int8 (reg 127) (reg 1) 0 = .ok (reg (-128)) := by decide
example : vmOp .div .int8 (reg (-128)) (reg (-1)) 0 = .ok (reg (-128)) := by decide
example : vmOp .div .uint32 (reg 7) (reg 0) 0 = .error .divZero := by decide
example : binop .rem .int16 (-7) 2 = .ok (-1) := by decide

/-- `OpSubInv` (`z = y - x`; defined in the VM and the builder, not used by the emitter today)
with the kind operand the builder would pass -/
theorem subInv_refines_spec (k : Kind) (x y junk : BitVec 64) :
    Refines k (runEmitted (emit .emitSubInv k) k x y junk) (binop .sub k (val k y) (val k x)) := by
  have h : runEmitted (emit .emitSubInv k) k x y junk = .ok (canon k (y - x)) := by
    cases k <;>
      first
      | rfl
      | (simp only [canon_int, canon_int64, canon_uint, canon_uint64, canon_uintptr]; rfl)
  rw [h]; exact sub_refines k y x

/-- the kind operand the `emit…` functions put into the instruction is always
`flattenIntegerKind` of the operand kind (the opcode bodies have no case for `int`, `uint`,
`uintptr`: e.g. `OpDiv` with kind `Int` would store 0) -/
theorem emit_uses_flatten (f : EmitFn) (k k' : Kind) (h : (emit f k).a = .kind k') :
    k' = flatten k := by
  cases f <;> cases k <;> simp [emit, emitAdd, emitSub, emitSubInv, emitMul, emitDiv, emitRem, emitShl,
    emitShr, emitAnd, emitOr, emitXor, emitAndNot, emitNeg] at h <;> rw [← h] <;> rfl

/-! ## shifts: the full statement is false today (negative count), proved under `0 ≤ count` -/

/-- **Full statement for `<<` and `>>`**: for every kind `k` of the left operand and every integer
kind `kc` of the count, canonical registers give the specified outcome — including the run-time
panic for a negative count. -/
def ShiftRefinesSpec : Prop :=
  ∀ (op : ShiftOp) (k kc : Kind) (x n junk : BitVec 64), Canon k x → Canon kc n →
    Refines k (vmShift op k x n junk) (shift op k (val k x) (val kc n))

/-- The full statement is **false of the code today**: `var x, s int = 1, -1; x << s` must panic
("negative shift amount") and the VM stores 0 (`OpShlInt` converts the count with `uint(…)`).
DESIGN.md §8 row 12; recorded in known_findings.json as `neg-shift-count`. -/
theorem shiftRefinesSpec_false : ¬ ShiftRefinesSpec := by
  intro h
  have h1 := h .shl .int .int (reg 1) (reg (-1)) 0 (by decide) (by decide)
  have e1 : vmShift .shl .int (reg 1) (reg (-1)) 0 = .ok 0 := by decide
  have e2 : shift .shl .int (val .int (reg 1)) (val .int (reg (-1))) = .error .negShift := by decide
  rw [e1, e2] at h1
  exact h1

/-- **`<<` and `>>` for every non-negative count** (counts ≥ the width, up to `2^64-1`, included;
the count may have any integer kind `kc`, signed or unsigned). Missing for the full statement:
a negative count of signed kind, where Go panics and the VM shifts by `uint(count)`. -/
theorem vmShift_refines_spec_partial (op : ShiftOp) (k kc : Kind) (x n junk : BitVec 64)
    (hx : Canon k x) (hn : 0 ≤ val kc n) :
    Refines k (vmShift op k x n junk) (shift op k (val k x) (val kc n)) := by
  rw [vmShift_eq_ref]
  cases op
  · exact shl_refines k kc x n hn
  · exact shr_refines k kc x n hx hn

example : Canon .int32 (reg (-5)) ∧ 0 ≤ val .uint64 (reg (-1)) := by decide
example : vmShift .shr .int32 (reg (-5)) (reg (-1)) 0 = .ok (reg (-1)) := by decide  -- count 2^64-1
example : vmShift .shl .uint8 (reg 255) (reg 1) 0 = .ok (reg 254) := by decide

/-- the closed forms used in `Spec/GoInt.shift` are the textbook semantics of the Go
specification: `x << n = x * 2^n` wrapped, `x >> n = ⌊x / 2^n⌋` -/
theorem spec_shl_is_mul_pow (k : Kind) (x n : Int) (hn : 0 ≤ n) :
    shift .shl k x n = .ok (wrap k (x * (2 ^ n.toNat : Nat))) := shl_eq_pow k x n hn

theorem spec_shr_is_floor_div (k : Kind) (x n : Int) (hn : 0 ≤ n) (hx : InRange k x) :
    shift .shr k x n = .ok (x / ((2 ^ n.toNat : Nat) : Int)) := shr_eq_div k x n hn hx

example : InRange .int8 (-128) ∧ shift .shr .int8 (-128) 200 = .ok (-1) := by decide

/-! ## unary operators, conversions, comparisons: full strength -/

/-- **unary `-`, `^`, `+`** (`^x` as the emitter writes it: `mask ^ x`) -/
theorem vmUn_refines_spec (op : UnOp) (k : Kind) (y junk : BitVec 64) (hy : Canon k y) :
    Refines k (vmUn op k y junk) (.ok (unop op k (val k y))) := by
  cases op
  · show Refines k (vmNeg k y junk) _
    rw [vmNeg_eq_ref]; exact neg_refines k y
  · show Refines k (vmNot k y) _
    rw [vmNot_eq_ref]; exact not_refines k y hy
  · exact refines_ok hy rfl

example : vmUn .neg .int8 (reg (-128)) 0 = .ok (reg (-128)) := by decide
example : vmUn .not .uint8 (reg 1) 0 = .ok (reg 254) := by decide

/-- **conversions between any two integer kinds** (`OpConvertInt`, `OpConvertUint`, or a plain
move when the kinds coincide): the value is wrapped to the destination kind -/
theorem convert_refines_spec (src dst : Kind) (x : BitVec 64) (hx : Canon src x) :
    Refines dst (vmConv src dst x) (.ok (conv dst (val src x))) :=
  conv_refines src dst x hx

example : vmConv .int8 .uint64 (reg (-1)) = .ok (reg (-1)) ∧ val .uint64 (reg (-1)) = 18446744073709551615 := by
  decide
example : vmConv .uint16 .int8 (reg 65408) = .ok (reg (-128)) := by decide

/-- **`string(x)` for an integer `x` of any kind** (`OpConvertInt` / `OpConvertUint` to a string
type, body regenerated from run.go): the UTF-8 encoding of the code point `x`, "\uFFFD" when `x`
is not a valid code point — in particular for values that only become valid after truncation to
`rune` (`1<<32 + 'A'`). Holds for every register content, canonical or not. -/
theorem convertString_refines_spec (src : Kind) (x : BitVec 64) :
    vmConvStr src x = intToString (val src x) :=
  convStr_refines src x

example : vmConvStr .int64 (reg 4294967361) = [0xEF, 0xBF, 0xBD] ∧ vmConvStr .int (reg 65) = [65] ∧
    vmConvStr .int32 (reg (-1)) = [0xEF, 0xBF, 0xBD] ∧ vmConvStr .uint16 (reg 0xD800) = [0xEF, 0xBF, 0xBD] ∧
    vmConvStr .uint32 (reg 0x1F600) = [0xF0, 0x9F, 0x98, 0x80] := by decide

/-- **comparisons** (`OpIfInt` with the condition `emitComparison` chooses) -/
theorem vmCmp_refines_spec (op : CmpOp) (k : Kind) (x y : BitVec 64) :
    vmCmp op k x y = cmp op (val k x) (val k y) :=
  cmp_refines op k x y

example : vmCmp .lt .uint64 (reg 1) (reg (-1)) = true ∧ vmCmp .lt .int64 (reg 1) (reg (-1)) = false := by
  decide

/-! ## the specification itself: results are values of the kind -/

theorem spec_binop_inRange (op : BinOp) (k : Kind) (x y z : Int) (h : binop op k x y = .ok z) :
    InRange k z := by
  cases op <;> simp only [binop] at h <;>
    first
    | (cases h; exact inRange_wrap k _)
    | (split at h <;> first | (cases h; done) | (cases h; exact inRange_wrap k _))

theorem spec_conv_inRange (k : Kind) (z : Int) : InRange k (conv k z) := inRange_wrap k z


theorem spec_unop_values (op : UnOp) (k : Kind) (x : Int) (hx : InRange k x) :
    InRange k (unop op k x) := spec_unop_inRange op k x hx

theorem spec_shift_values (op : ShiftOp) (k : Kind) (x n z : Int) (hx : InRange k x)
    (h : shift op k x n = .ok z) : InRange k z := spec_shift_inRange op k x n z hx h

example : InRange .uint8 200 ∧ shift .shl .uint8 200 1 = .ok 144 := by decide

/-! ## the reference evaluator (`Model/Eval.lean`) is sound for its static typing -/

/-- **the reference evaluator is sound for the static typing**: a well-typed tree in a
well-formed environment evaluates to a value of its static type within the range of the kind,
or raises integer-divide-by-zero / negative-shift — never `.other` -/
theorem eval_sound (ρ : Env) (e : Expr) : ∀ (τ : Ty), typeOf e = some τ → EnvOK ρ e → ResultOK τ (eval ρ e) := by
  induction e with
  | lit k z =>
    intro τ ht _
    simp only [typeOf] at ht
    split at ht
    · rename_i hr; cases ht; exact ⟨rfl, hr⟩
    · cases ht
  | var k i =>
    intro τ ht hρ
    simp only [typeOf] at ht; cases ht
    obtain ⟨z, hz, hr⟩ := hρ
    simp only [eval, hz, hr, if_true]
    exact ⟨rfl, hr⟩
  | un op e ih =>
    intro τ ht hρ
    simp only [typeOf] at ht
    split at ht
    · rename_i k hk
      cases ht
      simp only [eval]
      refine resultOK_bind (ih _ hk hρ) ?_
      intro v hv
      cases v with
      | int k' z => obtain ⟨h1, h2⟩ := hv; cases h1; exact ⟨rfl, spec_unop_inRange op k z h2⟩
      | bool b => cases hv
    · cases ht
  | bin op a b iha ihb =>
    intro τ ht hρ
    simp only [typeOf] at ht
    split at ht
    · rename_i k k' hka hkb
      split at ht
      · rename_i hkk; subst hkk; cases ht
        simp only [eval]
        refine resultOK_bind (iha _ hka hρ.1) ?_
        intro va hva
        refine resultOK_bind (ihb _ hkb hρ.2) ?_
        intro vb hvb
        cases va with
        | bool _ => cases hva
        | int k1 x =>
          cases vb with
          | bool _ => cases hvb
          | int k2 y =>
            obtain ⟨h1, _⟩ := hva; obtain ⟨h2, _⟩ := hvb; cases h1; cases h2
            simp only [binVal, if_true]
            cases hb : binop op k x y with
            | ok z => exact ⟨rfl, (by cases op <;> simp only [binop] at hb <;> first | (cases hb; exact inRange_wrap k _) | (split at hb <;> first | (cases hb; done) | (cases hb; exact inRange_wrap k _)))⟩
            | error f =>
              left
              cases op <;> simp only [binop] at hb <;> first | (cases hb; done) | (split at hb <;> cases hb; rfl)
      · cases ht
    · cases ht
  | sh op a n iha ihn =>
    intro τ ht hρ
    simp only [typeOf] at ht
    split at ht
    · rename_i k kc hka hkn
      cases ht
      simp only [eval]
      refine resultOK_bind (iha _ hka hρ.1) ?_
      intro va hva
      refine resultOK_bind (ihn _ hkn hρ.2) ?_
      intro vn hvn
      cases va with
      | bool _ => cases hva
      | int k1 x =>
        cases vn with
        | bool _ => cases hvn
        | int k2 c =>
          obtain ⟨h1, hx⟩ := hva; cases h1
          simp only [shVal]
          cases hb : shift op k x c with
          | ok z => exact ⟨rfl, spec_shift_inRange op k x c z hx hb⟩
          | error f =>
            right
            unfold shift at hb
            split at hb
            · cases hb; rfl
            · cases op <;> simp only at hb <;> split at hb <;> cases hb
    · cases ht
  | cmp op a b iha ihb =>
    intro τ ht hρ
    simp only [typeOf] at ht
    split at ht
    · rename_i k k' hka hkb
      split at ht
      · rename_i hkk; subst hkk; cases ht
        simp only [eval]
        refine resultOK_bind (iha _ hka hρ.1) ?_
        intro va hva
        refine resultOK_bind (ihb _ hkb hρ.2) ?_
        intro vb hvb
        cases va with
        | bool _ => cases hva
        | int k1 x =>
          cases vb with
          | bool _ => cases hvb
          | int k2 y =>
            obtain ⟨h1, _⟩ := hva; obtain ⟨h2, _⟩ := hvb; cases h1; cases h2
            simp only [cmpVal, if_true]
            exact rfl
      · cases ht
    · cases ht
  | conv k e ih =>
    intro τ ht hρ
    simp only [typeOf] at ht
    split at ht
    · rename_i k' hk
      cases ht
      simp only [eval]
      refine resultOK_bind (ih _ hk hρ) ?_
      intro v hv
      cases v with
      | int k'' z => exact ⟨rfl, inRange_wrap k z⟩
      | bool b => cases hv
    · cases ht


example : typeOf (.bin .div (.var .int8 0) (.var .int8 1)) = some (.int .int8) ∧
    eval [-128, -1] (.bin .div (.var .int8 0) (.var .int8 1)) = .ok (.int .int8 (-128)) ∧
    eval [1, 0] (.bin .div (.var .int8 0) (.var .int8 1)) = .error .divZero := by decide

/-! ## stage two — executing a compiled expression

`Model/Compile.lean` models the emitter on the expression language of `Model/Eval.lean`
(`compile` = `em.emitExpr`, `emitInto` = `_emitExpr` with the destination register given: register
allocation, immediate / constant-table / register operands, the `emit…` function per operator and
kind from the regenerated tables, conversions as move / `OpConvertInt` / `OpConvertUint`,
comparisons as `Move 1; If; Move 0`) and the VM on the emitted instructions (`run`, built from the
regenerated opcode bodies). The theorems below connect the opcode theorems above: running the
compiled code of a well-typed tree gives the value of the reference evaluator. -/

/-- the opcode theorems of stage one, bundled for the induction of `Lemmas/Compile.lean` -/
theorem opcodeFacts : OpcodeFacts where
  bin := vmOp_refines_spec
  sh := vmShift_refines_spec_partial
  un := vmUn_refines_spec
  conv := convert_refines_spec
  cmp := vmCmp_refines_spec

/-- **Full statement of compile correctness**: for every well-typed tree `e`, every environment
`ρ` whose variables are held, canonically at their declared kinds, by registers `≤ nv` that the
allocator considers live (`nv ≤ st.numRegs`), and every constant table extending the one the
emitter leaves, running `compile e` either ends with the register (or immediate) operand
`compile` returns holding the canonical representation of `eval ρ e` at the static type and every
register live before the expression unchanged — or raises exactly the fault `eval` raises,
including Go's run-time panic for a negative shift count. -/
def CompileCorrect : Prop :=
  ∀ (vr : Nat → Nat) (ρ : Env) (e : Expr) (τ : Ty) (st : St) (rf : RegFile) (nv : Nat) (tbl : List (BitVec 64)),
    typeOf e = some τ → VarsIn vr ρ rf nv e → nv ≤ st.numRegs → (compile vr e st).st.consts <+: tbl →
    match eval ρ e with
    | .ok v => ∃ rf', run tbl (compile vr e st).code rf = .ok (rf', false) ∧
        Holds τ v (srcVal rf' (compile vr e st).src) ∧ ∀ r, r ≤ st.numRegs → rf' r = rf r
    | .error f => run tbl (compile vr e st).code rf = .error f

/-- The full statement is **false of the code today**, by the same witness as
`shiftRefinesSpec_false`: `var x, s int = 1, -1; x << s` compiles to `ShlInt i1 i2 i3`, which
stores 0 where Go panics (finding `neg-shift-count`). -/
theorem compileCorrect_false : ¬ CompileCorrect := by
  intro h
  have h1 := h (fun i => i + 1) [1, -1] (.sh .shl (.var .int 0) (.var .int 1)) (.int .int) ⟨2, []⟩
    (fun r => if r = 1 then reg 1 else reg (-1)) 2 [] (by decide)
    ⟨⟨by decide, 1, rfl, by decide, by decide⟩, ⟨by decide, -1, rfl, by decide, by decide⟩⟩
    (Nat.le_refl _) (List.prefix_refl _)
  have e1 : eval [1, -1] (.sh .shl (.var .int 0) (.var .int 1)) = .error .negShift := by decide
  rw [e1] at h1
  have e2 : ∃ s, run [] (compile (fun i => i + 1) (.sh .shl (.var .int 0) (.var .int 1)) ⟨2, []⟩).code
      (fun r => if r = 1 then reg 1 else reg (-1)) = .ok s := ⟨_, rfl⟩
  obtain ⟨s, e2⟩ := e2
  rw [e2] at h1
  cases h1

/-- **Compile correctness for the typed integer expression fragment** (every tree of
`Model/Eval`'s language: variables and typed literals at the eleven kinds, unary `- ^ +`, binary
`+ - * / % & | ^ &^`, shifts, comparisons, conversions). Missing for the full statement: a shift
executed with a negative count (`NonNegShifts`, the `0 ≤ count` hypothesis of
`vmShift_refines_spec_partial` for every shift node of the tree). By induction on `e`
(`Lemmas/Compile.lean`) from the opcode theorems above. `tbl` is the function's final Int constant
table: any extension of what the emitter had appended when it finished `e`. -/
theorem compile_correct_partial (vr : Nat → Nat) (ρ : Env) (e : Expr) (τ : Ty) (st : St) (rf : RegFile)
    (nv : Nat) (tbl : List (BitVec 64))
    (ht : typeOf e = some τ) (hv : VarsIn vr ρ rf nv e) (hs : NonNegShifts ρ e)
    (hnv : nv ≤ st.numRegs) (hp : (compile vr e st).st.consts <+: tbl) :
    match eval ρ e with
    | .ok v => ∃ rf', run tbl (compile vr e st).code rf = .ok (rf', false) ∧
        Holds τ v (srcVal rf' (compile vr e st).src) ∧ ∀ r, r ≤ st.numRegs → rf' r = rf r
    | .error f => run tbl (compile vr e st).code rf = .error f := by
  have h := ((operand_correct opcodeFacts vr ρ e) τ false st rf nv ht hv hs hnv).1.2.2.2 tbl hp
  unfold Post at h
  cases hev : eval ρ e <;> rw [hev] at h <;> exact h

/-- the same with the destination register given (`emitExprR`, as for the operand of `^x`, of
unary `+`, or a declaration `var r T = e`): the value ends up in `dst`, and `dst` is the only
register `≤ st.numRegs` that changes. `dst` must be allocated and above the variables' registers. -/
theorem emitInto_correct_partial (vr : Nat → Nat) (ρ : Env) (e : Expr) (τ : Ty) (dst : Nat) (st : St)
    (rf : RegFile) (nv : Nat) (tbl : List (BitVec 64))
    (ht : typeOf e = some τ) (hv : VarsIn vr ρ rf nv e) (hs : NonNegShifts ρ e)
    (hlt : nv < dst) (hle : dst ≤ st.numRegs) (hp : (emitInto vr e dst st).st.consts <+: tbl) :
    match eval ρ e with
    | .ok v => ∃ rf', run tbl (emitInto vr e dst st).code rf = .ok (rf', false) ∧
        Holds τ v (rf' dst) ∧ ∀ r, r ≤ st.numRegs → r ≠ dst → rf' r = rf r
    | .error f => run tbl (emitInto vr e dst st).code rf = .error f := by
  have h := (into_correct opcodeFacts vr ρ e τ dst st rf nv ht hv hs hlt hle).2.2 tbl hp
  unfold Post at h
  cases hev : eval ρ e <;> rw [hev] at h <;> exact h

/-- what `compile` returns besides the code: a register (never an immediate: `emitExpr` does not
allow it) that is a variable's or newly allocated and still allocated afterwards; allocation and
the constant table only grow -/
theorem compile_result (vr : Nat → Nat) (ρ : Env) (e : Expr) (τ : Ty) (st : St) (rf : RegFile) (nv : Nat)
    (ht : typeOf e = some τ) (hv : VarsIn vr ρ rf nv e) (hs : NonNegShifts ρ e) (hnv : nv ≤ st.numRegs) :
    st.numRegs ≤ (compile vr e st).st.numRegs ∧ st.consts <+: (compile vr e st).st.consts ∧
    ∃ r, (compile vr e st).src = .reg r ∧ (r ≤ nv ∨ st.numRegs < r) ∧ r ≤ (compile vr e st).st.numRegs := by
  obtain ⟨⟨h1, h2, h3, _⟩, h5⟩ := (operand_correct opcodeFacts vr ρ e) τ false st rf nv ht hv hs hnv
  obtain ⟨r, hr⟩ := h5 rfl
  exact ⟨h1, h2, r, hr, h3 r hr⟩

-- the hypotheses are satisfiable by a non-trivial object, and the model computes there:
-- `int8(100) - v0 < v1` with v0 = -100, v1 = -56 in i1, i2 (the subtraction wraps to -56)
example :
    let e : Expr := .cmp .lt (.bin .sub (.lit .int8 100) (.var .int8 0)) (.var .int8 1)
    let rf : RegFile := fun r => if r = 1 then reg (-100) else reg (-56)
    typeOf e = some .bool ∧ NonNegShifts [-100, -56] e ∧
    VarsIn (· + 1) [-100, -56] rf 2 e ∧
    (compile (· + 1) e ⟨2, []⟩).code =
      [.load 0 5, .move (.reg 5) 6, .op .sub (.kind .int8) (.reg 1) 6, .move (.reg 6) 4,
       .move (.imm 1) 3, .ifInt 4 .less (.reg 2), .move (.imm 0) 3] ∧
    (compile (· + 1) e ⟨2, []⟩).src = .reg 3 ∧ (compile (· + 1) e ⟨2, []⟩).st.consts = [100#64] ∧
    eval [-100, -56] e = .ok (.bool false) := by
  refine ⟨by decide, ⟨⟨trivial, trivial⟩, trivial⟩, ⟨⟨trivial, ⟨by decide, -100, rfl, by decide, by decide⟩⟩,
    ⟨by decide, -56, rfl, by decide, by decide⟩⟩, by decide, by decide, by decide, by decide⟩

example : NonNegShifts [1, 200] (.sh .shr (.var .int32 0) (.var .uint8 1)) ∧
    ¬ NonNegShifts [1, -1] (.sh .shl (.var .int 0) (.var .int 1)) := by
  refine ⟨⟨trivial, trivial, ?_⟩, ?_⟩
  · intro kc c h
    have : eval [1, 200] (.var .uint8 1) = .ok (.int .uint8 200) := by decide
    rw [this] at h; cases h; decide
  · intro ⟨_, _, h⟩
    exact absurd (h .int (-1) (by decide)) (by decide)

/-! ## conditions — `emitCondition`

The condition of an `if` / `for` and the `tag != case` test of a `switch` are compiled by
`emitCondition`, with fast paths (comparison with the constant 0, `len` of a string on either side
— with the operator inverted by `invertedOperatorType` when it is on the right —, `!x`, constants)
and a final `If` that skips the jump over the body exactly when the condition holds.
`Model/CompileCond.lean` models it (`compileCond`, `runCond`); the tables `inverted`, `lenCond`
(emitter.go) and the `ConditionLen…` bodies `vmIfLen` (run.go) are regenerated. -/

/-- **`invertedOperatorType` is right**: the operator it returns, applied to the swapped operands,
is the original comparison — for all six operators and all operand values (`x > len(s)` is
`len(s) < x`, not `len(s) <= x`: the two differ exactly at `x = len(s)`). -/
theorem inverted_correct (op : CmpOp) (a b : Int) : cmp (invOp op) b a = cmp op a b :=
  invOp_correct op a b

/-- the `ConditionLen…` cases of `OpIfString`, with the condition `emitCondition` picks for an
operator, compute that operator on `len(s)` and the other operand -/
theorem lenCondition_correct (op : CmpOp) (l z : Int) :
    vmIfLen (lenCond (srcCmpOf op)) l z = cmp op l z ∧
    vmIfLen (lenCond (inverted (srcCmpOf op))) l z = cmp op z l := by
  constructor
  · rw [lenCond_spec, cmpOfSrc_srcCmpOf]
  · rw [lenCond_spec]; exact invOp_correct op z l

example : cmp .gt 2 2 = false ∧ cmp (invOp .gt) 2 2 = false ∧ cmp .le 2 2 = true := by decide

/-- **Conditions compile correctly** (every path of `emitCondition` in the integer/bool fragment:
constant, comparison with 0, `len(s) op y`, `y op len(s)`, generic integer comparison, `!v`, `v`):
for ALL operand values — the equality boundaries included — running the code and the final `If`
reports `true` (the jump over the body is skipped: the body runs) iff the reference semantics
`evalCond` says `true`; no register live before changes; a fault in an operand is the same fault.
Partial like `compile_correct_partial`: no shift inside an operand is executed with a negative
count (`CondNonNeg`). -/
theorem compileCond_correct_partial (vr vb vs : Nat → Nat) (ρ : Env) (β : List Bool) (σ : List Nat)
    (slen : Nat → Nat) (c : CondE) (st : St) (rf : RegFile) (nv : Nat) (tbl : List (BitVec 64))
    (ht : CondTyped c) (hv : CondVarsIn vr vb vs ρ β σ slen rf nv c) (hs : CondNonNeg ρ c)
    (hnv : nv ≤ st.numRegs) (hp : (compileCond vr vb vs c st).st.consts <+: tbl) :
    match evalCond ρ β σ c with
    | .ok b => ∃ rf', runCond tbl slen (compileCond vr vb vs c st) rf = .ok (rf', b) ∧
        ∀ r, r ≤ st.numRegs → rf' r = rf r
    | .error f => runCond tbl slen (compileCond vr vb vs c st) rf = .error f := by
  have h := (compileCond_post opcodeFacts vr vb vs ρ β σ slen c st rf nv ht hv hs hnv).2.2 tbl hp
  unfold CondPost at h
  cases hev : evalCond ρ β σ c <;> rw [hev] at h <;> exact h

/-- **full strength for conditions without shift operators** (in particular every
`x op len(s)` / `len(s) op x` / `x op y` / `x == 0` over variables and constants) -/
theorem compileCond_correct (vr vb vs : Nat → Nat) (ρ : Env) (β : List Bool) (σ : List Nat)
    (slen : Nat → Nat) (c : CondE) (st : St) (rf : RegFile) (nv : Nat) (tbl : List (BitVec 64))
    (ht : CondTyped c) (hv : CondVarsIn vr vb vs ρ β σ slen rf nv c) (hns : condNoShift c = true)
    (hnv : nv ≤ st.numRegs) (hp : (compileCond vr vb vs c st).st.consts <+: tbl) :
    match evalCond ρ β σ c with
    | .ok b => ∃ rf', runCond tbl slen (compileCond vr vb vs c st) rf = .ok (rf', b) ∧
        ∀ r, r ≤ st.numRegs → rf' r = rf r
    | .error f => runCond tbl slen (compileCond vr vb vs c st) rf = .error f :=
  compileCond_correct_partial vr vb vs ρ β σ slen c st rf nv tbl ht hv (condNonNeg_of_noShift ρ c hns) hnv hp

-- non-vacuity at the boundary: `v0 > len(s0)` with v0 = 2 = len(s0) (string register s1, length 2)
example :
    let c : CondE := .lenR .gt (.var .int 0) 0
    let rf : RegFile := fun _ => reg 2
    CondTyped c ∧ condNoShift c = true ∧
    CondVarsIn (· + 1) (· + 2) (· + 1) [2] [] [2] (fun _ => 2) rf 1 c ∧
    (compileCond (· + 1) (· + 2) (· + 1) c ⟨1, []⟩).code = [] ∧
    (compileCond (· + 1) (· + 2) (· + 1) c ⟨1, []⟩).test = .len 1 .lenLess (.reg 1) ∧
    evalCond [2] [] [2] c = .ok false := by
  refine ⟨rfl, rfl, ⟨⟨by decide, 2, rfl, by decide, by decide⟩, rfl⟩, by decide, by decide, rfl⟩

/-! ## struct values, field paths, and the per-function table of field-index paths

A selector `o.f` reaches the emitter as the index path `reflect.StructField.Index` of `f` (a
promoted field of an embedded struct has a path longer than one); the emitter stores the path in
the function's `FieldIndexes` table through `makeFieldIndex` and puts the POSITION into the
`Field` / `SetField` / `Addr` instruction; the VM's `fieldByIndex` walks the path it finds at that
position. `Model/Struct.lean` is the value side (trees, `select`, `update`, `==`, the selector
evaluator that is the oracle of stream 7), `Model/FieldIndex.lean` the table side, on comparisons
REGENERATED from `sameFieldIndex` / `makeFieldIndex` (`Gen/FieldIndex.lean`). -/
namespace Fields
open ScriggoV.Struct ScriggoV.FieldIndex ScriggoV.Gen.FieldIndex

/-- **Field-path resolution.** Selecting through `p ++ q` is selecting `q` in what `p` selects: the
promoted selector `o.P` (path `[0,0]`) IS `o.Inner.P` (`[0]` then `[0]`). -/
theorem select_append (p q : Path) (v : SVal) : select (p ++ q) v = (select p v).bind (select q) :=
  Struct.select_append p q v

/-- a chain of Go selectors `x.f.g…` evaluates to the selection of the concatenated paths -/
theorem selector_chain_is_path (ρ : Struct.Env) (e : Struct.Expr) (ps : List Path) :
    Struct.eval ρ (selChain e ps) = (Struct.eval ρ e).bind (select ps.flatten) :=
  eval_selChain ρ e ps

/-- writing through `p ++ q`: take the part at `p`, write `q` inside it, put it back -/
theorem update_append (p q : Path) (x v : SVal) :
    update (p ++ q) x v = (select p v).bind fun c => (update q x c).bind fun c' => update p c' v :=
  Struct.update_append p q x v

/-- what was written is what is read back through the same path -/
theorem select_after_update {p : Path} {x v v' : SVal} (h : update p x v = some v') :
    select p v' = some x := select_update_same h

/-- **prefix after a longer write** (`o.N += 10` then `o.Inner`): the part at the prefix is the old
part with the rest of the path written in it — never the written leaf itself -/
theorem select_prefix_after_update {p q : Path} {x v v' : SVal} (h : update (p ++ q) x v = some v') :
    ∃ c c', select p v = some c ∧ update q x c = some c' ∧ select p v' = some c' :=
  Struct.select_prefix_after_update h

/-- a write does not touch what a diverging path selects -/
theorem select_update_frame {p q : Path} {x v v' : SVal} (hd : diverge p q = true)
    (h : update p x v = some v') : select q v' = select q v := select_update_diverge hd h

/-- Go's `==` on struct values (field by field) is equality of the trees -/
theorem struct_eq_iff (a b : SVal) : a.beq b = true ↔ a = b := beq_iff_eq a b

/-- **assignment through a selector chain, then the same chain:** the assigned value; and (value
semantics) no other local changes — a copy `w := o` made before is not affected -/
theorem read_after_assign (s s' : State) (x : Nat) (chain : List Path) (e : Struct.Expr)
    (h : Stmt.exec s (.assign x chain e) = some s') :
    Struct.eval s'.env (selChain (.var x) chain) = Struct.eval s.env e ∧
    ∀ y, y ≠ x → s'.env[y]? = s.env[y]? := by
  simp only [Stmt.exec] at h
  cases ho : s.env[x]? with
  | none => simp [ho] at h
  | some o =>
    simp only [ho, Option.bind_some] at h
    cases hv : Struct.eval s.env e with
    | none => simp [hv] at h
    | some v =>
      simp only [hv, Option.bind_some] at h
      cases hu : update chain.flatten v o with
      | none => simp [hu] at h
      | some o' =>
        simp only [hu, Option.bind_some, setLocal] at h
        split at h
        · rename_i hlt
          simp only [Option.map_some, Option.some.injEq] at h
          subst h
          refine ⟨?_, ?_⟩
          · simp [eval_selChain, Struct.eval, hlt, select_update_same hu]
          · intro y hy
            simp [List.getElem?_set_ne (Ne.symm hy)]
        · simp at h

example : -- `o := Outer{Inner{Point{1,2},3},4}`: `o.P` is `o.Inner.P`, `o.N += 10` is seen through `o.Inner`
    let o : SVal := .node [.node [.node [.int 1, .int 2], .int 3], .int 4]
    select [0, 0] o = (select [0] o).bind (select [0]) ∧
    (Struct.run [.opAssign 0 [[0, 1]] (.lit 10), .print (.sel (.sel (.var 0) [0]) [1])] ⟨[o], []⟩).map (·.out.length) = some 1 := by
  refine ⟨rfl, by decide⟩

/-- **`sameFieldIndex` compares by FULL equality** (regenerated guard and loop): it never faults
and answers true exactly for the same path — in particular not for a proper prefix -/
theorem sameFieldIndex_is_equality (i1 i2 : Path) : sameFieldIndex i1 i2 = .ok (decide (i1 = i2)) :=
  sameFieldIndex_eq i1 i2

example : sameFieldIndex [0] [0, 0] = .ok false ∧ sameFieldIndex [0, 0] [0] = .ok false ∧
    sameFieldIndex [0, 1] [0, 1] = .ok true := ⟨rfl, rfl, rfl⟩

/-- **a lookup answers a position whose stored path IS the requested path**, the first such
position; the table is only ever appended to; the only failure is the limit, with the path absent -/
theorem makeFieldIndex_complete (tbl : List Path) (p : Path) :
    (∃ i, makeFieldIndex tbl p = .ok (i, tbl) ∧ tbl[i]? = some p ∧ ∀ j, j < i → tbl[j]? ≠ some p) ∨
    (p ∉ tbl ∧ limitReached tbl.length = false ∧ makeFieldIndex tbl p = .ok (tbl.length, tbl ++ [p])) ∨
    (p ∉ tbl ∧ limitReached tbl.length = true ∧ makeFieldIndex tbl p = .error .limit) :=
  makeFieldIndex_spec tbl p

theorem makeFieldIndex_stored_is_requested {tbl tbl' : List Path} {p : Path} {i : Nat}
    (h : makeFieldIndex tbl p = .ok (i, tbl')) : tbl'[i]? = some p ∧ tbl <+: tbl' :=
  ⟨makeFieldIndex_lookup h, makeFieldIndex_extends h⟩

/-- the table holds no path twice, and positions fit the `int8`/`uint8` operand they travel in -/
theorem makeFieldIndex_invariants {tbl tbl' : List Path} {p : Path} {i : Nat}
    (h : makeFieldIndex tbl p = .ok (i, tbl')) (hn : tbl.Nodup) (hl : tbl.length ≤ maxFieldIndexesCount) :
    tbl'.Nodup ∧ tbl'.length ≤ maxFieldIndexesCount ∧ readBack i = i := by
  have hf := makeFieldIndex_fits h hl
  exact ⟨makeFieldIndex_nodup h hn, hf.2, readBack_of_lt (by omega)⟩

/-- **what the disassembler prints is what the source asked for:** for the emitter's requests of a
whole function body, in order, every `Field` / `SetField` instruction refers — in the function's
FINAL table — to the path requested when it was emitted, whatever was requested before or after -/
theorem printed_paths_are_requested (evs : List Ev) (code : List FI) (tbl : List Path)
    (h : compileEvents evs [] = .ok (code, tbl)) :
    code.map (printed tbl) = (requested evs).map some :=
  (compileEvents_paths evs [] code tbl h (by simp)).2.2 tbl (List.prefix_refl _)

/-- **and the instructions do what the selectors say:** whole-selector reads and writes compiled
through the table and run by a VM that walks the path stored at the instruction's position -/
theorem selectors_compile_correct (ss : List SStmt) (code : List SInstr) (tbl : List Path)
    (h : compileS ss [] = .ok (code, tbl)) (rs : Regs) : execAll tbl code rs = evalAll ss rs :=
  (compileS_correct ss [] code tbl h (by simp)).2.2 tbl (List.prefix_refl _) rs

example : -- the promoted field first, then the embedded struct itself: two entries, two positions
    compileEvents [.read [0, 0], .read [0], .addr [0, 1], .read [0, 1], .store [0, 1], .read [0]] [] =
      .ok ([.field 0, .field 1, .field 2, .setField 2, .field 1], [[0, 0], [0], [0, 1]]) := rfl

end Fields

/-! ## the value result of a comma-ok / may-fail instruction: zero on the failing path

`Gen/CommaOk.lean` is regenerated from run.go / registers.go / emitter_util.go on every check: the
statements of `OpAssert` (per `reflect.Kind` of the asserted type), `OpMapIndex` and `OpReceive` that
decide what reaches the destination operand `c`, the bank `setFromReflectValue` writes per kind, the
bank the emitter allocates per kind. Over these definitions, for EVERY kind, EVERY previous content
of the register file and EVERY destination register: -/
namespace CommaOk
open ScriggoV.CommaOk ScriggoV.Gen.CommaOk

/-- **after a failed comma-ok assertion the destination holds the zero value, whatever the
register held before** (`s, ok := x.(T)` with `x` of another type, or nil), in the bank the emitter
reads for a type of this kind; and no other register of the frame is touched. `v` is the operand's
dynamic value: it is not looked at on this path. -/
theorem assert_fail_zero (k : RKind) (rf : CommaOk.RegFile) (v c : Nat) :
    ∃ rf', CommaOk.run (assertBranch k) k false v c rf = some rf' ∧ Writes rf rf' (emitterBank k) c 0 :=
  run_of_checkForm (f := .assert) (s := .zero)
    (forall_kinds (p := checkForm .assert false .zero) (by decide) k) v c rf

/-- on the successful path the destination holds the asserted value -/
theorem assert_ok_value (k : RKind) (rf : CommaOk.RegFile) (v c : Nat) :
    ∃ rf', CommaOk.run (assertBranch k) k true v c rf = some rf' ∧ Writes rf rf' (emitterBank k) c v :=
  run_of_checkForm (f := .assert) (s := .v)
    (forall_kinds (p := checkForm .assert true .v) (by decide) k) v c rf

/-- **`v, ok := m[k]` (and `v := m[k]`) with the key absent: the zero value of the element type** -/
theorem mapIndex_absent_zero (k : RKind) (rf : CommaOk.RegFile) (v c : Nat) :
    ∃ rf', CommaOk.run mapIndexBody k false v c rf = some rf' ∧ Writes rf rf' (emitterBank k) c 0 :=
  run_of_checkForm (f := .mapIndex) (s := .zero)
    (forall_kinds (p := checkForm .mapIndex false .zero) (by decide) k) v c rf

theorem mapIndex_present_value (k : RKind) (rf : CommaOk.RegFile) (v c : Nat) :
    ∃ rf', CommaOk.run mapIndexBody k true v c rf = some rf' ∧ Writes rf rf' (emitterBank k) c v :=
  run_of_checkForm (f := .mapIndex) (s := .v)
    (forall_kinds (p := checkForm .mapIndex true .v) (by decide) k) v c rf

/-- **`v, ok := <-ch` (and `v := <-ch`) on a closed channel: the zero value of the element type**
(reflect's `Recv` / `Select` hand out the zero Value then: `Src.recv`; the obligation on the code is
that the destination is written on this path too) -/
theorem receive_closed_zero (k : RKind) (rf : CommaOk.RegFile) (v c : Nat) :
    ∃ rf', CommaOk.run receiveBody k false v c rf = some rf' ∧ Writes rf rf' (emitterBank k) c 0 :=
  run_of_checkForm (f := .receive) (s := .zero)
    (forall_kinds (p := checkForm .receive false .zero) (by decide) k) v c rf

theorem receive_value (k : RKind) (rf : CommaOk.RegFile) (v c : Nat) :
    ∃ rf', CommaOk.run receiveBody k true v c rf = some rf' ∧ Writes rf rf' (emitterBank k) c v :=
  run_of_checkForm (f := .receive) (s := .v)
    (forall_kinds (p := checkForm .receive true .v) (by decide) k) v c rf

/-- the emitter and the VM agree on the bank of every kind (`kindToType` / `setFromReflectValue`) -/
theorem setter_bank_is_emitter_bank (k : RKind) : setterBank k = emitterBank k := by
  have h := forall_kinds (p := fun k => decide (setterBank k = emitterBank k)) (by decide) k
  simpa using h

/-- **a site executed again and again** (a loop, a function called several times, the same temporary
register reused by later statements): with the register file kept from one execution to the next,
the VM model yields what Go says — the value and `true`, or the zero value and `false`, each time,
whatever succeeded or failed before and whatever the registers held at the start -/
theorem vmRun_eq_spec (f : Form) (k : RKind) (c : Nat) (es : List Exec) (rf : CommaOk.RegFile) :
    vmRun f k c es rf = some (spec es) := by
  cases f with
  | assert => exact vmRun_eq_spec_of .assert k c (fun v rf => assert_fail_zero k rf v c) (fun v rf => assert_ok_value k rf v c) es rf
  | mapIndex => exact vmRun_eq_spec_of .mapIndex k c (fun v rf => mapIndex_absent_zero k rf v c) (fun v rf => mapIndex_present_value k rf v c) es rf
  | receive => exact vmRun_eq_spec_of .receive k c (fun v rf => receive_closed_zero k rf v c) (fun v rf => receive_value k rf v c) es rf

-- non-vacuity: a stale register is really overwritten; and a destination code that writes only on
-- the successful path (the shape `if ok { vm.setString(c, v.String()) }`) does NOT pass the check
example : (vmRun .assert .string 3 [⟨true, 7⟩, ⟨false, 0⟩, ⟨true, 9⟩, ⟨false, 0⟩] (fun _ _ => 5)) =
    some [(7, true), (0, false), (9, true), (0, false)] := by decide
example : goodWrites ((writes [⟨true, .set .string .v⟩] .string false).getD []) .string .zero = false := by decide
example : (CommaOk.run [⟨true, .set .string .v⟩] .string false 0 3 (fun _ _ => 5)).map (· .string 3) = some 5 := by decide

end CommaOk

end ScriggoV.C01
