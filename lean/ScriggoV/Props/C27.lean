import ScriggoV.Lemmas.ExprPPMain
import ScriggoV.Lemmas.ExprPPNorm
import ScriggoV.Spec.GoPrecedence
import ScriggoV.Model.OpTables
/-!
# C27 — printing a parsed syntax tree gives source that parses back to the same tree

Fragment: identifiers, literals of the five kinds (opaque tokens), the 8 unary and 23 binary
operators (template operators included), calls (any number of arguments, variadic), conversions,
index, slicing (2 and 3 indexes), selector, type assertion, the template `default` expression,
type expressions `T`, `p.T`, `*T`, `(T)`, `[]T`, `[n]T`, `[...]T`, `map[K]V`, `chan T`, `<-chan T`,
`chan<- T`, `interface{}`, parentheses (any count on any node). Function, struct and composite
literals and function types are outside. `print` is
`ast.String()` as tokens, `parse` is `parseExpr` (Model/ExprPP.lean); the precedence table, the
operator spellings and the three parenthesisation conditions are regenerated from `ast/ast.go`
(Gen/Precedence.lean) on every check.

Operator tables (`Gen/OpTokens.lean`, `Model/OpTables.lean`): for every constant of
`AssignmentType` and `OperatorType`, constant → text of `String()` → lexer token → constant of the
parser's switch is the identity (`assignment_operator_roundtrip`, `binary_operator_roundtrip`,
`unary_operator_roundtrip`), by `decide` over the whole regenerated tables; every `String` method of
`ast.go` is classified (`string_methods_classified`). Statements themselves are round-tripped on
the real code only (go/props/c27/stmt.go).

The full statement (`FullStatement`) is false of the code today (`fullStatement_false`, witness
`(-x0).x1`, known finding postfix-operand-parens): the model mirrors the printer as it is. On the
sub-fragment `Plain` the round trip is proved for every tree (`roundtrip_partial`).

The real tree records parentheses as a count on the node and `String()` ignores the count, so
`parse (print e) = some e` is false by design (`ExactStatement`, refuted by `(x)`); what holds is
`parse (print e) = some (norm e)`, where `norm e` is `e` with exactly the parentheses the printer
writes: same tree up to parentheses counts (`roundtrip_strip_partial`), and exact for every tree
that is itself the result of parsing printed source (`roundtrip_exact_on_reparsed_partial`).
-/
namespace ScriggoV.Props.C27
open ScriggoV.ExprPP ScriggoV.Gen.Precedence ScriggoV.Spec.GoPrecedence
open ScriggoV.Gen.OpTokens ScriggoV.OpTables

/-! ## the generated tables -/

/-- `(*BinaryOperator).Precedence()` never reaches `panic("invalid operator type")` on an operator
the parser builds -/
theorem precedence_defined (b : BinOp) : binaryPrecedence b.toOp = some (bprec b) := bprec_defined b

/-- the operators that have a case in `Precedence()` are exactly the binary operators of the model -/
theorem binary_operators_complete (op : Op) :
    (binaryPrecedence op).isSome = true ↔ ∃ b : BinOp, b.toOp = op := by
  constructor
  · intro h
    cases op <;> first
      | (simp [binaryPrecedence] at h; done)
      | exact ⟨.eq, rfl⟩ | exact ⟨.ne, rfl⟩ | exact ⟨.lt, rfl⟩ | exact ⟨.le, rfl⟩ | exact ⟨.gt, rfl⟩
      | exact ⟨.ge, rfl⟩ | exact ⟨.bitAnd, rfl⟩ | exact ⟨.bitOr, rfl⟩ | exact ⟨.and, rfl⟩ | exact ⟨.or, rfl⟩
      | exact ⟨.add, rfl⟩ | exact ⟨.sub, rfl⟩ | exact ⟨.mul, rfl⟩ | exact ⟨.div, rfl⟩ | exact ⟨.mod, rfl⟩
      | exact ⟨.xor, rfl⟩ | exact ⟨.andNot, rfl⟩ | exact ⟨.shl, rfl⟩ | exact ⟨.shr, rfl⟩
      | exact ⟨.contains, rfl⟩ | exact ⟨.notContains, rfl⟩ | exact ⟨.extAnd, rfl⟩ | exact ⟨.extOr, rfl⟩
  · rintro ⟨b, rfl⟩
    rw [bprec_defined]; rfl

/-- every binary operator binds less tightly than every unary operator (what makes
`UnaryOperator.String` parenthesise every operator operand) -/
theorem binary_below_unary (b : BinOp) : bprec b < unaryPrecedence := bprec_lt_uprec b

/-- the precedence table of `ast.go` is the one of the Go specification (extended with the
template operators) -/
theorem precedence_is_go_spec (b : BinOp) : bprec b = goPrec b := by
  cases b <;> rfl

/-- the printer's spelling of a binary operator (`OperatorType.String()`) is the text of the tokens
the model prints -/
theorem binary_spelling (b : BinOp) :
    " ".intercalate ((binToks b).map fun t => match t with | .op o => o.text | _ => "?") = b.toOp.str := by
  cases b <;> rfl

theorem unary_spelling (u : UnOp) : (unTok u).text = u.toOp.str := by
  cases u <;> rfl

/-- the parser maps the printed token(s) of an operator back to the operator -/
theorem unary_token_roundtrip (u : UnOp) : unaryOf (unTok u) = some u := unaryOf_unTok u

/-! ## the operator tables, from the constant to printed text and back

`constant ─String()→ text ─lexer→ token ─parser switch→ constant` is the identity for every
constant of every operator enumeration of `ast.go`. All four tables are regenerated from the Go
sources (`Gen/OpTokens.lean`, `Gen/Precedence.lean`); a constant that is added without its entries
makes the `cases` incomplete or the `decide` false. -/

/-- **Assignment operators**: what `(*Assignment).String()` writes for the constant `a` is one
word, the lexer's token for that word is an assignment token, and `assignmentType` maps it back to
`a` — for each of the `AssignmentType` constants, in both syntaxes. -/
theorem assignment_operator_roundtrip (a : Assign) (template : Bool) :
    parseAssignOp template a.printed = some a := by
  cases a <;> cases template <;> decide

/-- **Binary operators**: every `OperatorType` constant that has a precedence (`BinaryOperator`)
is printed by `OperatorType.String()` as one or two words whose tokens make `parseExpr` build a
`BinaryOperator` with that very constant. -/
theorem binary_operator_roundtrip (op : Op) (h : (binaryPrecedence op).isSome = true) :
    parseBinaryOp op.str = some op := by
  cases op <;> first | (simp [binaryPrecedence] at h; done) | decide

/-- **Unary operators**: every other `OperatorType` constant is printed as one word whose token makes
`parseExpr` build a `UnaryOperator` with that constant. Together with the previous theorem: every
constant of `OperatorType` is covered. -/
theorem unary_operator_roundtrip (op : Op) (h : binaryPrecedence op = none) :
    parseUnaryOp op.str = some op := by
  cases op <;> first | (simp [binaryPrecedence] at h; done) | decide

/-- the hand-written parser model maps operator tokens to operators exactly as the generated
tables of the lexer and of `parseExpr` do (unary position) -/
theorem unaryOf_is_source (o : OpTok) :
    (unaryOf o).map UnOp.toOp = (lexWord true o.text).bind parseUnary := by
  cases o <;> decide

/-- … and in binary position -/
theorem binaryOf_is_source (o : OpTok) :
    (binaryOf o).map BinOp.toOp = (lexWord true o.text).bind parseBinary := by
  cases o <;> decide

/-- no text of the lexer tables is shadowed by an earlier entry with another token -/
theorem lex_tables_consistent :
    (∀ e ∈ lexEmits, lexWord false e.1 = some e.2) ∧ (∀ e ∈ keywords, lexWord false e.1 = some e.2) ∧
    (∀ e ∈ templateKeywords, lexWord true e.1 = some e.2 ∧ lexWord false e.1 = none) := by
  decide

/-- every type of `ast.go` with a `String` method is classified: round-tripped by the expression
streams, by the statement streams, a description by design, or not a node. A new `String` method
has to be put into one of the lists (and the harness has to produce cases for the first two). -/
theorem string_methods_classified :
    ∀ n ∈ stringMethods, n ∈ roundTripExpr ∨ n ∈ roundTripStmt ∨ n ∈ notSource ∨ n ∈ notNodes := by
  decide

/-- the classification names only node types that exist and do have a `String` method -/
theorem classification_names_exist :
    ∀ n ∈ roundTripExpr ++ roundTripStmt ++ notSource, n ∈ nodeTypes ∧ n ∈ stringMethods := by
  decide

/-! ### string-typed fields -/

/-- **Full statement**: every field the parser fills with the *content* of a string literal
(`unquoteString`) is written by its `String` method through `strconv.Quote` — never between plain
quotes. -/
def UnquotedFieldsQuoted : Prop :=
  ∀ e ∈ parserUnquotes, ∀ w ∈ writesOf e.1 e.2, w = Write.quote

/-- It is false of the code today: `Field.String` writes the struct tag between backquotes as it is
(known finding struct-tag-backquote: a tag with a backquote does not come back). -/
theorem unquotedFieldsQuoted_false : ¬ UnquotedFieldsQuoted := by
  intro h
  have := h ("Field", "Tag") (by decide) Write.backquote (by decide)
  exact absurd this (by decide)

/-- **Every other field** that holds the content of a string literal — the paths of `render`,
`extends` and `import` — is written through `strconv.Quote`, in every place its `String` method
writes it. Missing for the full statement: `Field.Tag`. -/
theorem unquoted_fields_quoted_partial :
    ∀ e ∈ parserUnquotes, e ≠ ("Field", "Tag") → ∀ w ∈ writesOf e.1 e.2, w = Write.quote := by
  decide

/-- … and they are written at all (the statement above is not vacuous for them) -/
theorem path_fields_are_written :
    writesOf "Render" "Path" = [Write.quote] ∧ writesOf "Extends" "Path" = [Write.quote] ∧
    writesOf "Import" "Path" = [Write.quote] ∧
    ("Render", "Path") ∈ parserUnquotes ∧ ("Extends", "Path") ∈ parserUnquotes ∧ ("Import", "Path") ∈ parserUnquotes := by
  decide

/-- conversely, a field that is written as it is holds the text of the token, not an unquoted
content: literals, identifiers, template text -/
theorem plain_fields_hold_source_text :
    ∀ e ∈ stringWrites, e.2.2 = Write.plain → (e.1, e.2.1) ∉ parserUnquotes := by
  decide

example : parseAssignOp false " >>= " = some .RightShift := by decide
example : parseAssignOp false " <<= " = some .LeftShift := by decide
example : parseAssignOp false "++" = some .Increment := by decide
example : parseAssignOp false " >> " = none := by decide
example : parseBinaryOp "not contains" = some .NotContains := by decide
example : parseUnaryOp "&" = some .Address ∧ parseBinaryOp "&" = some .BitAnd := by decide
example : lexWord false "contains" = none ∧ lexWord true "contains" = some .tokenContains := by decide

/-! ## the round trip -/

/-- **The property at full strength on the fragment**: the printed form of every tree the parser can
build parses back to the same tree, parentheses counts ignored. -/
def FullStatement : Prop := ∀ e, WF e → (parse (print e)).map strip = some (strip e)

/-- `(-x0).x1`: printed `-x0.x1`, which is `-(x0.x1)` — finding postfix-operand-parens -/
def witness : Expr := .selector (.paren (.unary .minus (.ident 0))) 1

/-- It is false of the code today: `Selector.String`, `Index.String` and `Call.String` do not
parenthesise an operand that is a unary or binary operator. -/
theorem fullStatement_false : ¬ FullStatement := by
  intro h
  have h1 := h witness (by simp [witness, WF])
  have h2 : parse (print witness) = some (.unary .minus (.selector (.ident 0) 1)) := by rfl
  rw [h2] at h1
  simp [witness, strip] at h1

/-- **Round trip, every tree of the fragment outside the finding** (`Plain e`: the operand of a
call, index or selector is not a unary/binary operator, except `*x`/`<-x` under a call, which
`Call.String` parenthesises). The printed form of `e` parses, and the result is `e` with exactly the
parentheses the printer wrote. Missing for `FullStatement`: the trees that are not `Plain`. -/
theorem roundtrip_partial (e : Expr) (wf : WF e) (pl : Plain e) : parse (print e) = some (norm e) := by
  obtain ⟨s, hr, _, hf⟩ := (invariants e).2.2 wf pl []
  have hr' : run St.init (print e) = some s := hr
  simp [parse, hr', hf, closeDflt]

/-- … which is `e` itself when parentheses counts are ignored (the property's "structurally
identical tree") -/
theorem roundtrip_strip_partial (e : Expr) (wf : WF e) (pl : Plain e) :
    (parse (print e)).map strip = some (strip e) := by
  rw [roundtrip_partial e wf pl]; simp [strip_norm]

/-- … and exactly the same tree, counts included, for every tree obtained by parsing printed
source: print → parse is the identity on the parser's results for printed sources -/
theorem roundtrip_exact_on_reparsed_partial (e : Expr) (wf : WF e) (pl : Plain e) :
    parse (print (norm e)) = some (norm e) := by
  rw [roundtrip_partial (norm e) (WF_norm e wf) (Plain_norm e pl), norm_norm]

/-- two trees that differ only in parentheses counts print the same -/
theorem print_norm_eq (e : Expr) : print (norm e) = print e := print_norm e

/-- the statement with `e` itself on the right-hand side -/
def ExactStatement : Prop := ∀ e, WF e → Plain e → parse (print e) = some e

/-- it is false by design of the tree (`(x)` is the node `x` with count 1, printed `x`): hence `norm` -/
theorem exactStatement_false : ¬ ExactStatement := by
  intro h
  have := h (.paren (.ident 0)) (by simp [WF]) (by simp [Plain])
  rw [roundtrip_partial _ (by simp [WF]) (by simp [Plain])] at this
  simp [norm] at this

/-! ## the statements are not vacuous -/

/-- `(*x0)(x1 - (x1 - 2), x2[3:x1 default 4]...).x4.(map[x0][]*x1.x2) * -(-[2]chan (<-chan x3)(x5))` -/
def sample : Expr :=
  .binary .mul
    (.typeAssert
      (.selector (.call (.unary .pointer (.ident 0)) [.binary .sub (.ident 1) (.binary .sub (.ident 1) (.lit .IntLiteral 2)),
        .slicing (.ident 2) (some (.lit .IntLiteral 3)) (some (.dflt (.ident 1) (.lit .FloatLiteral 4))) none false] true) 4)
      (.mapT (.ident 0) (.sliceT (.unary .pointer (.selector (.ident 1) 2)))))
    (.unary .minus (.unary .minus
      (.call (.arrayT (some (.lit .IntLiteral 2)) (.chanT .NoDirection (.chanT .ReceiveDirection (.ident 3)))) [.ident 5] false)))

example : WF sample := by simp [sample, WF, WFArgs, WFOpt, IsType, Expr.core, dfltLhsOk]
example : Plain sample := by
  simp [sample, Plain, PlainArgs, PlainOpt, isOperator, Expr.prec?, callParens, Expr.core, isDflt, endsTy, startsChan]

example : (parse (print sample)).isSome = true := by
  rw [roundtrip_partial sample (by simp [sample, WF, WFArgs, WFOpt, IsType, Expr.core, dfltLhsOk])
    (by simp [sample, Plain, PlainArgs, PlainOpt, isOperator, Expr.prec?, callParens, Expr.core, isDflt, endsTy, startsChan])]
  rfl

example : print (.typeAssert (.ident 0) (.chanT .NoDirection (.chanT .ReceiveDirection (.ident 1)))) =
    [.ident 0, .period, .lparen, .kwChan, .lparen, .op .arrow, .kwChan, .ident 1, .rparen, .rparen] := by
  decide

/-- the parser is not the constant function: precedence decides the grouping -/
example : (parse [.ident 0, .op .plus, .ident 1, .op .star, .ident 2]).map print =
    (parse [.ident 0, .op .plus, .lparen, .ident 1, .op .star, .ident 2, .rparen]).map print := by
  decide

example : parse [.ident 0, .op .plus] = none := by decide

end ScriggoV.Props.C27
