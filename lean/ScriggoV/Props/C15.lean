import ScriggoV.Lemmas.CutSpecFacts
import ScriggoV.Lemmas.CutRaw
import ScriggoV.Lemmas.CutTok
import ScriggoV.Lemmas.CutLexLines
import ScriggoV.Gen.LexAdvance
/-! C15 — template text is emitted verbatim except for the documented removals.

Model: `Model/Cut.lean` (`render`): delimiter-level tokenizer for a fixed vocabulary, the token
loop of `ParseTemplateSource` with `cutSpaces`, the emitter's checked slicing, concatenation.
Specification: `Spec/CutSpec.lean`: `specRender`, the rule on lines, and `engineRender`, the rule
with the two extra line breaks the engine makes before a comment that spans lines or ends the
file.

What is proved, for every source whose code parts are in the vocabulary (`tokenize … = .ok raws`):

* `tokenize_invariant` — the tokenizer's output is well-formed (`WF`: no empty text, no two
  adjacent texts, …), by an invariant of the scanning loop.
* `render_multiline_comment_spec` (full strength) — the model's output is `engineRender`: the
  line rule, a comment that spans lines being counted on the line where it ends and the line
  before a file-final comment being closed at it. `render_no_fault`: the emitter's slice never
  faults (how the panic of fixes/C15-multiline-statement-cut.md was found).
* `output_is_text_minus_cuts_partial` — without such comments (`inClass`) that is exactly the
  documented rule `specRender`. `FullStatement` (the same for all sources) is false of the code
  today: `not_fullStatement` (known finding `multiline-comment-counted-on-last-line`).
* `removed_subset_documented` (full strength) — the output is the lines of the source in order,
  each either as it is or, when it holds exactly one token, cuttable, and otherwise blanks,
  without its text; a LF is always the last item of its line. So no non-blank text byte is ever
  removed, comments that span lines included.
* `raw_verbatim` — every complete line of a text token after its first LF is output exactly;
  `endRawIndex_spec` — a raw block ends at the first end statement with its marker.
* `no_cut_with_middle_text` — what fix C15-cut-middle-text guarantees: a line that holds a
  text other than its first one is never cut (this is what happens when URL tokens split a text).

* `model_lines_count_LF`, `lexer_steps_count_LF`, `lexer_rune_steps_not_LF` — the line numbers the
  cut rule reads. The model numbers tokens by counting the LF before them; the engine reads the
  lexer's hidden `lin`. Over the bookkeeping regenerated from lexer.go on every check
  (`Gen/LexAdvance.lean`, shared with C21): every path of the lexer's byte walks adds to `l.line`
  exactly the number of LF among the bytes it steps over, in every context.

The tie to internal/compiler is the correspondence harness go/props/c15. -/
deriving instance DecidableEq for Except

namespace ScriggoV.Cut
open ScriggoV.CutSpec

/-- **the tokenizer's invariant**: whatever the scanning loop returns is well-formed — no empty
text token, no two adjacent text tokens, the loop sees a proper prefix of a statement or show
and the whole of a comment. (It used to be checked at run time inside `tokenize`.) -/
theorem tokenize_invariant {f : Format} {body : Bytes} {raws : List Raw}
    (h : tokenize f body = .ok raws) : WF raws = true := scanAll_wf h

theorem tokenize_wf {f : Format} {body : Bytes} {raws : List Raw} (h : tokenize f body = .ok raws) :
    WF raws = true := tokenize_invariant h

/-- **C15, what the engine does, at full strength.** For every source of the vocabulary the
output of the parser's line accounting, `cutSpaces` and the emitter is the source's text with
exactly these removals: syntax, comments, the shebang line, and each line that holds exactly one
token, cuttable, and otherwise only blanks (its LF included) — where a *line* ends after each LF
of the text, and also before a comment that spans lines and before a comment that ends the
file; a line closed by such a comment is removed only if its token is the last thing on it. -/
theorem render_multiline_comment_spec (f : Format) (src : Bytes) (raws : List Raw)
    (ht : tokenize f (dropShebang src) = .ok raws) :
    render f src = .ok (engineRender raws) := by
  unfold render
  rw [dropShebang_eq] at ht
  simp only [ht]
  rw [renderRaws_eq_engine raws _ _ (tokenize_wf ht) (by split <;> decide)]

/-- **no slice fault**: `Text[Cut.Left : len-Cut.Right]` is in range for every source; the only
errors of `render` are the tokenizer's -/
theorem render_no_fault (f : Format) (src : Bytes) : ∀ e, render f src ≠ .error (.fault e) := by
  intro e h
  cases ht : tokenize f (dropShebang src) with
  | ok raws => rw [render_multiline_comment_spec f src raws ht] at h; cases h
  | error te =>
    unfold render at h
    rw [dropShebang_eq] at ht
    simp only [ht] at h
    cases h

/-- **C15, main theorem (partial: class `inClass`).** For every source of the vocabulary whose
comments stay on one line and which does not end with a comment, what the parser's line
accounting, `cutSpaces` and the emitter's `Text[Cut.Left : len-Cut.Right]` produce is the
source's text with exactly the removals of the rule: syntax, comments, each blank line whose
only token is cuttable (LF included), the shebang line. Missing for the full statement:
comments that span lines and a final comment, where the engine deviates (`not_fullStatement`). -/
theorem output_is_text_minus_cuts_partial (f : Format) (src : Bytes) (raws : List Raw)
    (ht : tokenize f (dropShebang src) = .ok raws) (hcl : inClass raws = true) :
    render f src = .ok (specRender raws) := by
  unfold render
  rw [dropShebang_eq] at ht
  simp only [ht]
  rw [renderRaws_eq_spec raws _ _ (tokenize_wf ht) hcl (by split <;> decide)]

/-- the same, against the rule applied to the source -/
theorem render_eq_specSource_partial (f : Format) (src : Bytes) (raws : List Raw)
    (ht : tokenize f (dropShebang src) = .ok raws) (hcl : inClass raws = true) :
    (specSource f src).toOption = (render f src).toOption := by
  rw [output_is_text_minus_cuts_partial f src raws ht hcl]
  simp [specSource, ht, Except.map, Except.toOption]

/-- the full statement: the same for every source of the vocabulary -/
def FullStatement : Prop :=
  ∀ (f : Format) (src : Bytes) (raws : List Raw),
    tokenize f (dropShebang src) = .ok raws → render f src = .ok (specRender raws)

/-- `"  {# c\n #}\nx"`: the comment is counted on the line where it ends, so the two spaces
before it stay and the LF after it goes: the engine (and the model) give `"  x"`, the rule `"x"` -/
def witness : Bytes := [32, 32, 123, 35, 32, 99, 10, 32, 35, 125, 10, 120]

theorem not_fullStatement : ¬ FullStatement := by
  intro h
  have h1 : tokenize .text (dropShebang witness)
      = .ok [.text [32, 32], .nt ⟨true, true, [], 1, 8, 8⟩, .text [10, 120]] := by decide +kernel
  have h2 := h .text witness _ h1
  have h3 : render .text witness = .ok [32, 32, 120] := by decide +kernel
  rw [h3] at h2
  revert h2
  decide +kernel

/-- **only documented bytes are removed** (full strength: comments that span lines included).
The output is made of the lines of the source in order (their concatenation is the source:
nothing is lost or reordered between lines); each line is either output as it is — its text
bytes, the values of its shows — or it holds exactly one token, which is cuttable, all of its
text bytes are a space, a tab, a CR or a LF, and it is output without its text; a LF is the
last item of its line. -/
theorem removed_subset_documented (raws : List Raw) (firstLine skipped : Nat)
    (hwf : WF raws = true) (hfl : 0 < firstLine) :
    ∃ ls : List (Bool × List Item), (ls.map (·.2)).flatten = items raws
      ∧ renderRaws firstLine skipped raws = .ok (ls.flatMap renderLineE)
      ∧ ∀ l ∈ ls,
          (renderLineE l = keepLine l.2
            ∨ (renderLineE l = cutLine l.2 ∧ (∃ t, lineToks l.2 = [t] ∧ t.cuttable = true)
                ∧ ∀ b, Item.byte b ∈ l.2 → isBlank b = true ∨ b = LF))
          ∧ ∃ body, noLFItems body = true ∧ (l.2 = body ∨ l.2 = body ++ [.byte LF]) := by
  refine ⟨splitLinesE (items raws) [], by simpa using splitLinesE_flatten (items raws) [],
    renderRaws_eq_engine raws _ _ hwf hfl, ?_⟩
  intro l hl
  constructor
  · rcases renderLineE_cases l with h | ⟨h1, h2, h3⟩
    · exact Or.inl h
    · exact Or.inr ⟨h1, h2, fun b hb => lineBlank_mem h3 b hb⟩
  · exact splitLinesE_LF_last _ [] rfl l hl

/-- **what happens when something splits a text** (URL tokens, which the model does not
produce, split a text in the real lexer; so does nothing else). Whatever the token list, a line
under construction that holds a text other than its first one fails the parser's test
`p.cutSpacesToken && numTokenInLine == 1`: since fix C15-cut-middle-text such a text counts in
`numTokenInLine`, so `cutSpaces` — which looks at the first text and at the text after the
line only — is not called, and the line is output as it is. -/
theorem no_cut_with_middle_text {ms : PSt} {X : Bytes} {cutL : Nat} {D : Bytes}
    (inv : Inv ms X cutL D) (t : TextNode) (ht : Node.text t ∈ ms.rest) :
    (ms.cst && ms.num == 1) = false := by
  have hnum := inv.hnum
  have hcst := inv.hcst
  cases hr : ms.rest with
  | nil => rw [hr] at ht; cases ht
  | cons n tl =>
    cases tl with
    | nil =>
      rw [hr] at ht hcst
      simp only [List.mem_singleton] at ht
      subst ht
      simp [hcst, Node.cuttable]
    | cons m tl' =>
      rw [hr] at hnum
      simp [hnum]

/-- **text between its first and last LF is output exactly**, whatever surrounds it — for the
content of a raw block: everything but the rest of the `{% raw %}` line and the beginning of
the `{% end raw %}` line (`doneAux R [] ++ lastAux R [] = R`). -/
theorem raw_verbatim (pre post : List Raw) (H R : Bytes) (hH : noLF H = true) :
    specRender (pre ++ .text (H ++ LF :: R) :: post)
      = (splitPre (items pre) []).1.flatMap renderLine
        ++ renderLine ((splitPre (items pre) []).2 ++ bytesI H ++ [.byte LF])
        ++ doneAux R []
        ++ (splitLines (items post) (bytesI (lastAux R []))).flatMap renderLine := by
  unfold specRender lines
  rw [items_append, splitLines_append]
  simp only [items]
  have e : List.map Item.byte (H ++ LF :: R) = bytesI (H ++ LF :: R) := rfl
  rw [e, splitLines_first_LF H R _ _ hH]
  have := render_text_lines R [] (items post)
  simp only [bytesI_nil] at this
  simp only [List.flatMap_append, List.flatMap_cons, this, List.append_assoc]

theorem raw_verbatim_model (pre post : List Raw) (H R : Bytes) (hH : noLF H = true)
    (firstLine skipped : Nat) (hwf : WF (pre ++ .text (H ++ LF :: R) :: post) = true)
    (hcl : inClass (pre ++ .text (H ++ LF :: R) :: post) = true) (hfl : 0 < firstLine) :
    ∃ before after, renderRaws firstLine skipped (pre ++ .text (H ++ LF :: R) :: post)
      = .ok (before ++ doneAux R [] ++ after) := by
  rw [renderRaws_eq_spec _ _ _ hwf hcl hfl, raw_verbatim pre post H R hH]
  exact ⟨_, _, rfl⟩

/-- **where a raw block ends.** `endRawIndex` (the mirror of lexer.go's function: `{%`, raw
spaces, `end`, optionally `raw` after a space, the marker, `%}`) returns the *first* position
of the content at which an end statement with the block's marker starts: there `matchEndRaw`
succeeds, and at every `{` before it fails; when it returns none it fails at every `{`. So a
`{%` (with or without spaces, `e`, `en`, `end`, a wrong marker … after it) directly before the
real end statement is content, and no end statement is ever stepped over. -/
theorem endRawIndex_spec (marker src : Bytes) :
    (∀ k, endRawIndex marker src 0 = .ok (some k) →
      ∃ pre s, src = pre ++ 123 :: s ∧ k = pre.length ∧ matchEndRaw marker s = .ok true
        ∧ ∀ pre' s', src = pre' ++ 123 :: s' → pre'.length < pre.length →
            matchEndRaw marker s' = .ok false)
    ∧ (endRawIndex marker src 0 = .ok none →
        ∀ pre' s', src = pre' ++ 123 :: s' → matchEndRaw marker s' = .ok false) := by
  constructor
  · intro k h
    obtain ⟨pre, s, e1, e2, e3, e4⟩ := endRawIndex_some marker src 0 k h
    exact ⟨pre, s, e1, by simpa using e2, e3, e4⟩
  · exact endRawIndex_none marker src 0

/-- `statements start with {%{% end raw %}`: the `{%` before the end statement is content -/
example : endRawIndex [] [123, 37, 123, 37, 32, 101, 110, 100, 32, 114, 97, 119, 32, 37, 125] 0
    = .ok (some 2) := by decide +kernel
example : endRawIndex [109] [123, 37, 32, 101, 110, 123, 37, 32, 101, 110, 100, 32, 114, 97, 119, 32, 120, 32, 37, 125,
      123, 37, 101, 110, 100, 32, 114, 97, 119, 32, 109, 37, 125] 0 = .ok (some 20) := by decide +kernel

/-! ### the line numbers the cut rule reads (`tok.pos.Line`, `tok.lin`)

`ParseTemplateSource` decides "the only token in its line" from the line numbers the lexer
attached to the tokens; the model (`assignAux`) and the specification decide it from the bytes.
The two agree only if the lexer's line is 1 + the number of LF before the token, i.e. if no byte
walk of the lexer steps over a LF without `l.newline()` — whatever special handling the context
has (Markdown back-slash escapes, strings, attribute values, comments, CDATA, raw content). -/
section LexLines
open ScriggoV.Lexer ScriggoV.Lexer.Advance

/-- **what the model assumes of the lexer, in closed form**: the token after `pre` is on line
`firstLine + (number of LF in the tokens before it)` — for a text token its bytes' LF
(`nl_text`) — and its `lin` adds the token's own LF for texts and comments -/
theorem model_lines_count_LF (total firstLine off : Nat) (pre : List Raw) (r : Raw) (post : List Raw) :
    ∃ t, (assignAux total firstLine off (pre ++ r :: post))[pre.length]? = some t ∧ t.raw = r
      ∧ t.posLine = firstLine + nlSum pre ∧ t.lin = firstLine + nlSum pre + r.linAdd :=
  ⟨_, assignAux_lines total pre r post firstLine off, rfl, rfl, rfl⟩

/-- every extracted segment passes the checker, or is the CR-after-LF step -/
theorem lexer_segments_checked : Gen.LexAdvance.segs.all (fun s => s.check || s.isLFCR) = true := by
  decide +kernel

/-- **the lexer's line is 1 + the number of LF passed** (over lexer.go as extracted on every
check): on every path through one iteration of the main loop of `scan`, through `scanCodeBlock`,
`scanTag`, `scanAttribute` and through one iteration of the byte walks of `lexComment`,
`skipRawContent` and CDATA sections, for every source, offset and value of `quote`: if the
path's conditions hold, its statements add to `l.line` exactly the number of LF among the bytes
it advances `p` over. No exception (the CR-after-LF step of C21 is off in its column only). -/
theorem lexer_steps_count_LF (s : Seg) (hs : s ∈ Gen.LexAdvance.segs)
    (src : Bytes) (p : Nat) (q : UInt8) (hq : q ∈ quotes) (hg : GuardHolds s.guard src p q) (lc : Nat × Nat) :
    (Advance.run s.evs (lc, s.base)).1.1
      = lc.1 + ((src.drop (p + s.base)).take ((Advance.run s.evs (lc, s.base)).2 - s.base)).count 0x0a := by
  have h := List.all_eq_true.mp lexer_segments_checked s hs
  rcases Bool.or_eq_true _ _ |>.mp h with h | h
  · exact Seg.line_counts_LF_of_check s h hq hg lc
  · exact Seg.line_counts_LF_of_isLFCR s h hg lc

theorem lexer_runes_checked : Gen.LexAdvance.runeSteps.all RuneStep.check = true := by decide +kernel

/-- where the main loop steps over a whole rune without looking at it again (`p += size;
l.column++`: the character after a Markdown back-slash, …) the path's conditions make its first
byte something other than a LF: an escape never swallows a line end -/
theorem lexer_rune_steps_not_LF (r : RuneStep) (hr : r ∈ Gen.LexAdvance.runeSteps)
    (src : Bytes) (p : Nat) (q : UInt8) (hq : q ∈ quotes) (hg : GuardHolds r.guard src p q) :
    ∃ c, src[p + r.off]? = some c ∧ c ≠ 0x0a :=
  RuneStep.check_sound r (List.all_eq_true.mp lexer_runes_checked r hr) hq hg

/-- non-vacuity: the table has the Markdown back-slash step (a rune step whose guard pins the
byte before it to `\`), and the step over a LF with `l.newline()` -/
example : Gen.LexAdvance.runeSteps.any (fun r => r.guard.contains (.is 0 [.byte 0x5c] true) && r.off == 1) = true
    ∧ Gen.LexAdvance.segs.any (fun s => s.guard.contains (.is 0 [.byte 0x0a] true) && s.evs.contains .newline) = true := by
  decide +kernel

/-- `a\n` + `{# c #}` + ` \n`: the comment is on line 2 (`firstLine` 1, one LF before it) -/
example : ∃ t, (assignAux 12 1 0 ([.text [97, 10]] ++ .nt ⟨true, true, [], 0, 7, 7⟩ :: [.text [32, 10]]))[1]? = some t
    ∧ t.posLine = 2 ∧ t.lin = 2 := ⟨_, rfl, rfl, rfl⟩

end LexLines

/-! ### examples (non-vacuity, and the tokenizer on raw blocks) -/

/-- `a{% raw %} {{ v }}\n{% if %}{% end %}c`: the content is one text token, as written -/
example : tokenize .text [97, 123,37,32,114,97,119,32,37,125, 32,123,123,32,118,32,125,125,10,123,37,32,105,102,32,37,125,
      123,37,32,101,110,100,32,37,125, 99]
    = .ok [.text [97], .nt ⟨false, true, [], 0, 2, 9⟩,
           .text [32,123,123,32,118,32,125,125,10,123,37,32,105,102,32,37,125],
           .nt ⟨false, true, [], 0, 2, 9⟩, .text [99]] := by decide +kernel

/-- the hypotheses of the main theorem hold of a non-trivial source:
`"  {% if true %} \nb\n  {% end %} \t"` renders `"b\n"` -/
example : render .text [32,32,123,37,32,105,102,32,116,114,117,101,32,37,125,32,10,98,10,32,32,
      123,37,32,101,110,100,32,37,125,32,9] = .ok [98, 10] := by decide +kernel
example : let raws : List Raw := [.text [32, 32], .nt ⟨false, true, [], 0, 2, 13⟩, .text [32, 10, 98, 10, 32, 32],
      .nt ⟨false, true, [], 0, 2, 9⟩, .text [32, 9]]
    tokenize .text (dropShebang [32,32,123,37,32,105,102,32,116,114,117,101,32,37,125,32,10,98,10,32,32,
      123,37,32,101,110,100,32,37,125,32,9]) = .ok raws ∧ inClass raws = true ∧ specRender raws = [98, 10] := by
  decide +kernel

/-- the input on which the unfixed parser panicked (`{% if\n true %} {% end %}\n`): in bounds -/
example : render .text [123,37,32,105,102,10,32,116,114,117,101,32,37,125,32,123,37,32,101,110,100,32,37,125,10]
    = .ok [32, 10] := by decide +kernel

end ScriggoV.Cut
