import ScriggoV.Lemmas.Packages
/-! C22 — native package and importer lookups follow their documented contracts
(`native/packages.go`). Property theorems only; helper lemmas are in `Lemmas/Packages.lean`.

Go's map iteration order: a `native.Package` is modelled by the list of its declarations *in the
order `range` visits them*; every theorem below holds for every such list with distinct keys
(`Pkg.WF`), i.e. for every permutation the runtime may choose (`Package.lookupFunc_perm` and
`Package.lookup_perm` state this with the permutation explicit). Callbacks are arbitrary state-passing functions, so "fails or
stops at call index k / at name n" are all instances. -/
namespace ScriggoV.Packages

variable {α : Type} [DecidableEq α]

/-- loop invariant of `CombinedPackage.LookupFunc`, and the `LookupFunc` theorem, by the
recursor of the nested inductive `Pkg` -/
theorem lookupFunc_aux (p : Pkg α) :
    p.WF → ∀ {σ : Type} (f : Callback α σ) (s : σ),
      p.lookupFunc f s = specLookupFunc f p.decls s := by
  induction p using Pkg.rec
    (motive_2 := fun ps => wfList ps → ∀ {σ : Type} (f : Callback α σ) (st : CState α σ),
      st.err = none →
      (combLoop ps (wrap f) st).inner = (pkgLoop f (dedupFirst (flattenList ps) st.names) st.inner).1
      ∧ (combLoop ps (wrap f) st).err = (pkgLoop f (dedupFirst (flattenList ps) st.names) st.inner).2
      ∧ ((pkgLoop f (dedupFirst (flattenList ps) st.names) st.inner).2 = none →
          (combLoop ps (wrap f) st).names = addSeen (flattenList ps) st.names)) with
  | pkg decls =>
    intro hwf σ f s
    have hwf' : (decls.map Prod.fst).Nodup := by simpa [Pkg.WF] using hwf
    simp only [Pkg.lookupFunc, specLookupFunc, Pkg.decls, Pkg.flatten]
    rw [dedupFirst_of_nodup decls [] hwf' (by simp)]
  | combined ps ih =>
    intro hwf σ f s
    have hwf' : wfList ps := by simpa [Pkg.WF] using hwf
    obtain ⟨h1, h2, _⟩ := ih hwf' f { inner := s, err := none, names := [] } rfl
    simp only [Pkg.lookupFunc, specLookupFunc, Pkg.decls, Pkg.flatten, h1, h2]
  | nil =>
    rename_i _ σ f st herr
    simp [combLoop, flattenList, dedupFirst, pkgLoop, addSeen, herr]
  | cons p ps ihp ihps =>
    rename_i hwf σ f st herr
    have hwf' : p.WF ∧ wfList ps := by simpa [wfList] using hwf
    -- one package: by the induction hypothesis it runs `w` along its own declarations
    have hp := ihp hwf'.1 (wrap f) st
    have hw := pkgLoop_wrap f p.decls st herr
    simp only [Pkg.decls] at hw hp
    rw [dedupFirst_dedupFirst p.flatten [] st.names (by simp),
        addSeen_dedupFirst p.flatten [] st.names (by simp)] at hw
    obtain ⟨hw1, hw2, _, hw4⟩ := hw
    have hfst : (p.lookupFunc (wrap f) st).1 = (pkgLoop (wrap f) (dedupFirst p.flatten []) st).1 := by
      rw [hp]; rfl
    simp only [combLoop, flattenList, hfst, dedupFirst_append, pkgLoop_append, addSeen_append]
    rw [hw2]
    rcases hq : pkgLoop f (dedupFirst p.flatten st.names) st.inner with ⟨s', _ | e⟩
    · -- no error in this package: continue with the next ones, names recorded
      rw [hq] at hw1 hw2 hw4
      simp only [Option.isSome_none, Bool.false_eq_true, if_false]
      have herr' : (pkgLoop (wrap f) (dedupFirst p.flatten []) st).1.err = none := hw2
      have := ihps hwf'.2 f (pkgLoop (wrap f) (dedupFirst p.flatten []) st).1 herr'
      rw [hw4 rfl, hw1] at this
      exact this
    · -- `err != nil`: break
      rw [hq] at hw1 hw2
      simp only [Option.isSome_some, if_true]
      exact ⟨hw1, hw2, fun h => by cases h⟩

/-- **C22, LookupFunc.** For every package built from `Package` and `CombinedPackage` (any
nesting), every iteration order of its maps, every callback `f` (with any captured state) and
start state: `LookupFunc` calls `f` along the package's declarations `p.decls` — each distinct
name once, with the declaration of its first occurrence in combination order — up to and
including the first call that returns a non-nil error, and returns that error, or nil when it
is `StopLookup`. -/
theorem Pkg.lookupFunc_spec (p : Pkg α) (hwf : p.WF) {σ : Type} (f : Callback α σ) (s : σ) :
    p.lookupFunc f s = specLookupFunc f p.decls s :=
  lookupFunc_aux p hwf f s

/-- what `p.decls` is: distinct names … -/
theorem Pkg.decls_nodup (p : Pkg α) : (p.decls.map Prod.fst).Nodup :=
  nodup_dedupFirst _ _

/-- … exactly the names declared somewhere in the package … -/
theorem Pkg.mem_decls_names (p : Pkg α) (n : α) :
    n ∈ p.decls.map Prod.fst ↔ n ∈ p.flatten.map Prod.fst := by
  simp [Pkg.decls, mem_dedupFirst_fst]

/-- … each with the declaration of its first occurrence. -/
theorem Pkg.lookup_decls (p : Pkg α) (n : α) :
    List.lookup n p.decls = List.lookup n p.flatten :=
  lookup_dedupFirst _ _ _ (by simp)

/-! #### the callback log, explicitly -/

/-- a callback that logs its calls and answers by call index and name -/
def logging (o : Nat → α → Decl → Error) : Callback α (List (α × Decl)) :=
  fun log n d => (log ++ [(n, d)], o log.length n d)

/-- calls made along `L` by a logging callback: the prefix of `L` up to and including the first
entry answered with a non-nil error -/
def callsUpTo (o : Nat → α → Decl → Error) : List (α × Decl) → Nat → List (α × Decl) × Error
  | [], _ => ([], none)
  | (n, d) :: r, i =>
    match o i n d with
    | none => ((n, d) :: (callsUpTo o r (i + 1)).1, (callsUpTo o r (i + 1)).2)
    | some e => ([(n, d)], some e)

omit [DecidableEq α] in
theorem pkgLoop_logging (o : Nat → α → Decl → Error) (L log : List (α × Decl)) :
    pkgLoop (logging o) L log
      = (log ++ (callsUpTo o L log.length).1, (callsUpTo o L log.length).2) := by
  induction L generalizing log with
  | nil => simp [pkgLoop, callsUpTo]
  | cons x r ih =>
    obtain ⟨n, d⟩ := x
    simp only [pkgLoop, callsUpTo, logging]
    cases ho : o log.length n d with
    | none =>
      have := ih (log ++ [(n, d)])
      simp only [List.length_append, List.length_cons, List.length_nil] at this
      simp [this]
    | some e => simp

/-- **C22, invocation sequence.** The sequence of calls `f` receives is a prefix of `p.decls`
ending at the first failing call; the result is that call's error (nil for `StopLookup`), and
nil if no call fails — in which case `f` has been called on all of `p.decls`. -/
theorem Pkg.lookupFunc_calls (p : Pkg α) (hwf : p.WF) (o : Nat → α → Decl → Error) :
    p.lookupFunc (logging o) []
      = ((callsUpTo o p.decls 0).1, stopToNil (callsUpTo o p.decls 0).2) := by
  rw [Pkg.lookupFunc_spec p hwf, specLookupFunc, pkgLoop_logging]
  simp

omit [DecidableEq α] in
theorem callsUpTo_prefix (o : Nat → α → Decl → Error) (L : List (α × Decl)) (i : Nat) :
    (callsUpTo o L i).1 <+: L ∧ ((callsUpTo o L i).2 = none → (callsUpTo o L i).1 = L) := by
  induction L generalizing i with
  | nil => simp [callsUpTo]
  | cons x r ih =>
    obtain ⟨n, d⟩ := x
    simp only [callsUpTo]
    cases ho : o i n d with
    | none =>
      obtain ⟨h1, h2⟩ := ih (i + 1)
      refine ⟨?_, fun h => by simp [h2 h]⟩
      obtain ⟨t, ht⟩ := h1
      exact ⟨t, by simp [ht]⟩
    | some e =>
      exact ⟨⟨r, by simp⟩, fun h => by cases h⟩

/-- **C22, `Package.LookupFunc` under an arbitrary permutation.** `decls` is the map, `order` the
order in which the runtime iterates it: `f` is called on a prefix of `order`, hence on each name
at most once and only on pairs of the map; a nil result without `StopLookup` means every
declaration was visited. -/
theorem Package.lookupFunc_perm (decls order : List (α × Decl)) (hperm : order.Perm decls)
    (hnd : (decls.map Prod.fst).Nodup) (o : Nat → α → Decl → Error) :
    let r := (Pkg.pkg order).lookupFunc (logging o) []
    r.1 <+: order ∧ (∀ x ∈ r.1, x ∈ decls) ∧ (r.1.map Prod.fst).Nodup
      ∧ r.2 = stopToNil (callsUpTo o order 0).2
      ∧ ((callsUpTo o order 0).2 = none → r.1.Perm decls) := by
  have hnd' : (order.map Prod.fst).Nodup := (hperm.map Prod.fst).nodup_iff.2 hnd
  have hwf : (Pkg.pkg order).WF := by simpa [Pkg.WF] using hnd'
  have hd : (Pkg.pkg order).decls = order := by
    simp only [Pkg.decls, Pkg.flatten]; exact dedupFirst_of_nodup order [] hnd' (by simp)
  have hc := Pkg.lookupFunc_calls (Pkg.pkg order) hwf o
  rw [hd] at hc
  obtain ⟨hp1, hp2⟩ := callsUpTo_prefix o order 0
  intro r
  have hr : r = _ := hc
  rw [hr]
  refine ⟨hp1, ?_, ?_, rfl, ?_⟩
  · intro x hx; exact hperm.subset (hp1.subset hx)
  · exact (hp1.sublist.map Prod.fst).nodup hnd'
  · intro h; rw [hp2 h]; exact hperm

/-! #### `Lookup` -/

theorem lookup_aux (p : Pkg α) :
    p.WF → ∀ n, p.lookup n = firstNonNil p.flatten n := by
  induction p using Pkg.rec
    (motive_2 := fun (ps : List (Pkg α)) => wfList ps → ∀ n : α, lookupList ps n = firstNonNil (flattenList ps) n) with
  | pkg decls =>
    intro hwf n
    have hwf' : (decls.map Prod.fst).Nodup := by simpa [Pkg.WF] using hwf
    simp only [Pkg.lookup, Pkg.flatten]
    exact mapGet_eq_firstNonNil decls n hwf'
  | combined ps ih =>
    intro hwf n
    have hwf' : wfList ps := by simpa [Pkg.WF] using hwf
    simp only [Pkg.lookup, Pkg.flatten]
    exact ih hwf' n
  | nil => rfl
  | cons p ps ihp ihps =>
    rename_i hwf n
    have hwf' : p.WF ∧ wfList ps := by simpa [wfList] using hwf
    simp only [lookupList, flattenList, firstNonNil_append, ihp hwf'.1 n, ihps hwf'.2 n]
    cases firstNonNil p.flatten n <;> rfl

/-- **C22, Lookup (as documented on `CombinedPackage`).** `Lookup` returns the first non-nil
declaration bound to the name, going through the combined packages in order. -/
theorem Pkg.lookup_spec (p : Pkg α) (hwf : p.WF) (n : α) :
    p.lookup n = firstNonNil p.flatten n :=
  lookup_aux p hwf n

/-- no declaration of the package is nil (`Declarations` holds values, types, functions …) -/
def Pkg.NoNil (p : Pkg α) : Prop := ∀ x ∈ p.flatten, x.2 ≠ none

/-- **C22, Lookup = first package having the name, and agrees with LookupFunc.** When no
declaration is nil, `Lookup name` is the declaration of the first package that has `name` —
the very pair `LookupFunc` passes to `f` for that name — and nil iff no package has it. -/
theorem Pkg.lookup_first (p : Pkg α) (hwf : p.WF) (hnn : p.NoNil) (n : α) :
    p.lookup n = (List.lookup n p.flatten).join
    ∧ p.lookup n = (List.lookup n p.decls).join
    ∧ (p.lookup n = none ↔ n ∉ p.flatten.map Prod.fst) := by
  have h1 : p.lookup n = (List.lookup n p.flatten).join := by
    rw [Pkg.lookup_spec p hwf, firstNonNil_eq_lookup _ _ hnn]
  refine ⟨h1, by rw [h1, Pkg.lookup_decls], ?_⟩
  rw [h1]
  constructor
  · intro h hmem
    obtain ⟨x, hx, rfl⟩ := List.mem_map.1 hmem
    cases hl : List.lookup x.1 p.flatten with
    | none =>
      rw [List.lookup_eq_none_iff] at hl
      simpa using hl x hx
    | some d =>
      rw [hl] at h
      cases d with
      | some v => simp at h
      | none =>
        have : (x.1, (none : Decl)) ∈ p.flatten := by
          clear h hx hnn hwf h1 hmem
          generalize p.flatten = L at hl
          induction L with
          | nil => simp at hl
          | cons y r ih =>
            obtain ⟨k, d'⟩ := y
            simp only [List.lookup_cons] at hl
            by_cases hk : x.1 = k
            · subst hk; simp at hl; subst hl; exact List.mem_cons_self
            · have : (x.1 == k) = false := by simpa using hk
              simp only [this] at hl
              exact List.mem_cons_of_mem _ (ih hl)
        exact hnn _ this rfl
  · intro h
    have : List.lookup n p.flatten = none := by
      rw [List.lookup_eq_none_iff]
      intro x hx
      simp only [bne_iff_ne, ne_eq]
      intro hc
      exact h (List.mem_map.2 ⟨x, hx, hc.symm⟩)
    simp [this]

/-- **C22, Lookup under an arbitrary permutation** of a package's map. -/
theorem Package.lookup_perm (decls order : List (α × Decl)) (hperm : order.Perm decls)
    (hnd : (decls.map Prod.fst).Nodup) (n : α) :
    (Pkg.pkg order).lookup n = (Pkg.pkg decls).lookup n := by
  have hnd' : (order.map Prod.fst).Nodup := (hperm.map Prod.fst).nodup_iff.2 hnd
  simp only [Pkg.lookup, mapGet_eq_lookup]
  congr 1
  cases hl : List.lookup n order with
  | some d =>
    have := (lookup_eq_some_iff_mem order n d hnd').1 hl
    exact ((lookup_eq_some_iff_mem decls n d hnd).2 (hperm.subset this)).symm
  | none =>
    symm
    rw [List.lookup_eq_none_iff] at hl ⊢
    intro x hx
    exact hl x (hperm.symm.subset hx)

/-! #### importers -/

variable {ρ ε : Type}

/-- an importer result that is not (nil, nil) -/
def isHit (r : List Nat × (Option ρ × Option ε)) : Bool := r.2.1.isSome || r.2.2.isSome

theorem firstHit_append (A B : List (Imp α ρ ε)) (path : α) (log : List Nat) :
    firstHit (A ++ B) path log =
      (if isHit (firstHit A path log) then firstHit A path log
       else firstHit B path (firstHit A path log).1) := by
  induction A generalizing log with
  | nil => simp [firstHit, isHit]
  | cons i is ih =>
    simp only [List.cons_append, firstHit]
    by_cases h : ((leafImp i path log).2.1.isSome || (leafImp i path log).2.2.isSome) = true
    · simp only [h, if_true, isHit]
    · simp only [h]; exact ih _

omit [DecidableEq α] in
theorem hit_or_none (l : List Nat) (x : Option ρ × Option ε) :
    (if (x.1.isSome || x.2.isSome) = true then (l, x) else (l, ((none : Option ρ), (none : Option ε))))
      = (l, x) := by
  rcases x with ⟨_ | _, _ | _⟩ <;> rfl

theorem imp_aux (i : Imp α ρ ε) :
    ∀ (path : α) (log : List Nat), i.imp path log = firstHit i.leaves path log := by
  induction i using Imp.rec
    (motive_2 := fun (is : List (Imp α ρ ε)) => ∀ (path : α) (log : List Nat),
      impList is path log = firstHit (leavesList is) path log) with
  | packages m =>
    intro path log
    simp only [Imp.imp, Imp.leaves, firstHit]
    have : leafImp (Imp.packages m : Imp α ρ ε) path log = (log, ((mapFind m path).getD none, none)) := rfl
    rw [this]
    refine Eq.trans ?_ (hit_or_none _ _).symm
    cases mapFind m path <;> rfl
  | custom id g =>
    intro path log
    simp only [Imp.imp, Imp.leaves, firstHit]
    have : leafImp (Imp.custom id g) path log = (log ++ [id], g path) := rfl
    rw [this]
    exact (hit_or_none _ _).symm
  | combined is ih =>
    intro path log
    simp only [Imp.imp, Imp.leaves]; exact ih path log
  | nil => rfl
  | cons i is ihi ihis =>
    rename_i path log
    simp only [impList, leavesList, firstHit_append, ihi, ihis, isHit]
    rfl

/-- **C22, Import.** For every importer built from `Packages`, `CombinedImporter` (any nesting)
and arbitrary other importers: `Import(path)` asks the non-combined importers in order, returns
the first result that is a package or an error, asks no importer after that one (the log), and
returns (nil, nil) when there is none. -/
theorem Imp.imp_spec (i : Imp α ρ ε) (path : α) (log : List Nat) :
    i.imp path log = firstHit i.leaves path log :=
  imp_aux i path log

/-- `firstHit` really is "first non-(nil,nil), nothing after it": if it returns (nil, nil) every
importer answered (nil, nil) -/
theorem firstHit_none (L : List (Imp α ρ ε)) (path : α) (log : List Nat)
    (h : isHit (firstHit L path log) = false) :
    ∀ i ∈ L, ∀ log', (leafImp i path log').2 = (none, none) := by
  induction L generalizing log with
  | nil => intro i hi; cases hi
  | cons j js ih =>
    simp only [firstHit] at h
    by_cases hj : ((leafImp j path log).2.1.isSome || (leafImp j path log).2.2.isSome) = true
    · rw [if_pos hj] at h; simp only [isHit] at h; rw [hj] at h; cases h
    · simp only [hj] at h
      intro i hi log'
      rcases List.mem_cons.1 hi with rfl | hi
      · have : (leafImp i path log').2 = (leafImp i path log).2 := by
          cases i <;> rfl
        rw [this]
        generalize (leafImp i path log).2 = x at hj
        rcases x with ⟨_ | _, _ | _⟩ <;> simp at hj ⊢
      · exact ih _ h i hi log'

/-! #### the defect found (DESIGN §8 row 3), kept as a checked witness -/

/-- `Package.LookupFunc` as it was before the fix: `if err := f(n, d); err != nil { break }`
assigns to a new `err`, the function's own `err` stays nil -/
def pkgLookupFuncShadowed {σ : Type} (f : Callback α σ) (decls : List (α × Decl)) (s : σ) : σ × Error :=
  ((pkgLoop f decls s).1, stopToNil none)

/-- the unfixed code breaks `Pkg.lookupFunc_spec` on a one-declaration package -/
theorem shadowed_violates_spec :
    pkgLookupFuncShadowed (α := Nat) (fun (s : Unit) _ _ => (s, some (.other 1))) [(0, some 1)] ()
      ≠ specLookupFunc (fun (s : Unit) _ _ => (s, some (.other 1))) (Pkg.pkg [(0, some 1)]).decls () := by
  decide

/-! #### non-vacuity: concrete packages exercising nesting, duplicates, nil, stop and error -/

def exPkg : Pkg Nat :=
  .combined [.pkg [(1, some 10), (2, none)], .combined [.pkg [(2, some 20), (3, some 30)], .pkg [(1, some 11)]],
    .pkg [(4, some 40), (3, some 31)]]

example : exPkg.WF := by simp [exPkg, Pkg.WF, wfList]
example : exPkg.decls = [(1, some 10), (2, none), (3, some 30), (4, some 40)] := by decide
-- error at the third call: three calls, the error comes back
example : exPkg.lookupFunc (logging fun i _ _ => if i = 2 then some (.other 7) else none) []
    = ([(1, some 10), (2, none), (3, some 30)], some (.other 7)) := by decide
-- StopLookup at the second call: two calls, nil
example : exPkg.lookupFunc (logging fun i _ _ => if i = 1 then some .stop else none) []
    = ([(1, some 10), (2, none)], none) := by decide
-- a nil declaration is skipped by `Lookup` (as documented) but enumerated by `LookupFunc`
example : exPkg.lookup 2 = some 20 := by decide
example : (Pkg.combined [.pkg [(1, some 10)], .pkg [(1, some 11), (2, some 5)]] : Pkg Nat).NoNil := by
  simp [Pkg.NoNil, Pkg.flatten, flattenList]
example : (Imp.combined [.packages [(1, none)], .custom 0 (fun _ => (none, none)),
      .combined [.custom 1 (fun _ => (none, some 9)), .custom 2 (fun _ => (some 5, none))]] : Imp Nat Nat Nat).imp 1 []
    = ([0, 1], (none, some 9)) := by decide

end ScriggoV.Packages
