import ScriggoV.Lemmas.GoStmt
import ScriggoV.Model.GoCopy
import ScriggoV.Gen.GoCopy
import ScriggoV.Lemmas.ChanSeq
import ScriggoV.Model.CaseBuf
import ScriggoV.Lemmas.GoFlag
/-! # C14 — goroutine and channel programs agree with gc under every schedule

Property theorems only; the models are in `Model/GoStmt.lean`.

* `vm_threads_simulate_source`: every schedule of the VM-level system (threads = windows of
  register stacks, `go` = copy of the argument window onto a new stack) is, step by step, the
  same schedule of the source-level system (threads with private locals, shared heap cells, Go
  channels) — same threads, same shared state, same printed events. Hence a program whose output
  is schedule-independent at source level has that output under every VM schedule
  (`schedule_independent_output_transfers`).
* `go_args_snapshot`: the parameters of a started goroutine are the argument values at the `go`
  statement, whatever the parent (or anybody else) does afterwards, for every schedule.
* `shared_window_breaks_snapshot`: with the window *shared* instead of copied the statement is
  false — the copy in `startGoroutine` is what the theorem rests on.

* `go_params_own_shift` / `go_copy_shifts_match`: the four register files (int, float, string,
  general) are copied each at its own stack shift — regenerated from `startGoroutine`, OpCallFunc
  and registers.go; `wrong_shift_breaks_params` shows what happens otherwise.

Not covered here: that the compiled code of a program refines these statements (emitter), the
bounds of `startGoroutine`'s slicing (`go_copy_in_bounds`, property C05), `select`, panicking
goroutines, and everything about the Go scheduler and memory model (the harness runs generated
programs against gc and, in the thorough tier, under the race detector). -/
namespace ScriggoV.GoStmt

theorem vrun_nil (P : Prog) (share : Bool) (s : VSys) : vrun P share [] s = s := rfl
theorem vrun_cons (P : Prog) (share : Bool) (i : Nat) (sched : List Nat) (s : VSys) :
    vrun P share (i :: sched) s = vrun P share sched (vstep P share i s) := rfl
theorem srun_nil (P : Prog) (s : SSys) : srun P [] s = s := rfl
theorem srun_cons (P : Prog) (i : Nat) (sched : List Nat) (s : SSys) :
    srun P (i :: sched) s = srun P sched (sstep P i s) := rfl

/-- **C14, simulation.** For every schedule, the VM-level system (with the copying `go`) stays a
representation of the source-level system run under the same schedule — and stays well-formed
(every thread's frame inside its stack, no two threads on one stack). -/
theorem vm_threads_simulate_source (P : Prog) (sched : List Nat) :
    ∀ (s : VSys), WF P s →
      abs P (vrun P false sched s) = srun P sched (abs P s) ∧ WF P (vrun P false sched s) := by
  induction sched with
  | nil => intro s hw; exact ⟨rfl, hw⟩
  | cons i sched ih =>
    intro s hw
    rw [vrun_cons, srun_cons, ← vstep_abs P i s hw]
    exact ih _ (vstep_WF P i s hw)

/-- same observable events: what has been printed, the heap and the channels agree -/
theorem same_observable_events (P : Prog) (sched : List Nat) (s : VSys) (hw : WF P s) :
    (vrun P false sched s).sh = (srun P sched (abs P s)).sh := by
  have := (vm_threads_simulate_source P sched s hw).1
  rw [← this]; rfl

/-- the initial VM system (main at any frame pointer) is well-formed and represents the initial
source system -/
theorem vinit_WF (P : Prog) (fp0 : Nat) (sh : Shared) : WF P (vinit P fp0 sh) := by
  constructor
  · intro i t ht
    simp only [vinit] at ht
    cases i with
    | zero =>
      simp only [List.getElem?_cons_zero, Option.some.injEq] at ht
      subst ht
      exact ⟨by simp [vinit], by simp [vinit, List.getD_eq_getElem?_getD], by simp⟩
    | succ i => simp at ht
  · intro i j ti tj hi hj _
    simp only [vinit] at hi hj
    cases i <;> cases j <;> simp at hi hj ⊢

theorem abs_vinit (P : Prog) (fp0 : Nat) (sh : Shared) : abs P (vinit P fp0 sh) = sinit P sh := by
  simp only [abs, vinit, sinit, List.map_cons, List.map_nil, viewOf, window]
  congr 2
  simp only [List.getD_eq_getElem?_getD, List.getElem?_cons_zero, Option.getD_some]
  congr 1
  · rw [List.drop_replicate, List.take_replicate]; congr 1; omega

/-- **C14, schedule-independent output.** If at source level the printed output of a program is
the same under any two schedules that run it to completion, then under every VM schedule that
runs it to completion the VM prints exactly that output. -/
theorem schedule_independent_output_transfers (P : Prog) (sh : Shared) (fp0 : Nat) (out : List Val)
    (hsrc : ∀ sched, allDone (srun P sched (sinit P sh)) = true →
      (srun P sched (sinit P sh)).sh.trace = out)
    (sched : List Nat) (hdone : allDone (abs P (vrun P false sched (vinit P fp0 sh))) = true) :
    (vrun P false sched (vinit P fp0 sh)).sh.trace = out := by
  have hsim := vm_threads_simulate_source P sched (vinit P fp0 sh) (vinit_WF P fp0 sh)
  rw [same_observable_events P sched _ (vinit_WF P fp0 sh), abs_vinit]
  apply hsrc
  rw [← abs_vinit P fp0 sh, ← hsim.1]
  exact hdone

/-! ### the arguments of a `go` statement are a snapshot -/

/-- source level: the thread started by `go f(args)` has the argument values as its locals -/
theorem sstep_go (P : Prog) (S : SSys) (i : Nat) (v : View) (f : Nat) (rest : List Stmt)
    (hv : S.threads[i]? = some v) (hcode : v.code = .go f :: rest) :
    (sstep P i S).threads[S.threads.length]? = some ⟨childLocals P v.pend, [], P.funcs.getD f []⟩ := by
  rw [sstep_some P i S v hv]
  have : tstep P.M v S.sh = ⟨{ v with pend := [], code := rest }, S.sh, some (f, v.pend)⟩ := by
    unfold tstep; rw [hcode]
  rw [this]
  simp only
  rw [List.getElem?_append_right (by simp)]
  simp

/-- source level: a step of another thread does not touch thread `c` -/
theorem sstep_other (P : Prog) (S : SSys) (j c : Nat) (hjc : j ≠ c) (hc : c < S.threads.length) :
    (sstep P j S).threads[c]? = S.threads[c]? ∧ c < (sstep P j S).threads.length := by
  cases hv : S.threads[j]? with
  | none => rw [sstep_none P j S hv]; exact ⟨rfl, hc⟩
  | some v =>
    rw [sstep_some P j S v hv]
    simp only
    constructor
    · rw [List.getElem?_append_left (by simp [hc])]
      simp [hjc]
    · simp; omega

theorem srun_unscheduled (P : Prog) (c : Nat) (sched : List Nat) (hc : c ∉ sched) :
    ∀ (S : SSys), c < S.threads.length → (srun P sched S).threads[c]? = S.threads[c]? := by
  induction sched with
  | nil => intro S _; rfl
  | cons j sched ih =>
    intro S hlt
    have hjc : j ≠ c := fun h => hc (h ▸ List.mem_cons_self)
    have hc' : c ∉ sched := fun h => hc (List.mem_cons_of_mem _ h)
    obtain ⟨h1, h2⟩ := sstep_other P S j c hjc hlt
    rw [srun_cons, ih hc' _ h2, h1]

/-- **C14, `go` arguments are a snapshot.** Let thread `i` execute `go f(args)`. The goroutine it
starts (thread number `s.threads.length`) has — when it first runs, after any schedule `sched`
of the *other* threads, including any further steps of its parent — locals equal to the
argument values the parent had evaluated at the `go` statement. -/
theorem go_args_snapshot (P : Prog) (s : VSys) (hw : WF P s) (i : Nat) (t : VThread) (f : Nat)
    (rest : List Stmt) (ht : s.threads[i]? = some t) (hcode : t.code = .go f :: rest)
    (sched : List Nat) (hc : s.threads.length ∉ sched) :
    ∃ tc, (vrun P false (i :: sched) s).threads[s.threads.length]? = some tc ∧
      (viewOf P (vrun P false (i :: sched) s).stacks tc).locals
        = childLocals P (viewOf P s.stacks t).pend := by
  have hsim := (vm_threads_simulate_source P (i :: sched) s hw).1
  have hv : (abs P s).threads[i]? = some (viewOf P s.stacks t) := by rw [abs_getElem?, ht]; rfl
  have hlen : (abs P s).threads.length = s.threads.length := by simp [abs]
  have h1 := sstep_go P (abs P s) i (viewOf P s.stacks t) f rest hv (by simp [viewOf, hcode])
  rw [hlen] at h1
  have h2 : (srun P (i :: sched) (abs P s)).threads[s.threads.length]?
      = some ⟨childLocals P (viewOf P s.stacks t).pend, [], P.funcs.getD f []⟩ := by
    rw [srun_cons, srun_unscheduled P _ sched hc _ (by
      rcases Nat.lt_or_ge s.threads.length (sstep P i (abs P s)).threads.length with h | h
      · exact h
      · rw [List.getElem?_eq_none h] at h1; cases h1)]
    exact h1
  rw [← hsim, abs_getElem?] at h2
  cases htc : (vrun P false (i :: sched) s).threads[s.threads.length]? with
  | none => rw [htc] at h2; cases h2
  | some tc =>
    rw [htc] at h2
    simp only [Option.map_some, Option.some.injEq] at h2
    exact ⟨tc, rfl, by rw [h2]⟩

/-! ### without the copy it is false -/

/-- main: `x0 := 1; go f(x0); go f(x0+1)` … in the broken variant both children run on the
parent's stack, their frames at the parent's argument window -/
def snapProg : Prog :=
  ⟨2, 2, [[.assign 0 (.lit 7), .arg (.var 0), .go 1, .arg (.lit 99), .go 1], [.print (.var 0)]]⟩

/-- With `share := true` (the child aliases the parent's registers instead of getting a copy)
the first goroutine's parameter is overwritten by the parent preparing its next `go`: it should
print 7, it prints 99. So `go_args_snapshot` does rest on the copy made by `startGoroutine`. -/
theorem shared_window_breaks_snapshot :
    (vrun snapProg true [0, 0, 0, 0, 0, 1, 2] (vinit snapProg 0 ⟨[], [], []⟩)).sh.trace = [99, 99] ∧
    (vrun snapProg false [0, 0, 0, 0, 0, 1, 2] (vinit snapProg 0 ⟨[], [], []⟩)).sh.trace = [7, 99] := by
  constructor <;> rfl

-- non-vacuity: an unbuffered pipeline main → worker → main, two different schedules, same output
def pipeProg : Prog :=
  ⟨2, 2, [[.arg (.lit 5), .go 1, .send 0 (.lit 3), .recv 0 1, .print (.var 0)],
          [.recv 1 0, .send 1 (.add (.mul (.var 0) (.var 1)) (.lit 1))]]⟩

example : (vrunRandom pipeProg false 200 1 (vinit pipeProg 3 ⟨[], [⟨0, [], false, false⟩, ⟨0, [], false, false⟩], []⟩)).sh.trace = [16] := by
  decide
example : (srunRandom pipeProg 200 12345 (sinit pipeProg ⟨[], [⟨0, [], false, false⟩, ⟨0, [], false, false⟩], []⟩)).sh.trace = [16] := by
  decide

end ScriggoV.GoStmt

/-! ### `go` with arguments of every register class: each class at its own shift -/
namespace ScriggoV.GoCopy
open ScriggoV.Gen.GoCopy

/-- **C14, every parameter class is read at its own shift.** If `startGoroutine` uses, for every
register class, that class's own operand of the shift instruction, the new goroutine finds every
register of every class exactly where the emitter placed it — whatever the four frame pointers
and the four shifts (that is, however many int, float, string and general locals are live in the
caller). -/
theorem go_params_own_shift (sel : Nat → Nat) (hsel : ∀ c, c < 4 → sel c = c) (p : Parent) (c r : Nat)
    (hc : c < 4) : childReg sel p c r = placed p c r := by
  simp [childReg, childFile, placed, hsel c hc, List.getElem?_drop]

/-- … and with one class copied at another class's shift it does not: strings copied at the float
shift (`off.A` for `off.B`) from a frame with one live string local and no float local hand the
goroutine the caller's own local instead of its argument. -/
theorem wrong_shift_breaks_params :
    ∃ (p : Parent), childReg (fun c => if c = 2 then 1 else c) p 2 1 ≠ placed p 2 1 := by
  refine ⟨⟨fun c => if c = 2 then [0, 10, 20, 30] else [], fun _ => 0,
    fun c => if c = 2 then 1 else 0⟩, ?_⟩
  decide

/-- which class's shift operand `startGoroutine` uses for the register file addressed with frame
pointer `c`, as extracted: the copy whose destination file has frame pointer `c`, its `off.`
field, and the class whose frame pointer OpCallFunc shifts by that field -/
def selOfCode (c : Nat) : Nat :=
  match goCopies.find? (fun k => fileFp.lookup k.dst == some c) with
  | none => 99
  | some k =>
    match callShifts.find? (fun s => s.2 == k.field) with
    | some s => s.1
    | none => 99

/-- **generated fact** `go_copy_shifts_match`: the four copy statements of `startGoroutine` pair
every register file with itself, with its own frame pointer (also in the upper bound and the
stack top) and with its own stack shift — the pairing of OpCallFunc and of registers.go -/
theorem go_copy_shifts_match :
    (∀ c, c < 4 → selOfCode c = c) ∧
    goCopies.length = 4 ∧
    goCopies.all (fun k => k.dst == k.src && fileFp.lookup k.dst == some k.fp &&
      k.hiFp == toString k.fp && k.hiSt == toString k.fp) = true ∧
    callShifts = [(0, "Op"), (1, "A"), (2, "B"), (3, "C")] ∧
    fileFp = [("float", 1), ("general", 3), ("int", 0), ("string", 2)] := by
  decide

/-- the code's `startGoroutine` hands every parameter of every class to the goroutine -/
theorem go_params_own_shift_code (p : Parent) (c r : Nat) (hc : c < 4) :
    childReg selOfCode p c r = placed p c r :=
  go_params_own_shift selOfCode go_copy_shifts_match.1 p c r hc

/-! ## Receives from closed channels -/

/-- a well-formed receive result: a closed channel (`ok = false`) gives the zero value -/
def RecvWF (recv : Int × Bool) : Prop := recv.2 = false → recv.1 = 0

/-- storing the received value whatever `ok` is gives Go's result, for every previous content of
the register -/
theorem recv_store_unguarded_is_go (old : Int) (recv : Int × Bool) (h : RecvWF recv) :
    recvStore false old recv = goRecv recv := by
  unfold recvStore goRecv
  cases hr : recv.2 with
  | true => simp
  | false => simp [h hr]

/-- a store guarded by `ok` keeps a stale value after the channel is closed (the register of a
select is shared by all its receive cases of one class, so the stale value may even come from
another channel) -/
theorem recv_store_guarded_by_ok_keeps_stale :
    ∃ old recv, RecvWF recv ∧ recvStore true old recv ≠ goRecv recv :=
  ⟨7, (0, false), by simp [RecvWF], by decide⟩

example : RecvWF (0, false) ∧ RecvWF (5, true) := by simp [RecvWF]

/-- the stores of a received value in `run` as read by hand: every `setFromReflectValue` of a
received value is under no condition but "the instruction has a value register" (`c != 0`,
`r != 0`, `b != 0`) and, in OpSelect, "the chosen case is a receive" — in particular not under `ok`
(in OpRange's channel loop the store follows `if !ok { break }`: a range never delivers the zero
value of a closed channel) -/
def knownRecvStores : List (String × String × String) := [
  ("OpReceive", "if done == nil then", "v, vm.ok = ch.Recv()"),
  ("OpReceive", "if done == nil else", "chosen, v, vm.ok = reflect.Select(vm.cases)"),
  ("OpReceive", "if c != 0 then", "vm.setFromReflectValue(c, v)"),
  ("OpReceive", "if b != 0 then", "vm.setBool(b, vm.ok)"),
  ("OpSelect", "if step > 0 then; if vm.cases[chosen].Dir == reflect.SelectRecv then; if r != 0 then", "vm.setFromReflectValue(r, recv)"),
  ("OpSelect", "if step > 0 then; if vm.cases[chosen].Dir == reflect.SelectRecv then", "vm.ok = recvOK"),
  ("OpRange", "if b != 0 then", "vm.setFromReflectValue(b, copyOfElement(u))")]

/-- the one function a received value passes through before it is stored, as read by hand: the
element itself, or — for structs and arrays, which a general register keeps by value — a new
addressable value set to it: an equal value in every case -/
def knownRecvStoreWrappers : List (String × String) := [
  ("copyOfElement", "func(v reflect.Value) reflect.Value { if k := v.Kind(); k == reflect.Struct || k == reflect.Array { e := reflect.New(v.Type()).Elem() e.Set(v) return e } return v }")]

/-- **generated fact** `received_value_stored_whatever_ok`: the code is the unguarded store of
`recv_store_unguarded_is_go` -/
theorem received_value_stored_whatever_ok : recvStores = knownRecvStores := by decide

/-- **generated fact** `received_value_stored_unchanged`: what stands between the received value
and the register is the value copy read above and nothing else -/
theorem received_value_stored_unchanged : recvStoreWrappers = knownRecvStoreWrappers := by decide +kernel

end ScriggoV.GoCopy

/-! ## A context that is not cancelled does not change the run

With `RunOptions.Context` set to a context whose Done channel is not nil the VM performs every
blocking channel operation as `reflect.Select(vm.cases)` over the operation's own cases and the
Done case. `Model/ChanSeq.lean` runs sequences of channel operations of one goroutine in both
readings, the VM's reusable buffer `vm.cases` being part of the state; `Model/CaseBuf.lean`
executes the control-flow skeletons of the instructions as extracted from run.go
(`Gen/CaseBuf.lean`) and reads off on which ways out the buffer is emptied. -/
namespace ScriggoV.ChanSeq

/-- **C14, the buffer is empty at the start of every channel operation** — after any number of
operations of any program, with or without a Done channel, provided every instruction empties the
buffer on every way out -/
theorem cases_empty_at_every_operation (ctx : Bool) (n : Nat) :
    ∀ (c c' : Cfg), c.cases = [] → steps ctx Policy.good n c = .ok c' → c'.cases = [] := by
  induction n with
  | zero => intro c c' h hs; cases hs; exact h
  | succ n ih =>
    intro c c' h hs
    unfold steps at hs
    cases h1 : step ctx Policy.good c with
    | error e => rw [h1] at hs; cases hs
    | ok c1 =>
      rw [h1] at hs
      exact ih c1 c' (step_cases_nil ctx c c1 h h1) hs

/-- **C14, an uncancelled context is transparent.** For every program of channel operations
(sends, receives with and without ok, range until closed, select statements with receive and send
cases with or without default, close, len/cap, nil channels) and every state of its channels:
run with a Done channel that never becomes ready the VM does, operation by operation, what it
does without one — Go's semantics: same channels, same trace, same outcome (also the same
blocking and the same panics). -/
theorem context_is_transparent (fuel : Nat) :
    ∀ (c : Cfg), c.cases = [] → run true Policy.good fuel c = run false Policy.good fuel c := by
  induction fuel with
  | zero => intro c _; rfl
  | succ fuel ih =>
    intro c h
    unfold run
    rw [step_ctx_eq_plain c h]
    cases h1 : step false Policy.good c with
    | error e => rfl
    | ok c1 =>
      have : c1.cases = [] := step_cases_nil false c c1 h h1
      simp only [ih c1 this]

-- non-vacuity: a range until closed, then a receive from another channel, a select with default
example : traceOf (run true Policy.good 20 ⟨[.range 0 [.lenCap 1], .recv 1, .setNil 0, .sel [.recv 0 2, .send 1 5] true,
      .recvOk 1, .sel [.recv 1 1] true],
    [⟨2, [3, 4], true, false⟩, ⟨1, [28], false, false⟩], [], []⟩) = some [3, 1, 1, 4, 1, 1, 28, 1, 5, 1, 1] := by decide

/-! ### every reset is needed -/

/-- Leave out the reset on one way out of one instruction and the statement is false. First
witness, the reset of OpRange placed after the `if !ok { break }`: ranging over a closed channel
leaves `[recv ch, done]` in the buffer, the receive from the other channel that follows selects
over `[recv ch, done, recv other, done]`, the closed channel's case is ready: 0 instead of 28. -/
theorem stale_case_after_range_changes_the_run :
    traceOf (run true { Policy.good with rangeExit := false } 9
      ⟨[.range 0 [], .recv 1], [⟨1, [], true, false⟩, ⟨1, [28], false, false⟩], [], []⟩) = some [0] ∧
    traceOf (run false { Policy.good with rangeExit := false } 9
      ⟨[.range 0 [], .recv 1], [⟨1, [], true, false⟩, ⟨1, [28], false, false⟩], [], []⟩) = some [28] := by
  decide

/-- … and so for each of the five places: a policy that differs from `good` anywhere has a
program that a Done channel changes -/
theorem every_reset_is_needed (pol : Policy) (h : pol ≠ Policy.good) :
    ∃ (code : List Op) (chans : List Ch),
      traceOf (run true pol 9 ⟨code, chans, [], []⟩) ≠ traceOf (run false pol 9 ⟨code, chans, [], []⟩) := by
  obtain ⟨r, s, sl, rb, re⟩ := pol
  cases r with
  | false => exact ⟨[.recv 0, .recv 1], [⟨2, [1, 2], false, false⟩, ⟨1, [9], false, false⟩], by
      cases s <;> cases sl <;> cases rb <;> cases re <;> decide⟩
  | true =>
  cases s with
  | false => exact ⟨[.send 0 7, .recv 1], [⟨2, [], false, false⟩, ⟨1, [9], false, false⟩], by
      cases sl <;> cases rb <;> cases re <;> decide⟩
  | true =>
  cases sl with
  | false => exact ⟨[.sel [.recv 0 1] false, .recv 1], [⟨2, [1, 2], false, false⟩, ⟨1, [9], false, false⟩], by
      cases rb <;> cases re <;> decide⟩
  | true =>
  cases rb with
  | false => exact ⟨[.range 0 [.recv 1]], [⟨2, [1, 2], true, false⟩, ⟨2, [8, 9], false, false⟩], by
      cases re <;> decide⟩
  | true =>
  cases re with
  | false => exact ⟨[.range 0 [], .recv 1], [⟨1, [], true, false⟩, ⟨1, [28], false, false⟩], by decide⟩
  | true => exact absurd rfl h

end ScriggoV.ChanSeq

/-! ### … and run.go empties the buffer on every way out: regenerated facts -/
namespace ScriggoV.CaseBuf
open ScriggoV.Gen.CaseBuf ScriggoV.ChanSeq

/-- **generated fact** `select_sees_only_own_cases`: started with an empty buffer, along every path
through OpReceive, OpSend and the channel case of OpRange — with a Done channel — `reflect.Select`
sees exactly the two cases the instruction appended, the body of a range loop starts with an empty
buffer, and every way out on which the VM goes on (end of the clause, break, a return that is not
`vm.stop()`) leaves an empty buffer; without a Done channel the buffer is not touched. OpSelect,
started with the `n` cases pushed by OpCase, selects over those (`n`, or `n + 1` with the Done
case) and leaves an empty buffer; OpCase adds exactly one case; `Reset` empties the buffer. -/
theorem select_sees_only_own_cases :
    wellBehaved (summary true opReceive .zero) [⟨false, 2⟩] .zero = true ∧
    wellBehaved (summary true opSend .zero) [⟨false, 2⟩] .zero = true ∧
    wellBehaved (summary true opRangeChan .zero) [⟨false, 2⟩] .zero = true ∧
    wellBehaved (summary false opReceive .zero) [] .zero = true ∧
    wellBehaved (summary false opSend .zero) [] .zero = true ∧
    wellBehaved (summary false opRangeChan .zero) [] .zero = true ∧
    wellBehaved (summary true opSelect .entry) [⟨true, 0⟩, ⟨true, 1⟩] .zero = true ∧
    wellBehaved (summary false opSelect .entry) [⟨true, 0⟩] .zero = true ∧
    wellBehaved (summary true opCase .entry) [] ⟨true, 1⟩ = true ∧
    wellBehaved (summary false opCase .entry) [] ⟨true, 1⟩ = true ∧
    wellBehaved (summary true vmReset .entry) [] .zero = true := by
  decide

/-- **generated fact** `cases_written_only_by_channel_instructions`: nothing else in the runtime
package assigns `vm.cases` — but the deferred function of `runRecoverable` on the way of a panic,
whose doing is `recovered_panic_leaves_empty_buffer` -/
theorem cases_written_only_by_channel_instructions :
    casesWriters = ["Reset", "run/OpCase", "run/OpRange/reflect.Chan", "run/OpReceive", "run/OpSelect", "run/OpSend",
      "runRecoverable/recovered"] := by
  decide

/-- **generated fact** `recovered_panic_leaves_empty_buffer`: a panic raised inside
`reflect.Select` (a send case on a closed channel) leaves OpSend, OpReceive, the channel case of
OpRange — with a Done channel, where they go through `reflect.Select` — and OpSelect — with and
without one, whatever the number of cases OpCase pushed — before the clause empties the buffer;
the deferred function of `runRecoverable` empties it whatever its length, so that the goroutine, if
the program recovers the panic, meets its next channel operation with an empty buffer: the
hypothesis `c.cases = []` of `context_is_transparent` and `cases_empty_at_every_operation` holds
again for what it runs from there. When no panic is under way the deferred function leaves the
buffer alone. (The runs of `Model/ChanSeq.lean` end at a panic; programs that recover one and go on
are tied by the closed-channel stream of the harness under all four context modes.) -/
theorem recovered_panic_leaves_empty_buffer :
    recoveredAt true opSend .zero recoverHandler .zero = true ∧
    recoveredAt true opReceive .zero recoverHandler .zero = true ∧
    recoveredAt true opRangeChan .zero recoverHandler .zero = true ∧
    recoveredAt true opSelect .entry recoverHandler .zero = true ∧
    recoveredAt false opSelect .entry recoverHandler .zero = true ∧
    handlerLeaves true (onReturn recoverHandler) .entry .entry = true ∧
    handlerLeaves false (onReturn recoverHandler) .entry .entry = true := by
  decide

-- without a Done channel OpSend, OpReceive and OpRange do not go through reflect.Select: no panic
-- point at which the buffer is not empty
example : panicLens (summary false opSend .zero) = [] ∧ panicLens (summary false opReceive .zero) = [] ∧
    panicLens (summary false opRangeChan .zero) = [] := by decide

-- the handler as it was before it emptied the buffer (no statement about vm.cases) is refused:
-- `[send c, done]` stays behind a recovered `c <- v` on a closed channel
example : recoveredAt true opSend .zero [.ite .panicking [] []] .zero = false ∧
    recoveredAt false opSelect .entry [] .zero = false := by decide

/-- **generated fact** `code_empties_case_buffer`: the policy read off run.go is the good one -/
theorem code_empties_case_buffer : policyOfCode = Policy.good := by decide

/-- the code's handling of the buffer makes an uncancelled context transparent -/
theorem context_is_transparent_code (fuel : Nat) (c : Cfg) (h : c.cases = []) :
    run true policyOfCode fuel c = run false policyOfCode fuel c := by
  rw [code_empties_case_buffer]; exact context_is_transparent fuel c h

-- the skeleton of the regression this was written after (reset after `if !ok { break }`) is refused
example : (policyOf opReceive opSend opSelect
    [.loop false [.ite .doneNil [] [.app 2, .sel, .ite (.other "chosen == 1") [.stop] []],
      .ite (.other "!ok") [.brk] [], .reset, .body, .ite (.other "breakOut") [.brk] []]]).rangeExit = false := by
  decide

end ScriggoV.CaseBuf

/-! ## `go` on a native function: the flag is consumed by the call of the go statement

OpGo tells the call instruction behind it, through the flag `startNativeGoroutine` of `run`, to
start a native callee with `go`. `Model/GoFlag.lean`: the instructions of an activation in
sequence under a policy (who sets, who resets the flag) against Go's specification; the policy of
run.go is read off the extracted skeletons of OpGo and of every call instruction. -/
namespace ScriggoV.GoFlag
open ScriggoV.Gen.GoFlag

/-- **C14, only the call of a go statement is a goroutine.** For every instruction sequence in
which each OpGo is followed by its call instruction — the callee native (called directly or through
a function value) or a Scriggo function (declared, or a function value), the other calls of the
activation in any of the five forms —: the call behind an OpGo is started as a goroutine, every
other call is an ordinary call, and the flag is set at a call instruction only if that call is
the native call of a go statement (`go_flag_clear_outside_go`). -/
theorem go_flag_clear_outside_go (code : List Instr) (h : wf code = true) :
    run Policy.good 0 false .none code = spec 0 false code :=
  run_good_inv code 0 false .none false ⟨rfl, rfl⟩ h

-- non-vacuity: go on a native function value, then calls of every form
example : wf [.go, .call .indirectNative, .call .native, .other, .go, .call .indirectFunc, .call .indirectNative,
    .go, .call .native, .call .func, .call .macroCall] = true := by decide

/-- The regression this was written after: OpCallIndirect does not reset the flag in its native
branch. After `go f(…)` with `f` a function value that holds a native function, the next native
call of the activation — two instructions later — is started as a goroutine too (its results are
never written). -/
theorem missing_reset_starts_the_next_native_call_as_goroutine :
    run { Policy.good with indirectNativeResets := false } 0 false .none
        [.go, .call .indirectNative, .other, .call .native]
      = [⟨1, .indirectNative, true, true⟩, ⟨3, .native, true, true⟩] ∧
    spec 0 false [.go, .call .indirectNative, .other, .call .native]
      = [⟨1, .indirectNative, true, true⟩, ⟨3, .native, false, false⟩] := by
  decide

/-- every part of the policy is needed: a policy that differs from `good` anywhere has a
well-formed instruction sequence that it runs otherwise than Go does -/
theorem every_flag_rule_is_needed (pol : Policy) (h : pol ≠ Policy.good) :
    ∃ code, wf code = true ∧ run pol 0 false .none code ≠ spec 0 false code := by
  obtain ⟨g, n, i, s⟩ := pol
  cases g with
  | false => exact ⟨[.go, .call .native], by decide, by cases n <;> cases i <;> cases s <;> decide⟩
  | true =>
  cases n with
  | false => exact ⟨[.go, .call .native, .call .native], by decide, by cases i <;> cases s <;> decide⟩
  | true =>
  cases i with
  | false => exact ⟨[.go, .call .indirectNative, .call .native], by decide, by cases s <;> decide⟩
  | true =>
  cases s with
  | false => exact ⟨[.call .func, .call .native], by decide, by decide⟩
  | true => exact absurd rfl h

/-- **generated fact** `call_instructions_consume_go_flag`: along every path through the clause,
OpCallNative and the native branch of OpCallIndirect hand the flag to vm.callNative exactly once and
leave it reset; OpCallFunc, OpCallMacro and the Scriggo branch of OpCallIndirect neither read nor
write it; OpGo sets it when startGoroutine reports a native callee and leaves it otherwise -/
theorem call_instructions_consume_go_flag : policyOfCode = Policy.good := by decide

/-- **generated fact** `go_flag_is_local_to_run_and_its_call_clauses`: the flag is a bool local of
`run` declared before the instruction loop, mentioned by no other clause than OpGo, OpCallNative
and OpCallIndirect, and `vm.callNative` / `vm.startGoroutine` are called by no other clause -/
theorem go_flag_is_local_to_run_and_its_call_clauses :
    flagDecl = "var startNativeGoroutine bool" ∧ flagOutsideSwitch = 1 ∧
    flagClauses = ["OpCallIndirect", "OpCallNative", "OpGo"] := by decide

/-- **generated fact** `start_goroutine_reports_native_and_skips_scriggo`: startGoroutine returns
true — without moving the program counter, so that the call instruction runs next — for a native
function value and for every call instruction other than OpCallFunc / OpCallIndirect, and false —
after moving the program counter past the call instruction and its stack shift — when it has
started a Scriggo function itself -/
theorem start_goroutine_reports_native_and_skips_scriggo :
    startGoroutineReturns = [("case OpCallIndirect; if f.fn == nil then", "true", 0), ("default", "true", 0),
      ("", "false", 2)] := by decide

/-- run.go's instructions start exactly the calls of go statements as goroutines -/
theorem go_flag_clear_outside_go_code (code : List Instr) (h : wf code = true) :
    run policyOfCode 0 false .none code = spec 0 false code := by
  rw [call_instructions_consume_go_flag]; exact go_flag_clear_outside_go code h

end ScriggoV.GoFlag
