import ScriggoV.Lemmas.FramesRefine
import ScriggoV.Lemmas.NativeDispatch
import ScriggoV.Lemmas.FramesStop
import ScriggoV.Model.RunFuncExit
/-! C12 — Run reports Stop, Fatal and unrecovered panics exactly as documented; and the
refinement of Scriggo's call-frame machine to the abstract Go defer/panic/recover machine that
C01 (stage two) uses; and the state in which native code is called, as the panic classifier
sees it. Models: `Model/Frames.lean` (hand-written from internal/runtime, tied by
go/props/c12), `Spec/GoDefer.lean` (validated against real gc on every check), `Model/NativeDispatch.lean` over the regenerated
`Gen/NativeCalls.lean` (run.go, vm.go) and `Gen/ConvertPanic.lean` (errors.go). -/
namespace ScriggoV.Props.C12
open ScriggoV.DeferLang ScriggoV.Frames ScriggoV.FramesRefine

/-! ### the frame machine behaves like Go -/

/-- For every program of the abstract instruction language (function tables over
call / tail call / defer / `defer recover()` / return / panic / recover / re-panic / Stop / Fatal /
print; `recoverDown` only in the function the compiler synthesises for `defer recover()`) and
every amount of fuel, Scriggo's frame machine and the abstract Go machine show the same
behaviour: the same printed values and values returned by `recover`, in the same order, and the
same outcome — normal end, the chain of active panics with their `recovered` flags, Stop,
Fatal, or out of fuel after exactly the same number of instructions (lock-step simulation
through `FramesRefine.Rel`). In particular the frame machine never dereferences a nil
`vm.panic` and never indexes an empty call stack (the Go machine has no such outcome). -/
theorem frames_refine_go (p : Prog) (hp : p.isUser = true) (fuel : Nat) :
    Frames.run p fuel = GoDefer.run p fuel :=
  iterate_sim p hp fuel init_rel

/-- the chain `Run` returns (messages in order, `recovered` flags) is the one gc prints -/
theorem panic_chain_matches_go (p : Prog) (hp : p.isUser = true) (fuel : Nat) (chain : Chain) :
    (Frames.run p fuel).outcome = .panicked chain ↔ (GoDefer.run p fuel).outcome = .panicked chain := by
  rw [frames_refine_go p hp fuel]

/-- the hypothesis is satisfiable by a program that nests panics, recoveries and re-panics -/
def demo : Prog :=
  [ [.defer 1, .defer 2, .deferRec, .panic 1],          -- main
    [.panic 2],                                          -- f1, deferred first: runs last
    [.recover, .defer 3, .call 4, .panic 5],             -- f2: recovers 1, then panics again
    [.repanic],                                          -- f3: re-panics what it recovers
    [.defer 5, .panic 4],                                -- f4: panics, its deferred call recovers
    [.recover] ]                                         -- f5

example : demo.isUser = true := by decide
example : Frames.run demo 100 =
    ⟨[.recov (some 1), .recov (some 4), .recov (some 5)],
     .panicked [⟨2, false⟩, ⟨5, false⟩, ⟨5, true⟩, ⟨1, true⟩]⟩ := by decide +kernel
example : GoDefer.run demo 100 = Frames.run demo 100 := by decide +kernel

/-- Without the fix of `nextCall` (fixes/C12-panic-chain-recovery.md) the three programs below
gave, on the real VM, a stale `1 [recovered]` in the chain, a missing `1 [recovered]`, and the
value 2 instead of 3 from `recover()`. The model of the fixed code agrees with Go. -/
def witness1 : Prog := [[.defer 1, .defer 2, .panic 1], [.panic 2], [.recover]]
def witness2 : Prog :=
  [[.defer 1, .panic 1], [.recover, .call 2, .panic 3], [.defer 3, .panic 2], [.recover]]
def witness3 : Prog :=
  [[.defer 1, .panic 1], [.call 2], [.defer 3, .call 5], [.call 4, .recover],
   [.defer 7, .panic 4], [.defer 6, .panic 2], [.panic 3], [.recover]]

example : Frames.run witness1 50 = ⟨[.recov (some 1)], .panicked [⟨2, false⟩]⟩ := by decide +kernel
example : Frames.run witness2 50 =
    ⟨[.recov (some 1), .recov (some 2)], .panicked [⟨3, false⟩, ⟨1, true⟩]⟩ := by decide +kernel
example : Frames.run witness3 50 =
    ⟨[.recov (some 4), .recov (some 3)], .panicked [⟨1, false⟩]⟩ := by decide +kernel

/-! ### Stop and Fatal -/

/-- From any call stack — whatever deferred, panicked or recovered frames it holds — an
instruction that calls `env.Stop(errs[k])` ends the run at once: `Run` returns that very error,
nothing more is printed and no deferred frame is executed (the events are those already there). -/
theorem stop_returns_err_no_defers (p : Prog) (s : Frames.State) (body : Body) (k : Nat)
    (hb : bodyOf p s.cur = some body) (hi : fetch body s.pc = .stop k) (n : Nat) :
    iterate (Frames.step p) (fun s => s.out.reverse) (n + 1) s = ⟨s.out.reverse, .stopped k⟩ := by
  simp [iterate, Frames.step, hb, hi]

/-- `env.Fatal(v)`: the host panics with `v` itself, no deferred frame is executed -/
theorem fatal_panics_with_v (p : Prog) (s : Frames.State) (body : Body) (v : Nat)
    (hb : bodyOf p s.cur = some body) (hi : fetch body s.pc = .fatal v) (n : Nat) :
    iterate (Frames.step p) (fun s => s.out.reverse) (n + 1) s = ⟨s.out.reverse, .fatal v⟩ := by
  simp [iterate, Frames.step, hb, hi]

/-- a state with pending deferred calls and a panic in progress, about to call Stop -/
example : ∃ (p : Prog) (s : Frames.State) (body : Body),
    bodyOf p s.cur = some body ∧ fetch body s.pc = .stop 2 ∧
    s.calls.any (·.status = .deferred) ∧ s.calls.any (·.status = .panicked) ∧ s.chain ≠ [] :=
  ⟨[[.defer 1, .defer 1, .panic 7], [.print 1, .stop 2]],
   { cur := .fn 1, pc := 1,
     calls := [⟨.fn 0, 0, .panicked, []⟩, ⟨.fn 1, 0, .deferred, []⟩],
     chain := [⟨7, false⟩], out := [.out 1] }, _, rfl, rfl, by decide, by decide, by simp⟩

example : Frames.run [[.defer 1, .defer 1, .panic 7], [.print 1, .stop 2]] 50 = ⟨[.out 1], .stopped 2⟩ := by
  decide +kernel
example : Frames.run [[.defer 1, .call 2], [.print 1], [.defer 1, .fatal 9]] 50 = ⟨[], .fatal 9⟩ := by
  decide +kernel

/-! ### Stop and Fatal dominate the active panics

`env.Stop(err)` and `env.Fatal(v)` may be called while panics are active: from a deferred call that
runs because its function is panicking, after a `recover()` in the same deferred call (the panic is
dropped only when that call returns), with several panics stacked. The documentation makes no
exception: `Run` returns `err` / panics with `v`. -/

/-- For every program of the abstract language: whenever a run of the frame machine reaches —
after any number `m` of steps, so with any call stack and any chain of active or recovered panics
— an instruction that calls `env.Stop(errs[k])`, every run with more fuel ends there: `Run`
returns that very error, the events are those printed so far, and the outcome is not the panic
chain. -/
theorem stop_dominates_active_panic (p : Prog) (m : Nat) (s : Frames.State)
    (hreach : Frames.StepsTo p m Frames.init s) (body : Body) (k : Nat)
    (hb : bodyOf p s.cur = some body) (hi : fetch body s.pc = .stop k) (n : Nat) :
    Frames.run p (m + (n + 1)) = ⟨s.out.reverse, .stopped k⟩ ∧
    ∀ chain, (Frames.run p (m + (n + 1))).outcome ≠ .panicked chain := by
  have h : Frames.run p (m + (n + 1)) = ⟨s.out.reverse, .stopped k⟩ := by
    unfold Frames.run
    rw [Frames.iterate_stepsTo hreach (n + 1)]
    exact stop_returns_err_no_defers p s body k hb hi n
  exact ⟨h, by intro chain; rw [h]; simp⟩

/-- the same for `env.Fatal(v)`: the host panics with `v`, whatever panics were active -/
theorem fatal_dominates_active_panic (p : Prog) (m : Nat) (s : Frames.State)
    (hreach : Frames.StepsTo p m Frames.init s) (body : Body) (v : Nat)
    (hb : bodyOf p s.cur = some body) (hi : fetch body s.pc = .fatal v) (n : Nat) :
    Frames.run p (m + (n + 1)) = ⟨s.out.reverse, .fatal v⟩ ∧
    ∀ chain, (Frames.run p (m + (n + 1))).outcome ≠ .panicked chain := by
  have h : Frames.run p (m + (n + 1)) = ⟨s.out.reverse, .fatal v⟩ := by
    unfold Frames.run
    rw [Frames.iterate_stepsTo hreach (n + 1)]
    exact fatal_panics_with_v p s body v hb hi n
  exact ⟨h, by intro chain; rw [h]; simp⟩

/-- … and Go agrees (the abstract Go machine on the same program), by the refinement -/
theorem stop_dominates_active_panic_go (p : Prog) (hp : p.isUser = true) (m : Nat) (s : Frames.State)
    (hreach : Frames.StepsTo p m Frames.init s) (body : Body) (k : Nat)
    (hb : bodyOf p s.cur = some body) (hi : fetch body s.pc = .stop k) (n : Nat) :
    GoDefer.run p (m + (n + 1)) = ⟨s.out.reverse, .stopped k⟩ := by
  rw [← frames_refine_go p hp]
  exact (stop_dominates_active_panic p m s hreach body k hb hi n).1

/-- the hypotheses are met by a run that is panicking when Stop is called: `main` defers `f1` and
panics with 7; `f1` recovers (the panic stays in the chain, marked recovered, until `f1` returns),
panics are active, and calls Stop(2) -/
example : ∃ (s : Frames.State) (body : Body),
    Frames.StepsTo [[.defer 1, .panic 7], [.recover, .stop 2]] 3 Frames.init s ∧
    bodyOf [[.defer 1, .panic 7], [.recover, .stop 2]] s.cur = some body ∧
    fetch body s.pc = .stop 2 ∧ s.chain ≠ [] := by
  refine ⟨_, _, .step rfl (.step rfl (.step rfl (.refl _))), rfl, rfl, by decide⟩

example : Frames.run [[.defer 1, .panic 7], [.recover, .stop 2]] 50 = ⟨[.recov (some 7)], .stopped 2⟩ := by
  decide +kernel
example : Frames.run [[.defer 1, .defer 2, .panic 7], [.fatal 9], [.panic 8]] 50 = ⟨[], .fatal 9⟩ := by
  decide +kernel

/-- The exit path of `VM.runFunc`, regenerated from run.go on every check: an error that is not a
`*PanicError` (the stopError of `env.Stop`, the `*fatalError` of `env.Fatal`) is what runFunc
returns — whether or not `vm.panic` holds active panics, whether or not the context watcher has
fired. (`VM.Run` then unwraps it: `Gen.ConvertPanic.runUnwrap`.) -/
theorem runFunc_returns_stop_fatal_before_panic_chain (panicActive ctxDone : Bool) :
    RunFuncExit.onNonPanicError panicActive ctxDone = some .err := by
  cases panicActive <;> cases ctxDone <;> decide

/-- and at the normal end of the loop an active panic chain is what runFunc returns -/
theorem runFunc_returns_panic_chain_at_end :
    RunFuncExit.evalTail Gen.RunFuncExit.tail true false = some .panicChain := by decide

/-- teeth: a single exit `break … if vm.panic != nil { return vm.panic }; return err` gives the
panic chain precedence over Stop/Fatal -/
example : RunFuncExit.evalTail [.ifDoneReturnCtxErr, .ifPanicReturnPanic, .returnErr] true false = some .panicChain := by
  decide

/-! ### native code is called in a state the panic classifier recognises

`convertPanic` decides what a Go panic recovered by the VM means by looking at
`vm.fn.Body[vm.pc-1].Op`. For a panic that comes out of native code to be reported as documented
(`panic(v)` → a panic of the program: deferred calls run, `recover()` sees `v`, `Run` returns
`*PanicError`; `env.Fatal(v)` → `Run` panics; `env.Stop(err)` → `Run` returns `err`) the VM must
call native code only while that word is the call instruction itself. The sites are regenerated
from run.go / vm.go on every check (`Gen/NativeCalls.lean`), the classification from errors.go
(`Gen/ConvertPanic.lean`). -/
section NativeDispatch
open ScriggoV.NativeDispatch ScriggoV.Gen.ConvertPanic ScriggoV.Gen.NativeCalls

/-- Every place of the instruction loop that calls `vm.callNative` — whatever the way the native
function is reached: `OpCallNative` (a direct call) or `OpCallIndirect` (a function value, a
method value, a method called through an interface) — does so with `vm.pc` exactly one past the
call instruction, under a case label that `convertPanic` treats as "native code was running": for
every function body, every address holding that call instruction, whatever the operand word
after it holds, and every documented payload, the classification is the documented one. -/
theorem native_call_panic_classified (s : Site) (hs : s ∈ runSites) (ht : s.target = "callNative")
    (op : Op) (neg : Bool) (ho : (op, neg) ∈ s.ops) (body : List Word) (addr : Nat)
    (hb : body[addr]? = some (encode op neg)) (p : Payload) (o : Gen.ConvertPanic.Outcome)
    (hd : documented p = some o) :
    classifyAt body (addr + s.pcAtCall) s.nativeCallee p = o := by
  have hall : (runSites.filter (·.target == "callNative")).all siteOk = true := by decide
  have hmem : s ∈ runSites.filter (·.target == "callNative") := by
    simp [List.mem_filter, hs, ht]
  exact classifyAt_site s (List.all_eq_true.mp hall s hmem) op neg ho body addr hb p o hd

/-- … and on the way out the operand word (the stack shift) after the call instruction is
skipped: it is never fetched as an instruction. -/
theorem native_call_skips_operand (s : Site) (hs : s ∈ runSites) (ht : s.target = "callNative") :
    s.pcAtEnd = some 2 := by
  have hall : (runSites.filter (·.target == "callNative")).all skipsOperand = true := by decide
  have hmem : s ∈ runSites.filter (·.target == "callNative") := by
    simp [List.mem_filter, hs, ht]
  simpa [skipsOperand] using List.all_eq_true.mp hall s hmem

/-- Deferred native functions are called in place by `nextCall`. `nextCall` leaves `vm.fn` and
`vm.pc` alone on the way to that call, and it runs either with no function (`vm.fn == nil`,
from `runRecoverable` while the program unwinds) or from a site of the instruction loop that is
sound in the sense above (`OpReturn`): in both states every documented payload gets its
documented outcome. -/
theorem deferred_native_panic_classified :
    nextCallKeepsFnPc = true ∧ recoverableNextCallOnlyWithoutFn = true ∧
    (∀ op neg nc p o, documented p = some o → classify false op neg nc p = o) ∧
    (∀ s ∈ runSites, s.target = "nextCall" → ∀ op neg, (op, neg) ∈ s.ops →
      ∀ (body : List Word) (addr : Nat), body[addr]? = some (encode op neg) →
      ∀ p o, documented p = some o → classifyAt body (addr + s.pcAtCall) s.nativeCallee p = o) := by
  refine ⟨by decide, by decide, fun op neg nc p o hd => noFn_sound op neg nc p o hd, ?_⟩
  intro s hs ht op neg ho body addr hb p o hd
  have hall : (runSites.filter (·.target == "nextCall")).all siteOk = true := by decide
  have hmem : s ∈ runSites.filter (·.target == "nextCall") := by
    simp [List.mem_filter, hs, ht]
  exact classifyAt_site s (List.all_eq_true.mp hall s hmem) op neg ho body addr hb p o hd

/-- the statements are about something: there is a direct and an indirect native call site -/
example : (runSites.filter (·.target == "callNative")).map (·.ops) =
    [[(.OpCallIndirect, false)], [(.OpCallNative, false)]] := by decide

/-- The obligation has teeth: were the native function called one word later (after the
`vm.pc++` that skips the operand), a `panic(v)` inside it would be classified by the operand
word — a stack shift, here 0 — and leave `Run` as a host panic instead of a `*PanicError`. -/
example : classifyAt [encode .OpCallIndirect false, 0] (0 + 2) true .other = .fatal := by decide
example : classifyAt [encode .OpCallIndirect false, 0] (0 + 1) true .other = .panicError := by decide
/-- the same for a callee that is not known to be native (the `f.fn == nil` test missing) -/
example : classifyAt [encode .OpCallIndirect false, 0] (0 + 1) false .other = .fatal := by decide

end NativeDispatch

/-! ### the public accessor layer -/

/-- Following `Next()` from the error `Run` returned reaches nil after exactly as many links
as the chain has, every accessor call on the way succeeds, and the links read are the chain. -/
theorem next_terminates (c : Chain) :
    Pub.walk Pub.next (c.length + 1) (Pub.ofRun c) = .ok (some c) := by
  have key : ∀ (t : Chain) (l : Link),
      Pub.walk Pub.next (t.length + 2) (.wrap (l :: t)) = .ok (some (l :: t)) := by
    intro t
    induction t with
    | nil => intro l; simp [Pub.walk, Pub.message, Pub.recovered, Pub.next, bind, Except.bind]
    | cons l2 t2 ih =>
      intro l
      have h := ih l2
      simp only [List.length_cons] at h ⊢
      simp [Pub.walk, Pub.message, Pub.recovered, Pub.next, bind, Except.bind] at h ⊢
      simp [h]
  cases c with
  | nil => simp [Pub.ofRun, Pub.walk]
  | cons l t => simpa [Pub.ofRun] using key t l

/-- `Next` as it was before the fix (fixes/C12-panicerror-next.md): the statement of
`next_terminates` is false, the walk dereferences nil right after the last link. -/
def NextTerminatesOld : Prop :=
  ∀ c : Chain, Pub.walk Pub.nextOld (c.length + 1) (Pub.ofRun c) = .ok (some c)

theorem nextOld_not_terminates : ¬ NextTerminatesOld := by
  intro h
  have := h [⟨1, false⟩]
  simp [Pub.ofRun, Pub.walk, Pub.message, Pub.recovered, Pub.nextOld, bind, Except.bind] at this

example : Pub.walk Pub.next 3 (Pub.ofRun [⟨2, false⟩, ⟨1, true⟩]) = .ok (some [⟨2, false⟩, ⟨1, true⟩]) := rfl

end ScriggoV.Props.C12
