import ScriggoV.Lemmas.FramesRefine
/-! C12 — Run reports Stop, Fatal and unrecovered panics exactly as documented; and the
refinement of Scriggo's call-frame machine to the abstract Go defer/panic/recover machine that
C01 (stage two) uses. Models: `Model/Frames.lean` (hand-written from internal/runtime, tied by
go/props/c12), `Spec/GoDefer.lean` (validated against real gc on every check). -/
namespace ScriggoV.Props.C12
open ScriggoV.DeferLang ScriggoV.Frames ScriggoV.FramesRefine

/-! ### the frame machine behaves like Go -/

/-- For every program of the abstract instruction language (function tables over
call / tail call / defer / `defer recover()` / return / panic / recover / re-panic / Stop / Fatal /
print; `recoverDown` only in the function the compiler synthesises for `defer recover()`) and
every amount of fuel, Scriggo's frame machine and the abstract Go machine show the same
behaviour: the same printed values and values returned by `recover`, in the same order, and the
same outcome — normal end, the chain of active panics with their `recovered` flags, Stop,
Fatal, or out of fuel after exactly the same number of instructions (lock-step simulation
through `FramesRefine.Rel`). In particular the frame machine never dereferences a nil
`vm.panic` and never indexes an empty call stack (the Go machine has no such outcome). -/
theorem frames_refine_go (p : Prog) (hp : p.isUser = true) (fuel : Nat) :
    Frames.run p fuel = GoDefer.run p fuel :=
  iterate_sim p hp fuel init_rel

/-- the chain `Run` returns (messages in order, `recovered` flags) is the one gc prints -/
theorem panic_chain_matches_go (p : Prog) (hp : p.isUser = true) (fuel : Nat) (chain : Chain) :
    (Frames.run p fuel).outcome = .panicked chain ↔ (GoDefer.run p fuel).outcome = .panicked chain := by
  rw [frames_refine_go p hp fuel]

/-- the hypothesis is satisfiable by a program that nests panics, recoveries and re-panics -/
def demo : Prog :=
  [ [.defer 1, .defer 2, .deferRec, .panic 1],          -- main
    [.panic 2],                                          -- f1, deferred first: runs last
    [.recover, .defer 3, .call 4, .panic 5],             -- f2: recovers 1, then panics again
    [.repanic],                                          -- f3: re-panics what it recovers
    [.defer 5, .panic 4],                                -- f4: panics, its deferred call recovers
    [.recover] ]                                         -- f5

example : demo.isUser = true := by decide
example : Frames.run demo 100 =
    ⟨[.recov (some 1), .recov (some 4), .recov (some 5)],
     .panicked [⟨2, false⟩, ⟨5, false⟩, ⟨5, true⟩, ⟨1, true⟩]⟩ := by decide +kernel
example : GoDefer.run demo 100 = Frames.run demo 100 := by decide +kernel

/-- Without the fix of `nextCall` (fixes/C12-panic-chain-recovery.md) the three programs below
gave, on the real VM, a stale `1 [recovered]` in the chain, a missing `1 [recovered]`, and the
value 2 instead of 3 from `recover()`. The model of the fixed code agrees with Go. -/
def witness1 : Prog := [[.defer 1, .defer 2, .panic 1], [.panic 2], [.recover]]
def witness2 : Prog :=
  [[.defer 1, .panic 1], [.recover, .call 2, .panic 3], [.defer 3, .panic 2], [.recover]]
def witness3 : Prog :=
  [[.defer 1, .panic 1], [.call 2], [.defer 3, .call 5], [.call 4, .recover],
   [.defer 7, .panic 4], [.defer 6, .panic 2], [.panic 3], [.recover]]

example : Frames.run witness1 50 = ⟨[.recov (some 1)], .panicked [⟨2, false⟩]⟩ := by decide +kernel
example : Frames.run witness2 50 =
    ⟨[.recov (some 1), .recov (some 2)], .panicked [⟨3, false⟩, ⟨1, true⟩]⟩ := by decide +kernel
example : Frames.run witness3 50 =
    ⟨[.recov (some 4), .recov (some 3)], .panicked [⟨1, false⟩]⟩ := by decide +kernel

/-! ### Stop and Fatal -/

/-- From any call stack — whatever deferred, panicked or recovered frames it holds — an
instruction that calls `env.Stop(errs[k])` ends the run at once: `Run` returns that very error,
nothing more is printed and no deferred frame is executed (the events are those already there). -/
theorem stop_returns_err_no_defers (p : Prog) (s : Frames.State) (body : Body) (k : Nat)
    (hb : bodyOf p s.cur = some body) (hi : fetch body s.pc = .stop k) (n : Nat) :
    iterate (Frames.step p) (fun s => s.out.reverse) (n + 1) s = ⟨s.out.reverse, .stopped k⟩ := by
  simp [iterate, Frames.step, hb, hi]

/-- `env.Fatal(v)`: the host panics with `v` itself, no deferred frame is executed -/
theorem fatal_panics_with_v (p : Prog) (s : Frames.State) (body : Body) (v : Nat)
    (hb : bodyOf p s.cur = some body) (hi : fetch body s.pc = .fatal v) (n : Nat) :
    iterate (Frames.step p) (fun s => s.out.reverse) (n + 1) s = ⟨s.out.reverse, .fatal v⟩ := by
  simp [iterate, Frames.step, hb, hi]

/-- a state with pending deferred calls and a panic in progress, about to call Stop -/
example : ∃ (p : Prog) (s : Frames.State) (body : Body),
    bodyOf p s.cur = some body ∧ fetch body s.pc = .stop 2 ∧
    s.calls.any (·.status = .deferred) ∧ s.calls.any (·.status = .panicked) ∧ s.chain ≠ [] :=
  ⟨[[.defer 1, .defer 1, .panic 7], [.print 1, .stop 2]],
   { cur := .fn 1, pc := 1,
     calls := [⟨.fn 0, 0, .panicked, []⟩, ⟨.fn 1, 0, .deferred, []⟩],
     chain := [⟨7, false⟩], out := [.out 1] }, _, rfl, rfl, by decide, by decide, by simp⟩

example : Frames.run [[.defer 1, .defer 1, .panic 7], [.print 1, .stop 2]] 50 = ⟨[.out 1], .stopped 2⟩ := by
  decide +kernel
example : Frames.run [[.defer 1, .call 2], [.print 1], [.defer 1, .fatal 9]] 50 = ⟨[], .fatal 9⟩ := by
  decide +kernel

/-! ### the public accessor layer -/

/-- Following `Next()` from the error `Run` returned reaches nil after exactly as many links
as the chain has, every accessor call on the way succeeds, and the links read are the chain. -/
theorem next_terminates (c : Chain) :
    Pub.walk Pub.next (c.length + 1) (Pub.ofRun c) = .ok (some c) := by
  have key : ∀ (t : Chain) (l : Link),
      Pub.walk Pub.next (t.length + 2) (.wrap (l :: t)) = .ok (some (l :: t)) := by
    intro t
    induction t with
    | nil => intro l; simp [Pub.walk, Pub.message, Pub.recovered, Pub.next, bind, Except.bind]
    | cons l2 t2 ih =>
      intro l
      have h := ih l2
      simp only [List.length_cons] at h ⊢
      simp [Pub.walk, Pub.message, Pub.recovered, Pub.next, bind, Except.bind] at h ⊢
      simp [h]
  cases c with
  | nil => simp [Pub.ofRun, Pub.walk]
  | cons l t => simpa [Pub.ofRun] using key t l

/-- `Next` as it was before the fix (fixes/C12-panicerror-next.md): the statement of
`next_terminates` is false, the walk dereferences nil right after the last link. -/
def NextTerminatesOld : Prop :=
  ∀ c : Chain, Pub.walk Pub.nextOld (c.length + 1) (Pub.ofRun c) = .ok (some c)

theorem nextOld_not_terminates : ¬ NextTerminatesOld := by
  intro h
  have := h [⟨1, false⟩]
  simp [Pub.ofRun, Pub.walk, Pub.message, Pub.recovered, Pub.nextOld, bind, Except.bind] at this

example : Pub.walk Pub.next 3 (Pub.ofRun [⟨2, false⟩, ⟨1, true⟩]) = .ok (some [⟨2, false⟩, ⟨1, true⟩]) := rfl

end ScriggoV.Props.C12
