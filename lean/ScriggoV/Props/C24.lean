import ScriggoV.Lemmas.HTMLEscape
import ScriggoV.Lemmas.EscapeHtml
/-! C24 — HTMLEscape escapes exactly the five HTML-significant characters.
Property theorems only; the loop invariants are in `Lemmas/HTMLEscape.lean`. -/
namespace ScriggoV.HTMLEscape

/-- **C24, main theorem.** For every byte string the two-pass algorithm returns, without
any index or slice fault, the string with each of `< > & " '` replaced by its entity and
every other byte unchanged (so the pre-sized buffer is exactly filled and the early-exit
branch is dead). -/
theorem htmlEscape_eq_spec (s : Bytes) : htmlEscape s = .ok (spec s) := by
  unfold htmlEscape
  obtain ⟨h1, h2⟩ := pass1_first s 0 0
  by_cases hz : extra s = 0
  · rw [h1 hz]; simp [spec_of_extra_zero s hz]
  · obtain ⟨pre, post, hs, hpre, hp, hpost⟩ := h2 (by omega)
    rw [hp]
    clear h1 h2 hp
    subst hs
    have hne : (extra (pre ++ post) == 0) = false := by simpa using hz
    simp only [hne, Bool.false_eq_true, if_false, Nat.zero_add]
    rw [← hpost]
    have hb : prefill (pre ++ post)
        (List.replicate ((pre ++ post).length + extra post) (0:UInt8)) pre.length
        = (Except.ok (pre ++ List.replicate (post.length + extra post) 0) : Except Fault Bytes) := by
      unfold prefill
      split
      · have e1 : sliceOf (pre ++ post) 0 pre.length = .ok pre := by
          unfold sliceOf; simp
        have e2 : sliceOf (List.replicate ((pre ++ post).length + extra post) (0:UInt8)) 0 pre.length
            = .ok (List.replicate pre.length 0) := by
          unfold sliceOf
          simp only [List.length_replicate, List.length_append]
          rw [if_pos (by omega)]
          simp
          omega
        rw [e1, e2]
        simp only [bind, Except.bind]
        have := copyAt_zeros [] pre ((pre ++ post).length + extra post) (by simp; omega)
        simp only [List.nil_append, List.length_nil] at this
        rw [this]
        simp
        omega
      · have : pre = [] := by
          cases pre with
          | nil => rfl
          | cons _ _ => simp at *
        subst this
        simp [pure, Except.pure]
    rw [hb]
    have e3 : sliceOf (pre ++ post) pre.length (pre ++ post).length = .ok post := by
      unfold sliceOf
      rw [if_pos (by simp), List.take_length]
      simp
    simp only [e3]
    have := pass2_spec (extra post) post pre.length 0 pre (by simp) (by omega)
    rw [this]
    simp only [spec, List.flatMap_append]
    have := spec_of_extra_zero pre hpre
    simp only [spec] at this
    rw [this]

/-- no fault for any input (corollary, stated on its own because it is the "never panics" half) -/
theorem htmlEscape_no_fault (s : Bytes) : ∀ f, htmlEscape s ≠ .error f := by
  intro f; rw [htmlEscape_eq_spec]; intro h; cases h

/-- only the five bytes change: a string without them is returned unchanged -/
theorem htmlEscape_id_of_plain (s : Bytes) (h : ∀ c ∈ s, entity c = none) :
    htmlEscape s = .ok s := by
  rw [htmlEscape_eq_spec]
  congr 1
  induction s with
  | nil => rfl
  | cons c cs ih =>
    simp only [spec, List.flatMap_cons] at *
    rw [ih (fun x hx => h x (List.mem_cons_of_mem _ hx))]
    simp [esc5, h c (List.mem_cons_self)]


/-! ### entity decoding gives `s` back (second half of the property) -/
open ScriggoV.Escape ScriggoV.Decode in
theorem entity_caseFact : ∀ c, caseFact entity c = true := allBytes_spec (by decide +kernel)

open ScriggoV.Escape in
theorem spec_eq_simple (s : Bytes) : spec s = simple (fun c _ => ofCase (entity c)) s := by
  induction s with
  | nil => rfl
  | cons c cs ih =>
    simp only [spec, List.flatMap_cons, simple] at *
    rw [← ih]
    congr 1
    unfold piece esc5 ofCase
    cases h : entity c <;> simp [h]

open ScriggoV.Escape ScriggoV.Decode in
/-- **C24, decoding.** HTML character-reference decoding (for any named-entity table that knows
`amp`, `lt`, `gt`; numeric references per the standard) of `HTMLEscape(s)` yields exactly `s`,
for every byte string. -/
theorem htmlDecode_htmlEscape (named : Named) (hstd : Named.Std named) (s : Bytes) :
    (htmlEscape s).map (htmlDecode named) = .ok s := by
  rw [htmlEscape_eq_spec]
  have h := html_roundtrip_of_caseFact entity entity_caseFact named hstd s
  rw [escLoop_flatten, List.nil_append, ← spec_eq_simple] at h
  simp [Except.map, htmlDecode, h]

-- non-vacuity / sanity: a concrete non-trivial input exercises both passes
example : htmlEscape [97, 60, 98, 38, 34, 99, 39, 62]
    = .ok [97, 38,108,116,59, 98, 38,97,109,112,59, 38,35,51,52,59, 99, 38,35,51,57,59, 38,103,116,59] := by rfl

end ScriggoV.HTMLEscape
