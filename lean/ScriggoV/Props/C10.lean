import ScriggoV.Lemmas.Runs
import ScriggoV.Gen.SharedWrites
import ScriggoV.Lemmas.GlobalInit
/-! # C10 — compiled programs and templates run in isolation, repeatedly and concurrently

Property theorems only.  `noninterference` and `runs_repeatable` are about the abstract machine of
`Model/Runs.lean` and hold for **every** schedule; they rest on the frame hypothesis `Frame`
("a step writes only outside the core of the artefact, and depends only on the core").  The
frame hypothesis is tied to the Go code by the *generated* list of write sites
(`Gen/SharedWrites.lean`, regenerated from /repo on every check): the theorems at the end say
that this list is exactly the allow-list below, each entry of which was read and argued for.
A new write site makes `write_sites_allowlisted` fail: an undischarged obligation.

What this does **not** prove: that the Go scheduler/memory model behaves like an interleaving of
atomic steps (data races are invisible to the model; only `-race` stress runs can see them), nor
that the extractor sees writes hidden behind more than one level of aliasing or inside native
(embedder) code. -/
namespace ScriggoV.Runs
open ScriggoV.Gen.SharedWrites

variable {M : Machine} {C : Type}

/-- generalised non-interference: a scheduled system `s` and a system `a` that holds only run
`i` (at index 0) stay related — same core, same local state of the run, same emitted output —
whatever the other runs do in between. -/
theorem noninterference_gen (F : Frame M C) (i : Nat) :
    ∀ (sched : List Nat) (s a : Sys M),
      F.core s.sh = F.core a.sh → s.ls[i]? = a.ls[0]? →
      F.core (runSched sched s).sh = F.core (runSched (List.replicate (sched.count i) 0) a).sh ∧
      (runSched sched s).ls[i]? = (runSched (List.replicate (sched.count i) 0) a).ls[0]? ∧
      ∃ os, obsOf i (runSched sched s) = obsOf i s ++ os ∧
            obsOf 0 (runSched (List.replicate (sched.count i) 0) a) = obsOf 0 a ++ os := by
  intro sched
  induction sched with
  | nil => intro s a hc hl; exact ⟨hc, hl, [], by simp [runSched_nil], by simp [runSched_nil]⟩
  | cons j sched ih =>
    intro s a hc hl
    by_cases hj : j = i
    · subst hj
      rw [List.count_cons_self, List.replicate_succ, runSched_cons, runSched_cons]
      cases hsl : s.ls[j]? with
      | none =>
        rw [stepRun_none s hsl, stepRun_none a (by rw [← hl, hsl])]
        exact ih s a hc hl
      | some l =>
        have hal : a.ls[0]? = some l := by rw [← hl, hsl]
        obtain ⟨s1, s2, s3⟩ := stepRun_self s l hsl
        obtain ⟨a1, a2, a3⟩ := stepRun_self a l hal
        have hdet := F.det s.sh a.sh l hc
        have hc' : F.core (stepRun j s).sh = F.core (stepRun 0 a).sh := by
          rw [stepRun_core, stepRun_core]; exact hc
        have hl' : (stepRun j s).ls[j]? = (stepRun 0 a).ls[0]? := by rw [s2, a2, hdet]
        obtain ⟨r1, r2, os, r3, r4⟩ := ih (stepRun j s) (stepRun 0 a) hc' hl'
        refine ⟨r1, r2, (M.step s.sh l).2.2 ++ os, ?_, ?_⟩
        · rw [r3, s3, List.append_assoc]
        · rw [r4, a3, List.append_assoc, hdet]
    · rw [List.count_cons_of_ne (by simpa using hj), runSched_cons]
      have hc' : F.core (stepRun j s).sh = F.core a.sh := by rw [stepRun_core]; exact hc
      have hl' : (stepRun j s).ls[i]? = a.ls[0]? := by rw [stepRun_local_other hj]; exact hl
      obtain ⟨r1, r2, os, r3, r4⟩ := ih (stepRun j s) a hc' hl'
      exact ⟨r1, r2, os, by rw [r3, stepRun_obs_other hj], r4⟩

/-- **C10, non-interference.** For every schedule (interleaving of the steps of any number of
runs of one artefact) what can be observed of run `i` — its final local state and everything it
emitted — is what the same run gives when it runs **alone** on the artefact for the same number
of steps. Hypothesis: the frame `F`. -/
theorem noninterference (F : Frame M C) (sched : List Nat) (s : Sys M) (i : Nat)
    (h0 : s.trace = []) :
    observe i (runSched sched s) = observe 0 (runAlone i sched s) := by
  have h := noninterference_gen F i sched s (alone i s) rfl (by
    unfold alone; cases s.ls[i]? <;> simp)
  obtain ⟨_, hl, os, ho1, ho2⟩ := h
  unfold observe runAlone
  rw [hl, ho1, ho2]
  simp [obsOf, alone, h0]

/-- two runs that start from equal local states (same inputs) and are given the same number of
steps make the same observations, whatever the interleaving -/
theorem equal_inputs_equal_observations (F : Frame M C) (sched : List Nat) (s : Sys M) (i j : Nat)
    (h0 : s.trace = []) (hij : s.ls[i]? = s.ls[j]?) (hn : sched.count i = sched.count j) :
    observe i (runSched sched s) = observe j (runSched sched s) := by
  rw [noninterference F sched s i h0, noninterference F sched s j h0]
  unfold runAlone alone
  rw [hij, hn]

/-- the sequential schedule: run 0 for `k` steps, then run 1 for `k` steps, … (`n` runs) -/
def sequential (n k : Nat) : List Nat := (List.range n).flatMap (fun i => List.replicate k i)

theorem count_sequential (n k i : Nat) (hi : i < n) : (sequential n k).count i = k := by
  unfold sequential
  induction n with
  | zero => omega
  | succ n ih =>
    rw [List.range_succ, List.flatMap_append, List.count_append]
    by_cases h : i < n
    · rw [ih h]
      have : i ≠ n := by omega
      simp [List.count_replicate]
      omega
    · have hin : i = n := by omega
      subst hin
      have : (List.flatMap (fun i => List.replicate k i) (List.range i)).count i = 0 := by
        rw [List.count_eq_zero]
        intro hm
        rw [List.mem_flatMap] at hm
        obtain ⟨x, hx, hx2⟩ := hm
        rw [List.mem_range] at hx
        have := List.eq_of_mem_replicate hx2
        omega
      rw [this]
      simp

/-- **C10, repeatability.** `n` runs one after the other (each for `k` steps) from equal inputs
give `n` equal observations — and each equals that of a single run on a fresh copy. -/
theorem runs_repeatable (F : Frame M C) (n k : Nat) (sh : M.Shared) (l : M.Local) (i j : Nat)
    (hi : i < n) (hj : j < n) :
    observe i (runSched (sequential n k) ⟨sh, List.replicate n l, []⟩) =
    observe j (runSched (sequential n k) ⟨sh, List.replicate n l, []⟩) ∧
    observe i (runSched (sequential n k) ⟨sh, List.replicate n l, []⟩) =
    observe 0 (runSched (List.replicate k 0) ⟨sh, [l], []⟩) := by
  constructor
  · apply equal_inputs_equal_observations F _ _ i j rfl
    · simp [hi, hj]
    · rw [count_sequential n k i hi, count_sequential n k j hj]
  · rw [noninterference F _ _ i rfl]
    unfold runAlone alone
    rw [count_sequential n k i hi]
    simp [hi]

/-! ## The frame holds for the toy machine with the pooled argument slice — and fails without
the overwrite -/

theorem slot0_fill (s : List Int) (v : Int) : slot0 (fill s v) = v := rfl

/-- the frame of the toy machine, for the two safe policies (`never` = the code, `afterRead`): the
core is the code; the pools are outside it; a started native goroutine owns its argument slice -/
def toyFrameOf (pol : PutPolicy) (hpol : pol ≠ .atGo) :
    Frame ⟨Artefact, Run, ToyObs, toyStep true pol⟩ (List Instr) where
  core := fun sh => sh.body
  pres := by
    intro sh l
    show (toyStep true pol sh l).1.body = sh.body
    unfold toyStep deliver
    repeat' split
    all_goals rfl
  det := by
    intro sh sh' l h
    show (toyStep true pol sh l).2 = (toyStep true pol sh' l).2
    unfold toyStep deliver
    rw [h]
    repeat' split
    all_goals first
      | rfl
      | (simp [slot0_fill]; done)
      | (exfalso; apply hpol; assumption)
      | (exfalso; simp at *; done)

def toyFrame : Frame toy (List Instr) := toyFrameOf .never (by decide)
def toyAfterReadFrame : Frame toyAfterRead (List Instr) := toyFrameOf .afterRead (by decide)

/-- non-interference for the toy machine (the hypothesis of `noninterference` is satisfiable by
a machine that does write its artefact) -/
theorem toy_noninterference (sched : List Nat) (s : Sys toy) (i : Nat) (h0 : s.trace = []) :
    observe i (runSched sched s) = observe 0 (runAlone i sched s) :=
  noninterference toyFrame sched s i h0

/-- **when the pool may be refilled**: putting the slice of a `go` call back *after the callee has
read its arguments* keeps non-interference … -/
theorem put_after_read_is_safe (sched : List Nat) (s : Sys toyAfterRead) (i : Nat) (h0 : s.trace = []) :
    observe i (runSched sched s) = observe 0 (runAlone i sched s) :=
  noninterference toyAfterReadFrame sched s i h0

/-- a program that calls a native function and shows the result -/
def demoBody : List Instr := [.const 0 5, .addv 0, .native 0 0, .show 0]

/-- a program that starts a native function with `go` and waits for it -/
def goBody : List Instr := [.const 0 5, .addv 0, .goNative 0 0, .join]

/-- without the overwrite ("slices overwritten before use" removed) the same statement is
**false**: run 1 sees the argument run 0 left in the pool. The frame hypothesis is necessary. -/
theorem stale_pool_interferes :
    ¬ ∀ (sched : List Nat) (s : Sys toyStale) (i : Nat), s.trace = [] →
        observe i (runSched sched s) = observe 0 (runAlone i sched s) := by
  intro h
  have := h [0, 0, 0, 0, 1, 1, 1, 1]
    ⟨⟨demoBody, [[]]⟩, [freshRun 4 1, freshRun 4 2], []⟩ 1 rfl
  exact absurd this (by decide)

/-- … but putting it back *at the go statement* (`fn.argsPool.Put(args)` reachable after
`go fn.value.Call(args)`) is **not**: run 0 starts `go native(6)`, run 1 calls the same native
function and overwrites the pooled slice with 7 before run 0's goroutine has read it; run 0's
goroutine records `native(7) = 21` instead of 18. Hence the generated fact
`no_put_reachable_after_go` below. -/
theorem put_at_go_interferes :
    ¬ ∀ (sched : List Nat) (s : Sys toyPutAtGo) (i : Nat), s.trace = [] →
        observe i (runSched sched s) = observe 0 (runAlone i sched s) := by
  intro h
  have := h [0, 0, 0, 1, 1, 1, 0, 1]
    ⟨⟨goBody, [[]]⟩, [freshRun 4 1, freshRun 4 2], []⟩ 0 rfl
  exact absurd this (by decide)

-- non-vacuity: the toy machine really interleaves, really writes its pools, and run 1's output
-- is what it is alone
example : observe 1 (runSched [0, 1, 1, 0, 0, 1, 1, 0] (toySys demoBody 1 [1, 2]))
    = (some ⟨4, [21, 0, 0, 0], 2, []⟩, [.shown 21]) := by decide
example : (runSched [0, 1, 1, 0, 0, 1, 1, 0] (toySys demoBody 1 [1, 2])).sh.pools = [[[7]]] := by
  decide
-- the same interleaving as in `put_at_go_interferes`, with the code's policy: run 0 records 18
example : obsOf 0 (runSched [0, 0, 0, 1, 1, 1, 0, 1] (toySys goBody 1 [1, 2])) = [.recorded 0 18] := by
  decide
example : obsOf (M := toyPutAtGo) 0 (runSched [0, 0, 0, 1, 1, 1, 0, 1]
    ⟨⟨goBody, [[]]⟩, [freshRun 4 1, freshRun 4 2], []⟩) = [.recorded 0 21] := by decide

/-! ## The frame facts regenerated from /repo

`writeSites` lists every write in `internal/runtime`, `programs.go`, `templates.go` whose target
lies inside or is reachable from a `Function`, `NativeFunction`, `Registers`, `Global`,
`Program`, `Template` or `callable`. Each allowed site, with the reason it is harmless: -/

def allowedWrites : List Site := [
  -- sync.Pool of argument slices, shared by every run that calls this native function.
  -- Safe: Get/Put are synchronised by sync.Pool; the slice obtained holds the *previous* call's
  -- arguments, but callNative writes every slot (args[i].Set / getIntoReflectValue(…, args[i], …)
  -- on every path of the loop: generated fact `argsPoolFilledOnEveryPath`) before
  -- fn.value.Call(args); reflect.Call copies the arguments; the slice is not used after Put.
  -- (Residual effect, outside the property: a pooled slice keeps the last arguments reachable.)
  ⟨"internal/runtime/vm.go", "(*VM).callNative", "call:Get", "NativeFunction.argsPool", "fn.argsPool", "298929a2f0de"⟩,
  ⟨"internal/runtime/vm.go", "(*VM).callNative", "call:Put", "NativeFunction.argsPool", "fn.argsPool", "b6e422a8054a"⟩,
  -- lazy caches of a `callable`. A callable is Local: every one is allocated while a run
  -- executes (theorem `callables_allocated_by_runs`), none is stored into
  -- Function.Values.General (theorem `general_stores_known`: the compiler cannot even name
  -- the unexported type), so the caches are written and read by one run only — unless the run's
  -- own goroutines share it, which is the program's own (Go-semantics) sharing.
  ⟨"internal/runtime/vm.go", "(*callable).Native", "assign", "callable.native", "c.native", "8577aa58ccb2"⟩,
  -- (*callable).Value has three assignments of the cache since 0117338 (native functions that take a
  -- native.Env are handed out as values of the type the Scriggo code sees): the reflect.MakeFunc
  -- of a Scriggo function (5c35…), `c.value = withoutEnv(reflect.ValueOf(c.native.function), env)`
  -- for a native function, and `c.value = withoutEnv(c.value, env)` when the callable was built
  -- around a reflect.Value. withoutEnv returns its argument or a fresh MakeFunc that closes over
  -- `env`, the environment of the run that executes Value: the stored value may now carry that
  -- run's env (it did already for Scriggo functions: `create(env)`), which is harmless for the
  -- same reason — the callable itself belongs to one run (`storedValues` marks the three perRun,
  -- root "callable"; `no_shared_location_holds_per_run_value` below).
  ⟨"internal/runtime/vm.go", "(*callable).Value", "assign", "callable.value", "c.value", "5c353557149c"⟩,
  ⟨"internal/runtime/vm.go", "(*callable).Value", "assign", "callable.value", "c.value", "70f875657dca"⟩,
  ⟨"internal/runtime/vm.go", "(*callable).Value", "assign", "callable.value", "c.value", "c10b4aff3f87"⟩]

/-- the functions in which a `callable` is allocated: all of them execute as part of a run -/
def runTimeFunctions : List String :=
  ["(*VM).run", "(*VM).runFunc", "(*VM).nextCall", "(*VM).setFromReflectValue", "(*VM).generalIndirect"]

/-- what the compiler stores into `Function.Values.General` (shared by all runs):
the store itself, and its three callers — `reflect.Zero(sliceType)` (a nil slice),
`reflect.ValueOf(nil)` (the invalid Value), and `v` in `emitValueNotPredefined`, reached only for
constants of kind Slice/Chan/Func/Map/Pointer (zero values, i.e. nil) and Complex64/128
(immutable, not addressable). No mutable object, no callable. -/
def knownGeneralStores : List Site := [
  ⟨"internal/compiler/builder.go", "(*functionBuilder).makeGeneralValue", "store", "Function.Values.General", "fb.fn.Values.General = append(fb.fn.Values.General, v)", "1c32d2439a59"⟩,
  ⟨"internal/compiler/emitter.go", "(*emitter).prepareCallParameters", "caller", "makeGeneralValue", "reflect.Zero(sliceType)", "296047e2e578"⟩,
  ⟨"internal/compiler/emitter_util.go", "(*emitter).emitValueNotPredefined", "caller", "makeGeneralValue", "reflect.ValueOf(nil)", "feba4cc7e196"⟩,
  ⟨"internal/compiler/emitter_util.go", "(*emitter).emitValueNotPredefined", "caller", "makeGeneralValue", "v", "5249e8eebbae"⟩]

/-- package-level variables that hold references: read-only tables and sentinels (no write
site: `pkgVarWrites = []`; none is stored into a VM field or passed to code that writes it —
read in the code: escaper tables are indexed only, `emptyInterfaceNil` is the argument of
`Value.Set`, `emptyInit` and `formatTypes` are only looked up) -/
def knownPkgRefVars : List (String × String × String) := [
  ("internal/runtime/escapers.go", "cssStringEscapes", "[]string"),
  ("internal/runtime/escapers.go", "fourSpaces", "[]byte"),
  ("internal/runtime/escapers.go", "jsStringEscapes", "[]string"),
  ("internal/runtime/escapers.go", "nbsp", "[]byte"),
  ("internal/runtime/escapers.go", "slash", "[]byte"),
  ("internal/runtime/escapers.go", "tab", "[]byte"),
  ("internal/runtime/vm.go", "emptyInterfaceNil", "reflect.Value"),
  ("templates.go", "emptyInit", "map[string]any"),
  ("templates.go", "formatTypes", "map[ast.Format]reflect.Type")]

/-- **frame fact 1**: the write sites found in the code are exactly the allowed ones -/
theorem write_sites_allowlisted : writeSites = allowedWrites := by decide

/-- **frame fact 2**: no run-time code assigns a package-level variable -/
theorem no_package_variable_written : pkgVarWrites = [] := by decide

/-- **frame fact 3**: the package-level variables that hold references are the known tables -/
theorem package_reference_variables_known : pkgRefVars = knownPkgRefVars := by decide

/-- **frame fact 4**: a pooled argument slice is overwritten on every path before the call -/
theorem args_pool_overwritten_before_use : argsPoolFilledOnEveryPath = true := by decide

/-- the uses of the pooled argument slice, with the branch each is in: one `Get`; on the
`asGoroutine` branch the slice is handed to `go fn.value.Call/CallSlice(args)` and nothing else
happens to it; on the other branch it is passed to the synchronous call and then `Put` back -/
def knownPoolUses : List PoolUse := [
  ⟨"(*VM).callNative", "Get", "if nunIn > 0 then", "args = fn.argsPool.Get().([]reflect.Value)"⟩,
  ⟨"(*VM).callNative", "go", "if asGoroutine then; if variadic then", "go fn.value.CallSlice(args)"⟩,
  ⟨"(*VM).callNative", "go", "if asGoroutine then; if variadic else", "go fn.value.Call(args)"⟩,
  ⟨"(*VM).callNative", "call", "if asGoroutine else; if variadic then", "out = fn.value.CallSlice(args)"⟩,
  ⟨"(*VM).callNative", "call", "if asGoroutine else; if variadic else", "out = fn.value.Call(args)"⟩,
  ⟨"(*VM).callNative", "Put", "if asGoroutine else; if args != nil then", "fn.argsPool.Put(args)"⟩]

/-- **frame fact 4b**: the pooled slice is used exactly there (no escape, no defer, no closure) -/
theorem args_pool_uses_known : argsPoolUses = knownPoolUses := by decide

/-- **frame fact 4c**: no `Put` of the pool can execute after a `go` statement that was handed
the pooled slice (the policy `PutPolicy.never` of the model; `put_at_go_interferes` shows what
happens otherwise) -/
theorem no_put_reachable_after_go : putReachableAfterGo = [] := by decide

/-- **frame fact 5**: callables are allocated by running code only -/
theorem callables_allocated_by_runs :
    callableAllocs.all (fun s => runTimeFunctions.contains s.fn) = true := by decide

/-- **frame fact 6**: what is stored into the shared constant table is known (and immutable) -/
theorem general_stores_known : generalStores = knownGeneralStores := by decide

/-! ## Values made by a run never outlive it in the artefact

A function value made by a run carries that run's globals. Three statements about the abstract
`ValueMachine` (Model/Runs.lean), then the regenerated fact that ties them to the Go code. -/

/-- the frame of the machine that makes a fresh value at every use (the code: `OpLoadFunc` builds
a new `callable` from `vm.env.globals` each time) -/
def freshValueFrame (K : ValueMachine) : Frame (K.machine false) K.Core where
  core := fun sh => sh.1
  pres := fun _ _ => rfl
  det := by
    intro sh sh' l h
    show K.use sh.1 l (K.pick false sh l) = K.use sh'.1 l (K.pick false sh' l)
    have h' : sh.1 = sh'.1 := h
    simp [ValueMachine.pick, h']

/-- **values made afresh by every run do not interfere**, whatever they capture -/
theorem fresh_values_do_not_interfere (K : ValueMachine) (sched : List Nat) (s : Sys (K.machine false))
    (i : Nat) (h0 : s.trace = []) :
    observe i (runSched sched s) = observe 0 (runAlone i sched s) :=
  noninterference (freshValueFrame K) sched s i h0

/-- the frame of the keeping machine when the kept value does not depend on the run that made it -/
def keptValueFrame (K : ValueMachine) (hind : K.RunIndependent) : Frame (K.keeping hind) K.Core where
  core := fun sh => sh.1.1
  pres := fun _ _ => rfl
  det := by
    intro sh sh' l h
    have h' : sh.1.1 = sh'.1.1 := h
    have e : ∀ (x : K.Kept), x.1.2.getD (K.make x.1.1 l) = K.make x.1.1 l := by
      intro x
      cases hx : x.1.2 with
      | none => rfl
      | some w => exact x.2 w hx l
    show K.use sh.1.1 l (sh.1.2.getD (K.make sh.1.1 l)) = K.use sh'.1.1 l (sh'.1.2.getD (K.make sh'.1.1 l))
    rw [e sh, e sh', h']

/-- **an artefact may keep a value that no run can tell apart from the one it would make itself**
(a memo of something computed from the code alone) -/
theorem kept_run_independent_value_is_safe (K : ValueMachine) (hind : K.RunIndependent)
    (sched : List Nat) (s : Sys (K.keeping hind)) (i : Nat) (h0 : s.trace = []) :
    observe i (runSched sched s) = observe 0 (runAlone i sched s) :=
  noninterference (keptValueFrame K hind) sched s i h0

/-- **but not a value that captures the run that made it**: run 0 (global 2) makes the function
value and the artefact keeps it; run 1 (global 3) is handed run 0's value and shows 2, where alone
it shows 3. This is `fn.value.Store(&callable{fn: fn, vars: vm.env.globals})`. -/
theorem kept_per_run_value_interferes :
    ¬ ∀ (sched : List Nat) (s : Sys (capture.machine true)) (i : Nat), s.trace = [] →
        observe i (runSched sched s) = observe 0 (runAlone i sched s) := by
  intro h
  have := h [0, 1] ⟨((), none), [((2 : Int), (0 : Int)), (3, 0)], []⟩ 1 rfl
  exact absurd this (by decide)

-- non-vacuity: the same two runs on the machine that makes a fresh value: run 1 shows its own global;
-- and `capture` is not run independent, a constant-valued machine is
example : observe (M := capture.machine false) 1 (runSched [0, 1] ⟨((), none), [((2 : Int), (0 : Int)), (3, 0)], []⟩)
    = (some ((3 : Int), (3 : Int)), [(3 : Int)]) := by decide
example : ¬ capture.RunIndependent := fun h => absurd (h () (2, 0) (3, 0)) (by decide)
example : (⟨Unit, Int × Int, Int, Int, fun _ _ => 7, fun _ l v => ((l.1, v), [v])⟩ : ValueMachine).RunIndependent :=
  fun _ _ _ => rfl

/-- the write sites that store, into a location of the compiled artefact proper (anything but a
`callable`, which is itself made by a run: `callables_allocated_by_runs`), a value whose type can
carry the state of one run (`StoredValue.perRun`: it is or reaches `env`, `VM`, `callable`, a
`reflect.Value`, an interface, a func) -/
def perRunStoresIntoArtefact : List StoredValue :=
  storedValues.filter (fun w => w.perRun && w.root != "callable")

/-- the one exception: `fn.argsPool.Put(args)` — a `[]reflect.Value` still holding this call's
arguments. Harmless because no slot is read before it is overwritten (`args_pool_overwritten_before_use`,
`args_pool_uses_known`, `no_put_reachable_after_go`; the toy machine's `fill`). -/
def knownPerRunStores : List StoredValue := [
  ⟨"(*VM).callNative", "NativeFunction", "NativeFunction.argsPool", "fn.argsPool", "[]reflect.Value", true, "b6e422a8054a"⟩]

/-- **frame fact 7**: `storedValues` describes exactly the write sites -/
theorem stored_values_cover_write_sites :
    storedValues.map (fun w => (w.fn, w.target, w.lhs, w.hash)) = writeSites.map (fun s => (s.fn, s.target, s.lhs, s.hash)) := by
  decide

/-- **frame fact 8 — no shared location holds a per-run value**: no statement of the run-time
code stores a value that can carry a run's state (a callable with the run's globals, the env, a
VM, a reflect.Value, a closure) into a `Function`, `NativeFunction`, `Registers`, `Global`,
`Program` or `Template`, the pooled argument slice excepted. With `callables_allocated_by_runs`
and `general_stores_known` this is the hypothesis `keep = false` of `fresh_values_do_not_interfere`;
`kept_per_run_value_interferes` is what happens otherwise. -/
theorem no_shared_location_holds_per_run_value : perRunStoresIntoArtefact = knownPerRunStores := by decide

/-! ## State across runs: where a variable's storage comes from

The only channel through which storage allocated at BUILD time reaches every run is
`compiler.Global.Value`: `initPackageLevelVariables` (programs.go) and `initGlobalVariables`
(templates.go) hand `Global.Value` itself to the VM when it is valid and allocate a new variable
otherwise (Model/GlobalInit.lean; the two functions' uses of the field are the generated list
`globalValueUses`). So: value invalid ⇒ a cell of its own in every run; value valid ⇒ one cell for
all runs — which is right exactly for the variables the embedder declared with a non-nil pointer
(shared on purpose) and wrong for everything else. -/

open ScriggoV.GlobalInit in
/-- **state fact A**: a global without a build-time value lives in different cells in any two runs
(the allocator never hands out a cell twice: the second run's allocator starts at or after the
point where the first one's stopped) -/
theorem invalid_global_value_fresh_per_run (gs : List Global) (n0 n1 i c1 c2 : Nat)
    (hg : gs[i]? = some ⟨none⟩) (hn : (initVars gs n0).2 ≤ n1)
    (h1 : (initVars gs n0).1[i]? = some c1) (h2 : (initVars gs n1).1[i]? = some c2) : c1 ≠ c2 := by
  have a := (invalid_value_cell_is_new gs n0 i c1 hg h1).2
  have b := (invalid_value_cell_is_new gs n1 i c2 hg h2).1
  omega

open ScriggoV.GlobalInit in
/-- **state fact B**: a global with a build-time value lives in that one cell in every run -/
theorem valid_global_value_shared_by_all_runs (gs : List Global) (n0 n1 i c : Nat)
    (hg : gs[i]? = some ⟨some c⟩) :
    (initVars gs n0).1[i]? = some c ∧ (initVars gs n1).1[i]? = some c :=
  ⟨valid_value_cell_is_the_recorded_one gs n0 i c hg, valid_value_cell_is_the_recorded_one gs n1 i c hg⟩

open ScriggoV.GlobalInit in
/-- non-vacuity: a Scriggo package variable, `h.PtrN` (declared with &hostN, cell 3) and `h.NilN`
(declared with a nil pointer); two runs -/
example : (initVars [⟨none⟩, ⟨some 3⟩, ⟨none⟩] 10).1 = [10, 3, 11]
    ∧ (initVars [⟨none⟩, ⟨some 3⟩, ⟨none⟩] (initVars [⟨none⟩, ⟨some 3⟩, ⟨none⟩] 10).2).1 = [12, 3, 13] := by decide

/-- every place that makes a `Global` or sets its `Value`:
* `emitPackage`: a Scriggo package-level variable — `reflect.Value{}` (invalid): per run;
* `newGlobal`: the constructor, stores the `value` parameter it is given (its two callers follow);
* `predefVarIndex`: a native variable (package variable or template global declared by the
  embedder) — built invalid, then `g.Value = *v` only under `v.IsValid()`, where `v` is the
  `*reflect.Value` made by `toTypeCheckerScope` (`nativeVarImport` below): `rv.Elem()` of the
  DECLARED pointer, invalid for a nil pointer. Valid ⇔ the embedder gave a non-nil pointer. -/
def knownGlobalValueStores : List Site := [
  ⟨"internal/compiler/emitter.go", "(*emitter).emitPackage", "call", "if ok then", "newGlobal(pkg.Name, v.Name, varType, reflect.Value{})", "964ef0bef436"⟩,
  ⟨"internal/compiler/emitter_util.go", "newGlobal", "literal", "-", "value", "308bac741912"⟩,
  ⟨"internal/compiler/emitter_var_store.go", "(*varStore).predefVarIndex", "assign", "if !ok then; if v.IsValid() then", "g.Value = *v", "2abbbc2c9c7c"⟩,
  ⟨"internal/compiler/emitter_var_store.go", "(*varStore).predefVarIndex", "call", "if !ok then", "newGlobal(pkg, name, typ, reflect.Value{})", "adce229a06b2"⟩]

/-- the readers of `Global.Value`: the two initialisers modelled by `GlobalInit.initVars` (in
`initGlobalVariables` also the guard that a variable given to `Run` is not already initialised) -/
def knownGlobalValueUses : List Site := [
  ⟨"programs.go", "initPackageLevelVariables", "use", "-", "if global.Value.IsValid()", "33be252ea521"⟩,
  ⟨"programs.go", "initPackageLevelVariables", "use", "if global.Value.IsValid() then", "values[i] = global.Value", "d6d8873f192c"⟩,
  ⟨"templates.go", "initGlobalVariables", "use", "if variable.Pkg == \"main\" then; if ok then", "if variable.Value.IsValid()", "98b41210fb12"⟩,
  ⟨"templates.go", "initGlobalVariables", "use", "-", "if variable.Value.IsValid()", "98b41210fb12"⟩,
  ⟨"templates.go", "initGlobalVariables", "use", "if variable.Value.IsValid() then", "values[i] = variable.Value", "2208e5fddaed"⟩]

/-- storage allocated by the compiler while building: the results of constant complex arithmetic
and of a complex constant's conversion — each is read out at once (`.Interface()` / stored as an
immutable constant); none is a variable's storage -/
def knownBuildTimeAllocs : List Site := [
  ⟨"internal/compiler/builder.go", "addComplex", "reflect.New", "-", "v3 := reflect.New(v1.Type()).Elem()", "57829f4af285"⟩,
  ⟨"internal/compiler/builder.go", "divComplex", "reflect.New", "-", "v3 := reflect.New(v1.Type()).Elem()", "57829f4af285"⟩,
  ⟨"internal/compiler/builder.go", "mulComplex", "reflect.New", "-", "v3 := reflect.New(v1.Type()).Elem()", "57829f4af285"⟩,
  ⟨"internal/compiler/builder.go", "negComplex", "reflect.New", "-", "v2 := reflect.New(v.Type()).Elem()", "2b7d2e3b3f0f"⟩,
  ⟨"internal/compiler/builder.go", "subComplex", "reflect.New", "-", "v3 := reflect.New(v1.Type()).Elem()", "57829f4af285"⟩,
  ⟨"internal/compiler/typeinfo.go", "(*typeInfo).setValue", "reflect.New", "-", "rv := reflect.New(typ).Elem()", "eb326fa661d2"⟩]

/-- how a declared variable is imported: the value is `rv.Elem()` of the declared pointer itself —
no allocation, invalid for a nil pointer -/
def knownNativeVarImport : List String := [
  "ti.Type = rv.Type().Elem()",
  "elem := rv.Elem()",
  "ti.value = &elem",
  "ti.Properties |= propertyAddressable | propertyIsNative | propertyHasValue"]

/-- **state fact 1**: a `Global` gets a build-time value only in `predefVarIndex`, under
`v.IsValid()` -/
theorem global_value_stores_known : globalValueStores = knownGlobalValueStores := by decide

/-- **state fact 2**: `Global.Value` is read by the two initialisers only, as modelled -/
theorem global_value_uses_known : globalValueUses = knownGlobalValueUses := by decide

/-- **state fact 3**: the compiler allocates no variable storage while building -/
theorem build_time_allocs_known : buildTimeAllocs = knownBuildTimeAllocs := by decide

/-- **state fact 4**: a declared variable's value is the embedder's own pointer's target -/
theorem native_var_import_known : nativeVarImport = knownNativeVarImport := by decide

end ScriggoV.Runs
